// Coverage-guided SEARCH for inputs (not an oracle): libFuzzer explores the library code of the tree under check; the corpus it
// builds (inputs that reach new branches — e.g. both sides of a fast path a change introduced) is afterwards run through the
// ordinary correspondence (real code vs Lean model vs specification).  A panic stops the fuzzer: the crashing input is a
// failing input for C01 by itself.  First byte: operation selector; rest: the string (lossy UTF-8).
#![no_main]
use libfuzzer_sys::fuzz_target;
use precis_core::profile::{Profile, Rules};
use precis_core::{FreeformClass, IdentifierClass, StringClass};
use precis_profiles::{Nickname, OpaqueString, UsernameCaseMapped, UsernameCasePreserved};

fuzz_target!(|data: &[u8]| {
    if data.is_empty() {
        return;
    }
    let s = String::from_utf8_lossy(&data[1..]);
    let s: &str = &s;
    match data[0] % 12 {
        0 => { let _ = UsernameCaseMapped::new().enforce(s); }
        1 => { let _ = UsernameCasePreserved::new().enforce(s); }
        2 => { let _ = OpaqueString::new().enforce(s); }
        3 => { let _ = Nickname::new().enforce(s); }
        4 => { let _ = Nickname::new().compare(s, s); }
        5 => { let _ = UsernameCaseMapped::new().width_mapping_rule(s); let _ = UsernameCaseMapped::new().directionality_rule(s); }
        6 => { let _ = UsernameCaseMapped::new().case_mapping_rule(s.to_string()); }
        7 => { let _ = Nickname::new().additional_mapping_rule(s); let _ = OpaqueString::new().additional_mapping_rule(s); }
        8 => { let _ = IdentifierClass::default().allows(s); }
        9 => { let _ = FreeformClass::default().allows(s); }
        10 => { let _ = Nickname::new().normalization_rule(s); let _ = OpaqueString::new().normalization_rule(s); }
        _ => {
            let mid = s.len() / 2;
            let mut m = mid;
            while !s.is_char_boundary(m) { m -= 1; }
            let _ = Nickname::new().compare(&s[..m], &s[m..]);
            let _ = UsernameCaseMapped::new().compare(&s[..m], &s[m..]);
        }
    }
});
