#!/usr/bin/env python3
"""Independent parser of the raw Unicode Character Database files and of the IANA PRECIS registry
CSV  ->  *specification* step functions in lean/Precis/Gen/Ucd63.lean, Ucd16.lean.

The files are read from /verif/reference (gzip copies of the Unicode 6.3.0 / 16.0.0 and IANA files as
pinned): the properties name these Unicode versions, so the specification side must not move when a
resource file inside /repo is edited — such an edit then shows up as a difference between the tables the
build generates and this specification (with the code point as the failing input).

Shares no code with precis-tools, ucd-parse or the repo's CSV parser: it reads the text files with
plain string splitting, expands First/Last ranges itself, builds one value per code point and
run-length encodes that.  A step function is a list of (start, value) breakpoints; the value before
the first breakpoint is the type's default (see Precis/Spec/UcdTypes.lean)."""
import gzip
import os
import sys

MAXCP = 0x110000


def write_if_changed(path, text):
    old = None
    if os.path.exists(path):
        with open(path) as f:
            old = f.read()
    if old != text:
        os.makedirs(os.path.dirname(path), exist_ok=True)
        with open(path, 'w') as f:
            f.write(text)
        return True
    return False


def ropen(path):
    """open a reference file (gzip) or a plain file"""
    if os.path.exists(path + '.gz'):
        return gzip.open(path + '.gz', 'rt', encoding='utf-8')
    return open(path, encoding='utf-8')


def data_lines(path):
    with ropen(path) as f:
        for raw in f:
            line = raw.split('#', 1)[0].strip()
            if line:
                yield line


def parse_unicode_data(path):
    """yields (lo, hi, fields) with First/Last pairs folded"""
    first = None
    with ropen(path) as f:
        for raw in f:
            raw = raw.rstrip('\n')
            if not raw:
                continue
            fl = raw.split(';')
            cp = int(fl[0], 16)
            name = fl[1]
            if name.endswith(', First>'):
                first = (cp, fl)
                continue
            if name.endswith(', Last>'):
                assert first is not None, 'Last without First'
                yield (first[0], cp, fl)
                first = None
                continue
            assert first is None, 'First without Last'
            yield (cp, cp, fl)


def parse_prop_file(path):
    """yields (lo, hi, value) for 'XXXX[..YYYY] ; value' files"""
    for line in data_lines(path):
        parts = [p.strip() for p in line.split(';')]
        rng = parts[0]
        if '..' in rng:
            a, b = rng.split('..')
            lo, hi = int(a, 16), int(b, 16)
        else:
            lo = hi = int(rng, 16)
        yield (lo, hi, parts[1])


def rle(values):
    """values: list indexed by cp (length MAXCP+1; last element = value for everything above) -> breakpoints"""
    bps = []
    prev = object()
    for cp, v in enumerate(values):
        if v != prev:
            bps.append((cp, v))
            prev = v
    return bps


def emit_step(name, ty, bps, fmt, per_line=6):
    items = [f'({cp}, {fmt(v)})' for cp, v in bps]
    lines = []
    for i in range(0, len(items), per_line):
        lines.append('  ' + ', '.join(items[i:i + per_line]))
    return f'def {name} : List (Nat × {ty}) := [\n' + ',\n'.join(lines) + ']\n\n'


GCS = ['Lu', 'Ll', 'Lt', 'Lm', 'Lo', 'Mn', 'Mc', 'Me', 'Nd', 'Nl', 'No', 'Pc', 'Pd', 'Ps', 'Pe', 'Pi', 'Pf', 'Po',
       'Sm', 'Sc', 'Sk', 'So', 'Zs', 'Zl', 'Zp', 'Cc', 'Cf', 'Cs', 'Co', 'Cn']
BIDI = ['AL', 'AN', 'B', 'BN', 'CS', 'EN', 'ES', 'ET', 'FSI', 'L', 'LRE', 'LRI', 'LRO', 'NSM', 'ON', 'PDF', 'PDI', 'R',
        'RLE', 'RLI', 'RLO', 'S', 'WS']


def gen63(repo, gen_dir):
    ucd = os.path.join(repo, 'core-6.3.0')
    n = MAXCP + 1
    gc = ['Cn'] * n
    vir = [False] * n
    for lo, hi, fl in parse_unicode_data(os.path.join(ucd, 'UnicodeData.txt')):
        assert fl[2] in GCS, fl[2]
        for cp in range(lo, hi + 1):
            gc[cp] = fl[2]
            vir[cp] = (int(fl[3]) == 9)
    script = ['other'] * n
    wanted = {'Greek': 'greek', 'Hebrew': 'hebrew', 'Hiragana': 'hiragana', 'Katakana': 'katakana', 'Han': 'han'}
    for lo, hi, v in parse_prop_file(os.path.join(ucd, 'Scripts.txt')):
        if v in wanted:
            for cp in range(lo, hi + 1):
                script[cp] = wanted[v]
    jt = ['U'] * n
    for lo, hi, v in parse_prop_file(os.path.join(ucd, 'extracted', 'DerivedJoiningType.txt')):
        assert v in ('C', 'D', 'L', 'R', 'T', 'U'), v
        for cp in range(lo, hi + 1):
            jt[cp] = v
    jc = [False] * n
    nonchar = [False] * n
    for lo, hi, v in parse_prop_file(os.path.join(ucd, 'PropList.txt')):
        if v == 'Join_Control':
            for cp in range(lo, hi + 1):
                jc[cp] = True
        if v == 'Noncharacter_Code_Point':
            for cp in range(lo, hi + 1):
                nonchar[cp] = True
    di = [False] * n
    for lo, hi, v in parse_prop_file(os.path.join(ucd, 'DerivedCoreProperties.txt')):
        if v == 'Default_Ignorable_Code_Point':
            for cp in range(lo, hi + 1):
                di[cp] = True
    hst = ['NA'] * n
    for lo, hi, v in parse_prop_file(os.path.join(ucd, 'HangulSyllableType.txt')):
        assert v in ('L', 'V', 'T', 'LV', 'LVT'), v
        for cp in range(lo, hi + 1):
            hst[cp] = v
    # IANA registry
    iana = ['notListed'] * n
    names = {'PVALID': 'pvalid', 'FREE_PVAL': 'freePval', 'CONTEXTJ': 'contextJ', 'CONTEXTO': 'contextO',
             'DISALLOWED': 'disallowed', 'ID_DIS': 'idDis', 'UNASSIGNED': 'unassigned',
             'ID_DIS or FREE_PVAL': 'idDisOrFreePval'}
    csvp = os.path.join(repo, 'core-6.3.0', 'precis-tables-6.3.0.csv')
    with ropen(csvp) as f:
        for i, raw in enumerate(f):
            if i == 0:
                continue
            a, b, _ = raw.rstrip('\n').split(',', 2)
            if '-' in a:
                x, y = a.split('-')
                lo, hi = int(x, 16), int(y, 16)
            else:
                lo = hi = int(a, 16)
            for cp in range(lo, hi + 1):
                iana[cp] = names[b]
    # everything above U+10FFFF
    for arr, dflt in ((gc, 'Cn'), (vir, False), (script, 'other'), (jt, 'U'), (jc, False), (nonchar, False), (di, False), (hst, 'NA'), (iana, 'notListed')):
        arr[MAXCP] = dflt
    b = lambda v: 'true' if v else 'false'
    dot = lambda v: '.' + v
    out = '-- GENERATED by tools/ucd_spec.py from /verif/reference/core-6.3.0 (pinned Unicode 6.3.0 + IANA registry; independent parser); do not edit.\n'
    out += 'import Precis.Spec.UcdTypes\nset_option maxRecDepth 100000\nnamespace Precis.Gen.Ucd63\nopen Precis.Spec\n\n'
    out += '/-- General_Category, Unicode 6.3.0 (default Cn) -/\n' + emit_step('gcStep', 'Gc', rle(gc), dot)
    out += '/-- Canonical_Combining_Class = 9 (Virama) -/\n' + emit_step('viramaStep', 'Bool', rle(vir), b, 8)
    out += '/-- Script, restricted to the five scripts the context rules test -/\n' + emit_step('scriptStep', 'Script', rle(script), dot)
    out += '/-- Joining_Type (default U) -/\n' + emit_step('jtStep', 'Jt', rle(jt), dot, 8)
    out += emit_step('joinControlStep', 'Bool', rle(jc), b, 8)
    out += emit_step('noncharStep', 'Bool', rle(nonchar), b, 8)
    out += emit_step('defaultIgnorableStep', 'Bool', rle(di), b, 8)
    out += '/-- Hangul_Syllable_Type (default NA) -/\n' + emit_step('hstStep', 'Hst', rle(hst), dot, 8)
    out += '/-- IANA precis-tables-6.3.0 registry -/\n' + emit_step('ianaStep', 'Iana', rle(iana), dot)
    out += 'end Precis.Gen.Ucd63\n'
    return ['Ucd63'] if write_if_changed(os.path.join(gen_dir, 'Ucd63.lean'), out) else []


def gen16(repo, gen_dir):
    ucd = os.path.join(repo, 'profiles-16.0.0')
    n = MAXCP + 1
    zs = [False] * n
    bidi = [None] * n
    width = [None] * n
    for lo, hi, fl in parse_unicode_data(os.path.join(ucd, 'UnicodeData.txt')):
        assert fl[4] in BIDI, fl[4]
        dec = fl[5].split()
        w = None
        if dec and dec[0] in ('<wide>', '<narrow>'):
            w = int(dec[1], 16)
        for cp in range(lo, hi + 1):
            zs[cp] = (fl[2] == 'Zs')
            bidi[cp] = fl[4]
            width[cp] = w
    b = lambda v: 'true' if v else 'false'
    ob = lambda v: 'none' if v is None else f'some .{v}'
    on = lambda v: 'none' if v is None else f'some {v}'
    out = '-- GENERATED by tools/ucd_spec.py from /verif/reference/profiles-16.0.0/UnicodeData.txt (pinned Unicode 16.0.0; independent parser); do not edit.\n'
    out += 'import Precis.Spec.UcdTypes\nset_option maxRecDepth 100000\nnamespace Precis.Gen.Ucd16\nopen Precis Precis.Spec\n\n'
    out += '/-- General_Category = Zs, Unicode 16.0.0 -/\n' + emit_step('zsStep', 'Bool', rle(zs), b, 8)
    out += '/-- Bidi_Class of the code points listed in UnicodeData.txt (none = not listed) -/\n' + emit_step('bidiStep', 'Option BidiClass', rle(bidi), ob, 5)
    out += '/-- first code point of a <wide>/<narrow> decomposition mapping -/\n' + emit_step('widthStep', 'Option Nat', rle(width), on, 6)
    out += 'end Precis.Gen.Ucd16\n'
    return ['Ucd16'] if write_if_changed(os.path.join(gen_dir, 'Ucd16.lean'), out) else []


def main():
    repo, gen_dir = sys.argv[1:3]
    ch = gen63(repo, gen_dir) + gen16(repo, gen_dir)
    print('spec changed: ' + ' '.join(ch))


if __name__ == '__main__':
    main()
