#!/usr/bin/env python3
"""Orchestrator for the Lean-4 proof based checks of sancane/precis.

  bin/check <ID> [--tier quick|thorough] [--replay FILE]
  bin/setup

One run = (1) rebuild the harness from /repo's working tree with --cfg precis_verif, (2) regenerate
lean/Precis/Gen from the build output and harness dumps, (3) re-check the property's theorems
(lake build + axiom audit), (4) correspondence: the real code and the Lean model driver on the same
cases, plus the specification verdict on every implementation result, (5) verdict and evidence.
"""
import fcntl
import hashlib
import importlib
import json
import os
import random
import re
import shutil
import subprocess
import sys
import time

VERIF = os.path.dirname(os.path.dirname(os.path.abspath(__file__)))
REPO = os.environ.get('VERIF_REPO', '/repo')   # override only for tools/mutants.py workers (scratch copies); registered checks use /repo
CACHE = os.path.join(VERIF, '.cache')
TARGET = os.path.join(CACHE, 'target')
DUMP = os.path.join(CACHE, 'dump')
LEAN = os.path.join(VERIF, 'lean')
GEN = os.path.join(LEAN, 'Precis', 'Gen')
HARNESS_DIR = os.path.join(VERIF, 'harness')
HARNESS = os.environ.get('VERIF_HARNESS_BIN') or os.path.join(TARGET, 'debug', 'harness')   # override: coverage-instrumented build (tools/coverage.sh)
DRIVER = os.path.join(LEAN, '.lake', 'build', 'bin', 'driver')
EVID = os.path.join(VERIF, 'evidence')
REPLAY = os.path.join(EVID, 'replay')
ALLOWED_AXIOMS = {'propext', 'Classical.choice', 'Quot.sound'}

ENV = dict(os.environ)
ENV['CARGO_NET_OFFLINE'] = 'true'
ENV.pop('RUSTFLAGS', None)  # harness/.cargo/config.toml sets --cfg precis_verif


def log(msg):
    print(f'[verif] {msg}', flush=True)


def sh(cmd, cwd=None, check=True, capture=True, timeout=None, inp=None):
    r = subprocess.run(cmd, cwd=cwd, env=ENV, text=True, input=inp,
                       stdout=subprocess.PIPE if capture else None,
                       stderr=subprocess.STDOUT if capture else None, timeout=timeout)
    if check and r.returncode != 0:
        raise RuntimeError(f'command failed ({r.returncode}): {cmd}\n{r.stdout[-4000:] if r.stdout else ""}')
    return r


def sha_files(paths):
    h = hashlib.sha256()
    for p in sorted(paths):
        h.update(p.encode())
        with open(p, 'rb') as f:
            h.update(hashlib.sha256(f.read()).digest())
    return h.hexdigest()


def walk(d):
    out = []
    for root, _, files in os.walk(d):
        for f in files:
            out.append(os.path.join(root, f))
    return out


class Lock:
    def __enter__(self):
        os.makedirs(CACHE, exist_ok=True)
        self.f = open(os.path.join(CACHE, 'lock'), 'w')
        fcntl.flock(self.f, fcntl.LOCK_EX)
        return self

    def __exit__(self, *a):
        fcntl.flock(self.f, fcntl.LOCK_UN)
        self.f.close()


# ----------------------------------------------------------------------------------------------
# step 1+2: build from the working tree, regenerate Gen/
# ----------------------------------------------------------------------------------------------

def build_harness():
    """cargo build of the harness against /repo's working tree; returns (core_out, profiles_out)."""
    os.makedirs(CACHE, exist_ok=True)
    # lock file: follow /repo's
    lock_src = os.path.join(REPO, 'Cargo.lock')
    lock_dst = os.path.join(HARNESS_DIR, 'Cargo.lock')
    lh = sha_files([lock_src])
    lh_file = os.path.join(CACHE, 'lockhash')
    if not os.path.exists(lock_dst) or not os.path.exists(lh_file) or open(lh_file).read() != lh:
        shutil.copy(lock_src, lock_dst)
        open(lh_file, 'w').write(lh)
    # the crates' build.rs only declare rerun-if-changed=build.rs: force a re-run when the UCD
    # resources changed, so the tables are regenerated from what is in the tree now
    res = walk(os.path.join(REPO, 'precis-core', 'resources')) + walk(os.path.join(REPO, 'precis-profiles', 'resources'))
    rh = sha_files(res)
    rh_file = os.path.join(CACHE, 'reshash')
    if not os.path.exists(rh_file) or open(rh_file).read() != rh:
        fp = os.path.join(TARGET, 'debug', '.fingerprint')
        if os.path.isdir(fp):
            for d in os.listdir(fp):
                if d.startswith('precis-core-') or d.startswith('precis-profiles-'):
                    shutil.rmtree(os.path.join(fp, d), ignore_errors=True)
        bd = os.path.join(TARGET, 'debug', 'build')
        if os.path.isdir(bd):
            for d in os.listdir(bd):
                if (d.startswith('precis-core-') or d.startswith('precis-profiles-')) and os.path.isdir(os.path.join(bd, d, 'out')):
                    shutil.rmtree(os.path.join(bd, d), ignore_errors=True)
    r = sh(['cargo', 'build', '--offline', '--message-format=json'], cwd=HARNESS_DIR, check=False)
    outs = {}
    errs = []
    for line in r.stdout.splitlines():
        if not line.startswith('{'):
            continue
        try:
            m = json.loads(line)
        except ValueError:
            continue
        if m.get('reason') == 'build-script-executed':
            pid = m.get('package_id', '')
            for name in ('precis-core', 'precis-profiles'):
                if f'/{name}#' in pid or f'{name} ' in pid or pid.endswith(name):
                    outs[name] = m['out_dir']
        if m.get('reason') == 'compiler-message' and m['message'].get('level') == 'error':
            errs.append(m['message'].get('rendered', ''))
    if r.returncode != 0:
        raise RuntimeError('cargo build of the harness against /repo failed:\n' + '\n'.join(errs)[-4000:] + r.stdout[-2000:])
    if 'precis-core' not in outs or 'precis-profiles' not in outs:
        raise RuntimeError(f'could not locate OUT_DIRs in cargo output: {outs}')
    open(rh_file, 'w').write(rh)
    return outs['precis-core'], outs['precis-profiles']


def regen(core_out, prof_out):
    os.makedirs(DUMP, exist_ok=True)
    for name, args in (('std.txt', ['dump-std']), ('norm.txt', ['dump-norm']), ('hascompat.txt', ['rle', 'has_compat']), ('cls.txt', ['rle', 'cls_id', 'cls_ff'])):
        r = sh([HARNESS] + args)
        with open(os.path.join(DUMP, name), 'w') as f:
            f.write(r.stdout)
    r = sh([sys.executable, os.path.join(VERIF, 'tools', 'translate.py'), core_out, prof_out, DUMP, GEN], check=False)
    if r.returncode != 0:
        raise RuntimeError('translator failed: ' + r.stdout)
    spec = sh([sys.executable, os.path.join(VERIF, 'tools', 'ucd_spec.py'), os.path.join(VERIF, 'reference'), GEN], check=False)
    if spec.returncode != 0:
        raise RuntimeError('ucd_spec failed: ' + spec.stdout)
    # declarative fragments of the Rust logic (loop bound of stabilize, context-rule registry, decision list, class
    # callbacks) translated from the source text: theorems in Facts/SrcTie.lean are re-checked against them
    sf = sh([sys.executable, os.path.join(VERIF, 'tools', 'srcfacts.py'), REPO, GEN], check=False)
    if sf.returncode != 0:
        raise RuntimeError('srcfacts failed: ' + sf.stdout)
    return (r.stdout.strip() + ' ' + spec.stdout.strip() + ' ' + sf.stdout.strip()).strip()


def lake_build(targets, timeout=3000):
    r = sh(['lake', 'build'] + targets, cwd=LEAN, check=False, timeout=timeout)
    return r.returncode == 0, r.stdout


def theorems_in(lean_file):
    names = []
    ns = []
    with open(lean_file) as f:
        for line in f:
            m = re.match(r'^namespace (\S+)', line)
            if m:
                ns.append(m.group(1))
            m = re.match(r'^end (\S+)', line)
            if m and ns and ns[-1] == m.group(1):
                ns.pop()
            m = re.match(r'^(?:protected )?theorem (\S+)', line)   # private helper lemmas are not obligations
            if m:
                names.append('.'.join(ns + [m.group(1)]))
    return names


FORBIDDEN = re.compile(r'\bsorry\b|\badmit\b|^axiom |native_decide|bv_decide|implemented_by|\bunsafe |maxHeartbeats 0')


def transitive_imports(root_module):
    seen = set()
    todo = [root_module]
    while todo:
        m = todo.pop()
        if m in seen:
            continue
        path = os.path.join(LEAN, *m.split('.')) + '.lean'
        if not os.path.exists(path):
            continue
        seen.add(m)
        with open(path) as f:
            for line in f:
                mm = re.match(r'^import (Precis\S*|Driver)', line)
                if mm:
                    todo.append(mm.group(1))
    return [os.path.join(LEAN, *m.split('.')) + '.lean' for m in sorted(seen)]


def grep_forbidden(pid):
    hits = []
    for p in sorted(set(transitive_imports(f'Precis.Props.{pid}') + transitive_imports('Driver'))):
        in_block = False
        with open(p) as f:
            for i, line in enumerate(f, 1):
                code = line
                if in_block:
                    if '-/' in code:
                        in_block = False
                        code = code.split('-/', 1)[1]
                    else:
                        continue
                if '/-' in code:
                    pre, rest = code.split('/-', 1)
                    if '-/' in rest:
                        code = pre + rest.split('-/', 1)[1]
                    else:
                        in_block = True
                        code = pre
                code = code.split('--', 1)[0]
                if FORBIDDEN.search(code):
                    hits.append(f'{os.path.relpath(p, LEAN)}:{i}: {line.strip()}')
    return hits


def prove(pid, extra_targets=(), fact_modules=()):
    """lake build of the property's theorem module + axiom audit. Returns dict.
    Obligations = theorems of Props/<pid>.lean + theorems of the kernel-checked fact modules it rests on."""
    props_file = os.path.join(LEAN, 'Precis', 'Props', f'{pid}.lean')
    thms = theorems_in(props_file)
    for fm in fact_modules:
        thms += theorems_in(os.path.join(LEAN, *fm.split('.')) + '.lean')
    audit_file = os.path.join(LEAN, 'Precis', 'Audit', f'{pid}.lean')
    audit_src = (f'-- GENERATED by tools/verif.py: axiom audit of every theorem in Props/{pid}.lean and its fact modules\nimport Precis.Props.{pid}\n'
                 + ''.join(f'import {fm}\n' for fm in fact_modules) + ''.join(f'#print axioms {t}\n' for t in thms))
    os.makedirs(os.path.dirname(audit_file), exist_ok=True)
    if not os.path.exists(audit_file) or open(audit_file).read() != audit_src:
        open(audit_file, 'w').write(audit_src)
    targets = ['driver', f'Precis.Props.{pid}'] + list(extra_targets) + list(fact_modules)
    cmd = f'cd {LEAN} && lake build {" ".join(targets)} && lake env lean Precis/Audit/{pid}.lean'
    t0 = time.time()
    ok, out = lake_build(targets)
    res = {'theorems': thms, 'checker_cmd': cmd, 'build_ok': ok, 'build_log': out[-6000:], 'failed': [], 'axioms': {}, 'bad_axioms': {}}
    if not ok:
        # which theorems failed: map error lines of the Props file (and imported files) to theorem names
        failed = set()
        for m in re.finditer(r'error: (\S+?\.lean):(\d+):\d+', out):
            f, ln = m.group(1), int(m.group(2))
            path = os.path.join(LEAN, f)
            if os.path.exists(path):
                name = None
                with open(path) as fh:
                    for i, line in enumerate(fh, 1):
                        mm = re.match(r'^(?:private |protected )?(?:theorem|def|example|lemma)\s*(\S*)', line)
                        if mm and i <= ln:
                            name = f'{f}:{mm.group(1) or "example"}'
                        if i > ln:
                            break
                failed.add(name or f'{f}:{ln}')
        res['failed'] = sorted(failed) or ['<build failed: see log>']
        # which of the modules still check (their theorems remain discharged; only the axiom audit cannot run)
        built = []
        for mod_ in [f'Precis.Props.{pid}'] + list(fact_modules):
            okm, _ = lake_build([mod_])
            if okm:
                built.append(mod_)
        res['built_modules'] = built
        still = []
        for mod_ in built:
            still += theorems_in(os.path.join(LEAN, *mod_.split('.')) + '.lean')
        res['still_discharged'] = still
        # the driver may still be buildable even when a theorem is not
        ok2, _ = lake_build(['driver'])
        res['driver_ok'] = ok2
        res['wall_s'] = time.time() - t0
        return res
    res['driver_ok'] = True
    r = sh(['lake', 'env', 'lean', f'Precis/Audit/{pid}.lean'], cwd=LEAN, check=False)
    cur = None
    text = r.stdout
    for m in re.finditer(r"'([^']+)' (does not depend on any axioms|depends on axioms: \[([^\]]*)\])", text.replace('\n', ' ')):
        name = m.group(1)
        axs = [a.strip() for a in (m.group(3) or '').split(',') if a.strip()]
        res['axioms'][name] = axs
        bad = [a for a in axs if a not in ALLOWED_AXIOMS]
        if bad:
            res['bad_axioms'][name] = bad
    missing = [t for t in thms if t not in res['axioms']]
    if r.returncode != 0 or missing:
        res['failed'] = missing or ['<audit failed>']
        res['build_log'] += '\n' + text[-3000:]
    hits = grep_forbidden(pid)
    if hits:
        res['forbidden'] = hits
    if os.environ.get('VERIF_TIER_EFFECTIVE') == 'thorough':
        # independent re-check of the compiled property module by the toolchain's leanchecker
        lc = sh(['lake', 'env', 'leanchecker', f'Precis.Props.{pid}'], cwd=LEAN, check=False, timeout=1800)
        res['leanchecker'] = 'ok' if lc.returncode == 0 else ('FAILED: ' + lc.stdout[-500:])
        if lc.returncode != 0:
            res['failed'] = res['failed'] + [f'leanchecker Precis.Props.{pid}']
    res['wall_s'] = time.time() - t0
    return res


# ----------------------------------------------------------------------------------------------
# step 4: correspondence
# ----------------------------------------------------------------------------------------------

def run_cases(cases, workdir):
    """cases: list of protocol lines. returns list of (case, impl, model, verdict)."""
    os.makedirs(workdir, exist_ok=True)
    cases_f = os.path.join(workdir, 'cases.txt')
    with open(cases_f, 'w') as f:
        f.write('\n'.join(cases) + '\n')
    with open(cases_f) as fin:
        r = subprocess.run([HARNESS, 'run'], stdin=fin, stdout=subprocess.PIPE, text=True, env=ENV)
    if r.returncode != 0:
        raise RuntimeError(f'harness run crashed (rc={r.returncode}); last output: {r.stdout[-500:]}')
    impl = r.stdout.split('\n')
    if impl and impl[-1] == '':
        impl.pop()
    if len(impl) != len(cases):
        raise RuntimeError(f'harness produced {len(impl)} results for {len(cases)} cases')
    both = '\n'.join(c + '\t' + i for c, i in zip(cases, impl)) + '\n'
    r = subprocess.run([DRIVER], input=both, stdout=subprocess.PIPE, text=True, env=ENV)
    if r.returncode != 0:
        raise RuntimeError(f'driver crashed (rc={r.returncode})')
    mod = r.stdout.split('\n')
    if mod and mod[-1] == '':
        mod.pop()
    if len(mod) != len(cases):
        raise RuntimeError(f'driver produced {len(mod)} results for {len(cases)} cases')
    out = []
    for c, i, m in zip(cases, impl, mod):
        mm, _, v = m.partition('\t')
        out.append((c, i, mm, v))
    return out


def rle_compare(fns, workdir):
    """exhaustive per-code-point comparison model vs implementation; returns list of (fn, first differing line pair)."""
    os.makedirs(workdir, exist_ok=True)
    a = sh([HARNESS, 'rle'] + fns).stdout
    b = sh([DRIVER, 'rle'] + fns).stdout
    diffs = []
    if a != b:
        la, lb = a.split('\n'), b.split('\n')
        per = {}
        for x in la:
            per.setdefault(x.split('\t')[0], [[], []])[0].append(x)
        for x in lb:
            per.setdefault(x.split('\t')[0], [[], []])[1].append(x)
        for fn, (xa, xb) in per.items():
            if xa != xb:
                k = 0
                while k < min(len(xa), len(xb)) and xa[k] == xb[k]:
                    k += 1
                diffs.append((fn, xa[k] if k < len(xa) else '<end>', xb[k] if k < len(xb) else '<end>'))
    runs = {}
    for x in a.split('\n'):
        if x:
            runs[x.split('\t')[0]] = runs.get(x.split('\t')[0], 0) + 1
    return diffs, runs, a


def parse_rle_text(text):
    res = {}
    for line in text.split('\n'):
        if not line:
            continue
        p = line.split('\t')
        res.setdefault(p[0], []).append((int(p[1], 16), int(p[2], 16), p[3]))
    return res


# ----------------------------------------------------------------------------------------------
# known findings
# ----------------------------------------------------------------------------------------------

def load_known():
    known = []
    path = os.path.join(VERIF, 'known-findings.txt')
    if os.path.exists(path):
        with open(path) as f:
            for line in f:
                line = line.strip()
                if line.startswith('known:'):
                    d = {}
                    for m in re.finditer(r'(\w+)=("[^"]*"|\S+)', line[6:]):
                        d[m.group(1)] = m.group(2).strip('"')
                    known.append(d)
    return known


# ----------------------------------------------------------------------------------------------
# main
# ----------------------------------------------------------------------------------------------

def source_digest():
    """sha256 of every source file of the three crates (what the model and the harness were run against)"""
    out = {}
    for crate in ('precis-core', 'precis-profiles', 'precis-tools'):
        for root, _, files in os.walk(os.path.join(REPO, crate)):
            if '/target' in root or '/resources' in root:
                continue
            for fn in sorted(files):
                if fn.endswith('.rs') or fn.endswith('.template'):
                    pth = os.path.join(root, fn)
                    out[os.path.relpath(pth, REPO)] = hashlib.sha256(open(pth, 'rb').read()).hexdigest()[:16]
    return out


def write_replay(pid, payload):
    os.makedirs(REPLAY, exist_ok=True)
    h = hashlib.sha256(json.dumps(payload, sort_keys=True).encode()).hexdigest()[:12]
    path = os.path.join(REPLAY, f'{pid}-{h}.json')
    with open(path, 'w') as f:
        json.dump(payload, f, indent=1)
    return path


def setup():
    with Lock():
        t0 = time.time()
        core_out, prof_out = build_harness()
        log(f'harness built ({time.time() - t0:.0f}s)')
        ch = regen(core_out, prof_out)
        log(f'Gen regenerated: {ch}')
        ok, out = lake_build(['Precis', 'driver'])
        if not ok:
            print(out[-6000:])
            log('lake build failed')
            return 1
        log(f'lake build ok ({time.time() - t0:.0f}s)')
    return 0


def main(argv):
    if len(argv) >= 1 and argv[0] == 'setup':
        return setup()
    pid = argv[0]
    tier = os.environ.get('VERIF_TIER', 'quick')
    replay = None
    i = 1
    while i < len(argv):
        if argv[i] == '--tier':
            tier = argv[i + 1]
            i += 2
        elif argv[i] == '--replay':
            replay = argv[i + 1]
            i += 2
        else:
            i += 1
    seed = int(os.environ.get('VERIF_SEED', '1'))
    os.environ['VERIF_TIER_EFFECTIVE'] = tier
    ENV['VERIF_TIER_EFFECTIVE'] = tier
    sys.path.insert(0, os.path.join(VERIF, 'tools'))
    mod = importlib.import_module(f'props.{pid.lower()}')
    t0 = time.time()
    with Lock():
        try:
            core_out, prof_out = build_harness()
            changed = regen(core_out, prof_out)
        except RuntimeError as e:
            # the code can no longer be built or translated into the model: the property is no longer shown to hold
            print(str(e)[-3000:])
            path = write_replay(pid, {'property': pid, 'kind': 'build-or-translation-failure',
                                      'note': 'the harness could not be built against /repo or its generated tables could not be translated into lean/Precis/Gen; no theorem could be re-checked and no correspondence run',
                                      'log': str(e)[-3000:]})
            print(f'VIOLATION property={pid} replay={path} no-failing-input-found')
            ev = {'property_id': pid, 'tier': tier if tier in ('quick', 'thorough') else 'quick', 'seed': seed, 'level': 'proof',
                  'coverage': {'obligations': 1, 'discharged': 0, 'checker_cmd': 'cargo build / tools/translate.py failed before lake build', 'trusted_base': [],
                               'evaluations': 0, 'distinct_nontrivial': 0, 'samples': [], 'explanation': 'build or translation failure'},
                  'assumptions': [], 'wall_s': round(time.time() - t0, 2), 'violations': 1}
            os.makedirs(EVID, exist_ok=True)
            with open(os.path.join(EVID, f'{pid}.json'), 'w') as f:
                json.dump(ev, f, indent=1)
            return 1
        log(f'built harness, regenerated Gen ({changed}) in {time.time() - t0:.0f}s')
        ctx = Ctx(pid, tier, seed, core_out, prof_out)
        if replay:
            return (mod.replay(ctx, replay) if hasattr(mod, 'replay') else generic_replay(ctx, replay))
        proof = prove(pid, getattr(mod, 'EXTRA_TARGETS', ()), getattr(mod, 'FACT_MODULES', ()))
        log(f'proof step: {len(proof["theorems"])} theorems, build_ok={proof["build_ok"]}, failed={proof["failed"]} ({proof["wall_s"]:.0f}s)')
        if not proof.get('driver_ok'):
            print(proof['build_log'])
            log('model driver does not build: cannot run the correspondence')
            return finish(ctx, mod, proof, None, t0)
        try:
            corr = mod.correspondence(ctx)
        except Exception as e:   # the correspondence run itself broke (e.g. the harness crashed): not shown to hold
            import traceback
            tb = traceback.format_exc()
            print(tb[-2000:])
            path = write_replay(pid, {'property': pid, 'kind': 'correspondence-run-failure', 'error': str(e)[-2000:], 'traceback': tb[-3000:]})
            print(f'VIOLATION property={pid} replay={path} no-failing-input-found')
            corr = Corr()
            corr.rule = 'correspondence run failed: ' + str(e)[:300]
            corr.evaluations = 1
            corr.nontrivial = {1, 2}
            corr.samples = [str(e)[:300]]
            proof = dict(proof)
            proof['failed'] = proof['failed'] + ['<correspondence run failed>']
            finish(ctx, mod, proof, corr, t0, already_reported=True)
            return 1
        return finish(ctx, mod, proof, corr, t0)


def generic_replay(ctx, path):
    """bin/check <ID> --replay <file>: re-execute the recorded case on the CURRENT tree and print what the real code, the
    Lean model and the specification say.  Exit 1 if the case still fails, 0 if it no longer reproduces.  Replays that name
    a theorem / assumption / build failure instead of an input re-run the whole check."""
    d = json.load(open(path))
    pid = ctx.pid
    kind = d.get('kind')
    case = d.get('case')
    print(f'replay of {path}: kind={kind}')
    if kind not in ('spec-violation', 'correspondence') or not isinstance(case, str):
        print('this replay names no input (a theorem, a structural assumption or a build failure): re-running the check')
        r = subprocess.run([os.path.join(VERIF, 'bin', 'check'), pid, '--tier', 'quick'], env=ENV)
        return r.returncode
    ok, out = lake_build(['driver'])
    if not ok:
        print(out[-2000:])
        print(f'VIOLATION property={pid} replay={path} no-failing-input-found')
        return 1
    cases = [case] + [c for c in d.get('more', []) if isinstance(c, str)][:5]
    failing = 0
    for c in cases:
        f = c.split('|')
        if f[0] == 'rle' and len(f) >= 3:
            fn, cp = f[1], int(f[2], 16)
            def val(text, name):
                for s_, e, v in parse_rle_text(text).get(name, []):
                    if s_ <= cp <= e:
                        return v
                return '<absent>'
            iv = val(sh([HARNESS, 'rle', fn]).stdout, fn)
            mv = val(sh([DRIVER, 'rle', fn]).stdout, fn)
            sv = val(sh([DRIVER, 'rle', 'spec_' + fn], check=False).stdout, 'spec_' + fn)
            bad = iv != mv or (sv != '<absent>' and iv != sv)
            print(f'  {fn} at U+{cp:04X}: implementation={iv} model={mv} specification={sv} -> {"STILL FAILS" if bad else "agrees now"}')
        elif f[0] in ('ucdgen', 'source-scan', 'sizes') or f[0].startswith('threads') or f[0].startswith('stress'):
            print('  this case needs the full check to be replayed: re-running it')
            return subprocess.run([os.path.join(VERIF, 'bin', 'check'), pid, '--tier', 'quick'], env=ENV).returncode
        else:
            c1 = c.replace('|*|*|', '|f|b|')
            res = run_cases([c1], os.path.join(CACHE, 'run', pid + '-replay'))
            _, iv, mv, verdict = res[0]
            bad = iv != mv or verdict.startswith('VIOLATED') or iv == 'PANIC' or iv.startswith('FORMS-DIFFER')
            if verdict.startswith('VIOLATED-KNOWN'):
                bad = iv != mv
            print(f'  case {c[:200]}\n    implementation: {iv[:300]}\n    model:          {mv[:300]}\n    specification:  {verdict[:300]}\n    -> {"STILL FAILS" if bad else "agrees now"}')
        failing += bad
    if failing:
        print(f'VIOLATION property={pid} replay={path}')
        return 1
    print('the recorded input no longer fails on the current tree')
    return 0


def source_changes():
    """compare the library sources with the copies the model was last validated against (reference/src, gz).
    Returns (changed_files, code_points, numbers): literals that occur in the changed/added lines.  A change is NOT a
    violation; it makes the check search harder (thorough volumes even in the quick tier) and steers the search
    towards the constants the change introduced."""
    import difflib
    import gzip
    ref_root = os.path.join(VERIF, 'reference', 'src')
    changed, cps, nums = [], set(), set()
    for root, _, files in os.walk(ref_root):
        for fn in files:
            if not fn.endswith('.gz'):
                continue
            rel = os.path.relpath(os.path.join(root, fn), ref_root)[:-3]
            cur = os.path.join(REPO, rel)
            old = gzip.open(os.path.join(root, fn), 'rt', encoding='utf-8').read().splitlines()
            new = open(cur, encoding='utf-8').read().splitlines() if os.path.exists(cur) else []
            if old == new:
                continue
            changed.append(rel)
            for line in difflib.unified_diff(old, new, lineterm='', n=0):
                if not (line.startswith('+') or line.startswith('-')) or line.startswith('+++') or line.startswith('---'):
                    continue
                code = line[1:].split('//')[0]
                for m in re.finditer(r'0x([0-9A-Fa-f_]+)', code):
                    v = int(m.group(1).replace('_', ''), 16)
                    (cps if v < 0x110000 else nums).add(v)
                    nums.add(v)
                for m in re.finditer(r"\\u\{([0-9A-Fa-f]+)\}", code):
                    cps.add(int(m.group(1), 16))
                for m in re.finditer(r"'([^'\\])'", code):
                    cps.add(ord(m.group(1)))
                for m in re.finditer(r'(?<![\w.])(\d{1,7})(?![\w.])', code):
                    nums.add(int(m.group(1)))
    # new source files are changes too
    cp2 = set()
    for c in cps:
        for d in (-1, 0, 1):
            if 0 <= c + d < 0x110000 and not (0xD800 <= c + d <= 0xDFFF):
                cp2.add(c + d)
    return sorted(changed), sorted(cp2), sorted(n for n in nums if 0 < n <= 100000)


class Ctx:
    def __init__(self, pid, tier, seed, core_out, prof_out):
        self.pid = pid
        self.requested_tier = tier
        self.changed_files, self.extra_cps, self.extra_nums = source_changes()
        prop_files = PROP_FILES.get(pid, [])
        self.escalated = [f for f in self.changed_files if any(f == pf or f.startswith(pf.rstrip('/') + '/') for pf in prop_files)] if prop_files else list(self.changed_files)
        if self.escalated and tier == 'quick' and not os.environ.get('VERIF_NO_ESCALATE'):
            tier = 'thorough'
        self.tier = tier
        self.seed = seed
        self.rng = random.Random(seed)
        self.core_out = core_out
        self.prof_out = prof_out
        self.work = os.path.join(CACHE, 'run', pid)
        self.known = [k for k in load_known() if k.get('property') == pid]


class Corr:
    """result of a correspondence run"""

    def __init__(self):
        self.evaluations = 0
        self.nontrivial = set()
        self.rule = ''
        self.samples = []
        self.disagreements = []     # (case, impl, model)
        self.spec_violations = []   # (case, impl, reason)
        self.known_hits = {}        # known id -> list of cases
        self.exhaustive = False
        self.structural = []        # broken structural assumptions of the model (reported with no-failing-input-found)
        self.extra = {}
        self.histogram = {}

    def count(self, key, n=1):
        self.histogram[key] = self.histogram.get(key, 0) + n


def load_prop_files():
    d = {}
    try:
        for l in open(os.path.join(VERIF, 'properties.jsonl')):
            p = json.loads(l)
            d[p['id']] = [f for f in p['anchors']['files'] if f.endswith('.rs') or f.endswith('.template')] + ['precis-tools/src/generators/codepoints.template']
    except OSError:
        pass
    return d


PROP_FILES = load_prop_files()


def finish(ctx, mod, proof, corr, t0, already_reported=False):
    pid = ctx.pid
    violations = ['<reported>'] if already_reported else []
    # proof obligations
    proof_broken = bool(proof['failed']) or bool(proof['bad_axioms']) or bool(proof.get('forbidden'))
    n_obl = len(proof['theorems'])
    n_dis = len(proof.get('still_discharged', [])) if not proof['build_ok'] else len([t for t in proof['theorems'] if t in proof['axioms'] and t not in proof['bad_axioms']])
    known_printed = []
    if corr is not None:
        for kid, cases in corr.known_hits.items():
            k = [k for k in ctx.known if k.get('id') == kid]
            print(f'KNOWN-FINDING: property={pid} id={kid} {k[0].get("what", "") if k else ""} (e.g. {cases[0]}; {len(cases)} cases in the characterised family this run)')
            known_printed.append(kid)
        if corr.spec_violations:
            c = corr.spec_violations[0]
            path = write_replay(pid, {'property': pid, 'kind': 'spec-violation', 'case': c[0], 'implementation': c[1], 'reason': c[2],
                                      'count': len(corr.spec_violations), 'more': [x[0] for x in corr.spec_violations[1:20]]})
            print(f'VIOLATION property={pid} replay={path}')
            violations.append(path)
        elif getattr(corr, 'structural', None):
            # a structural assumption of the model no longer holds in the source (e.g. the library gained mutable shared
            # state): the theorem's model no longer describes the code, but no input on which the property fails was found
            path = write_replay(pid, {'property': pid, 'kind': 'structural-assumption', 'note': 'an assumption the model (and therefore every theorem of this property) makes about the source text no longer holds; the behavioural search found no input on which the property fails',
                                      'hits': corr.structural[:40]})
            print(f'VIOLATION property={pid} replay={path} no-failing-input-found')
            violations.append(path)
        elif corr.disagreements:
            c = corr.disagreements[0]
            path = write_replay(pid, {'property': pid, 'kind': 'correspondence', 'note': 'model and implementation disagree; no input violating the property statement was found',
                                      'case': c[0], 'implementation': c[1], 'model': c[2], 'count': len(corr.disagreements),
                                      'more': [x[0] for x in corr.disagreements[1:20]]})
            print(f'VIOLATION property={pid} replay={path} no-failing-input-found')
            violations.append(path)
    if proof_broken and not violations and not already_reported:
        path = write_replay(pid, {'property': pid, 'kind': 'proof-obligation', 'failed': proof['failed'], 'bad_axioms': proof['bad_axioms'],
                                  'forbidden': proof.get('forbidden', []), 'log': proof['build_log'][-3000:]})
        print(f'VIOLATION property={pid} replay={path} no-failing-input-found')
        violations.append(path)
    elif proof_broken:
        log(f'proof obligations no longer check: {proof["failed"]} (failing input reported above)')
    if corr is None and not violations:
        path = write_replay(pid, {'property': pid, 'kind': 'driver-build', 'log': proof['build_log'][-3000:]})
        print(f'VIOLATION property={pid} replay={path} no-failing-input-found')
        violations.append(path)
    cov = {
        'obligations': max(n_obl, 1),
        'discharged': n_dis if n_obl else 0,
        'checker_cmd': proof['checker_cmd'],
        'trusted_base': [
            'Lean 4.33.0 kernel',
            'axioms used by the theorems of this property: ' + ', '.join(sorted({a for axs in proof['axioms'].values() for a in axs}) or ['none']),
            'tools/translate.py (tables -> Lean) and tools/ucd_spec.py (independent UCD/IANA parser)',
            'hand-written Lean model validated against the Rust by the correspondence run below (not verified)',
        ] + list(getattr(mod, 'TRUSTED', [])),
        'theorems': proof['theorems'],
        'failed_obligations': proof['failed'],
        'modelled_source_digest': source_digest(),
    }
    if 'leanchecker' in proof:
        cov['leanchecker'] = proof['leanchecker']
    cov['source_changed_since_model_validation'] = ctx.changed_files
    if ctx.escalated:
        cov['escalated'] = {'reason': 'source files of this property differ from the copies the model was validated against: thorough case volumes used and the literals of the changed lines added to the alphabets / lengths', 'files': ctx.escalated, 'extra_code_points': [f'{c:04X}' for c in ctx.extra_cps[:40]], 'extra_numbers': ctx.extra_nums[:20]}
    if corr is not None:
        cov.update({
            'evaluations': corr.evaluations,
            'distinct_nontrivial': len(corr.nontrivial),
            'rule': corr.rule,
            'samples': corr.samples[:12],
            'exhaustive': corr.exhaustive,
            'model_disagreements': len(corr.disagreements),
            'spec_violations': len(corr.spec_violations),
            'known_findings_printed': known_printed,
            'histogram': corr.histogram,
        })
        cov.update(corr.extra)
        if getattr(ctx, 'fuzz_info', None):
            cov['coverage_guided_search'] = ctx.fuzz_info
    ev = {
        'property_id': pid,
        'tier': ctx.requested_tier if ctx.requested_tier in ('quick', 'thorough') else 'quick',
        'seed': ctx.seed,
        'level': 'proof',
        'coverage': cov,
        'assumptions': list(getattr(mod, 'ASSUMPTIONS', [])),
        'wall_s': round(time.time() - t0, 2),
        'violations': len(violations),
    }
    os.makedirs(EVID, exist_ok=True)
    with open(os.path.join(EVID, f'{pid}.json'), 'w') as f:
        json.dump(ev, f, indent=1)
    if violations:
        return 1
    log(f'{pid}: {n_dis}/{n_obl} obligations discharged; correspondence {corr.evaluations} cases, {len(corr.nontrivial)} distinct non-trivial; OK ({time.time() - t0:.0f}s)')
    return 0


if __name__ == '__main__':
    sys.exit(main(sys.argv[1:]))
