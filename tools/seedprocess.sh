#!/bin/sh
# process.sh <round-dir> <name> <ids...>
D=$1; N=$2; shift; shift
mkdir -p $D/results
{
echo "== $N"
/verif/tools/seedverify.sh $D/$N 2>&1 | grep -v "^Cond\|^Caused\|^$\|WARNING conda" | tail -5
/verif/tools/seedtest.sh $D/$N/SEED/patch.diff "$@" 2>&1 | grep -v "^Cond\|^Caused\|^$\|WARNING conda" | tail -8
} > $D/results/$N.txt 2>&1
