#!/bin/sh
# tools/seedtest.sh <patch.diff> [ID ...]: apply a seeded change to /repo, run the checks, undo it.
# Prints one line per check: <ID> exit=<rc> <VIOLATION line or OK summary>
P="$1"; shift
IDS="$@"
[ -z "$IDS" ] && IDS=$(python3 -c "import json; print(' '.join(c['property_id'] for c in json.load(open('/verif/MANIFEST.json'))['checks']))")
cd /repo || exit 2
if [ -n "$(git status --porcelain)" ]; then echo "/repo not clean"; exit 2; fi
git apply "$P" || { echo "patch does not apply"; exit 2; }
cd /verif
for id in $IDS; do
  out=$(bin/check $id 2>&1); rc=$?
  line=$(echo "$out" | grep -E "^VIOLATION|KNOWN-FINDING|BUILD FAILURE" | head -2 | cut -c1-220 | tr '\n' ' ')
  [ -z "$line" ] && line=$(echo "$out" | tail -1 | cut -c1-160)
  echo "$id exit=$rc $line"
done
cd /repo && git checkout -- . && git status --porcelain | head -3
