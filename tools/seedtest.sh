#!/bin/sh
# tools/seedtest.sh <patch.diff> [ID ...]: apply a seeded change to /repo, run the checks, undo it.
# Prints one line per check: <ID> exit=<rc> <VIOLATION line or OK summary>
P=$(readlink -f "$1"); shift
IDS="$@"
[ -z "$IDS" ] && IDS=$(python3 -c "import json; print(' '.join(c['property_id'] for c in json.load(open('/verif/MANIFEST.json'))['checks']))")
cd /repo || exit 2
if [ -n "$(git status --porcelain)" ]; then echo "/repo not clean"; exit 2; fi
git apply "$P" || { echo "patch does not apply"; exit 2; }
cd /verif
for id in $IDS; do
  out=$(bin/check $id 2>&1); rc=$?
  line=$(echo "$out" | grep -E "^VIOLATION|BUILD FAILURE" | head -2 | cut -c1-220 | tr '\n' ' ')
  if [ -n "$line" ]; then
    rp=$(echo "$line" | sed -n 's/.*replay=\([^ ]*\).*/\1/p')
    [ -f "$rp" ] && line="$line :: $(python3 -c "import json,sys; d=json.load(open('$rp')); print(d.get('kind'), '|', str(d.get('case'))[:90], '|', str(d.get('implementation'))[:50], '|', str(d.get('reason', d.get('model','')))[:90])")"
  fi
  [ -z "$line" ] && line=$(echo "$out" | tail -1 | cut -c1-160)
  echo "$id exit=$rc $line"
done
cd /repo && git checkout -- . && git status --porcelain | head -3
