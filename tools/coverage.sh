#!/bin/sh
# tools/coverage.sh [tier] [IDs...]: measure which lines/regions of sancane/precis the correspondence runs execute.
# Builds the harness a second time with -C instrument-coverage (nightly toolchain: it ships llvm-cov/llvm-profdata),
# runs the registered checks with that binary, merges the profiles and writes
#   /verif/evidence/coverage/summary.txt   per-file line/region coverage of the three crates' src/
#   /verif/evidence/coverage/uncovered.txt source lines of the library never executed by any correspondence case
# Not a check: a measurement of what the differential tie between model and code actually exercises.
set -e
TIER=${1:-quick}; shift || true
IDS="$@"
[ -z "$IDS" ] && IDS="C01 C02 C03 C04 C05 C06 C07 C08 C09 C10 C11 C12 C13 C14 C15 C16 C17 C18"
V=/verif
T=$V/.cache/covtarget
P=$V/.cache/cov
BIN=$(dirname $(rustup which --toolchain nightly rustc))/../lib/rustlib/x86_64-unknown-linux-gnu/bin
rm -rf $P; mkdir -p $P $V/evidence/coverage
cp /repo/Cargo.lock $V/harness/Cargo.lock
(cd $V/harness && LLVM_PROFILE_FILE="$P/build-%p-%8m.profraw" CARGO_NET_OFFLINE=true RUSTFLAGS="--cfg precis_verif -C instrument-coverage" cargo +nightly build --offline --target-dir $T 2>&1 | tail -2)
for id in $IDS; do
  VERIF_HARNESS_BIN=$T/debug/harness LLVM_PROFILE_FILE="$P/$id-%p-%8m.profraw" $V/bin/check $id --tier $TIER 2>&1 | tail -1
done
$BIN/llvm-profdata merge -sparse $P/*.profraw -o $P/all.profdata
SRC="/repo/precis-core/src /repo/precis-profiles/src /repo/precis-tools/src"
$BIN/llvm-cov report $T/debug/harness -instr-profile=$P/all.profdata $SRC > $V/evidence/coverage/summary.txt 2>/dev/null
$BIN/llvm-cov show $T/debug/harness -instr-profile=$P/all.profdata -show-line-counts-or-regions $SRC 2>/dev/null > $P/show.txt
python3 - <<'PY'
import re
out=[]; cur=None; intest=False
for line in open('/verif/.cache/cov/show.txt', errors='replace'):
    if line.startswith('/repo/') and line.rstrip().endswith(':'):
        cur=line.strip().rstrip(':'); intest=False; continue
    m=re.match(r'\s*(\d+)\|\s*([0-9.kMG]+)?\|(.*)', line)
    if not m or cur is None: continue
    ln,cnt,src=m.groups()
    if re.search(r'#\[cfg\(test\)\]', src): intest=True
    if intest: continue
    if cnt=='0':
        out.append(f'{cur}:{ln}: {src}')
open('/verif/evidence/coverage/uncovered.txt','w').write('\n'.join(out)+'\n')
print(len(out),'uncovered executable lines (outside #[cfg(test)] modules)')
PY
tail -3 $V/evidence/coverage/summary.txt
