#!/usr/bin/env python3
"""writes MANIFEST.json from the table below (kept in one place so it stays valid)"""
import json
import os

VERIF = os.path.dirname(os.path.dirname(os.path.abspath(__file__)))

CLAIMS = {
    'C13': dict(
        text='Machine-checked Lean 4 theorems over every rule function f and every start string: an accepted result is a fixed point reachable within the first application plus three re-applications; acceptance whenever the string stabilises within that bound; f\'s own error is propagated; invalid-label otherwise; at most four calls, each on the successive iterate. The model loop is tied to precis_core::profile::stabilize by running the real function on closures built from ALL function tables on up to 4 (thorough: 5) states with call recording, compared with the model and with an independent specification.',
        note='Trusted: Lean kernel; the 12-line hand-written model of the stabilize loop (validated by exhaustive small-scope correspondence, not verified; its iteration bound is additionally re-read from the source text on every run by tools/srcfacts.py and proved equal to the model constant when the loop has the recognised shape); Cow borrowed/owned distinction not modelled.',
        technique='Lean 4 proof by induction on the iteration bound + exhaustive differential correspondence on finite function tables',
        design='§6 C13'),
    'C18': dict(
        text='Machine-checked Lean 4 theorems about a model of all 14 comparison operators and ==/!= of the generated Codepoints type, for every entry with start <= end and every code point (unbounded Nat, so all u32): trichotomy, mutual agreement of partial_cmp/lt/le/gt/ge/eq, mirrored operators, Single(c) = Range(c..=c), and that a sorted table is a valid key for the modelled std binary search (which then finds an entry iff one contains the code point). Tied to the code by exhaustive comparison of the real operators with the model on windows at 0, 2^31 and u32::MAX.',
        note='Trusted: Lean kernel; hand transcription of codepoints.template operator bodies and of core::slice::binary_search_by into Lean (validated by exhaustive window correspondence and by every table look-up compared over all code points in C14/C03/C09/C11).',
        technique='Lean 4 proof (case analysis + omega; loop-invariant proof of binary search) + exhaustive window correspondence',
        design='§6 C18'),
}

CLAIMS.update({
    'C02': dict(
        text='Lean 4 theorems for an arbitrary assignment dp of derived-property values (any user-supplied class) and every label: allows = Ok iff every position is acceptable (valid, or contextual with its registered rule satisfied there); rejection is the error of the FIRST offending position with its code point, code-point index and property; every error has that shape. Tied to the code by running the real default method on a harness-defined StringClass under hundreds of assignments and on both standard classes, compared with the model and with an independent specification (RFC 5892 conditions + IANA registry).',
        note='Trusted: Lean kernel; hand-written model of allows/allowed_by_context_rule (validated by correspondence); rule semantics are C03, registry facts are C14/C03.',
        technique='Lean 4 proof by induction over the label with an explicit position counter + differential correspondence with a custom StringClass',
        design='§6 C02'),
    'C09': dict(
        text='Lean 4 theorems: the generated Bidi_Class table (searched by the modelled binary search, default L) equals UnicodeData 16.0.0 for every code point (kernel-checked step-function comparison with an independent parse); the one-pass scan with prev/nsm/en/an flags accepts EXACTLY the class sequences that satisfy RFC 5893 conditions 1-6 and have no NSM followed by a non-NSM (scan_exact, all lengths); labels without R/AL/AN are accepted unchanged; the string is never modified; the rule is sound w.r.t. the RFC. The full-strength statement is false of the code (known finding bidi-interior-nsm, exactly characterised; witness proved in Lean). Correspondence: all class sequences up to length 4 (thorough 5) over 12 classes, every class in 7 placements, bidi_class over all code points; has_rtl and the rule on the labels [c], [a,c], [c-1,c] and [c+1,c] for EVERY code point c (state carried from one table look-up to the next shows up next to the neighbour code point). The class sets of the four functions are re-read from bidi.rs on every run and proved to be the sets the model scans with (SrcTie).',
        note='Trusted: Lean kernel; RFC 5893 transcription; tools/ucd_spec.py; model of bidi.rs validated by exhaustive small-scope correspondence. Known finding: interior NSM rejected (unit tests of the repository assert it).',
        technique='Lean 4 proof (automaton invariant by induction over the suffix; kernel-checked table equality) + exhaustive class-sequence correspondence',
        design='§6 C09'),
    'C10': dict(
        text='Lean 4 theorems: case_mapping_rule s = s.flatMap lowerFull for every string (so the result for a character never depends on its neighbours); the fast-path trigger is complete; is_lowercase implies the lowercase mapping is the identity (kernel-checked over the dumped std tables for every code point). Correspondence: std case functions over all scalars, every mapped code point (about 1450) in 11 neighbour contexts, all strings <= 3 (thorough 5) over class representatives.',
        note='Trusted: Lean kernel; the std case tables are external data dumped from the running toolchain on every run; model of common.rs validated by correspondence.',
        technique='Lean 4 proof (find/slice lemmas over UTF-8 byte offsets + kernel-checked table facts) + differential correspondence',
        design='§6 C10'),
    'C11': dict(
        text='Lean 4 theorems: the generated width table equals the <wide>/<narrow> decomposition data of UnicodeData 16.0.0 for every code point (kernel-checked against an independent parse); width_mapping_rule s = s.map widthMap for every string (per character, position independent, other compatibility characters untouched); idempotent; every table value is a scalar so the typed error is unreachable; no panic. Correspondence: get_decomposition_mapping over all code points, every mapped code point in 18 contexts, all strings <= 3 (thorough 5) over representatives, and the rule on [U+FF21, c-1, c] for EVERY code point c.',
        note='Trusted: Lean kernel; tools/ucd_spec.py; model of usernames.rs::width_mapping_rule validated by correspondence.',
        technique='Lean 4 proof (find/slice lemmas + kernel-checked table equality) + differential correspondence',
        design='§6 C11'),
    'C12': dict(
        text='Lean 4 theorems: the generated Zs table is General_Category=Zs of Unicode 16.0.0 for every code point; Nickname trim_spaces s = collapse(strip(map Zs->U+0020 s)) for EVERY string (the byte offset returned by the scan is always a character boundary, so no panic); non-space characters are kept in order; the result has no leading/trailing/double/non-ASCII space; idempotent; OpaqueString mapping = map(non-ASCII Zs -> U+0020), preserves everything else, idempotent. Correspondence: all strings <= 5 (thorough 6) over {4 spaces} x {1-4 byte characters} for both rules and find_disallowed_space, all 17 Zs in 9 placements, and EVERY scalar c after a non-ASCII space, between two letters and before a trailing run of spaces.',
        note='Trusted: Lean kernel; tools/ucd_spec.py; model of nicknames.rs/passwords.rs validated by exhaustive small-scope correspondence.',
        technique='Lean 4 proof (scan invariant over byte offsets, reference single-pass function, induction) + exhaustive small-scope correspondence',
        design='§6 C12'),
    'C14': dict(
        text='Lean 4 theorems for every cp : Nat (so all 2^32 u32 values): both classes return exactly what the IANA precis-tables-6.3.0 registry lists; the model decision list equals the RFC 8264 section 8 list in its fixed order over independently parsed Unicode 6.3.0 data; Identifier disallows exactly what Freeform class-validates and they agree elsewhere; surrogates and values above U+10FFFF are DISALLOWED. Proved by kernel evaluation of step-function merges over the 34 regenerated tables (re-checked whenever the tables change) plus a rewriting proof that the model function is that step function (via the verified binary search). Correspondence: both entry points of both classes and 13 predicates at every code point 0..0x1100FF + boundary samples (thorough: all 2^32).',
        note='Trusted: Lean kernel; tools/translate.py; tools/ucd_spec.py; transcription of RFC 8264 sections 8-9; the HasCompat graph dumped from the implementation is PROVED equal to the code-shaped definition (char::from_u32 fails: false; else c != nfkc(c)) over the normalizer model for every natural number (C14.has_compat_is_code); the order, predicates and outcomes of the decision list and the five class callbacks are translated from the source text on every run and proved to be the list the model interprets (SrcTie.derivedProp_eq_steps, decision_list_from_source, class_callbacks_from_source) when the function has the recognised shape.',
        technique='Lean 4 proof by kernel reflection on step functions (decide +kernel) + exhaustive per-code-point correspondence',
        design='§6 C14, §5'),
})

CLAIMS.update({
    'C03': dict(
        text='Lean 4 theorems: for each of the nine rules, every label (shorter than 2^63) and every usize position: the rule answers true iff the code point at the position is its own and the RFC 5892 Appendix A condition holds (ZWNJ backward/forward transparent scans proved equal to the RFC regular expression for runs of any length); not-applicable iff the code point is not the rule\'s own; undefined only when the position or an inspected neighbour lies outside the label; never a panic. The ten generated virama/script/joining-type tables equal the Unicode 6.3.0 data for every code point (kernel-checked against an independent parse); exactly the CONTEXTJ/CONTEXTO code points of both classes have a registered rule and it is their own. Correspondence: tables and registry at every code point, every rule with thousands (thorough: all 1,111,998 scalars) of code points as inspected neighbour in 10 roles, all labels <= 3 (thorough 4) over 20 class representatives at every offset.',
        note='Trusted: Lean kernel; transcription of RFC 5892 Appendix A; tools/ucd_spec.py; model of context.rs validated by correspondence; the arms of get_context_rule are additionally translated from the source text on every run (tools/srcfacts.py) and proved equal to the model registry for every code point when the match has the recognised shape (SrcTie.registry_from_source).',
        technique='Lean 4 proof (scan lemmas by induction; kernel-checked table equality by step-function reflection) + exhaustive neighbour/label correspondence',
        design='§6 C03'),
    'C04': dict(
        text='Lean 4 theorems: prepare = width map, non-empty check, IdentifierClass validation (error otherwise); enforce = prepare, then lowercase mapping (case-mapped profile only), NFC, non-empty check, directionality — exactly in this order and nothing else, as an equation between the model pipeline and the composition of the proved step specifications (C11, C10, C09) for every string; every failure of prepare is the result of enforce; an accepted prepare is exactly the width-mapped input. Correspondence: both profiles on all strings <= 3 (thorough 4) over 25 characters chosen so every pair of steps interacts, plus an implementation-level oracle composing the public Rules methods in RFC order.',
        note='Trusted: Lean kernel; NFC is the executable model of the external crate (validated by correspondence); the directionality step carries the C09 known finding (listed for C04 too).',
        technique='Lean 4 proof by rewriting with the per-step correctness theorems + differential correspondence with step-interaction alphabets',
        design='§6 C04'),
    'C05': dict(
        text='Lean 4 theorems: OpaqueString.prepare returns its non-empty, FreeformClass-accepted argument unchanged (the first error otherwise); enforce = prepare, map of non-ASCII Zs to U+0020 (nothing else altered before NFC — C12), NFC, reject empty; prepare failures are enforce failures. Correspondence: all strings <= 3 (thorough 4) over 23 characters, all 17 Zs code points in 57 placements, composition oracle.',
        note='Trusted: Lean kernel; NFC model of the external crate validated by correspondence.',
        technique='Lean 4 proof by rewriting with C12/C02 theorems + differential correspondence',
        design='§6 C05'),
    'C06': dict(
        text='Lean 4 theorems: Nickname.prepare as C05; one application of the enforcement rules = validate, specSpaces (C12), NFKC, reject empty (case preserved: there is no case step); enforce = stabilize of that round (C13 bound: first + three re-applications); every accepted result is a fixed point reachable in <= 3 re-applications; first stable result is returned; failures and instability are rejected. Correspondence: all strings <= 3 (thorough 4), 27 seeds whose NFKC introduces spaces or further mappings in 20 contexts (1, 2, 3 applications needed — histogram in evidence), orbit followed through the public rules as oracle.',
        note='Trusted: Lean kernel; NFKC model of the external crate validated by correspondence.',
        technique='Lean 4 proof (composition + C13 stabilize theorems) + differential correspondence with orbit oracle',
        design='§6 C06'),
    'C07': dict(
        text='Lean 4 theorems for all four profiles: compare(a,b) = first operand\'s error, else second\'s, else equality of canonical forms (enforce; for Nickname the comparison rules with lowercase mapping iterated to stability); true iff both accepted with the same canonical string; reflexive, symmetric, transitive on accepted strings; equals enforce(a) == enforce(b) for usernames and passwords; the omitted empty check in the nickname comparison rules is unobservable. Correspondence: all ordered pairs within families of variants of one name (case, width, spacing, NFC/NFD/NFKC, titlecase, invalid, empty) and sampled pairs, families built from every composition pair whose first element is a lowercase letter, final-sigma contexts, operands that are rejected only by a later application of the rules; laws re-checked on the implementation\'s own answers.',
        note='Trusted: Lean kernel; C04-C06/C10 for the canonical forms; carries the C09 known finding for username operands (listed for C07).',
        technique='Lean 4 proof (case analysis on results; C13) + pair/triple correspondence over variant families',
        design='§6 C07'),
})

CLAIMS.update({
    'C01': dict(
        text='Lean 4 theorems that the modelled outcome of every public operation is never `panic`: classification of any code point (the comparison behind every table search never answers None), allows for ANY class, each of the nine context rules at ANY usize position, all profile rules (the slice positions returned by find are always character boundaries: corollaries of the functional-correctness theorems C10-C12), prepare/enforce/compare of the four profiles, stabilize for any non-panicking rule. "Never slices inside a multi-byte character" is grounded in REAL UTF-8 (Lemmas/Utf8Bytes.lean: encoder, decoder round trip, str::is_char_boundary): the model slice is defined exactly when the position is a char boundary within the encoded bytes and then yields exactly the prefix/suffix bytes, and every str::find result is such a boundary. Only hypothesis: a label has fewer than 2^63 code points. The model produces `panic` exactly where the Rust text can (slicing, usize +-1 overflow, unwrap, indexing). Correspondence: every operation under catch_unwind on all strings <= 3 (thorough 5) over 12 byte-length/space/contextual/cased/wide/RTL representatives, nickname space patterns two characters longer, every rule at offsets up to usize::MAX, both classes at every code point; an implementation PANIC is by itself a failing input.',
        note='Partial by nature: allocation failure, stack exhaustion, panics inside std/unicode-normalization are outside the model (observed only under catch_unwind). Trusted: Lean kernel; placement of `panic` outcomes in the hand-written model.',
        technique='Lean 4 proof (corollaries of functional-correctness theorems; overflow guards by case analysis) + catch_unwind differential enumeration of byte-length x position combinations',
        design='§6 C01'),
    'C08': dict(
        text='Lean 4 theorems: (1) no code point of an accepted enforce result is DISALLOWED/UNASSIGNED in the profile\'s own class — full strength for Nickname, OpaqueString, UsernameCasePreserved; for UsernameCaseMapped on inputs without a character whose lowercase image is forbidden, where that exceptional set is COMPUTED by the kernel from the regenerated tables (exactly the 85 Cherokee letters U+13A0..U+13F4: known finding cherokee-lowercase). Proof: a generic closure lemma for the NFC model (decompose, reorder, recompose incl. Hangul) over any set closed under the decomposition and composition tables, plus kernel-checked closure facts over bitmaps of the forbidden sets (re-checked whenever std/unicode-normalization/tables change). (2) never drifts: full strength for Nickname (fixed point); for OpaqueString, UsernameCasePreserved and (outside the Cherokee set) UsernameCaseMapped proved WITHOUT any assumption about the normalizer: idempotence of NFC (and NFKC) is itself a theorem about the normalizer model over the tables dumped from the crate on every run (nfc_idem / nfkc_idem: induction over the recomposition state machine of the crate; the full decomposition of every composition entry is the decomposition of its first part followed by the second part, checked by the kernel through a balanced search tree built from the table); the accepted result contains no character a second enforcement would map (non-ASCII Zs / wide-narrow / cased), because those sets too are closed under decomposition and composition (kernel-checked), so the second run can only return the same string or a validation error. Correspondence: EXHAUSTIVE native sweep of every scalar as a one-character input through all four profiles with re-classification and re-enforcement, plus thousands of decomposed/composing/cased sequences.',
        note='Partial only in that UsernameCaseMapped excludes the characterised Cherokee set (known finding: Cherokee lowercase images are UNASSIGNED in the 6.3.0 tables). No assumption about the normalizer remains (NFC/NFKC idempotence proved for the model; the model is tied to the unicode-normalization crate by table regeneration and the correspondence). Trusted: Lean kernel; normalizer model validated against the crate, not verified.',
        technique='Lean 4 proof (closure and idempotence of the NFC model by induction over its state machine + kernel bitmap / search-tree facts over the regenerated tables) + exhaustive single-code-point sweep',
        design='§6 C08'),
    'C17': dict(
        text='Lean 4 theorems about a model of the registry CSV parser (splitn, the two anchored regexes, from_str_radix, the line iterator): every well-formed row rendered with 1-8 upper-case hex digits, any of the 7 names or 49 ordered pairs and ANY description (commas included) parses to exactly that row (completeness); anything accepted has exactly that form — hex digits only (no sign), value <= U+10FFFF, one of the names or two joined by white space-or-white space, description verbatim (soundness); fewer than two commas is an error; the header is skipped, items are in file order and an error carries its 1-based line number. Correspondence: rendered random rows and EVERY single-character deletion/replacement/insertion of seed rows through PrecisDerivedProperty::from_str, generated files through CsvLineParser::from_path incl. rows of 4 KiB to 128 KiB, 9-20 digit code point fields and a last line without terminator.',
        note='Trusted: Lean kernel; regex crate, from_str_radix, ucd_parse::Codepoint, read_line modelled by their documented behaviour (validated by the correspondence).',
        technique='Lean 4 proof (round-trip and soundness by induction on digit strings / list splitting) + exhaustive single-edit corruption correspondence',
        design='§6 C17'),
})

CLAIMS.update({
    'C16': dict(
        text='Lean 4 theorem about an abstract protocol of the library: lazily initialised cells (Uninit/Running/Init) holding data-free profile values, calls through the static API (which first force the cell), fresh or long-lived instances, arguments as borrowed/owned/Cow: for EVERY interleaving of initialisation steps and calls of any number of threads and every prior history, a completed call returns the pure function of its arguments; the API flavours and argument forms agree. The runtime part the model cannot exhibit (memory model, std::sync::Once) is explored: fresh processes in which 16 threads race the very first static calls, every input through all {fresh, long-lived, static} x {&str, String, Cow} combinations three times in shuffled order, all compared with the model; plus structural checks on every run (size_of of the four profiles and two classes is 0; no static mut / Cell / atomics / thread_local / Mutex / unsafe in the crates\' src: a hit is reported as a broken assumption of the model with no-failing-input-found unless the behavioural probes exhibit a failing history). Behavioural probes added after missed seeded changes: every rule and profile call of EVERY property run is evaluated through a second API form (borrowed/owned/Cow, fresh/long-lived/static) and must give the same content; about 2000 inputs through all twelve combinations; history probes (a call with s, then with a one-position variant of s, for labels of many lengths); a 16-thread stress with different colliding inputs in flight followed by a sequential re-evaluation. Protocol theorems for the lazy cell: initialised at most once, never changes afterwards, a static call completes only on an initialised cell.',
        note='Partial by nature: proof of the abstract protocol + exploration of real schedules. Trusted: that the Rust operations read no state beyond their arguments is established by the structural scan and the behavioural comparison, not by proof.',
        technique='Lean 4 proof by induction on executions of an abstract lazy-initialisation protocol + schedule/history exploration against the model',
        design='§6 C16'),
})

CLAIMS.update({
    'C15': dict(
        text='Lean 4 theorems about a model of the precis-tools generators (HashSet/sort/run-compression set tables incl. virama, the unassigned-gap tracker with its quirky range state, the bidi run compressor, the width table, and UnicodeData::parse First/Last folding with its completeness and soundness theorems): for EVERY well-formed list of UnicodeData rows (ascending, disjoint, any subset of code points, any placement of ranges next to singles, any run structure) each generator succeeds, the emitted table denotes exactly the code points and values the input assigns, and it is sortedTable; for the PROPERTY FILES (Scripts, DerivedJoiningType, PropList, DerivedCoreProperties, HangulSyllableType) the same holds for lines in ANY order (property_table_exact: pairwise disjoint non-empty lines suffice — UAX #44 gives line order no meaning) — which by the verified binary search (C18/Bsearch) means a search finds the entry containing a code point iff one exists and no code point is covered twice. Tied to the code by running the REAL generators (through RustCodeGen/UcdFileGen/ucd-parse/the text writer) on hundreds (thorough: thousands) of synthetic well-formed UCD directories incl. hand-picked run structures and property files whose lines are ascending, grouped-descending, interleaved or shuffled (13 script / joining-type / property / Hangul-type tables per directory), parsing the emitted files back and comparing entry for entry with the model and with an independent denotation check; and by reproducing the tables of the two pinned data sets (6.3.0, 16.0.0) with the model generators. The pinned tables themselves are also kernel-compared with independently parsed UCD data in C03/C09/C11/C12/C14.',
        note='Trusted: Lean kernel; the generator model (validated by the correspondence); ucd-parse row syntax and the file writer are inside the compared path, not the model. The pinned property-file tables are additionally compared with independently parsed UCD data by the kernel facts of C03/C14.',
        technique='Lean 4 proof (loop invariants over the row fold for each generator) + differential correspondence with the real generators on synthetic UCD directories',
        design='§6 C15'),
})

NOT_YET = {}


def main():
    props = [json.loads(l) for l in open(os.path.join(VERIF, 'properties.jsonl'))]
    checks = []
    na = []
    for p in props:
        pid = p['id']
        if pid in CLAIMS:
            c = CLAIMS[pid]
            checks.append({
                'property_id': pid,
                'quick_cmd': f'bin/check {pid} --tier quick',
                'thorough_cmd': f'bin/check {pid} --tier thorough',
                'evidence_file': f'/verif/evidence/{pid}.json',
                'replay_cmd_template': f'bin/check {pid} --replay {{path}}',
                'engine': 'lean4-proof+correspondence',
                'level_claimed': {'category': 'proof', 'text': c['text'], 'design_ref': 'DESIGN.md ' + c['design']},
                'level_note': c['note'],
                'technique': c['technique'],
            })
        else:
            na.append({'property_id': pid, 'reason': NOT_YET.get(pid, 'not claimed yet: model and theorems for this property are still being built (the technique applies; see DESIGN.md §6); no check is registered until it passes on the unchanged tree')})
    m = {
        'version': 1,
        'setup_cmd': 'bin/setup',
        'hooks': {
            'guard': 'precis_verif',
            'enable': 'RUSTFLAGS="--cfg precis_verif" (set in /verif/harness/.cargo/config.toml; the harness crate has path dependencies on /repo/precis-{core,profiles,tools})',
            'baseline_off_cmd': 'cd /repo && cargo test --workspace --no-fail-fast --offline',
            'source_commits': ['3c324f5', '3e0836b'],
            'add_only': True,
        },
        'engines': [{
            'name': 'lean4-proof+correspondence',
            'path': '/verif/tools/verif.py',
            'serves_properties': sorted(CLAIMS),
            'kind_free_text': 'Lean 4 theorems about a hand-written executable model (lean/Precis/Model) whose table data is regenerated from /repo\'s build output on every run (tools/translate.py) and whose logic is compared with the real code by a line-protocol differential harness (harness/ + lean/Driver.lean); independent specifications in lean/Precis/Spec and tools/ucd_spec.py',
        }],
        'checks': checks,
        'not_applicable': na,
        'notes': 'bin/check <ID> rebuilds the harness from /repo\'s working tree, regenerates lean/Precis/Gen, re-checks the theorems (lake build + #print axioms audit), runs the correspondence and writes evidence/<ID>.json. Known findings: known-findings.txt.',
    }
    with open(os.path.join(VERIF, 'MANIFEST.json'), 'w') as f:
        json.dump(m, f, indent=1)
    print(f'{len(checks)} checks, {len(na)} not claimed')


if __name__ == '__main__':
    main()
