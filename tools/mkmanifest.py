#!/usr/bin/env python3
"""writes MANIFEST.json from the table below (kept in one place so it stays valid)"""
import json
import os

VERIF = os.path.dirname(os.path.dirname(os.path.abspath(__file__)))

CLAIMS = {
    'C13': dict(
        text='Machine-checked Lean 4 theorems over every rule function f and every start string: an accepted result is a fixed point reachable within the first application plus three re-applications; acceptance whenever the string stabilises within that bound; f\'s own error is propagated; invalid-label otherwise; at most four calls, each on the successive iterate. The model loop is tied to precis_core::profile::stabilize by running the real function on closures built from ALL function tables on up to 4 (thorough: 5) states with call recording, compared with the model and with an independent specification.',
        note='Trusted: Lean kernel; the 12-line hand-written model of the stabilize loop (validated by exhaustive small-scope correspondence, not verified); Cow borrowed/owned distinction not modelled.',
        technique='Lean 4 proof by induction on the iteration bound + exhaustive differential correspondence on finite function tables',
        design='§6 C13'),
    'C18': dict(
        text='Machine-checked Lean 4 theorems about a model of all 14 comparison operators and ==/!= of the generated Codepoints type, for every entry with start <= end and every code point (unbounded Nat, so all u32): trichotomy, mutual agreement of partial_cmp/lt/le/gt/ge/eq, mirrored operators, Single(c) = Range(c..=c), and that a sorted table is a valid key for the modelled std binary search (which then finds an entry iff one contains the code point). Tied to the code by exhaustive comparison of the real operators with the model on windows at 0, 2^31 and u32::MAX.',
        note='Trusted: Lean kernel; hand transcription of codepoints.template operator bodies and of core::slice::binary_search_by into Lean (validated by exhaustive window correspondence and by every table look-up compared over all code points in C14/C03/C09/C11).',
        technique='Lean 4 proof (case analysis + omega; loop-invariant proof of binary search) + exhaustive window correspondence',
        design='§6 C18'),
}

NOT_YET = {}


def main():
    props = [json.loads(l) for l in open(os.path.join(VERIF, 'properties.jsonl'))]
    checks = []
    na = []
    for p in props:
        pid = p['id']
        if pid in CLAIMS:
            c = CLAIMS[pid]
            checks.append({
                'property_id': pid,
                'quick_cmd': f'bin/check {pid} --tier quick',
                'thorough_cmd': f'bin/check {pid} --tier thorough',
                'evidence_file': f'/verif/evidence/{pid}.json',
                'replay_cmd_template': f'bin/check {pid} --replay {{path}}',
                'engine': 'lean4-proof+correspondence',
                'level_claimed': {'category': 'proof', 'text': c['text'], 'design_ref': 'DESIGN.md ' + c['design']},
                'level_note': c['note'],
                'technique': c['technique'],
            })
        else:
            na.append({'property_id': pid, 'reason': NOT_YET.get(pid, 'not claimed yet: model and theorems for this property are still being built (the technique applies; see DESIGN.md §6); no check is registered until it passes on the unchanged tree')})
    m = {
        'version': 1,
        'setup_cmd': 'bin/setup',
        'hooks': {
            'guard': 'precis_verif',
            'enable': 'RUSTFLAGS="--cfg precis_verif" (set in /verif/harness/.cargo/config.toml; the harness crate has path dependencies on /repo/precis-{core,profiles,tools})',
            'baseline_off_cmd': 'cd /repo && cargo test --workspace --no-fail-fast --offline',
            'source_commits': ['3c324f5', '3e0836b'],
            'add_only': True,
        },
        'engines': [{
            'name': 'lean4-proof+correspondence',
            'path': '/verif/tools/verif.py',
            'serves_properties': sorted(CLAIMS),
            'kind_free_text': 'Lean 4 theorems about a hand-written executable model (lean/Precis/Model) whose table data is regenerated from /repo\'s build output on every run (tools/translate.py) and whose logic is compared with the real code by a line-protocol differential harness (harness/ + lean/Driver.lean); independent specifications in lean/Precis/Spec and tools/ucd_spec.py',
        }],
        'checks': checks,
        'not_applicable': na,
        'notes': 'bin/check <ID> rebuilds the harness from /repo\'s working tree, regenerates lean/Precis/Gen, re-checks the theorems (lake build + #print axioms audit), runs the correspondence and writes evidence/<ID>.json. Known findings: known-findings.txt.',
    }
    with open(os.path.join(VERIF, 'MANIFEST.json'), 'w') as f:
        json.dump(m, f, indent=1)
    print(f'{len(checks)} checks, {len(na)} not claimed')


if __name__ == '__main__':
    main()
