#!/usr/bin/env python3
"""tools/seedkeep.py <round-dir> <name> <slug> <property> <needs> [--missed "<why>" "<what was added>"]
Copy a confirmed seeded change from a sub-agent's scratch worktree into /verif/seeded/<slug>/ (patch.diff, the
demonstration, notes.md) and write meta.json from the results file the processing script left in <round-dir>/results/."""
import json
import os
import re
import shutil
import sys

rd, name, slug, prop, needs = sys.argv[1:6]
missed = sys.argv[6:] if len(sys.argv) > 6 else None
src = os.path.join(rd, name)
dst = os.path.join('/verif/seeded', slug)
os.makedirs(dst, exist_ok=True)
for f in ('patch.diff', 'demo_seeded.rs', 'notes.md'):
    p = os.path.join(src, 'SEED', f)
    if os.path.exists(p):
        shutil.copy(p, os.path.join(dst, f))
res = open(os.path.join(rd, 'results', name + '.txt')).read()
confirmed = 'CONFIRMED' in res and 'NOT CONFIRMED' not in res
detected, not_detected, how = [], [], {}
for l in res.splitlines():
    m = re.match(r'^(C\d\d) exit=(\d+) (.*)', l)
    if m:
        (detected if m.group(2) == '1' else not_detected).append(m.group(1))
        if m.group(2) == '1':
            how[m.group(1)] = m.group(3)[:400]
meta = {
    'property': prop,
    'origin': f'independent sub-agent ({os.path.basename(rd)}, with a focus hint naming a site not used in earlier rounds) given only the property text and a scratch worktree of /repo',
    'needs': needs,
    'confirmed': ('existing suite passes with the change; demo_seeded.rs fails with it and passes without it (re-run by tools/seedverify.sh in the scratch worktree)' if confirmed else 'NOT CONFIRMED'),
    'ran': f'tools/seedtest.sh seeded/{slug}/patch.diff ' + ' '.join(detected + not_detected),
    'detected_by': detected,
    'not_detected_by': not_detected,
    'how': how,
}
if missed:
    meta['detected_by_the_check_as_it_stood'] = False
    meta['why_missed'] = missed[1] if len(missed) > 1 else ''
    meta['what_was_added'] = missed[2] if len(missed) > 2 else ''
else:
    meta['detected_by_the_check_as_it_stood'] = True
json.dump(meta, open(os.path.join(dst, 'meta.json'), 'w'), indent=1)
print(slug, 'confirmed' if confirmed else 'NOT CONFIRMED', 'detected by', detected, 'not by', not_detected)
