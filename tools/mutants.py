#!/usr/bin/env python3
"""tools/mutants.py — systematic mutation sweep of sancane/precis against the checks of /verif.

  mutants.py gen                          list the mutants (JSON lines) to /tmp/mutants/mutants.jsonl
  mutants.py setup <nworkers>             create worker copies /tmp/mw<k>/{verif,repo}
  mutants.py run <k> <nworkers> [stage]   worker k evaluates its share; results -> /tmp/mutants/results-<k>.jsonl
  mutants.py report                       summary + undetected survivors

A mutant is ONE small syntactic change (relational operator, boundary, boolean, constant +-1, dropped alternative of a
class pattern, dropped `continue`, ...) in non-test library code.  For each mutant, in a scratch copy (never in /repo):
  1. cargo test --workspace: does not compile -> discarded; a test fails -> killed by the existing suite (uninteresting);
  2. survivors: the checks whose anchor files contain the mutated file are run (quick volumes; stage 2: thorough);
  3. a survivor no check reports is listed for triage: equivalent mutant, outside the properties, or a gap in the checks.
"""
import json
import os
import re
import subprocess
import sys
import time

REPO = '/repo'
OUT = '/tmp/mutants'
FILES = ['precis-core/src/common.rs', 'precis-core/src/context.rs', 'precis-core/src/profile.rs', 'precis-core/src/stringclasses.rs',
         'precis-profiles/src/bidi.rs', 'precis-profiles/src/common.rs', 'precis-profiles/src/nicknames.rs', 'precis-profiles/src/passwords.rs',
         'precis-profiles/src/usernames.rs', 'precis-tools/src/common.rs', 'precis-tools/src/csv_parser.rs', 'precis-tools/src/ucd_parsers.rs',
         'precis-tools/src/generators/bidi_class.rs', 'precis-tools/src/generators/ucd_generator.rs',
         'precis-tools/src/generators/codepoints.template']

OPS = [
    (r' <= ', ' < '), (r' < ', ' <= '), (r' >= ', ' > '), (r' > ', ' >= '), (r' == ', ' != '), (r' != ', ' == '),
    (r' && ', ' || '), (r' \|\| ', ' && '),
    (r' \+ 1\b', ' + 2'), (r' \+ 1\b', ''), (r' - 1\b', ''), (r' - 1\b', ' - 2'),
    (r'\btrue\b', 'false'), (r'\bfalse\b', 'true'),
    (r'!matches!\(', 'matches!('), (r'(?<![!\w])matches!\(', '!matches!('),
    (r'\bif !', 'if '), (r'\bcontinue;', ''), (r'\bbreak;', ''),
    (r'Ok\(true\)', 'Ok(false)'), (r'Ok\(false\)', 'Ok(true)'),
    (r'\.is_some\(\)', '.is_none()'), (r'\.is_none\(\)', '.is_some()'),
    (r'\.is_empty\(\)', '.len() == 1'),
    (r'\bSome\(0\)', 'Some(1)'),
    (r'\.\.=', '..'),
    # method / constant swaps
    (r'\.nfc\(\)', '.nfkc()'), (r'\.nfkc\(\)', '.nfc()'), (r'\bis_nfc\(', 'is_nfkc('), (r'\bis_nfkc\(', 'is_nfc('),
    (r'\.find\(', '.rfind('), (r'\.rev\(\)', ''), (r'ends_with\(', 'starts_with('), (r'starts_with\(', 'ends_with('),
    (r'\.next\(\)', '.last()'), (r'char_indices\(\)', 'chars().enumerate()'),
    (r'ContextRuleError::Undefined', 'ContextRuleError::NotApplicable'), (r'ContextRuleError::NotApplicable', 'ContextRuleError::Undefined'),
    (r'DerivedPropertyValue::PValid\b', 'DerivedPropertyValue::Disallowed'), (r'DerivedPropertyValue::Disallowed\b', 'DerivedPropertyValue::PValid'),
    (r'DerivedPropertyValue::Unassigned\b', 'DerivedPropertyValue::Disallowed'), (r'DerivedPropertyValue::ContextJ\b', 'DerivedPropertyValue::ContextO'),
    (r'DerivedPropertyValue::SpecClassDis\b', 'DerivedPropertyValue::SpecClassPval'), (r'DerivedPropertyValue::SpecClassPval\b', 'DerivedPropertyValue::SpecClassDis'),
    (r'is_left_joining\(', 'is_right_joining('), (r'is_right_joining\(', 'is_left_joining('), (r'is_dual_joining\(', 'is_transparent('),
    (r'is_hiragana\(', 'is_katakana('), (r'is_han\(', 'is_hebrew('), (r'is_greek\(', 'is_hebrew('), (r'is_virama\(', 'is_transparent('),
    (r'\bbefore\(', 'after('), (r'\bafter\(', 'before('),
    # skip a pipeline step: `let s = self.rule(s)?;` -> `let s = s;` ; drop a validating statement `expr?;`
    (r'let s = self\.(?!prepare)\w+\(s\)\?;', 'let s = s;'), (r'let s = \(!s\.is_empty\(\)\)\.then_some\(s\)\.ok_or\(Error::Invalid\)\?;', 'let s = s;'),
    (r'^(\s+)(?!let\b|return\b)[\w.:]+\([^;]*\)\?;\s*$', r'\1'),
]


# second operator set (MUT_SET=2): statement deletion, condition negation, slice offsets, length confusions
OPS2 = [
    (r'^(\s+)[\w.\[\]]+\s*(?:=|\+=|-=|\|=)\s*[^=].*;\s*$', r'\1'),                    # delete an assignment
    (r'^(\s+)\w+\.(?:push|push_str|insert|extend)\(.*\);\s*$', r'\1'),                   # delete a push
    (r'\bif (?!let\b)(.+) \{\s*$', r'if !(\1) {'),                                        # negate a condition
    (r'\[\.\.(\w+)\]', r'[..\1 + 1]'), (r'\[(\w+)\.\.\]', r'[\1 + 1..]'),                 # slice off by one
    (r'\.len\(\)', '.chars().count()'), (r'\.chars\(\)\.count\(\)', '.len()'),
    (r'\.enumerate\(\)', '.enumerate().skip(1)'), (r'\.chars\(\)', '.chars().rev()'),
    (r'\bprev\b', 'first'), (r'\breturn false;', 'return true;'), (r'\breturn true;', 'return false;'),
    (r'\.then_some\(s\)', '.then_some(s.clone())'),
    (r'\bself\.range\.end\b', 'self.range.start'), (r'\br\.end\b', 'r.start'), (r'\br\.start\b', 'r.end'),
    (r'\bmax\b', 'min'), (r'\bmin\b', 'max'),
]
if os.environ.get('MUT_SET') == '2':
    OPS = OPS2
    OUT = '/tmp/mutants2'


def code_lines(path):
    """(lineno, text) of non-test, non-comment lines"""
    out = []
    in_test = False
    # the COMMITTED text (HEAD), not the working tree: /repo may carry a temporarily applied seeded patch
    text = subprocess.run(['git', '-C', REPO, 'show', 'HEAD:' + os.path.relpath(path, REPO)], stdout=subprocess.PIPE, text=True, check=True).stdout
    for i, l in enumerate(text.split('\n'), 1):
        if re.search(r'#\[cfg\(test\)\]', l):
            in_test = True
        if in_test:
            continue
        code = l.split('//')[0]
        if not code.strip() or code.strip().startswith(('#[', 'use ', 'pub use', '///', 'include!')):
            continue
        out.append((i, l))
    return out


def gen():
    muts = []
    for f in FILES:
        path = os.path.join(REPO, f)
        for ln, text in code_lines(path):
            code = text.split('//')[0]
            # generic / type syntax lines: no relational mutations
            typeish = bool(re.search(r'\bfn\b|\bimpl\b|\bwhere\b|->|\bstruct\b|\benum\b|\btype\b|: [A-Z]\w*<|<\'|Vec<|Option<|Result<|Box<|HashSet<|Cow<|Into<|AsRef<|PhantomData', code))
            for pat, rep in OPS:
                if typeish and pat.strip() in ('<=', '<', '>=', '>'):
                    continue
                for m in re.finditer(pat, code):
                    new = code[:m.start()] + m.expand(rep) + code[m.end():] + text[len(code):]
                    if new != text:
                        muts.append({'file': f, 'line': ln, 'op': f'{pat.strip()} -> {rep.strip()}', 'col': m.start(), 'old': text, 'new': new})
            if os.environ.get('MUT_SET') == '2':
                continue
            # numeric literals +-1 (hex and small decimals), outside format strings
            for m in re.finditer(r'\b0x[0-9a-fA-F_]+\b', code):
                v = int(m.group(0).replace('_', ''), 16)
                for d in (1, -1):
                    if v + d >= 0:
                        new = code[:m.start()] + f'0x{v + d:04x}' + code[m.end():] + text[len(code):]
                        muts.append({'file': f, 'line': ln, 'op': f'hex {d:+d}', 'col': m.start(), 'old': text, 'new': new})
            for m in re.finditer(r'(?<![\w.#{"])\b([0-9]{1,3})\b(?![\w."}])', code):
                v = int(m.group(1))
                if '"' in code or 'write' in code:
                    continue
                for d in (1, -1):
                    if v + d >= 0:
                        new = code[:m.start(1)] + str(v + d) + code[m.end(1):] + text[len(code):]
                        muts.append({'file': f, 'line': ln, 'op': f'dec {d:+d}', 'col': m.start(1), 'old': text, 'new': new})
            # drop one alternative of a class / code point pattern
            for m in re.finditer(r'\|\s*(BidiClass::\w+|0x[0-9a-fA-F]+)', code):
                new = code[:m.start()] + code[m.end():] + text[len(code):]
                muts.append({'file': f, 'line': ln, 'op': 'drop alternative', 'col': m.start(), 'old': text, 'new': new})
    # stable ids
    for i, m in enumerate(muts):
        m['id'] = i
    os.makedirs(OUT, exist_ok=True)
    with open(os.path.join(OUT, 'mutants.jsonl'), 'w') as f:
        for m in muts:
            f.write(json.dumps(m) + '\n')
    by = {}
    for m in muts:
        by[m['file']] = by.get(m['file'], 0) + 1
    print(len(muts), 'mutants', by)


def prop_ids_for(file):
    ids = []
    for l in open('/verif/properties.jsonl'):
        p = json.loads(l)
        files = p['anchors']['files']
        if file in files or any(file.startswith(x.rstrip('/') + '/') for x in files):
            ids.append(p['id'])
    if file.endswith('codepoints.template') and 'C18' not in ids:
        ids.append('C18')
    return ids


def sh(cmd, cwd=None, env=None, timeout=None):
    try:
        r = subprocess.run(cmd, cwd=cwd, env=env, text=True, stdout=subprocess.PIPE, stderr=subprocess.STDOUT, timeout=timeout)
        return r.returncode, r.stdout
    except subprocess.TimeoutExpired:
        return 124, 'TIMEOUT'


def setup(n):
    for k in range(n):
        w = f'/tmp/mw{k}'
        subprocess.run(['rm', '-rf', w])
        os.makedirs(w)
        subprocess.run(['rsync', '-a', '--exclude', '.git', '--exclude', 'evidence/replay', '--exclude', '.cache/run', '--exclude', '.cache/cov', '--exclude', '.cache/covtarget', '/verif/', f'{w}/verif/'], check=True)
        subprocess.run(['git', '-C', REPO, 'worktree', 'add', '--detach', f'{w}/repo', 'HEAD'], check=True, stdout=subprocess.DEVNULL)
        ct = f'{w}/verif/harness/Cargo.toml'
        txt = open(ct).read().replace('"/repo/', f'"{w}/repo/')      # read BEFORE opening for writing
        assert '[package]' in txt
        open(ct, 'w').write(txt)
        cc = f'{w}/verif/harness/.cargo/config.toml'
        txt = open(cc).read().replace('/verif/.cache/target', f'{w}/verif/.cache/target')
        assert 'target-dir' in txt
        open(cc, 'w').write(txt)
        subprocess.run(['cp', os.path.join(REPO, 'Cargo.lock'), f'{w}/repo/Cargo.lock'], check=True)
        # the worker must be able to run a check on its unchanged copy: otherwise every later "detection" would be an artefact
        env = dict(os.environ)
        env.update({'VERIF_REPO': f'{w}/repo', 'CARGO_NET_OFFLINE': 'true'})
        rc, out = sh([f'{w}/verif/bin/check', 'C18', '--tier', 'quick'], cwd=f'{w}/verif', env=env, timeout=3600)
        assert rc == 0 and 'VIOLATION' not in out, 'worker self-test failed:\n' + out[-2000:]
        print('worker', k, 'ready')


def run(k, n, stage):
    w = f'/tmp/mw{k}'
    env = dict(os.environ)
    env.update({'VERIF_REPO': f'{w}/repo', 'CARGO_NET_OFFLINE': 'true', 'CARGO_BUILD_JOBS': '4'})
    if stage in (1, 3):
        env['VERIF_NO_ESCALATE'] = '1'
    muts = [json.loads(l) for l in open(os.path.join(OUT, 'mutants.jsonl'))]
    if stage in (2, 3):
        # stage 2: thorough volumes for what stage 1 left undetected; stage 3: quick volumes for a given list (re-check)
        todo = {json.loads(l)['id'] for l in open(os.path.join(OUT, 'stage2.jsonl'))}
        muts = [m for m in muts if m['id'] in todo]
    mine = [m for i, m in enumerate(muts) if i % n == k]
    res_path = os.path.join(OUT, f'results{stage}-{k}.jsonl')
    done = set()
    if os.path.exists(res_path):
        done = {json.loads(l)['id'] for l in open(res_path)}
    for m in mine:
        if m['id'] in done:
            continue
        path = os.path.join(w, 'repo', m['file'])
        subprocess.run(['git', '-C', f'{w}/repo', 'checkout', '--', '.'])
        lines = open(path, encoding='utf-8').read().split('\n')
        assert lines[m['line'] - 1] == m['old'], (m, lines[m['line'] - 1])
        lines[m['line'] - 1] = m['new']
        open(path, 'w', encoding='utf-8').write('\n'.join(lines))
        t0 = time.time()
        r = dict(m)
        if stage == 1:
            rc, out = sh(['cargo', 'test', '--workspace', '--no-fail-fast', '--offline', '-q'], cwd=f'{w}/repo', env=env, timeout=300)
            if rc != 0:
                r['suite'] = 'nocompile' if re.search(r'error(\[E\d+\])?:', out) and 'test result' not in out else ('timeout' if rc == 124 else 'killed')
                r['secs'] = round(time.time() - t0, 1)
                open(res_path, 'a').write(json.dumps(r) + '\n')
                continue
        r['suite'] = 'survived'
        r['checks'] = {}
        for pid in prop_ids_for(m['file']):
            rc, out = sh([f'{w}/verif/bin/check', pid, '--tier', 'quick'], cwd=f'{w}/verif', env=env, timeout=3600)
            v = [l for l in out.split('\n') if l.startswith('VIOLATION')]
            detail = ''
            if v:
                mm = re.search(r'replay=(\S+)', v[0])
                if mm and os.path.exists(mm.group(1)):
                    try:
                        d = json.load(open(mm.group(1)))
                        detail = f"{d.get('kind')} | {str(d.get('case'))[:80]} | {str(d.get('implementation'))[:40]} | {str(d.get('reason', d.get('failed', '')))[:80]}"
                    except Exception:
                        pass
            r['checks'][pid] = {'rc': rc, 'violation': (v[0][:160] if v else ''), 'detail': detail}
            if 'build-or-translation-failure' in detail or 'correspondence-run-failure' in detail or (rc != 0 and not v):
                # the check could not even run against this mutant (or the worker is broken): NOT a detection
                r['checks'][pid]['infra'] = True
                if 'error[E' not in out and 'cargo build of the harness' not in out:
                    pass
            if rc != 0 and stage == 1 and not r['checks'][pid].get('infra'):
                break            # one detection is enough in the sweep
        r['detected'] = any(c['rc'] != 0 and not c.get('infra') for c in r['checks'].values())
        r['infra'] = any(c.get('infra') for c in r['checks'].values())
        r['secs'] = round(time.time() - t0, 1)
        open(res_path, 'a').write(json.dumps(r) + '\n')
    subprocess.run(['git', '-C', f'{w}/repo', 'checkout', '--', '.'])
    print('worker', k, 'done')


def report():
    res = {}
    for fn in sorted(os.listdir(OUT)):
        if fn.startswith('results'):
            for l in open(os.path.join(OUT, fn)):
                d = json.loads(l)
                if d['id'] not in res or fn.startswith('results2'):
                    res[d['id']] = d
    tot = len(res)
    by = {}
    for d in res.values():
        k = d['suite'] if d['suite'] != 'survived' else ('detected' if d.get('detected') else ('INFRA-ERROR' if d.get('infra') else 'UNDETECTED'))
        by[k] = by.get(k, 0) + 1
    print(tot, 'evaluated:', by)
    for d in sorted(res.values(), key=lambda x: (x['file'], x['line'])):
        if d['suite'] == 'survived' and not d.get('detected'):
            print(f"UNDETECTED #{d['id']} {d['file']}:{d['line']} [{d['op']}] {d['new'].strip()[:110]}   (was: {d['old'].strip()[:70]})  checks={list(d['checks'])}")


if __name__ == '__main__':
    a = sys.argv[1:]
    if a[0] == 'gen':
        gen()
    elif a[0] == 'setup':
        setup(int(a[1]))
    elif a[0] == 'run':
        run(int(a[1]), int(a[2]), int(a[3]) if len(a) > 3 else 1)
    elif a[0] == 'report':
        report()
