"""C15 — Table generators are faithful to any well-formed UCD input."""
import os
import shutil
import subprocess
import sys
from props.common import *
from verif import CACHE, ENV, VERIF, REPO, LEAN
sys.path.insert(0, os.path.join(VERIF, 'tools'))
import translate
import ucd_spec

ASSUMPTIONS = ['well-formed input = UnicodeData rows strictly ascending, First/Last lines paired, no row for U+10FFFE/U+10FFFF (noncharacters are never listed), property files listing each code point at most once per property',
               'ucd-parse (line syntax) and the text writer are inside the compared path (real generators run on real files), not inside the Lean model']
TRUSTED = ['model of the generators in lean/Precis/Model/Generators.lean validated by running the real precis-tools generators on synthetic UCD directories and on the two pinned data sets']
FACT_MODULES = ['Precis.Facts.Prof', 'Precis.Facts.Core', 'Precis.Props.C15Fold']
GCS = ['Lu', 'Ll', 'Zs', 'Mn', 'Cc', 'Lo']
BIDIS = ['L', 'R', 'NSM', 'ON']


def gen_rows(rng, shape=None):
    """random well-formed rows: (lo, hi, gc, ccc, bidi, width)"""
    rows = []
    cp = rng.choice([0, 0, 1, 5, 0xD7F8, 0xDFF0])
    n = rng.randrange(0, 14)
    top = rng.choice([0x60, 0x60, 0x400, 0x10FFFD]) if cp < 0x1000 else 0xE100
    for _ in range(n):
        if cp > top:
            break
        is_range = rng.random() < 0.3
        hi = min(cp + rng.choice([1, 2, 5, 300]), top) if is_range else cp
        if hi == cp:
            is_range = rng.random() < 0.05   # First/Last with equal ends does not occur; keep singles
            is_range = False
        gc = rng.choice(GCS)
        ccc = rng.choice([0, 0, 9, 230])
        bidi = rng.choice(BIDIS)
        width = rng.choice([None, None, None, 0x41, 0x20]) if not is_range else None
        rows.append((cp, hi, gc, ccc, bidi, width, is_range))
        cp = hi + rng.choice([1, 1, 1, 2, 3, 0x100]) if top > 0x400 or rng.random() < 0.9 else hi + 1
    return rows


def write_ucd(rows, d):
    os.makedirs(d, exist_ok=True)
    with open(os.path.join(d, 'UnicodeData.txt'), 'w') as f:
        for lo, hi, gc, ccc, bidi, width, is_range in rows:
            dec = f'<wide> {width:04X}' if width is not None else ''
            if is_range:
                f.write(f'{lo:04X};<Block, First>;{gc};{ccc};{bidi};{dec};;;;N;;;;;\n')
                f.write(f'{hi:04X};<Block, Last>;{gc};{ccc};{bidi};{dec};;;;N;;;;;\n')
            else:
                f.write(f'{lo:04X};CHARACTER {lo:04X};{gc};{ccc};{bidi};{dec};;;;N;;;;;\n')


def proto_rows(rows):
    out = []
    for lo, hi, gc, ccc, bidi, width, is_range in rows:
        w = '-' if width is None else f'{width:X}'
        if is_range:
            out.append(f'{lo:X}:f:{gc}:{ccc}:{bidi}:{w}')
            out.append(f'{hi:X}:l:{gc}:{ccc}:{bidi}:{w}')
        else:
            out.append(f'{lo:X}:p:{gc}:{ccc}:{bidi}:{w}')
    return ';'.join(out)


def canon_tables(outdir):
    """emitted .rs files -> canonical text (same syntax as the driver)"""
    g = translate.parse_rs(os.path.join(outdir, 'gc.rs'))
    b = translate.parse_rs(os.path.join(outdir, 'bidi.rs'))
    cps = lambda k, a, bb: f'S{a:X}' if k == 'S' else f'R{a:X}-{bb:X}'
    parts = []
    for name in ('CAT_LU', 'CAT_LL', 'CAT_ZS', 'CAT_MN', 'CAT_CC', 'UNASSIGNED', 'VIRAMA'):
        rows = g[name][1]
        parts.append(name.lower() + '=[' + ','.join(cps(k, a, bb) for k, a, bb, _ in rows) + ']')
    parts.append('width=[' + ','.join(cps(k, a, bb) + '>' + f'{int(v, 16):X}' for k, a, bb, v in g['WIDE_NARROW_MAPPING'][1]) + ']')
    parts.append('bidi=[' + ','.join(cps(k, a, bb) + ':' + v for k, a, bb, v in b['BIDI_CLASS_TABLE'][1]) + ']')
    return ';'.join(parts), g, b


def check_denotation(rows, g, b):
    """the property itself, computed independently: each table denotes exactly what the rows assign; searchable"""
    problems = []
    assign = {}
    for lo, hi, gc, ccc, bidi, width, _ in rows:
        for cp in range(lo, hi + 1):
            assign[cp] = (gc, ccc, bidi, width)

    def denote(entries):
        d = {}
        prev_hi = -1
        for k, a, bb, v in entries:
            if a > bb + 1 or a <= prev_hi:
                problems.append(f'not searchable: entry {a:X}..{bb:X} after end {prev_hi:X}')
            for cp in range(a, bb + 1):
                if cp in d and d[cp] != v:
                    problems.append(f'{cp:X} covered twice with different values')
                d[cp] = v
            prev_hi = max(prev_hi, bb)
        return d
    for name, gcn in (('CAT_LU', 'Lu'), ('CAT_LL', 'Ll'), ('CAT_ZS', 'Zs'), ('CAT_MN', 'Mn'), ('CAT_CC', 'Cc')):
        got = set(denote(g[name][1]))
        want = {cp for cp, a in assign.items() if a[0] == gcn}
        if got != want:
            x = min(got ^ want)
            problems.append(f'{name}: code point {x:X} {"missing" if x in want else "extra"}')
    got = set(denote(g['VIRAMA'][1]))
    want = {cp for cp, a in assign.items() if a[1] == 9}
    if got != want:
        x = min(got ^ want)
        problems.append(f'VIRAMA: code point {x:X} {"missing" if x in want else "extra"}')
    got = denote(g['UNASSIGNED'][1])
    # compare on a window that contains every boundary
    marks = sorted({0, 0x10FFFF} | {c for lo, hi, *_ in rows for c in (lo - 1, lo, hi, hi + 1) if 0 <= c <= 0x10FFFF})
    for cp in marks:
        if (cp in got) != (cp not in assign):
            problems.append(f'UNASSIGNED: code point {cp:X} {"missing" if cp not in assign else "extra"}')
            break
    got = denote([(k, a, bb, int(v, 16)) for k, a, bb, v in g['WIDE_NARROW_MAPPING'][1]])
    want = {cp: a[3] for cp, a in assign.items() if a[3] is not None}
    if got != want:
        problems.append('WIDE_NARROW_MAPPING differs from the input')
    got = denote(b['BIDI_CLASS_TABLE'][1])
    want = {cp: a[2] for cp, a in assign.items()}
    if got != want:
        ks = sorted(set(got) ^ set(want)) or sorted(k for k in want if got[k] != want[k])
        x = ks[0]
        problems.append(f'BIDI_CLASS_TABLE: code point {x:X} is {got.get(x)} in the table, {want.get(x)} in the input')
    return problems


def correspondence(ctx):
    corr = Corr()
    work = os.path.join(CACHE, 'run', 'C15')
    shutil.rmtree(work, ignore_errors=True)
    os.makedirs(work)
    rng = ctx.rng
    inputs = []
    # hand-picked shapes: the run structures the property names
    S = lambda cp, gc='Lu', bidi='L', ccc=0, w=None: (cp, cp, gc, ccc, bidi, w, False)
    R = lambda lo, hi, gc='Lo', bidi='L', ccc=0: (lo, hi, gc, ccc, bidi, None, True)
    inputs += [[], [S(0)], [S(5)], [S(0), S(1), S(2)], [S(0), S(2)], [R(0x10, 0x20)], [R(0x10, 0x20), S(0x21)], [R(0x10, 0x20), R(0x21, 0x30)], [R(0x10, 0x20), R(0x30, 0x40)],
               [R(0x3400, 0x4DB5, bidi='L'), S(0x4DB6, bidi='ON')], [R(0x10, 0x20, bidi='L'), R(0x30, 0x40, bidi='L'), S(0x41, bidi='R')], [S(0x5D0, bidi='R'), S(0x5D1, bidi='R')],
               [S(1, bidi='L'), S(2, bidi='R'), S(3, bidi='R'), S(5, bidi='R'), S(6, bidi='L')], [S(0x41, w=0x20), S(0x42), S(0x43, w=0x41)], [S(0x10FFFD)], [R(0x100000, 0x10FFFD)],
               [S(1, 'Mn', ccc=9), S(2, 'Mn', ccc=9), S(4, 'Mn', ccc=9), R(0x10, 0x12, 'Mn', ccc=9)],
               # ranges overlapping the surrogate block (ucd-parse code points are not scalar values), singles inside it
               [(0xD7F0, 0xE00F, 'Lu', 0, 'L', None, True)], [S(0xD7FF, 'Ll'), (0xD800, 0xDB7F, 'Cc', 0, 'L', None, True), (0xDB80, 0xDBFF, 'Cc', 0, 'L', None, True), (0xDC00, 0xDFFF, 'Mn', 9, 'NSM', None, True), (0xE000, 0xF8FF, 'Lu', 0, 'L', None, True)],
               [S(0xD800, 'Zs'), S(0xDFFF, 'Zs'), S(0xE000, 'Zs')], [(0xDFF0, 0xE010, 'Zs', 0, 'R', None, True), S(0xE011, 'Zs', 'R')]]
    for _ in range(250 if ctx.tier == 'quick' else 4000):
        inputs.append(gen_rows(rng))
    lines = []
    impl_tables = []
    for i, rows in enumerate(inputs):
        d = os.path.join(work, f'u{i}')
        o = os.path.join(d, 'out')
        write_ucd(rows, d)
        os.makedirs(o, exist_ok=True)
        r = subprocess.run([HARNESS, 'ucdgen', d, o], stdout=subprocess.PIPE, text=True, env=ENV)
        status = r.stdout.strip()
        corr.evaluations += 1
        if status != 'ok':
            impl_tables.append((status, None, None))
            corr.spec_violations.append((f'ucdgen|{proto_rows(rows)}', status, 'VIOLATED:the generators fail on a well-formed UCD input'))
        else:
            txt, g, b = canon_tables(o)
            impl_tables.append((txt, g, b))
            probs = check_denotation(rows, g, b)
            if probs:
                corr.spec_violations.append((f'ucdgen|{proto_rows(rows)}', txt, 'VIOLATED:' + probs[0]))
            corr.nontrivial.add((len(rows), sum(1 for r_ in rows if r_[6]), len(b['BIDI_CLASS_TABLE'][1]), len(g['UNASSIGNED'][1])))
        lines.append(f'ucdgen|{proto_rows(rows)}')
        shutil.rmtree(d, ignore_errors=True)
    # the model generators on the same rows
    r = subprocess.run([DRIVER], input='\n'.join(lines) + '\n', stdout=subprocess.PIPE, text=True, env=ENV)
    mod = [l.split('\t')[0] for l in r.stdout.split('\n') if l]
    for line, (txt, g, b), m in zip(lines, impl_tables, mod):
        if txt != m:
            corr.disagreements.append((line, txt, m))
    # the two pinned data sets: model generators on the parsed rows must reproduce the tables the build emitted
    for name, ucd, outdir, tabs in (('6.3.0', os.path.join(REPO, 'precis-core/resources/ucd/UnicodeData.txt'), ctx.core_out, 'core'),
                                    ('16.0.0', os.path.join(REPO, 'precis-profiles/resources/ucd/UnicodeData.txt'), ctx.prof_out, 'prof')):
        prow = []
        with open(ucd) as f:
            for l in f:
                fl = l.rstrip('\n').split(';')
                kind = 'f' if fl[1].endswith(', First>') else ('l' if fl[1].endswith(', Last>') else 'p')
                dec = fl[5].split()
                w = dec[1] if dec and dec[0] in ('<wide>', '<narrow>') else '-'
                prow.append(f'{int(fl[0], 16):X}:{kind}:{fl[2]}:{fl[3]}:{fl[4]}:{w}')
        r = subprocess.run([DRIVER], input='ucdgen|' + ';'.join(prow) + '\n', stdout=subprocess.PIPE, text=True, env=ENV)
        m = dict(p.split('=', 1) for p in r.stdout.split('\t')[0].strip().split(';') if '=' in p)
        cps = lambda k, a, bb: f'S{a:X}' if k == 'S' else f'R{a:X}-{bb:X}'
        corr.evaluations += 1
        if tabs == 'core':
            t = translate.parse_rs(os.path.join(outdir, 'precis_tables.rs'))
            c = translate.parse_rs(os.path.join(outdir, 'context_tables.rs'))
            for mn, rs in (('cat_lu', t['UPPERCASE_LETTER']), ('cat_ll', t['LOWERCASE_LETTER']), ('cat_zs', t['SPACE_SEPARATOR']), ('cat_mn', t['NONSPACING_MARK']), ('cat_cc', t['CONTROL']),
                           ('unassigned', t['UNASSIGNED']), ('virama', c['VIRAMA'])):
                want = '[' + ','.join(cps(k, a, bb) for k, a, bb, _ in rs[1]) + ']'
                if m.get(mn) != want:
                    corr.disagreements.append((f'pinned {name} {mn}', want[:200], (m.get(mn) or '')[:200]))
                corr.nontrivial.add(('pinned', name, mn, len(rs[1])))
        else:
            bt = translate.parse_rs(os.path.join(outdir, 'bidi_class.rs'))['BIDI_CLASS_TABLE'][1]
            wt = translate.parse_rs(os.path.join(outdir, 'width_mapping.rs'))['WIDE_NARROW_MAPPING'][1]
            zt = translate.parse_rs(os.path.join(outdir, 'space_separator.rs'))['SPACE_SEPARATOR'][1]
            for mn, want in (('bidi', '[' + ','.join(cps(k, a, bb) + ':' + v for k, a, bb, v in bt) + ']'),
                             ('width', '[' + ','.join(cps(k, a, bb) + '>' + f'{int(v, 16):X}' for k, a, bb, v in wt) + ']'),
                             ('cat_zs', '[' + ','.join(cps(k, a, bb) for k, a, bb, _ in zt) + ']')):
                if m.get(mn) != want:
                    corr.disagreements.append((f'pinned {name} {mn}', want[:200], (m.get(mn) or '')[:200]))
                corr.nontrivial.add(('pinned', name, mn))
    corr.samples = [{'rows': l[:160], 'tables': t[0][:200] if t[0] else None} for l, t in list(zip(lines, impl_tables))[:4]]
    corr.rule = (f'the real precis-tools generators (UcdTableGen for 5 categories, UnassignedTableGen, ViramaTableGen, WidthMappingTableGen, BidiClassGen through GeneralCategoryGen/UcdFileGen/RustCodeGen and ucd-parse) run on {len(inputs)} synthetic well-formed UCD directories '
                 '(17 hand-picked run structures: adjacent ranges, range next to single, class change after a range, trailing run, last row anywhere, empty file; plus random ascending rows with First/Last pairs); emitted tables parsed back and (1) checked to denote exactly the input and to be searchable, '
                 '(2) compared entry for entry with the Lean model generators; plus the two pinned data sets (model generators on the parsed 6.3.0 / 16.0.0 rows must reproduce the tables the build emitted). distinct_nontrivial = distinct (rows, ranges, bidi entries, gaps) shapes')
    return corr
