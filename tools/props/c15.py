"""C15 — Table generators are faithful to any well-formed UCD input."""
import os
import shutil
import subprocess
import sys
from props.common import *
from verif import CACHE, ENV, VERIF, REPO, LEAN
sys.path.insert(0, os.path.join(VERIF, 'tools'))
import translate
import ucd_spec

ASSUMPTIONS = ['well-formed input = UnicodeData rows strictly ascending, First/Last lines paired, no row for U+10FFFE/U+10FFFF (noncharacters are never listed), property files listing each code point at most once per property',
               'ucd-parse (line syntax) and the text writer are inside the compared path (real generators run on real files), not inside the Lean model']
TRUSTED = ['model of the generators in lean/Precis/Model/Generators.lean validated by running the real precis-tools generators on synthetic UCD directories and on the two pinned data sets']
FACT_MODULES = ['Precis.Facts.Prof', 'Precis.Facts.Core', 'Precis.Props.C15Fold']
GCS = ['Lu', 'Ll', 'Zs', 'Mn', 'Cc', 'Lo']
BIDIS = ['L', 'R', 'NSM', 'ON']


def gen_rows(rng, shape=None):
    """random well-formed rows: (lo, hi, gc, ccc, bidi, width)"""
    rows = []
    cp = rng.choice([0, 0, 1, 5, 0xD7F8, 0xDFF0])
    n = rng.randrange(0, 14)
    top = rng.choice([0x60, 0x60, 0x400, 0x10FFFD]) if cp < 0x1000 else 0xE100
    for _ in range(n):
        if cp > top:
            break
        is_range = rng.random() < 0.3
        hi = min(cp + rng.choice([1, 2, 5, 300]), top) if is_range else cp
        if hi == cp:
            is_range = rng.random() < 0.05   # First/Last with equal ends does not occur; keep singles
            is_range = False
        gc = rng.choice(GCS)
        ccc = rng.choice([0, 0, 9, 230])
        bidi = rng.choice(BIDIS)
        width = rng.choice([None, None, None, 0x41, 0x20]) if not is_range else rng.choice([None, None, 0x25A1])
        rows.append((cp, hi, gc, ccc, bidi, width, is_range))
        cp = hi + rng.choice([1, 1, 1, 2, 3, 0x100]) if top > 0x400 or rng.random() < 0.9 else hi + 1
    return rows


def write_ucd(rows, d):
    os.makedirs(d, exist_ok=True)
    with open(os.path.join(d, 'UnicodeData.txt'), 'w') as f:
        for lo, hi, gc, ccc, bidi, width, is_range in rows:
            dec = f'<{"narrow" if lo % 2 else "wide"}> {width:04X}' if width is not None else ('<compat> 0020' if lo % 7 == 3 and not is_range else '')
            if is_range:
                f.write(f'{lo:04X};<Block, First>;{gc};{ccc};{bidi};{dec};;;;N;;;;;\n')
                f.write(f'{hi:04X};<Block, Last>;{gc};{ccc};{bidi};{dec};;;;N;;;;;\n')
            else:
                f.write(f'{lo:04X};CHARACTER {lo:04X};{gc};{ccc};{bidi};{dec};;;;N;;;;;\n')


PROPFILES = {   # file key -> (path, values with a table, other values, single-valued?)
    's': ('Scripts.txt', ['Greek', 'Hebrew', 'Han'], ['Latin'], True),
    'j': ('extracted/DerivedJoiningType.txt', ['D', 'L', 'R', 'T'], ['C'], True),
    'p': ('PropList.txt', ['Join_Control', 'Noncharacter_Code_Point'], ['White_Space'], False),
    'c': ('DerivedCoreProperties.txt', ['Default_Ignorable_Code_Point'], ['Alphabetic'], False),
    'h': ('HangulSyllableType.txt', ['L', 'V', 'T'], ['LV'], True),
}
PROPTABLES = [('s', 'Greek', 's_greek'), ('s', 'Hebrew', 's_hebrew'), ('s', 'Han', 's_han'), ('j', 'D', 'j_d'), ('j', 'L', 'j_l'), ('j', 'R', 'j_r'), ('j', 'T', 'j_t'),
              ('p', 'Join_Control', 'p_jc'), ('p', 'Noncharacter_Code_Point', 'p_nc'), ('c', 'Default_Ignorable_Code_Point', 'c_di'), ('h', 'L', 'h_l'), ('h', 'V', 'h_v'), ('h', 'T', 'h_t')]


def gen_props(rng, mode=None):
    """random well-formed property files: per file a list of (lo, hi, value) lines.  UAX #44 gives the ORDER of lines no
    meaning, so lines are emitted grouped by value in ascending order (like the published files), grouped with the groups
    restarting from low code points, or fully shuffled; a code point is listed at most once per value (and at most once
    per file for the single-valued properties)."""
    out = {}
    for key, (_, vals, others, single) in PROPFILES.items():
        lines = []
        allv = vals + others
        base = rng.choice([0, 0, 0x300, 0xD7F0, 0x10FF00])
        if single:
            cp = base
            for _ in range(rng.randrange(0, 12)):
                cp += rng.choice([0, 0, 0, 1, 2, 7, 0x100])
                hi = cp + rng.choice([0, 0, 0, 1, 2, 9, 300])
                if hi > 0x10FFFF:
                    break
                lines.append((cp, hi, rng.choice(allv)))
                cp = hi + 1
        else:
            for v in allv:
                cp = base
                for _ in range(rng.randrange(0, 6)):
                    cp += rng.choice([0, 0, 1, 2, 7, 0x100])
                    hi = cp + rng.choice([0, 0, 0, 1, 2, 9])
                    if hi > 0x10FFFF:
                        break
                    lines.append((cp, hi, v))
                    cp = hi + 1
        m = rng.randrange(4) if mode is None else mode
        if m == 0:
            lines.sort(key=lambda l: (allv.index(l[2]), l[0]))           # grouped by value, ascending (published layout)
        elif m == 1:
            lines.sort(key=lambda l: (allv.index(l[2]), -l[0]))          # grouped, descending
        elif m == 2:
            rng.shuffle(lines)                                          # any order
        # m == 3: ascending by code point, values interleaved
        out[key] = lines
    return out


def write_props(props, d):
    os.makedirs(os.path.join(d, 'extracted'), exist_ok=True)
    for key, (path, *_rest) in PROPFILES.items():
        with open(os.path.join(d, path), 'w') as f:
            f.write('# synthetic\n\n')
            for lo, hi, v in props.get(key, []):
                cps = f'{lo:04X}' if lo == hi else f'{lo:04X}..{hi:04X}'
                f.write(f'{cps:<14}; {v} # Lo  SYNTHETIC\n')
            f.write('\n# EOF\n')


def proto_props(props):
    return ';'.join(f'{key}:{lo:X}-{hi:X}:{v}' for key in PROPFILES for lo, hi, v in props.get(key, []))


def check_props(props, pt):
    problems = []
    for key, val, name in PROPTABLES:
        want = set()
        for lo, hi, v in props.get(key, []):
            if v == val:
                want.update(range(lo, hi + 1))
        got = set()
        prev_hi = -1
        for k, a, bb, _ in pt[name.upper()][1]:
            if a > bb or a <= prev_hi:
                problems.append(f'{name.upper()}: not searchable: entry {a:X}..{bb:X} after end {prev_hi:X}')
            got.update(range(a, bb + 1))
            prev_hi = max(prev_hi, bb)
        if got != want:
            x = min(got ^ want)
            problems.append(f'{name.upper()}: code point {x:X} {"missing" if x in want else "extra"}')
    return problems


def proto_rows(rows):
    out = []
    for lo, hi, gc, ccc, bidi, width, is_range in rows:
        w = '-' if width is None else f'{width:X}'
        if is_range:
            out.append(f'{lo:X}:f:{gc}:{ccc}:{bidi}:{w}')
            out.append(f'{hi:X}:l:{gc}:{ccc}:{bidi}:{w}')
        else:
            out.append(f'{lo:X}:p:{gc}:{ccc}:{bidi}:{w}')
    return ';'.join(out)


def canon_tables(outdir):
    """emitted .rs files -> canonical text (same syntax as the driver)"""
    g = translate.parse_rs(os.path.join(outdir, 'gc.rs'))
    b = translate.parse_rs(os.path.join(outdir, 'bidi.rs'))
    cps = lambda k, a, bb: f'S{a:X}' if k == 'S' else f'R{a:X}-{bb:X}'
    parts = []
    for name in ('CAT_LU', 'CAT_LL', 'CAT_ZS', 'CAT_MN', 'CAT_CC', 'UNASSIGNED', 'VIRAMA'):
        rows = g[name][1]
        parts.append(name.lower() + '=[' + ','.join(cps(k, a, bb) for k, a, bb, _ in rows) + ']')
    parts.append('width=[' + ','.join(cps(k, a, bb) + '>' + f'{int(v, 16):X}' for k, a, bb, v in g['WIDE_NARROW_MAPPING'][1]) + ']')
    parts.append('bidi=[' + ','.join(cps(k, a, bb) + ':' + v for k, a, bb, v in b['BIDI_CLASS_TABLE'][1]) + ']')
    txt = ';'.join(parts)
    pt = None
    pf = os.path.join(outdir, 'props.rs')
    if os.path.exists(pf):
        pt = translate.parse_rs(pf)
        txt += ';' + ';'.join(name + '=[' + ','.join(cps(k, a, bb) for k, a, bb, _ in pt[name.upper()][1]) + ']' for _, _, name in PROPTABLES)
    return txt, g, b, pt


def check_denotation(rows, g, b):
    """the property itself, computed independently: each table denotes exactly what the rows assign; searchable"""
    problems = []
    assign = {}
    for lo, hi, gc, ccc, bidi, width, _ in rows:
        for cp in range(lo, hi + 1):
            assign[cp] = (gc, ccc, bidi, width)

    def denote(entries):
        d = {}
        prev_hi = -1
        for k, a, bb, v in entries:
            if a > bb + 1 or a <= prev_hi:
                problems.append(f'not searchable: entry {a:X}..{bb:X} after end {prev_hi:X}')
            for cp in range(a, bb + 1):
                if cp in d and d[cp] != v:
                    problems.append(f'{cp:X} covered twice with different values')
                d[cp] = v
            prev_hi = max(prev_hi, bb)
        return d
    for name, gcn in (('CAT_LU', 'Lu'), ('CAT_LL', 'Ll'), ('CAT_ZS', 'Zs'), ('CAT_MN', 'Mn'), ('CAT_CC', 'Cc')):
        got = set(denote(g[name][1]))
        want = {cp for cp, a in assign.items() if a[0] == gcn}
        if got != want:
            x = min(got ^ want)
            problems.append(f'{name}: code point {x:X} {"missing" if x in want else "extra"}')
    got = set(denote(g['VIRAMA'][1]))
    want = {cp for cp, a in assign.items() if a[1] == 9}
    if got != want:
        x = min(got ^ want)
        problems.append(f'VIRAMA: code point {x:X} {"missing" if x in want else "extra"}')
    got = denote(g['UNASSIGNED'][1])
    # compare on a window that contains every boundary
    marks = sorted({0, 0x10FFFF} | {c for lo, hi, *_ in rows for c in (lo - 1, lo, hi, hi + 1) if 0 <= c <= 0x10FFFF})
    for cp in marks:
        if (cp in got) != (cp not in assign):
            problems.append(f'UNASSIGNED: code point {cp:X} {"missing" if cp not in assign else "extra"}')
            break
    got = denote([(k, a, bb, int(v, 16)) for k, a, bb, v in g['WIDE_NARROW_MAPPING'][1]])
    want = {cp: a[3] for cp, a in assign.items() if a[3] is not None}
    if got != want:
        problems.append('WIDE_NARROW_MAPPING differs from the input')
    got = denote(b['BIDI_CLASS_TABLE'][1])
    want = {cp: a[2] for cp, a in assign.items()}
    if got != want:
        ks = sorted(set(got) ^ set(want)) or sorted(k for k in want if got[k] != want[k])
        x = ks[0]
        problems.append(f'BIDI_CLASS_TABLE: code point {x:X} is {got.get(x)} in the table, {want.get(x)} in the input')
    return problems


def correspondence(ctx):
    corr = Corr()
    work = os.path.join(CACHE, 'run', 'C15')
    shutil.rmtree(work, ignore_errors=True)
    os.makedirs(work)
    rng = ctx.rng
    inputs = []
    # hand-picked shapes: the run structures the property names
    S = lambda cp, gc='Lu', bidi='L', ccc=0, w=None: (cp, cp, gc, ccc, bidi, w, False)
    R = lambda lo, hi, gc='Lo', bidi='L', ccc=0: (lo, hi, gc, ccc, bidi, None, True)
    inputs += [[], [S(0)], [S(5)], [S(0), S(1), S(2)], [S(0), S(2)], [R(0x10, 0x20)], [R(0x10, 0x20), S(0x21)], [R(0x10, 0x20), R(0x21, 0x30)], [R(0x10, 0x20), R(0x30, 0x40)],
               [R(0x3400, 0x4DB5, bidi='L'), S(0x4DB6, bidi='ON')], [R(0x10, 0x20, bidi='L'), R(0x30, 0x40, bidi='L'), S(0x41, bidi='R')], [S(0x5D0, bidi='R'), S(0x5D1, bidi='R')],
               [S(1, bidi='L'), S(2, bidi='R'), S(3, bidi='R'), S(5, bidi='R'), S(6, bidi='L')], [S(0x41, w=0x20), S(0x42), S(0x43, w=0x41)], [S(0x10FFFD)], [R(0x100000, 0x10FFFD)],
               [S(1, 'Mn', ccc=9), S(2, 'Mn', ccc=9), S(4, 'Mn', ccc=9), R(0x10, 0x12, 'Mn', ccc=9)],
               # ranges overlapping the surrogate block (ucd-parse code points are not scalar values), singles inside it
               [(0xD7F0, 0xE00F, 'Lu', 0, 'L', None, True)], [S(0xD7FF, 'Ll'), (0xD800, 0xDB7F, 'Cc', 0, 'L', None, True), (0xDB80, 0xDBFF, 'Cc', 0, 'L', None, True), (0xDC00, 0xDFFF, 'Mn', 9, 'NSM', None, True), (0xE000, 0xF8FF, 'Lu', 0, 'L', None, True)],
               [(0x2FE0, 0x2FEF, 'So', 0, 'ON', 0x25A1, True), S(0x3000, 'Zs', 'WS', w=0x20), S(0xFF01, 'Po', 'ON', w=0x21)],
               [S(0x3000, 'Zs', 'WS', w=0x20), (0x3400, 0x3410, 'Lo', 0, 'L', 0x4E00, True), (0x3420, 0x3430, 'Lo', 0, 'L', 0x4E01, True), S(0xFF01, 'Po', 'ON', w=0x21)],
               [S(0xD800, 'Zs'), S(0xDFFF, 'Zs'), S(0xE000, 'Zs')], [(0xDFF0, 0xE010, 'Zs', 0, 'R', None, True), S(0xE011, 'Zs', 'R')]]
    # escalated quick run (source changed): 1500 directories (~4 min) rather than the 4000 of the thorough tier
    for _ in range(250 if ctx.tier == 'quick' else (1500 if ctx.requested_tier == 'quick' else 4000)):
        inputs.append(gen_rows(rng))
    # property files: hand-picked line orders (ascending; blocks listed out of order; adjacent pieces split over
    # non-adjacent lines so that merging needs the sort) plus random ones for every input
    P = lambda **kw: {k: v for k, v in kw.items()}
    hand_props = [
        P(s=[(0x370, 0x373, 'Greek'), (0x375, 0x375, 'Greek'), (0x376, 0x377, 'Greek'), (0x1F00, 0x1F15, 'Greek')]),
        P(s=[(0x1F00, 0x1F15, 'Greek'), (0x1F18, 0x1F1D, 'Greek'), (0x370, 0x373, 'Greek'), (0x375, 0x375, 'Greek'), (0x376, 0x377, 'Greek')]),
        P(s=[(0x12, 0x13, 'Han'), (0x10, 0x11, 'Han'), (0x14, 0x14, 'Han')], j=[(5, 5, 'D'), (3, 3, 'D'), (4, 4, 'D'), (1, 1, 'R')]),
        P(p=[(0x200C, 0x200D, 'Join_Control'), (0xFDD0, 0xFDEF, 'Noncharacter_Code_Point'), (0x1FFFE, 0x1FFFF, 'Noncharacter_Code_Point'), (0xFFFE, 0xFFFF, 'Noncharacter_Code_Point'), (0x200C, 0x200D, 'White_Space')]),
        P(h=[(0x1160, 0x11A7, 'V'), (0x1100, 0x115F, 'L'), (0x11A8, 0x11FF, 'T'), (0xA960, 0xA97C, 'L')], c=[(0xAD, 0xAD, 'Default_Ignorable_Code_Point'), (0x34F, 0x34F, 'Default_Ignorable_Code_Point'), (0, 0, 'Default_Ignorable_Code_Point')]),
        P(s=[(0x10FFFF, 0x10FFFF, 'Hebrew'), (0, 0, 'Hebrew'), (0xD7FF, 0xE000, 'Hebrew')]),
    ]
    all_props = []
    for i in range(len(inputs)):
        all_props.append(hand_props[i] if i < len(hand_props) else gen_props(rng))
    # ILL-FORMED UnicodeData (outside the property, inside the model): unpaired / reversed First-Last lines must be an error
    # of the parser in the implementation exactly when `parseUnicodeData` of the model returns none
    RAW = lambda cp, kind, gc='Lo', bidi='L': (cp, kind, gc, 0, bidi)
    malformed = [[RAW(0x10, 'f')], [RAW(0x10, 'l')], [RAW(0x10, 'f'), RAW(0x20, 'p')], [RAW(0x10, 'f'), RAW(0x20, 'f'), RAW(0x30, 'l')],
                 [RAW(0x20, 'f'), RAW(0x10, 'l')], [RAW(0x5, 'p'), RAW(0x10, 'l')], [RAW(0x10, 'f'), RAW(0x20, 'l'), RAW(0x30, 'l')],
                 [RAW(0x10, 'f'), RAW(0x10, 'l')], [RAW(0x10, 'f'), RAW(0x20, 'l'), RAW(0x30, 'f')]]
    lines = []
    impl_tables = []
    for i, raw in enumerate(malformed):
        d = os.path.join(work, f'm{i}')
        o = os.path.join(d, 'out')
        os.makedirs(o, exist_ok=True)
        with open(os.path.join(d, 'UnicodeData.txt'), 'w') as f:
            for cp, kind, gc, ccc, bidi in raw:
                nm = {'f': '<Block, First>', 'l': '<Block, Last>', 'p': f'CHARACTER {cp:04X}'}[kind]
                f.write(f'{cp:04X};{nm};{gc};{ccc};{bidi};;;;;N;;;;;\n')
        r = subprocess.run([HARNESS, 'ucdgen', d, o], stdout=subprocess.PIPE, text=True, env=ENV)
        status = r.stdout.strip()
        corr.evaluations += 1
        corr.count('malformed_unicodedata:' + ('rejected' if status.startswith('err') else status[:12]))
        if status == 'PANIC':
            corr.spec_violations.append((f'ucdgen-malformed|{raw}', status, 'VIOLATED:the parser panics on ill-formed input instead of returning an error'))
        impl_tables.append(('err' if status.startswith('err') else 'accepted', None, None))
        lines.append('ucdgen|' + ';'.join(f'{cp:X}:{kind}:{gc}:{ccc}:{bidi}:-' for cp, kind, gc, ccc, bidi in raw))
        shutil.rmtree(d, ignore_errors=True)
    nmal = len(malformed)
    for i, rows in enumerate(inputs):
        d = os.path.join(work, f'u{i}')
        o = os.path.join(d, 'out')
        write_ucd(rows, d)
        write_props(all_props[i], d)
        os.makedirs(o, exist_ok=True)
        r = subprocess.run([HARNESS, 'ucdgen', d, o], stdout=subprocess.PIPE, text=True, env=ENV)
        status = r.stdout.strip()
        corr.evaluations += 1
        if status != 'ok':
            impl_tables.append((status, None, None))
            corr.spec_violations.append((f'ucdgen|{proto_rows(rows)}|{proto_props(all_props[i])}', status, 'VIOLATED:the generators fail on a well-formed UCD input'))
        else:
            txt, g, b, pt = canon_tables(o)
            impl_tables.append((txt, g, b))
            probs = check_denotation(rows, g, b) + check_props(all_props[i], pt)
            if probs:
                corr.spec_violations.append((f'ucdgen|{proto_rows(rows)}|{proto_props(all_props[i])}', txt, 'VIOLATED:' + probs[0]))
            corr.nontrivial.add((len(rows), sum(1 for r_ in rows if r_[6]), len(b['BIDI_CLASS_TABLE'][1]), len(g['UNASSIGNED'][1])))
            corr.nontrivial.add(('props',) + tuple(len(pt[name.upper()][1]) for _, _, name in PROPTABLES[:7]))
        lines.append(f'ucdgen|{proto_rows(rows)}|{proto_props(all_props[i])}')
        shutil.rmtree(d, ignore_errors=True)
    # the model generators on the same rows
    r = subprocess.run([DRIVER], input='\n'.join(lines) + '\n', stdout=subprocess.PIPE, text=True, env=ENV)
    mod = [l.split('\t')[0] for l in r.stdout.split('\n') if l]
    for k, (line, (txt, g, b), m) in enumerate(zip(lines, impl_tables, mod)):
        if k < nmal:
            m = 'err' if m.startswith('err:parse') else 'accepted'
        if txt != m:
            corr.disagreements.append((line, txt, m))
    # the two pinned data sets: model generators on the parsed rows must reproduce the tables the build emitted
    for name, ucd, outdir, tabs in (('6.3.0', os.path.join(REPO, 'precis-core/resources/ucd/UnicodeData.txt'), ctx.core_out, 'core'),
                                    ('16.0.0', os.path.join(REPO, 'precis-profiles/resources/ucd/UnicodeData.txt'), ctx.prof_out, 'prof')):
        prow = []
        with open(ucd) as f:
            for l in f:
                fl = l.rstrip('\n').split(';')
                kind = 'f' if fl[1].endswith(', First>') else ('l' if fl[1].endswith(', Last>') else 'p')
                dec = fl[5].split()
                w = dec[1] if dec and dec[0] in ('<wide>', '<narrow>') else '-'
                prow.append(f'{int(fl[0], 16):X}:{kind}:{fl[2]}:{fl[3]}:{fl[4]}:{w}')
        r = subprocess.run([DRIVER], input='ucdgen|' + ';'.join(prow) + '\n', stdout=subprocess.PIPE, text=True, env=ENV)
        m = dict(p.split('=', 1) for p in r.stdout.split('\t')[0].strip().split(';') if '=' in p)
        cps = lambda k, a, bb: f'S{a:X}' if k == 'S' else f'R{a:X}-{bb:X}'
        corr.evaluations += 1
        if tabs == 'core':
            t = translate.parse_rs(os.path.join(outdir, 'precis_tables.rs'))
            c = translate.parse_rs(os.path.join(outdir, 'context_tables.rs'))
            for mn, rs in (('cat_lu', t['UPPERCASE_LETTER']), ('cat_ll', t['LOWERCASE_LETTER']), ('cat_zs', t['SPACE_SEPARATOR']), ('cat_mn', t['NONSPACING_MARK']), ('cat_cc', t['CONTROL']),
                           ('unassigned', t['UNASSIGNED']), ('virama', c['VIRAMA'])):
                want = '[' + ','.join(cps(k, a, bb) for k, a, bb, _ in rs[1]) + ']'
                if m.get(mn) != want:
                    corr.disagreements.append((f'pinned {name} {mn}', want[:200], (m.get(mn) or '')[:200]))
                corr.nontrivial.add(('pinned', name, mn, len(rs[1])))
        else:
            bt = translate.parse_rs(os.path.join(outdir, 'bidi_class.rs'))['BIDI_CLASS_TABLE'][1]
            wt = translate.parse_rs(os.path.join(outdir, 'width_mapping.rs'))['WIDE_NARROW_MAPPING'][1]
            zt = translate.parse_rs(os.path.join(outdir, 'space_separator.rs'))['SPACE_SEPARATOR'][1]
            for mn, want in (('bidi', '[' + ','.join(cps(k, a, bb) + ':' + v for k, a, bb, v in bt) + ']'),
                             ('width', '[' + ','.join(cps(k, a, bb) + '>' + f'{int(v, 16):X}' for k, a, bb, v in wt) + ']'),
                             ('cat_zs', '[' + ','.join(cps(k, a, bb) for k, a, bb, _ in zt) + ']')):
                if m.get(mn) != want:
                    corr.disagreements.append((f'pinned {name} {mn}', want[:200], (m.get(mn) or '')[:200]))
                corr.nontrivial.add(('pinned', name, mn))
    corr.samples = [{'rows': l[:160], 'tables': t[0][:200] if t[0] else None} for l, t in list(zip(lines, impl_tables))[:4]]
    corr.rule = (f'the real precis-tools generators (UcdTableGen for 5 categories, UnassignedTableGen, ViramaTableGen, WidthMappingTableGen, BidiClassGen through GeneralCategoryGen/UcdFileGen/RustCodeGen and ucd-parse) run on {len(inputs)} synthetic well-formed UCD directories '
                 '(17 hand-picked run structures: adjacent ranges, range next to single, class change after a range, trailing run, last row anywhere, empty file; plus random ascending rows with First/Last pairs); emitted tables parsed back and (1) checked to denote exactly the input and to be searchable, '
                 '(2) compared entry for entry with the Lean model generators; plus the two pinned data sets (model generators on the parsed 6.3.0 / 16.0.0 rows must reproduce the tables the build emitted). distinct_nontrivial = distinct (rows, ranges, bidi entries, gaps) shapes')
    return corr
