"""C17 — The PRECIS registry CSV parser reads back exactly what a row says."""
import re
from props.common import *
import os
from verif import CACHE

ASSUMPTIONS = ['well-formed rows are written in the registry\'s form: upper-case hexadecimal code points (1-8 digits), the seven property names, pairs joined by " or "',
               'lower-case hexadecimal digits and other white space around "or" are outside the statement: compared model-vs-implementation only']
TRUSTED = ['regex crate, u32::from_str_radix, ucd_parse::Codepoint, BufRead::read_line are modelled by their documented behaviour in lean/Precis/Model/Csv.lean (validated by the correspondence)']
NAMES = ['PVALID', 'FREE_PVAL', 'CONTEXTJ', 'CONTEXTO', 'DISALLOWED', 'ID_DIS', 'UNASSIGNED']
CHARSET = '0123456789ABCDEFabcdefGg,+- _orxzZ\t\n '


def enc(s):
    return ' '.join(f'{ord(c):04X}' for c in s)


def expect(line):
    """what the property demands for this line: 'ok:...', 'err' or 'any' (outside the statement)"""
    parts = line.split(',', 2)
    if len(parts) < 3:
        return 'err'
    f1, f2, desc = parts
    # field 1
    if re.fullmatch(r'[0-9A-F]+', f1):
        cps_ok, unspec = True, False
    elif re.fullmatch(r'[0-9A-F]+-[0-9A-F]+', f1):
        cps_ok, unspec = True, False
    elif re.fullmatch(r'[0-9A-Fa-f]+', f1) or re.fullmatch(r'[0-9A-Fa-f]+-[0-9A-Fa-f]+', f1):
        cps_ok, unspec = None, True      # lower-case digits: unspecified
    else:
        cps_ok, unspec = False, False    # malformed: sign, other characters, empty, stray '-'
    vals = []
    if cps_ok or unspec:
        for h in f1.split('-'):
            v = int(h, 16)
            if v > 0x10FFFF:
                cps_ok, unspec = False, False
            vals.append(v)
    # field 2
    if f2 in NAMES:
        p_ok, p_unspec, props = True, False, f2
    else:
        m = re.fullmatch(r'([A-Z_]+)(\s+)or(\s+)([A-Z_]+)', f2)
        if m and m.group(1) in NAMES and m.group(4) in NAMES:
            props = m.group(1) + '+' + m.group(4)
            if m.group(2) == ' ' and m.group(3) == ' ':
                p_ok, p_unspec = True, False
            else:
                p_ok, p_unspec = None, True
        else:
            p_ok, p_unspec, props = False, False, None
    if cps_ok is False or p_ok is False:
        return 'err'
    if unspec or p_unspec:
        return 'any'
    cps = f'S:{vals[0]:04X}' if len(vals) == 1 else f'R:{vals[0]:04X}-{vals[1]:04X}'
    return f'ok:{cps};{props};{enc(desc)}'


def correspondence(ctx):
    corr = Corr()
    rng = ctx.rng
    seeds = ['0020,ID_DIS or FREE_PVAL,SPACE', '0000-001F,DISALLOWED,NULL..INFORMATION SEPARATOR ONE', '00B7,CONTEXTO,MIDDLE DOT', '10FFFE-10FFFF,DISALLOWED,<noncharacter>..<noncharacter>',
             '200D,CONTEXTJ,ZERO WIDTH JOINER', '0378-0379,UNASSIGNED,<reserved>', '0041,PVALID,A, B, and "C",,', 'E,FREE_PVAL,', '0000041,ID_DIS,x\n', 'FFFFFFFF,PVALID,too big', '110000,PVALID,not a code point',
             '0041-110000,PVALID,x', '41-5A,FREE_PVAL or ID_DIS,日本, \U00020000']
    lines = list(seeds)
    # rendered random well-formed rows: all code points / ranges, all names and ordered pairs, arbitrary descriptions
    for _ in range(3000 if ctx.tier == 'quick' else 60000):
        w = rng.randrange(1, 9)
        def cp():
            v = rng.choice([rng.randrange(0x110000), rng.randrange(0x300), 0, 0x10FFFF])
            return f'{v:0{rng.randrange(1, 9)}X}'[-8:] if v < 16 ** 8 else f'{v:X}'
        f1 = cp() if rng.random() < 0.5 else cp() + '-' + cp()
        f2 = rng.choice(NAMES) if rng.random() < 0.5 else rng.choice(NAMES) + ' or ' + rng.choice(NAMES)
        desc = ''.join(rng.choice('ABC xyz,,..<>-+é日\U00020000') for _ in range(rng.randrange(0, 12)))
        lines.append(f'{f1},{f2},{desc}' + ('\n' if rng.random() < 0.5 else ''))
    # over-long hexadecimal fields: 9-20 digits whose LOW 32 bits are a valid code point (a wrapping accumulator would
    # accept them), values just above u32::MAX, long zero-padded valid ones; alone and at either end of a range
    longs = []
    for v in (0x41, 0, 0x10FFFF, 0x5A, 0x200D):
        for hi in (1, 0xF, 0x10, 0x100, 0xFFFFFFFF, 0x1000000000, rng.randrange(1, 1 << 40)):
            longs.append(f'{(hi << 32) | v:X}')
        longs.append(f'{v:012X}')
        longs.append(f'{v:020X}')
    longs += ['100000000', 'FFFFFFFFF', '10000000000000000', '1' + '0' * 31 + '41']
    for h in longs:
        lines.append(f'{h},PVALID,x')
        lines.append(f'{h}-10FFFF,PVALID,x')
        lines.append(f'0000-{h},DISALLOWED,x')
    for n in list(range(100, 140, 3)) + list(range(225, 262)) + [511, 512, 513, 1023, 1024, 1025, 4096] + [x + d for x in getattr(ctx, 'extra_nums', []) if 16 <= x <= 9000 for d in range(-8, 9)]:
        for ch in ('\u00e9', '\u20ac', '\U00020000'):
            for pad in ('', 'Z', 'ZZ', 'ZZZ'):
                bad = pad + ch * n
                lines.append(f'{bad},PVALID,LATIN SMALL LETTER E WITH ACUTE')          # malformed code point field
                if n % 4 == 1:
                    lines.append(f'0041,{bad},LATIN CAPITAL LETTER A')                # unknown property name
                    lines.append(f'0041-{bad},PVALID,x')                              # malformed range end
                    lines.append(f'0041,PVALID or {bad},x')                           # malformed second name of a pair
    for p in NAMES:
        lines.append(f'0041,{p},x')
        for q in NAMES:
            lines.append(f'0041-005A,{p} or {q},x')
    # every single-edit corruption (delete / replace / insert one character) of the seed rows
    nseed = len(seeds) if ctx.tier == 'thorough' else 6
    for s in seeds[:nseed]:
        for i in range(len(s) + 1):
            for c in CHARSET:
                lines.append(s[:i] + c + s[i:])
                if i < len(s):
                    lines.append(s[:i] + c + s[i + 1:])
            if i < len(s):
                lines.append(s[:i] + s[i + 1:])
    lines = list(dict.fromkeys(lines))
    cases = [f'csvrow|{enc(l)}||{expect(l)}' for l in lines]
    # whole files through CsvLineParser::from_path: header skipped, order, line numbers
    work = os.path.join(CACHE, 'run', 'C17')
    os.makedirs(work, exist_ok=True)
    for _ in range(300 if ctx.tier == 'quick' else 3000):
        n = rng.randrange(0, 7)
        body = [rng.choice(lines[:400]).replace('\n', '') for _ in range(n)]
        crlf = rng.random() < 0.35
        content = 'Codepoint,Property,Description\n' + '\n'.join(body) + ('\n' if rng.random() < 0.7 else '')
        if crlf:
            # CR LF terminators (as in the published registry file): the CR belongs to the description text, the LF ends the line
            content = content.replace('\n', '\r\n')
        exp = []
        flines = content.split('\n')
        if flines and flines[-1] == '':
            flines.pop()
            term = ['\n'] * len(flines)
        else:
            term = ['\n'] * (len(flines) - 1) + ['']
        anyflag = False
        for i, (l, t) in enumerate(zip(flines, term)):
            if i == 0:
                continue
            e = expect(l + t)
            if e == 'any':
                anyflag = True
            exp.append(e if e != 'err' else f'err@{i + 1}')
        cases.append(f'csvfile|{work}|{enc(content)}|' + ('any' if anyflag else '[' + ' / '.join(exp) + ']'))
    # very long lines: a reader that limits or chunks what it reads per line (4 KiB, 64 KiB, ...) splits a row in two
    for n in sorted(set(([4097, 65537, 70000] if ctx.tier == 'quick' else [4095, 4096, 4097, 8192, 65535, 65536, 65537, 70000, 131073]) + [x + d for x in getattr(ctx, 'extra_nums', []) if 64 <= x <= 100000 for d in (-1, 0, 1)] +
                        [x * 1024 + d for x in getattr(ctx, 'extra_nums', []) if 1 <= x <= 512 for d in (-1, 0, 1)])):
        body = ['0020,ID_DIS or FREE_PVAL,' + 'X' * n, '0041,PVALID,after the long row', '0042,BOGUS,error row', '0043,PVALID,last']
        content = 'Codepoint,Property,Description\n' + '\n'.join(body) + '\n'
        exp = [expect(l + '\n') for l in body]
        exp = [e if e != 'err' else f'err@{i + 2}' for i, e in enumerate(exp)]
        cases.append(f'csvfile|{work}|{enc(content)}|[' + ' / '.join(exp) + ']')
        body2 = ['0020,DISALLOWED,' + '-' * (n - 16) + 'E000,PVALID,<private-use-E000>', '0041,PVALID,x']
        content2 = 'Codepoint,Property,Description\n' + '\n'.join(body2) + '\n'
        cases.append(f'csvfile|{work}|{enc(content2)}|[' + ' / '.join(expect(l + '\n') for l in body2) + ']')
    res = run_cases(cases, ctx.work)

    def nontrivial(case, impl):
        f = case.split('|')
        e = f[3]
        kind = 'ok' if e.startswith('ok') else e[:3]
        if f[0] == 'csvfile':
            return ('file', impl.count('ok:'), impl.count('err@'))
        return (kind, impl[:4], f[1][:14]) if kind != 'ok' else ('ok', impl.split(';')[1] if ';' in impl else impl, len(f[1]) // 40)

    evaluate(corr, res, nontrivial)
    for c, i, m, v in res:
        corr.count('expectation:' + (c.split('|')[3][:3] if c.startswith('csvrow') else 'file'))
    corr.rule = ('PrecisDerivedProperty::from_str on rendered random well-formed rows (any code point or range, 1-8 digits, all 7 names and all 49 ordered pairs, descriptions with commas and non-ASCII text) and on EVERY single-character '
                 f'deletion / replacement / insertion (alphabet of {len(CHARSET)} characters incl. sign, lower-case, tab, NBSP, newline) of {nseed} seed rows; CsvLineParser::from_path on generated files (header, order, line numbers). '
                 'Expectation per line: accepted with exactly these values / error / outside the statement (lower-case digits, unusual white space). distinct_nontrivial = distinct (expectation kind, outcome, shape)')
    return corr
