"""C11 — Width mapping replaces exactly the wide/narrow compatibility characters."""
from props.common import *

ASSUMPTIONS = ['strings are sequences of Unicode scalar values (Rust &str)']
TRUSTED = ['Unicode 16.0.0 <wide>/<narrow> decomposition data as parsed by tools/ucd_spec.py from /repo/precis-profiles/resources/ucd/UnicodeData.txt']
FACT_MODULES = ['Precis.Facts.Prof']


def correspondence(ctx):
    corr = Corr()
    impl = rle_check(ctx, corr, ['widthmap', 'width_p'], ['widthmap', 'width_p'])
    keys = [s_ for s_, e, v in impl['widthmap'] for s_ in range(s_, e + 1) if v != 'none' and s_ < 0x110000]
    alpha = xa(ctx, PLAIN + [0xFF21, 0xFF76, 0xFFE0, 0x3000] + [0xB5, 0x2460, 0xFB01], 5)
    cases = []
    maxlen = 3 if ctx.tier == 'quick' else 5
    for s in all_strings(alpha, maxlen):
        cases.append(f'rules|um|width|{hexs(s)}')
    for k in keys:  # every mapped code point alone and relative to 1..4-byte neighbours / another mapped one
        for pre in ([], [0x61], [0xE9], [0x65E5], [0x20000], [0xFF21]):
            for post in ([], [0x61], [0xFF76]):
                cases.append(f'rules|up|width|{hexs(pre + [k] + post)}')
    for _ in range(2000 if ctx.tier == 'quick' else 50000):
        n = ctx.rng.randrange(4, 12)
        cases.append(f'rules|um|width|{hexs([ctx.rng.choice(alpha + keys[:40]) for _ in range(n)])}')
    for s_ in long_strings(ctx, alpha + keys[:30], (60 if ctx.tier == 'quick' else 3000)):
        cases.append(f'rules|um|width|{hexs(s_)}')
    for s_ in structured_strings(ctx, 800 if ctx.tier == 'quick' else 10000, ['filler_ascii', 'filler_2', 'filler_3', 'filler_4', 'wide', 'wide', 'wide', 'compat', 'space', 'cased']):
        cases.append(f'rules|um|width|{hexs(s_)}')
    for s_ in hole_triples(ctx) + product_strings(ctx, tails=SEGMENT_POOL['wide'] + [0x61, 0xB5], heads=[[], [0xFF21], [0x3000]], extra_long=False):
        cases.append(f'rules|um|width|{hexs(s_)}')
    cases += fuzz_cases(ctx, {5})      # coverage-guided search of the tree under check (only when the source changed / thorough)
    res = run_cases(cases, ctx.work)
    keyset = set(keys)

    def nontrivial(case, impl):
        s = [int(x, 16) for x in case.split('|')[3].split()]
        idx = [i for i, c in enumerate(s) if c in keyset]
        if not idx:
            return None
        # distinct = (utf-8 length pattern before the first mapped char, number mapped, what follows)
        return (tuple(len(chr(c).encode()) for c in s[:idx[0]]), len(idx), tuple(c in keyset for c in s[idx[0]:]))

    evaluate(corr, res, nontrivial)
    corr.exhaustive = True
    corr.rule = (f'get_decomposition_mapping compared over ALL code points with the model and with the independent UnicodeData parse; width_mapping_rule on all strings of length <= {maxlen} over '
                 '{1-,2-,3-,4-byte plain, 4 wide/narrow (incl. U+3000), 3 other compatibility characters}, every one of the mapped code points in 18 neighbour contexts, random longer strings. '
                 'distinct_nontrivial = distinct (UTF-8 length pattern of the prefix before the first mapped character, number of mapped characters, mapped/unmapped pattern of the rest)')
    return corr
