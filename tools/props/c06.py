"""C06 — Nickname enforcement applies RFC 8266 rules until the string is stable."""
from props.common import *
from props.profiles_common import *

ASSUMPTIONS = ['NFKC is the external crate unicode-normalization, modelled executably from its dumped tables and compared with the crate on every run']
TRUSTED = ['specifications of the individual steps: C02/C03/C14 (validation), C12 (space rule), C13 (stabilize)']
FACT_MODULES = ['Precis.Facts.Prof']


def rounds_needed(h, round_results):
    """number of applications of the rules until the string stops changing (from the composed|nick|round oracle)"""
    cur = h
    for k in range(1, 6):
        r = round_results.get(cur)
        if r is None or not r.startswith('ok:'):
            return (k, 'err')
        nxt = r[3:]
        if nxt == cur:
            return (k, 'fix')
        cur = nxt
    return (6, 'unstable')


def correspondence(ctx):
    corr = Corr()
    maxlen = 3 if ctx.tier == 'quick' else 4
    cases = []
    for op in ('prepare', 'enforce'):
        cases += profile_cases(ctx, 'nick', op, xa(ctx, FREE_ALPHA, 5), maxlen, 3000 if ctx.tier == 'quick' else 60000)
    # inputs that need 1, 2 and 3 applications: NFKC introduces spaces / characters that need further mapping
    special = [[0xA8], [0xA8, 0x61], [0x61, 0xA8], [0xFDFA], [0x61, 0xFDFA, 0x62], [0x2163], [0x3000, 0x61, 0x3000], [0x61, 0x3000, 0x20, 0xA8],
               [0xAF], [0x2DC, 0x61], [0x61, 0x2DC], [0x384, 0x3B1], [0x1FBF], [0x1FFE, 0x61], [0x61, 0x2017], [0x203E, 0x61], [0xFE49], [0xFC5E], [0xFC5E, 0x61],
               [0x41, 0xFE70], [0xFE70, 0x41], [0xFE72], [0x309B, 0x304B], [0x309C], [0x61, 0x309B], [0x1FFD, 0x1FFE], [0xFF9E, 0x20]]
    for s in special:
        for pre in ([], [0x61], [0x65E5], [0x20], [0x20000]):
            for post in ([], [0x62], [0x20], [0xE9]):
                cases.append(f'prof|nick|enforce|f|b|{hexs(pre + s + post)}|')
                cases.append(f'prof|nick|enforce|s|o|{hexs(pre + s + post)}|')
    rnd = set()
    for c in cases:
        rnd.add(c.split('|')[5])
    # one round through the public rules (implementation-level oracle + histogram of rounds used)
    for h in sorted(rnd):
        cases.append(f'composed|nick|round|{h}')
    for s_ in long_strings(ctx, FREE_ALPHA + [0xA8, 0xFDFA, 0x2163], (60 if ctx.tier == 'quick' else 3000)):
        cases.append(f'prof|nick|enforce|f|b|{hexs(s_)}|')
    # every code point at which any table-driven behaviour changes, alone and next to an ASCII letter
    bc = boundary_cps(ctx, None if ctx.tier == 'quick' else 11)
    corr.count('boundary_code_points', len(bc))
    for prof_, op_ in (('nick','prepare'),('nick','enforce')):
        for c_ in bc:
            cases.append(f'prof|{prof_}|{op_}|f|b|{c_:04X}|')
            cases.append(f'prof|{prof_}|{op_}|f|b|0061 {c_:04X}|')
            cases.append(f'prof|{prof_}|{op_}|f|b|{c_:04X} 0041|')
    for s_ in mark_structures(ctx):
        cases.append(f'prof|nick|enforce|f|b|{hexs(s_)}|')
    for s_ in straddle_strings(maxn=40 if ctx.tier == 'quick' else 130):
        cases.append(f'prof|nick|enforce|f|b|{hexs(s_)}|')
    for s_ in structured_strings(ctx, 600 if ctx.tier == 'quick' else 8000, ['filler_ascii', 'filler_2', 'filler_3', 'filler_4', 'cased', 'wide', 'space', 'space', 'marks', 'marks', 'compat', 'compat', 'hangul', 'ctx']):
        cases.append(f'prof|nick|enforce|f|b|{hexs(s_)}|')
    for s_ in composition_pair_strings(ctx) + product_strings(ctx, tails=[0xC5, 0x212B, 0x301, 0xA0, 0x3000, 0xFB01, 0x41, 0x3099, 0xA8], heads=[[], [0x20], [0x304B, 0x3099]], extra_long=False):
        cases.append(f'prof|nick|enforce|f|b|{hexs(s_)}|')
    cases += fuzz_cases(ctx, {3, 7, 10})      # coverage-guided search of the tree under check (only when the source changed / thorough)
    res = run_cases(cases, ctx.work)
    round_results = {}
    for case, impl_, _, _ in res:
        f = case.split('|')
        if f[0] == 'composed':
            round_results[f[3]] = impl_
    # second wave: rounds of the intermediate results, to follow each orbit
    frontier = {r[3:] for r in round_results.values() if r.startswith('ok:')} - set(round_results)
    for _ in range(4):
        if not frontier:
            break
        res2 = run_cases([f'composed|nick|round|{h}' for h in sorted(frontier)], ctx.work)
        res += res2
        for case, impl_, _, _ in res2:
            round_results[case.split('|')[3]] = impl_
        frontier = {r[3:] for r in round_results.values() if r.startswith('ok:')} - set(round_results)

    def nontrivial(case, impl):
        f = case.split('|')
        if f[0] != 'prof' or f[2] != 'enforce':
            return None
        k = rounds_needed(f[5], round_results)
        if k[0] < 2:
            return None
        return (k, f[5] if len(f[5]) < 30 else len(f[5]))

    evaluate(corr, res, nontrivial)
    for case, impl_, _, _ in res:
        f = case.split('|')
        if f[0] == 'prof' and f[2] == 'enforce':
            k = rounds_needed(f[5], round_results)
            corr.count(f'applications_until_{k[1]}={k[0]}')
            # implementation-level oracle: enforce must be the orbit of the public rules
            if k[1] == 'fix' and k[0] <= 4:
                cur = f[5]
                for _ in range(k[0] - 1):
                    cur = round_results[cur][3:]
                if impl_ != 'ok:' + cur:
                    corr.spec_violations.append((case, impl_, f'VIOLATED:the public rules reach the fixed point ok:{cur} after {k[0]} applications'))
            # every accepted result is a fixed point of one more round
            if impl_.startswith('ok:'):
                r = round_results.get(impl_[3:])
                if r is not None and r != impl_:
                    corr.spec_violations.append((case, impl_, f'VIOLATED:accepted result is not a fixed point of the rules: one more application gives {r}'))
    corr.rule = (f'Nickname prepare/enforce on ALL strings of length <= {maxlen} over 23 characters, 27 seeds whose NFKC form introduces spaces or characters needing further mapping in 20 contexts each '
                 '(needing 1, 2, 3 applications), random longer strings; every orbit followed through the public rules (one round at a time) as implementation-level oracle. '
                 'distinct_nontrivial = distinct (applications needed, outcome, input) among enforce cases needing more than one application')
    return corr
