"""C16 — Results depend only on the arguments, not on API form, history or threads."""
import os
import re
import subprocess
from props.common import *
from props.profiles_common import *
from verif import REPO, ENV, CACHE

ASSUMPTIONS = ['the theorem is about an abstract protocol (lazy cell Uninit/Running/Init holding a data-free profile value; pure operations): real thread interleavings, the memory model and std::sync::Once are explored, not proved',
               'structural facts checked on every run: size_of of the four profiles and two classes is 0; no static mut / Cell / RefCell / atomics / thread_local / Mutex / OnceCell in the three crates\' src']
TRUSTED = ['the operations of the model (Model/Profiles.lean) take no state argument: that this matches the Rust is the structural scan + behavioural comparison below']
MUTABLE = re.compile(r'static\s+mut\b|\bCell<|\bRefCell<|\bAtomic[A-Z]\w*|thread_local!|\bMutex<|\bRwLock<|\bOnceCell<|\bOnceLock<|\bUnsafeCell<|\bunsafe\b')


def correspondence(ctx):
    corr = Corr()
    # (a) structural
    sizes = sh([HARNESS, 'sizes']).stdout.strip().splitlines()
    size_hits = []
    for l in sizes:
        corr.count(l.replace(' ', '_'))
        if not l.endswith(' 0'):
            size_hits.append(f'{l} :: a profile or class type carries data: results could depend on instance state; the model assumes a data-free value')
    hits = []
    for crate in ('precis-core', 'precis-profiles'):
        for root, _, files in os.walk(os.path.join(REPO, crate, 'src')):
            for fn in files:
                if fn.endswith('.rs'):
                    with open(os.path.join(root, fn)) as f:
                        for i, line in enumerate(f, 1):
                            code = line.split('//')[0]
                            if MUTABLE.search(code):
                                hits.append(f'{crate}/src/{fn}:{i}: {line.strip()}')
    corr.count('interior_mutability_hits', len(hits))
    # not a failing input by itself: reported (after the behavioural search below) as a broken assumption of the model
    corr.structural = size_hits + [f'{h} :: mutable shared state or unsafe code in library source: results may depend on history or threads; the abstract model (pure operations on a data-free profile value) assumes none' for h in hits]
    # (b) API forms x instance kinds x history: same input through every combination, interleaved with other calls
    inputs = [[0x47, 0x75, 0x79], [0x20, 0x46, 0x6F, 0x6F, 0x20, 0x20, 0x42], [0xFF21, 0x212B], [0x5D0, 0x5B0, 0x5D1], [0xA8], [0x1F88], [0x13A0], [], [0x20], [0x61, 0xAD],
              [0x200D], [0x94D, 0x200D], [0xE9, 0x20], [0x65E5, 0x672C, 0x3000], [0xFDFA, 0x61]]
    if ctx.tier != 'quick':
        inputs += [[ctx.rng.choice(USER_ALPHA + FREE_ALPHA) for _ in range(ctx.rng.randrange(1, 9))] for _ in range(300)]
    cases = []
    for rep in range(3):          # the same calls again after a long history
        order = list(inputs)
        ctx.rng.shuffle(order)
        for s in order:
            for prof in ('um', 'up', 'op', 'nick'):
                for op in ('prepare', 'enforce'):
                    for how in ('f', 'l', 's'):
                        for form in ('b', 'o', 'c', 'C'):
                            cases.append(f'prof|{prof}|{op}|{how}|{form}|{hexs(s)}|')
                for how in ('f', 'l', 's'):
                    for form in ('b', 'o'):
                        cases.append(f'prof|{prof}|compare|{how}|{form}|{hexs(s)}|{hexs(order[0])}')
    # (b2) ALL twelve combinations inside the harness (one line per input, `*`): every string up to length 2 (thorough 3) over
    # characters on which some step of some pipeline acts (cased incl. final-sigma contexts, wide, composable, spaces,
    # contextual, RTL), plus longer random ones
    alpha = sorted(set(USER_ALPHA + FREE_ALPHA + CASED + [0x3A3, 0x3C3, 0x3C2, 0x391, 0x2D]))
    alpha = xa(ctx, alpha)
    bulk = [s for s in all_strings(alpha, 2 if ctx.tier == 'quick' else 3, 1)]
    bulk += [[ctx.rng.choice(alpha) for _ in range(ctx.rng.randrange(3, 10))] for _ in range(400 if ctx.tier == 'quick' else 4000)]
    bulk += long_strings(ctx, alpha, 8 if ctx.tier == 'quick' else 60)
    ncomb = 0
    for s in bulk:
        for prof in ('um', 'up', 'op', 'nick'):
            cases.append(f'prof|{prof}|enforce|*|*|{hexs(s)}|')
            ncomb += 1
    for s in bulk[::7]:
        for prof in ('um', 'up', 'op', 'nick'):
            cases.append(f'prof|{prof}|prepare|*|*|{hexs(s)}|')
            cases.append(f'prof|{prof}|compare|*|*|{hexs(s)}|{hexs(bulk[(len(s) * 31) % len(bulk)])}')
    # (b3) history probes: a cache keyed by less than the whole argument (length, a hash of some bytes, a prefix) makes a
    # call depend on an EARLIER call with a similar argument.  For labels of many lengths: call with s, then at once with a
    # variant differing from s in exactly one position (every position for short labels, a sample for long ones), through
    # the static API and through a fresh instance; the run is one process, so the history is real.
    lens = sorted(set([3, 8, 16, 31, 32, 33, 38, 64, 100, 257] + [n + d for n in getattr(ctx, 'extra_nums', []) if 2 <= n <= 600 for d in (-1, 0, 1, 6)]))
    nprobe = 0
    for L in lens[:14 if ctx.tier == 'quick' else 60]:
        base = [0x61 + (i * 7) % 26 for i in range(L)]
        positions = list(range(L)) if L <= 40 else sorted(set(ctx.rng.sample(range(L), 24) + [0, 1, L - 2, L - 1]))
        for prof in ('nick', 'um', 'op') if ctx.tier != 'quick' else ('nick', 'um'):
            for pos in positions:
                var = list(base)
                var[pos] = 0x7A if var[pos] != 0x7A else 0x79
                for how in ('s', 'f'):
                    cases.append(f'prof|{prof}|compare|{how}|b|{hexs(base)}|{hexs([0x78])}')
                    cases.append(f'prof|{prof}|compare|{how}|b|{hexs(var)}|{hexs(base)}')
                    cases.append(f'prof|{prof}|compare|{how}|b|{hexs(base)}|{hexs(var)}')
                    cases.append(f'prof|{prof}|enforce|{how}|b|{hexs(base)}|')
                    cases.append(f'prof|{prof}|enforce|{how}|b|{hexs(var)}|')
                    nprobe += 1
    corr.count('history_probes', nprobe)
    corr.count('inputs_through_all_12_forms', ncomb)
    res = run_cases(cases, ctx.work)
    known = known_bidi(ctx)
    by_args = {}
    for case, impl_, model, verdict in res:
        f = case.split('|')
        if f[3] != '*':
            by_args.setdefault((f[1], f[2], f[5], f[6]), set()).add(impl_)
    for k, v in by_args.items():
        if len(v) != 1:
            corr.spec_violations.append((f'prof|{k[0]}|{k[1]}|*|*|{k[2]}|{k[3]}', ' vs '.join(sorted(v)), 'VIOLATED:results differ between API forms / instance kinds / call history'))
    # model comparison (pure function of the arguments); verdicts about RFC conformance are other properties' business
    for case, impl_, model, verdict in res:
        corr.evaluations += 1
        if impl_.startswith('FORMS-DIFFER'):
            corr.spec_violations.append((case, impl_, 'VIOLATED:the content of the result depends on the API form / instance kind'))
        elif impl_ != model:
            corr.disagreements.append((case, impl_, model))
        f = case.split('|')
        corr.nontrivial.add((f[1], f[2], f[3], f[4]))
    # (c) threads: fresh processes; 16 threads start together and race the very first static calls
    work = os.path.join(CACHE, 'run', 'C16')
    os.makedirs(work, exist_ok=True)
    static_cases = [c for c in dict.fromkeys(cases) if c.split('|')[3] == 's'][:240]
    expected = {}
    for case, impl_, model, verdict in res:
        expected[case] = model
    cf = os.path.join(work, 'threads.txt')
    nproc = 12 if ctx.tier == 'quick' else 200
    nthreads = 16
    for p in range(nproc):
        order = list(static_cases)
        ctx.rng.shuffle(order)
        with open(cf, 'w') as f:
            f.write('\n'.join(order) + '\n')
        r = subprocess.run([HARNESS, 'threads', str(nthreads), cf], stdout=subprocess.PIPE, text=True, env=ENV)
        if r.returncode != 0:
            corr.spec_violations.append((f'threads run {p}', f'exit {r.returncode}', 'VIOLATED:process crashed under concurrent first use'))
            continue
        for line in r.stdout.splitlines():
            t, i, out = line.split('\t')
            case = order[int(i)]
            corr.evaluations += 1
            if out != expected[case]:
                corr.spec_violations.append((case, out, f'VIOLATED:thread {t} of a 16-thread first-use race got a different result than the pure function of the arguments ({expected[case]})'))
        corr.count('thread_race_processes')
    # (d) stress: 16 threads, each evaluating DIFFERENT inputs at the same moment in its own pseudo-random order (a racy cache
    # keyed by a hash of the input or of a code point is poisoned only when distinct colliding keys are in flight together),
    # then a sequential re-evaluation.  Inputs: one-character strings whose code points collide modulo every power of two
    # from 2^4 to 2^12 while having different classifications / mappings, plus the static cases above.
    pool = []
    base_cps = [0x41, 0x61, 0xFB01, 0x1301, 0x4301, 0xC5, 0x212B, 0xFF21, 0x3000, 0xA0, 0x2163, 0x5D0, 0x661, 0x13A0, 0x1F88, 0x130, 0xB5, 0x2460, 0x378, 0xAD]
    seen = set()
    for c0 in base_cps:
        for k in range(4, 13):
            for mul in (1, 2, 3, 5):
                c1 = c0 + mul * (1 << k)
                for c in (c0, c1):
                    if c < 0x110000 and not (0xD800 <= c <= 0xDFFF) and c not in seen:
                        seen.add(c)
                        pool.append([c])
    pool = pool[:1500]
    stress_cases = []
    for s in pool:
        for prof in ('um', 'up', 'op', 'nick'):
            stress_cases.append(f'prof|{prof}|enforce|s|b|{hexs(s)}|')
    exp = run_cases(stress_cases, ctx.work)
    sf = os.path.join(work, 'stress.txt')
    with open(sf, 'w') as f:
        for case, impl_, model, verdict in exp:
            f.write(f'{case}\t{model}\n')
            if impl_ != model:
                corr.disagreements.append((case, impl_, model))
    rounds = 3 if ctx.tier == 'quick' else 40
    ncalls = 0
    for rnd in range(rounds):
        r = subprocess.run([HARNESS, 'stress', '16', str(20000 if ctx.tier == 'quick' else 100000), sf], stdout=subprocess.PIPE, text=True, env=ENV)
        if r.returncode != 0:
            corr.spec_violations.append((f'stress run {rnd}', f'exit {r.returncode}', 'VIOLATED:process crashed under concurrent use'))
            continue
        for line in r.stdout.splitlines():
            f_ = line.split('\t')
            if f_[0] == 'mismatch':
                corr.spec_violations.append((f_[3], f_[4], f'VIOLATED:{f_[1]} phase of a 16-thread run with different inputs in flight: thread {f_[2]} got a result that is not the pure function of the arguments'))
            elif f_[0] == 'count':
                ncalls += int(f_[1])
    corr.evaluations += ncalls
    corr.count('stress_calls', ncalls)
    corr.extra['schedules_explored'] = f'{nproc} fresh processes x {nthreads} threads x {len(static_cases)} static calls each, barrier start, per-thread rotation of the call order'
    corr.samples = [{'case': r[0], 'implementation': r[1], 'model': r[2]} for r in res[:6]]
    corr.rule = ('every input through all combinations of {fresh instance, long-lived instance, static fast-invocation API} x {&str, String, Cow::Borrowed, Cow::Owned} x {prepare, enforce, compare} x 4 profiles, three times in shuffled order (history), '
                 'all results for the same arguments must coincide and equal the model; fresh processes in which 16 threads race the first static calls. distinct_nontrivial = distinct (profile, operation, instance kind, argument form)')
    return corr
