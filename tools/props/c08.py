"""C08 — Enforced output has no universally forbidden code points and never drifts."""
from props.common import *
from props.profiles_common import *
import os

ASSUMPTIONS = ['no assumption about the normalizer remains: idempotence of NFC/NFKC is PROVED for the normalizer model over the tables dumped from the crate on every run (Lemmas/NfcIdem.lean: nfc_idem, nfkc_idem; tables_ok by decide +kernel); the model itself is tied to the crate by the correspondence (every enforce result) and by re-enforcing every output',
               'the forbidden-set tables (Gen/Forb) are dumped from the running classification and proved equal to the model classification for every code point of Unicode']
TRUSTED = ['Lean model of NFC (Model/Normalize.lean) validated against the crate by the correspondence; closure lemma nfc_closed and idempotence nfc_idem are about that model']
FACT_MODULES = ['Precis.Facts.Closure', 'Precis.Facts.ForbId', 'Precis.Facts.ForbFf', 'Precis.Facts.Closure2', 'Precis.Props.C08Drift', 'Precis.Lemmas.NfcIdem']
KNOWN_ID = 'cherokee-lowercase'


def correspondence(ctx):
    corr = Corr()
    listed = {k.get('id') for k in ctx.known}
    # 1. exhaustive: every scalar value as a one-character input, all four profiles, native sweep
    out = sh([HARNESS, 'c08sweep']).stdout
    sweep_known = []
    for line in out.splitlines():
        f = line.split('\t')
        if f[0] == 'count':
            for kv in f[2:]:
                k, v = kv.split('=')
                corr.count(f'sweep:{f[1]}:{k}', int(v))
                if k == 'accepted':
                    corr.evaluations += 0x110000 - 0x800
        elif f[0] == 'forbidden':
            cp = int(f[2], 16)
            if f[1] == 'um' and 0x13A0 <= cp <= 0x13F4 and KNOWN_ID in listed:
                sweep_known.append(f'prof|um|enforce|f|b|{f[2]}| -> {f[3]} contains {f[4]}')
            else:
                corr.spec_violations.append((f'prof|{f[1]}|enforce|f|b|{f[2]}|', 'ok:' + f[3], f'VIOLATED:enforced output contains forbidden code point {f[4]}'))
        elif f[0] == 'drift':
            corr.spec_violations.append((f'prof|{f[1]}|enforce|f|b|{f[3]}|', 'ok:' + f[4], f'VIOLATED:re-enforcing the accepted result {f[3]} (from input {f[2]}) gives a different string'))
        elif f[0] == 'panic':
            corr.spec_violations.append((f'prof|{f[1]}|enforce|f|b|{f[2]}|', 'PANIC', 'VIOLATED:panic'))
    if sweep_known:
        corr.known_hits.setdefault(KNOWN_ID, []).extend(sweep_known)
    for l in out.splitlines():
        if l.startswith('forbidden'):
            corr.nontrivial.add(('sweep-forbidden', l.split('\t')[2]))
    # 2. strings: everything whose lowercase / NFC / NFKC form consists of other code points than the input
    norm = open(os.path.join(__import__('verif').DUMP, 'norm.txt')).read().splitlines()
    std = parse_rle_text(open(os.path.join(__import__('verif').DUMP, 'std.txt')).read())
    seqs = []
    for l in norm:
        f = l.split('\t')
        if f[0] == 'canon':
            seqs.append([int(x, 16) for x in f[2].split()])          # decomposed spelling of every decomposable character
            seqs.append([int(f[1], 16)])
        elif f[0] == 'comp':
            seqs.append([int(f[1], 16), int(f[2], 16)])              # every composing pair
    mapped = [c for s_, e, v in std['std_tolower'] if v != 'id' for c in range(s_, e + 1)]
    for c in mapped:
        seqs.append([c])
        seqs.append([c, 0x301])
    seqs += [[0xAC00], [0x1100, 0x1161], [0xAC00, 0x11A8], [0xD7A3, 0x301], [0x61, 0xAC01, 0x62]]
    if ctx.tier == 'quick':
        seqs = seqs[::3] + seqs[1::7]
    cases = []
    for prof in ('um', 'up', 'op', 'nick'):
        for s in seqs:
            for pre in ([], [0x61]):
                cases.append(f'prof|{prof}|enforce|f|b|{hexs(pre + s)}|')
        alpha = USER_ALPHA if prof in ('um', 'up') else FREE_ALPHA
        for s in all_strings(alpha[:16], 2, 1):
            cases.append(f'prof|{prof}|enforce|f|b|{hexs(s)}|')
        for _ in range(2000 if ctx.tier == 'quick' else 50000):
            n = ctx.rng.randrange(3, 10)
            cases.append(f'prof|{prof}|enforce|f|b|{hexs([ctx.rng.choice(alpha) for _ in range(n)])}|')
    for s_ in mark_structures(ctx):
        for prof_ in ('um', 'up', 'op', 'nick'):
            cases.append(f'prof|{prof_}|enforce|f|b|{hexs(s_)}|')
    for s_ in structured_strings(ctx, 400 if ctx.tier == 'quick' else 6000, ['filler_ascii', 'filler_2', 'filler_3', 'cased', 'cased', 'wide', 'space', 'marks', 'marks', 'marks', 'compat', 'hangul']):
        for prof_ in ('um', 'up', 'op', 'nick'):
            cases.append(f'prof|{prof_}|enforce|f|b|{hexs(s_)}|')
    for s_ in composition_pair_strings(ctx):
        for prof_ in ('um', 'up', 'op', 'nick'):
            cases.append(f'prof|{prof_}|enforce|f|b|{hexs(s_)}|')
    cases += fuzz_cases(ctx, {0, 1, 2, 3})      # coverage-guided search of the tree under check (only when the source changed / thorough)
    res = run_cases(cases, ctx.work)
    # second phase: classify every accepted output and enforce it again
    phase2 = []
    origin = {}
    for case, impl_, model, verdict in res:
        if impl_.startswith('ok:'):
            f = case.split('|')
            e = impl_[3:]
            phase2.append(f'forbidden|{f[1]}|{e}')
            origin[phase2[-1]] = case
            phase2.append(f'prof|{f[1]}|enforce|f|b|{e}|')
            origin[phase2[-1]] = case
    phase2 = list(dict.fromkeys(phase2))
    res2 = run_cases(phase2, ctx.work)
    # deviations of the directionality step from RFC 5893 are C09/C04's subject; here only outputs matter
    known_b = lambda case, impl, model, verdict: 'bidi-interior-nsm' if verdict.startswith('VIOLATED-KNOWN:bidi-interior-nsm') and impl == model else None

    def known(case, impl, model, verdict):
        f = case.split('|')
        if f[0] == 'forbidden' and verdict.startswith('VIOLATED') and f[1] == 'um' and KNOWN_ID in listed:
            # characterised family: the INPUT had a Cherokee letter U+13A0..U+13F4 (after width mapping)
            src = origin[case].split('|')[5].split()
            if any(0x13A0 <= int(x, 16) <= 0x13F4 for x in src):
                return KNOWN_ID
        return None

    evaluate(corr, res, lambda c, i: (c.split('|')[1], 'changed') + (tuple(i.split()[:2]),) if i.startswith('ok:') and i[3:] != c.split('|')[5] else None, known_b)
    evaluate(corr, res2, lambda c, i: None, known)
    # bidi deviations are C04/C09's business: count them, do not report here
    corr.known_hits.pop('bidi-interior-nsm', None)
    for case, impl_, model, verdict in res2:
        f = case.split('|')
        if f[0] == 'prof':
            e = f[5]
            if impl_.startswith('ok:') and impl_[3:] != e:
                corr.spec_violations.append((case, impl_, f'VIOLATED:drift: enforce(e) differs from e (e was enforce({origin[case].split("|")[5]}))'))
            corr.count('reenforce:' + ('same' if impl_ == 'ok:' + e else impl_.split('(')[0][:11]))
    corr.exhaustive = True
    corr.rule = ('EXHAUSTIVE native sweep: every scalar value as a one-character input to enforce of all four profiles, output classified with the real get_value_from_char and enforced again; '
                 f'plus {len(seqs)} sequences (decomposed spellings of every decomposable character, every composing pair, every cased character alone and with a combining mark, Hangul) and random strings: every accepted output re-classified (spec) and re-enforced. '
                 'distinct_nontrivial = distinct (profile, first code points of an output that differs from its input)')
    return corr
