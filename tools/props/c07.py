"""C07 — compare is equality of comparison forms: an equivalence with strict errors."""
import os
from props.common import *
from props.profiles_common import *

ASSUMPTIONS = ['NFC/NFKC are the external crate unicode-normalization, modelled executably and compared with the crate on every run']
TRUSTED = ['specifications of enforce: C04, C05, C06; case mapping C10']
FACT_MODULES = ['Precis.Facts.Prof', 'Precis.Props.C07Canon']

# variants of one name: case, width, spacing, canonically / compatibly equivalent spellings
FAMILIES = {
    'um': [[0x41, 0x6E, 0x67, 0xC5], [0x61, 0x6E, 0x67, 0xE5], [0xFF21, 0x6E, 0x67, 0x212B], [0x61, 0x6E, 0x67, 0x61, 0x30A], [0x41, 0x4E, 0x47, 0x41, 0x30A],
           [0x5D0, 0x5D1], [0x5D0, 0x5B0, 0x5D1], [0x1F88], [0x1F80], [0x3A3], [0x3C3], [0x3C2], [0x13A0], [0xAB70], [0x130], [0x69, 0x307], [0x61, 0x20], [],
           # word-final capital sigma after a cased letter: the unconditional mapping gives U+03C3, never the final form U+03C2
           [0x391, 0x3A3], [0x3B1, 0x3C3], [0x3B1, 0x3C2], [0x391, 0x3C3], [0x41, 0x3A3], [0x61, 0x3C3], [0xFF21, 0x3A3]],
    'op': [[0x50, 0x61, 0x20, 0x73], [0x50, 0x61, 0xA0, 0x73], [0x50, 0x61, 0x3000, 0x73], [0x70, 0x61, 0x20, 0x73], [0x50, 0x41, 0x30A, 0x20, 0x73], [0x50, 0xC5, 0x20, 0x73],
           [0x50, 0x212B, 0x2003, 0x73], [0xFF30, 0x61, 0x20, 0x73], [0x50, 0x61, 0x20, 0x20, 0x73], [0xAD], []],
    'nick': [[0x46, 0x6F, 0x6F, 0x20, 0x42, 0x61, 0x72], [0x66, 0x6F, 0x6F, 0x20, 0x62, 0x61, 0x72], [0x20, 0x46, 0x6F, 0x6F, 0x20, 0x20, 0x42, 0x61, 0x72, 0x20], [0x46, 0x6F, 0x6F, 0xA0, 0x42, 0x61, 0x72],
             [0xFF26, 0x6F, 0x6F, 0x3000, 0x42, 0x61, 0x72], [0x46, 0x6F, 0x6F, 0x42, 0x61, 0x72], [0x1F88], [0x1F80], [0x1F00, 0x345], [0x1C5], [0x1C6], [0x1C4], [0x64, 0x17E],
             [0xA8], [0x20, 0x308], [0x308], [0x2163], [0x49, 0x56], [0x69, 0x76], [0xFDFA], [0x20], [0xAD], [],
             [0x391, 0x3A3], [0x3B1, 0x3C3], [0x3B1, 0x3C2], [0x391, 0x3A3, 0x20], [0x20, 0x3B1, 0x3C3], [0x41, 0x3A3, 0x20, 0x42], [0x61, 0x3C3, 0x20, 0x62],
             # valid on the first application, rejected on a later one (NFKC image disallowed / out of context), alone and in
             # pairs that become equal after the same number of applications: both operands must still be rejected
             [0x314B, 0x314B], [0x3131], [0x13F], [0x20, 0x140, 0x20], [0x140], [0x387], [0xFF65], [0x61, 0x3131], [0x3131, 0x20]],
}
FAMILIES['up'] = FAMILIES['um']


def case_compose_families(ctx):
    """families {[U, m], [l, m], [composite]} for every composition pair (l, m) -> composite whose first element is the
    lowercase of some letter U: the spellings differ by case and by canonical composition at the same time"""
    import verif
    norm = open(os.path.join(verif.DUMP, 'norm.txt')).read().splitlines()
    std = parse_rle_text(open(os.path.join(verif.DUMP, 'std.txt')).read())
    upper_of = {}
    for s_, e, v in std['std_tolower']:
        if v != 'id' and ' ' not in v:
            for c in range(s_, e + 1):
                upper_of.setdefault(int(v, 16), c)
    fams = []
    for l in norm:
        f = l.split('\t')
        if f[0] == 'comp':
            a, b, c = int(f[1], 16), int(f[2], 16), int(f[3], 16)
            if a in upper_of:
                fams.append([[upper_of[a], b], [a, b], [c], [upper_of[a], b, 0x20], [0x20, c]])
    fams.append([[0x130, 0x327], [0x69, 0x327, 0x307], [0x69, 0x307, 0x327], [0x12F, 0x307]])
    return fams


def correspondence(ctx):
    corr = Corr()
    cases = []
    fams = case_compose_families(ctx)
    if ctx.tier == 'quick':
        fams = fams[::4] + fams[-1:]
    corr.count('case_compose_families', len(fams))
    for fam in fams:
        for prof in ('nick', 'um', 'op'):
            for a in fam:
                for b in fam:
                    if prof != 'nick' and (0x20 in a or 0x20 in b) and prof == 'um':
                        continue
                    cases.append(f'prof|{prof}|compare|f|b|{hexs(a)}|{hexs(b)}')
                cases.append(f'prof|{prof}|enforce|f|b|{hexs(a)}|')
    for prof, fam in FAMILIES.items():
        for a in fam:
            for b in fam:
                cases.append(f'prof|{prof}|compare|f|b|{hexs(a)}|{hexs(b)}')
            cases.append(f'prof|{prof}|enforce|f|b|{hexs(a)}|')
    alpha = {'um': xa(ctx, USER_ALPHA[:14], 4), 'up': xa(ctx, USER_ALPHA[:14], 4), 'op': xa(ctx, FREE_ALPHA[:12], 4), 'nick': xa(ctx, FREE_ALPHA[:12] + [0x1F88, 0x1C5], 4)}
    n = 2 if ctx.tier == 'quick' else 3
    for prof in FAMILIES:
        strs = list(all_strings(alpha[prof], n, 0))
        pick = strs if len(strs) <= 60 else ctx.rng.sample(strs, 60 if ctx.tier == 'quick' else 250)
        for a in pick:
            for b in pick:
                cases.append(f'prof|{prof}|compare|f|b|{hexs(a)}|{hexs(b)}')
            cases.append(f'prof|{prof}|enforce|f|b|{hexs(a)}|')
    ss_ = structured_strings(ctx, 300 if ctx.tier == 'quick' else 3000, ['filler_ascii', 'filler_2', 'cased', 'cased', 'wide', 'space', 'marks', 'compat'], maxseg=4)
    for a_, b_ in zip(ss_, ss_[1:] + ss_[:1]):
        for prof_ in ('nick', 'um', 'op'):
            cases.append(f'prof|{prof_}|compare|f|b|{hexs(a_)}|{hexs(b_)}')
            cases.append(f'prof|{prof_}|compare|f|b|{hexs(a_)}|{hexs(a_)}')
    cases += fuzz_cases(ctx, {4, 11})      # coverage-guided search of the tree under check (only when the source changed / thorough)
    import unicodedata
    import verif as _v
    keys = []
    for l_ in open(os.path.join(_v.DUMP, 'norm.txt')):
        f_ = l_.rstrip('\n').split('\t')
        if f_[0] == 'compat' and len(f_[2].split()) == 1:
            keys.append(int(f_[1], 16))
    marks_ = [0x301, 0x304, 0x307, 0x308, 0x30A, 0x30C, 0x323, 0x331, 0x342, 0x345]

    def pycanon(t):
        for _ in range(3):
            t = unicodedata.normalize('NFKC', ' '.join(unicodedata.normalize('NFKC', t).split()).lower())
        return t
    for c_ in keys[::(16 if ctx.tier == 'quick' else 5)]:
        for m_ in marks_:
            a_ = chr(c_) + chr(m_)
            b_ = pycanon(a_)
            if b_ and b_ != a_:
                cases.append(f'prof|nick|compare|f|b|{hexs([ord(x) for x in a_])}|{hexs([ord(x) for x in b_])}')
                cases.append(f'prof|op|compare|f|b|{hexs([ord(x) for x in a_])}|{hexs([ord(x) for x in b_])}')
    res = run_cases(cases, ctx.work)
    known = known_bidi(ctx)

    def nontrivial(case, impl):
        f = case.split('|')
        if f[2] != 'compare' or f[5] == f[6]:
            return None
        return (f[1], impl.split('(')[0], f[5], f[6]) if impl == 'ok:true' or impl.startswith('err') else (f[1], 'false', len(f[5]), len(f[6]))

    evaluate(corr, res, nontrivial, known)
    add_unlisted_known(corr, res, known)
    # relational laws checked on the implementation's own answers
    cmp_ = {}
    enf = {}
    for case, impl_, _, _ in res:
        f = case.split('|')
        if f[2] == 'compare':
            cmp_[(f[1], f[5], f[6])] = impl_
        else:
            enf[(f[1], f[5])] = impl_
    by_prof = {}
    for (p, a, b), r in cmp_.items():
        by_prof.setdefault(p, set()).update([a, b])
        # symmetry on accepted strings
        r2 = cmp_.get((p, b, a))
        if r.startswith('ok:') and r2 is not None and r2 != r:
            corr.spec_violations.append((f'prof|{p}|compare|f|b|{a}|{b}', r, f'VIOLATED:not symmetric: compare(b,a) = {r2}'))
        # agreement with enforce for the non-nickname profiles
        if p != 'nick' and (p, a) in enf and (p, b) in enf:
            ea, eb = enf[(p, a)], enf[(p, b)]
            if ea.startswith('ok:') and eb.startswith('ok:'):
                want = 'ok:true' if ea == eb else 'ok:false'
            elif not ea.startswith('ok:'):
                want = ea
            else:
                want = eb
            if r != want:
                corr.spec_violations.append((f'prof|{p}|compare|f|b|{a}|{b}', r, f'VIOLATED:enforce(a)={ea}, enforce(b)={eb}'))
    ntrans = 0
    for p, names in by_prof.items():
        names = sorted(names)
        eq = {a: [b for b in names if cmp_.get((p, a, b)) == 'ok:true'] for a in names}
        for a in names:
            if cmp_.get((p, a, a), 'err').startswith('ok:') and cmp_.get((p, a, a)) != 'ok:true':
                corr.spec_violations.append((f'prof|{p}|compare|f|b|{a}|{a}', cmp_[(p, a, a)], 'VIOLATED:not reflexive'))
            for b in eq[a]:
                for c in eq[b]:
                    if (p, a, c) in cmp_:
                        ntrans += 1
                        if cmp_[(p, a, c)] != 'ok:true':
                            corr.spec_violations.append((f'prof|{p}|compare|f|b|{a}|{c}', cmp_[(p, a, c)], f'VIOLATED:not transitive via {b}'))
    corr.count('transitivity_triples_checked', ntrans)
    corr.rule = ('compare of all four profiles on all ordered pairs within families of variants of one name (case, width, spacing, NFC/NFD/NFKC spellings, titlecase, Cherokee, invalid and empty members), within families built from EVERY composition pair whose first element is a lowercase letter (upper+mark / lower+mark / precomposed / with spaces), '
                 f'and on all ordered pairs of a sample of strings of length <= {n}; reflexivity, symmetry, transitivity and agreement with enforce checked on the implementation\'s own answers. '
                 'distinct_nontrivial = distinct (profile, result, operands) for equal/error results on distinct operands, (profile, false, lengths) otherwise')
    return corr
