"""C04 — Username profiles apply RFC 8265 rules, all of them, in the specified order."""
from props.common import *
from props.profiles_common import *

ASSUMPTIONS = ['NFC is the external crate unicode-normalization, modelled executably from its dumped tables and compared with the crate on every run',
               'the directionality step is stated by its exact characterisation (C09); on labels without an interior NSM it is the RFC 5893 rule']
TRUSTED = ['specifications of the individual steps: C02/C03/C14 (validation), C09, C10, C11']
FACT_MODULES = ['Precis.Facts.Prof']


def correspondence(ctx):
    corr = Corr()
    maxlen = 3 if ctx.tier == 'quick' else 4
    cases = []
    for prof in ('um', 'up'):
        for op in ('prepare', 'enforce'):
            cases += profile_cases(ctx, prof, op, xa(ctx, USER_ALPHA, 5), maxlen, 3000 if ctx.tier == 'quick' else 60000)
            # implementation-level oracle: composition of the profile's public rules in RFC order
        for s in all_strings(USER_ALPHA, maxlen - 1, 0):
            cases.append(f'composed|{prof}|prepare|{hexs(s)}')
            cases.append(f'composed|{prof}|enforce|{hexs(s)}')
    for s_ in long_strings(ctx, USER_ALPHA, (60 if ctx.tier == 'quick' else 3000)):
        for prof_ in ('um', 'up'):
            cases.append(f'prof|{prof_}|enforce|f|b|{hexs(s_)}|')
    # every code point at which any table-driven behaviour changes, alone and next to an ASCII letter
    bc = boundary_cps(ctx, None if ctx.tier == 'quick' else 11)
    corr.count('boundary_code_points', len(bc))
    for prof_, op_ in (('um','prepare'),('um','enforce'),('up','enforce')):
        for c_ in bc:
            cases.append(f'prof|{prof_}|{op_}|f|b|{c_:04X}|')
            cases.append(f'prof|{prof_}|{op_}|f|b|0061 {c_:04X}|')
            cases.append(f'prof|{prof_}|{op_}|f|b|{c_:04X} 0041|')
    for s_ in mark_structures(ctx):
        for prof_ in ('um', 'up'):
            cases.append(f'prof|{prof_}|enforce|f|b|{hexs(s_)}|')
    for s_ in structured_strings(ctx, 600 if ctx.tier == 'quick' else 8000, ['filler_ascii', 'filler_2', 'filler_3', 'cased', 'cased', 'wide', 'wide', 'marks', 'marks', 'rtl', 'ltrish', 'ctx', 'hangul']):
        for prof_ in ('um', 'up'):
            cases.append(f'prof|{prof_}|enforce|f|b|{hexs(s_)}|')
    for s_ in composition_pair_strings(ctx):
        for prof_ in ('um', 'up'):
            cases.append(f'prof|{prof_}|enforce|f|b|{hexs(s_)}|')
    cases += fuzz_cases(ctx, {0, 1, 5, 12})      # coverage-guided search of the tree under check (only when the source changed / thorough)
    res = run_cases(cases, ctx.work)
    known = known_bidi(ctx)

    def nontrivial(case, impl):
        f = case.split('|')
        sidx = 5 if f[0] == 'prof' else 3
        s = [int(x, 16) for x in f[sidx].split()]
        if len(s) < 2 or len(s) > 4:
            return None
        # which steps are active on this input
        feat = (any(c in (0xFF21, 0xFF76) for c in s), any(c in (0x41, 0x2126, 0x130, 0x13A0, 0x1F88, 0xFF21, 0xC5, 0x212B) for c in s),
                any(c in (0xC5, 0x212B, 0x301, 0x1E9B, 0x323, 0x2126) for c in s), any(c in (0x5D0, 0x627, 0x661, 0x5B0) for c in s),
                any(c in (0x200D, 0xB7) for c in s))
        if sum(feat) < 2:
            return None
        return (f[1], f[2], feat, impl.split(':')[0] + (impl.split('(')[0] if impl.startswith('err') else ''))

    evaluate(corr, res, nontrivial, known)
    add_unlisted_known(corr, res, known)
    # composed-vs-direct: the public rules composed in RFC order must give what prepare/enforce give
    direct = {}
    for case, impl_, _, _ in res:
        f = case.split('|')
        if f[0] == 'prof' and f[3] == 'f':
            direct[(f[1], f[2], f[5])] = impl_
    for case, impl_, _, _ in res:
        f = case.split('|')
        if f[0] == 'composed':
            d = direct.get((f[1], f[2], f[3]))
            if d is not None and d != impl_:
                corr.spec_violations.append((case, d, f'VIOLATED:composition of the public rules in RFC order gives {impl_}'))
    corr.rule = (f'prepare and enforce of UsernameCaseMapped/UsernameCasePreserved on ALL strings of length <= {maxlen} over 25 characters chosen so that every pair of steps interacts '
                 '(wide, cased, decomposed/composable, RTL/NSM/AN, contextual, disallowed, 3-/4-byte), random longer strings; also compared with the composition of the profile\'s public Rules methods. '
                 'distinct_nontrivial = distinct (profile, operation, set of active steps, outcome kind) among strings where at least two steps are active')
    return corr
