"""C03 — Context rules decide exactly what RFC 5892 Appendix A prescribes."""
from props.common import *

ASSUMPTIONS = ['labels are shorter than 2^63 code points (Rust allocation bound); positions are any usize']
TRUSTED = ['transcription of RFC 5892 Appendix A in lean/Precis/Spec/Rfc5892.lean', 'Unicode 6.3.0 Scripts / DerivedJoiningType / UnicodeData as parsed by tools/ucd_spec.py']
FACT_MODULES = ['Precis.Facts.CtxTables', 'Precis.Facts.RegistryId', 'Precis.Facts.RegistryFf', 'Precis.Facts.SpecSF', 'Precis.Facts.SrcTie']
TABLES = ['is_virama', 'is_greek', 'is_hebrew', 'is_hiragana', 'is_katakana', 'is_han', 'is_dual_joining', 'is_left_joining', 'is_right_joining', 'is_transparent']
RULES = ['zwnj', 'zwj', 'middledot', 'keraia', 'hebrew', 'katakana', 'arabic', 'extarabic']
ROLES = [('zwj', lambda n: [n, 0x200D], 1), ('zwnj', lambda n: [n, 0x200C, 0x627], 1), ('zwnj', lambda n: [0x628, 0x200C, n], 1),
         ('zwnj', lambda n: [0x628, n, 0x200C, n, 0x627], 2), ('keraia', lambda n: [0x375, n], 0), ('hebrew', lambda n: [n, 0x5F3], 1),
         ('katakana', lambda n: [0x30FB, n], 0), ('middledot', lambda n: [n, 0xB7, 0x6C], 1), ('arabic', lambda n: [0x660, n], 0), ('extarabic', lambda n: [0x6F0, n], 0)]


def correspondence(ctx):
    corr = Corr()
    impl = rle_check(ctx, corr, TABLES + ['ctxrule', 'zwnj_b2', 'zwnj_a2', 'kat_with', 'arab_with', 'extarab_with'], TABLES + ['ctxrule', 'zwnj_b2', 'zwnj_a2', 'kat_with', 'arab_with', 'extarab_with'])
    # neighbours: every table boundary (first/last of each run and the code points next to them)
    neigh = set()
    for fn in TABLES:
        for s_, e, v in impl[fn]:
            for c in (s_ - 1, s_, e, e + 1):
                if 0 <= c < 0x110000 and not (0xD800 <= c <= 0xDFFF):
                    neigh.add(c)
    if ctx.tier == 'thorough':
        neigh = [c for c in range(0x110000) if not (0xD800 <= c <= 0xDFFF)]
    else:
        neigh = sorted(neigh | {c for c in range(0, 0x110000, 97) if not (0xD800 <= c <= 0xDFFF)})
    corr.count('neighbour_code_points', len(neigh))
    cases = []
    for name, mk, off in ROLES:
        for n in neigh:
            cases.append(f'rule|{name}|{hexs(mk(n))}|{off}')
    # all labels over the class alphabet at every offset inside and outside
    alpha = xa(ctx, [0x94D, 0xA872, 0x628, 0x627, 0x64B, 0x61, 0x200C, 0x200D, 0x6C, 0xB7, 0x375, 0x3B1, 0x5F3, 0x5D0, 0x30FB, 0x3042, 0x30A2, 0x4E00, 0x660, 0x6F0], 4)
    maxlen = 3 if ctx.tier == 'quick' else 4
    offs = lambda n: [str(i) for i in range(n + 2)] + ['half', 'max-1', 'max']
    for s in all_strings(alpha, maxlen, 0):
        h = hexs(s)
        for i in range(len(s)):
            cases.append(f'regrule|{h}|{i}')
    for s in all_strings(alpha, 2, 0):
        h = hexs(s)
        for r in RULES:
            for o in offs(len(s)):
                cases.append(f'rule|{r}|{h}|{o}')
    # joining-type arrangements around ZWNJ: L/D/R/T/U runs of length <= 6
    jt = [0xA872, 0x628, 0x627, 0x64B, 0x61, 0x94D]
    for s in all_strings(jt, 3 if ctx.tier == 'quick' else 4, 0):
        for t in all_strings(jt, 2 if ctx.tier == 'quick' else 3, 0):
            lab = s + [0x200C] + t
            cases.append(f'rule|zwnj|{hexs(lab)}|{len(s)}')
    for _ in range(3000 if ctx.tier == 'quick' else 100000):
        n = ctx.rng.randrange(4, 12)
        lab = [ctx.rng.choice(alpha) for _ in range(n)]
        cases.append(f'regrule|{hexs(lab)}|{ctx.rng.randrange(n)}')
    for s_ in long_strings(ctx, alpha, (60 if ctx.tier == 'quick' else 3000)):
        i_ = ctx.rng.randrange(len(s_))
        s_[i_] = ctx.rng.choice([0x200C, 0x200D, 0xB7, 0x375, 0x5F3, 0x30FB, 0x660, 0x6F0])
        cases.append(f'regrule|{hexs(s_)}|{i_}')
        # ZWNJ deep inside a long run of transparent characters
        k_ = ctx.rng.randrange(1, 120)
        lab_ = [ctx.rng.choice([0x628, 0x627, 0x61])] + [0x64B] * k_ + [0x200C] + [0x64B] * ctx.rng.randrange(0, 120) + [ctx.rng.choice([0x627, 0x628, 0x61])]
        cases.append(f'rule|zwnj|{hexs(lab_)}|{k_ + 1}')
    # long transparent runs on either side of ZWNJ, of every length up to 70 and a few long ones, ending in a joining
    # character or in the label edge: the RFC expression has no bound on (T)*
    T1, T2 = 0x64E, 0x5BF
    for n in list(range(0, 71)) + [100, 255, 256, 257, 1000] + [x + d for x in getattr(ctx, 'extra_nums', []) if 8 <= x <= 5000 for d in (-1, 0, 1)]:
        run = [T1 if k % 3 else T2 for k in range(n)]
        for lab, off in (([0x628] + run + [0x200C, 0x628], n + 1), ([0x628, 0x200C] + run + [0x628], 1), ([0x628] + run + [0x200C] + run + [0x628], n + 1),
                         ([0x628, 0x200C] + run, 1), (run + [0x200C, 0x628], n), ([0x61] + run + [0x200C, 0x628], n + 1)):
            cases.append(f'rule|zwnj|{hexs(lab)}|{off}')
            if n in (0, 1, 29, 30, 31, 32, 64, 100, 1000):
                cases.append(f'allows.ff|{hexs(lab)}')
    # every rule with its context at the END (and at the start) of a label of EXACT total length L, for the interesting lengths
    ctxs = {'zwnj': ([0x628, 0x200C, 0x628], 1), 'zwj': ([0x94D, 0x200D], 1), 'middledot': ([0x6C, 0xB7, 0x6C], 1), 'keraia': ([0x375, 0x3B1], 0),
            'hebrew': ([0x5D0, 0x5F3], 1), 'katakana': ([0x30A2, 0x30FB], 1), 'arabic': ([0x660], 0), 'extarabic': ([0x6F0], 0)}
    for L in (INTERESTING_LENGTHS if ctx.tier != 'quick' else [n for n in INTERESTING_LENGTHS if n % 8 in (0, 1, 7)]):
        for name, (pat, off) in ctxs.items():
            for fill in (0x61, 0xE9, 0x65E5):
                n = L - len(pat)
                if n < 0:
                    continue
                cases.append(f'rule|{name}|{hexs([fill] * n + pat)}|{n + off}')
                cases.append(f'rule|{name}|{hexs(pat + [fill] * n)}|{off}')
    res = run_cases(cases, ctx.work)

    def nontrivial(case, impl):
        f = case.split('|')
        if f[0] == 'rule':
            return (f[1], impl, min(len(f[2].split()), 4), f[3] if not f[3].isdigit() else ('in' if int(f[3]) < len(f[2].split()) else 'out'))
        return ('reg', impl, min(len(f[1].split()), 4))

    evaluate(corr, res, nontrivial)
    corr.exhaustive = True
    corr.rule = (f'the ten context tables and the registry compared at EVERY code point with the model and with the independent Unicode 6.3.0 parse; each rule with '
                 f'{len(neigh)} code points as the inspected neighbour in 10 roles (thorough: every scalar); the registered rule applied at every position of ALL labels of length <= {maxlen} over 20 class representatives '
                 '(virama, L, D, R, T, non-joining, ZWNJ, ZWJ, l, middle dot, keraia, Greek, geresh, Hebrew, katakana dot, Hiragana, Katakana, Han, both digit ranges); every rule on all labels <= 2 at offsets inside, outside, 2^63, usize::MAX-1, usize::MAX; '
                 'all joining-type arrangements around ZWNJ. distinct_nontrivial = distinct (rule, result, label length, offset kind)')
    return corr
