"""C02 — A string class accepts a label iff every code point is valid in its context."""
import itertools
from props.common import *

ASSUMPTIONS = ['user-supplied classes are modelled as arbitrary functions from code points to the seven derived-property values (the trait has no other degree of freedom that allows() observes)']
TRUSTED = ['RFC 5892 Appendix A conditions and Unicode 6.3.0 data as in C03; IANA registry as in C14 (used by the specification verdicts)']
VALUES = ['PValid', 'SpecClassPval', 'SpecClassDis', 'ContextJ', 'ContextO', 'Disallowed', 'Unassigned']


def correspondence(ctx):
    corr = Corr()
    cases = []
    # custom classes: 10-character alphabet incl. contextual code points with and without a registered rule
    alpha = xa(ctx, [0x61, 0x6C, 0xB7, 0x200D, 0x200C, 0x94D, 0x628, 0x65E5, 0x20000, 0x41, 0x661, 0x6F1, 0x30FB, 0x3042], 4)
    maxlen = 3 if ctx.tier == 'quick' else 4
    labels = [s for s in all_strings(alpha, maxlen, 0)]
    nassign = 60 if ctx.tier == 'quick' else 400
    for _ in range(nassign):
        dflt = ctx.rng.choice(VALUES[:2] * 3 + VALUES)
        assign = ' '.join(f'{c:04X}={ctx.rng.choice(VALUES)}' for c in alpha if ctx.rng.random() < 0.7)
        sample = labels if ctx.tier != 'quick' and _ < 20 else ctx.rng.sample(labels, min(len(labels), 400))
        for s in sample:
            cases.append(f'allows.custom|{dflt}|{assign}|{hexs(s)}')
    # every single-value assignment of the contextual characters on every label (exhaustive, small)
    for v in VALUES:
        assign = ' '.join(f'{c:04X}={v}' for c in (0xB7, 0x200D, 0x200C, 0x41, 0x661, 0x30FB))
        for s in labels:
            cases.append(f'allows.custom|PValid|{assign}|{hexs(s)}')
    # the two standard classes: representatives of every derived-property value and of every rule
    std = [0x61, 0x20, 0xAD, 0x378, 0x2460, 0x65E5, 0x20000, 0x7F, 0x7E, 0x21, 0x1F, 0xDF, 0x640] + CTX
    for s in all_strings(std[:7] + [0x200D, 0x94D, 0xB7, 0x6C, 0x660, 0x6F0], 3, 0):
        h = hexs(s)
        cases.append(f'allows.id|{h}')
        cases.append(f'allows.ff|{h}')
    for _ in range(4000 if ctx.tier == 'quick' else 100000):
        n = ctx.rng.randrange(3, 9)
        h = hexs([ctx.rng.choice(std) for _ in range(n)])
        cases.append(f'allows.id|{h}')
        cases.append(f'allows.ff|{h}')
    for s_ in long_strings(ctx, std, (60 if ctx.tier == 'quick' else 3000)):
        cases.append(f'allows.id|{hexs(s_)}')
        cases.append(f'allows.ff|{hexs(s_)}')
    # long transparent runs around ZWNJ (no bound on (T)* in RFC 5892 A.1): acceptance by both standard classes
    for n in list(range(0, 71, 1 if ctx.tier != 'quick' else 3)) + [29, 30, 31, 32, 100, 257, 1000]:
        run = [0x64E if k % 3 else 0x5BF for k in range(n)]
        for lab in ([0x628] + run + [0x200C, 0x628], [0x628, 0x200C] + run + [0x628], [0x628, 0x200C] + run, run + [0x200C, 0x628]):
            cases.append(f'allows.ff|{hexs(lab)}')
            cases.append(f'allows.id|{hexs(lab)}')
    for s_ in structured_strings(ctx, 600 if ctx.tier == 'quick' else 8000, ['filler_ascii', 'filler_2', 'filler_3', 'filler_4', 'ctx', 'ctx', 'ctx', 'ctx_partner', 'marks', 'rtl', 'bad', 'compat']):
        cases.append(f'allows.id|{hexs(s_)}')
        cases.append(f'allows.ff|{hexs(s_)}')
    for s_ in product_strings(ctx, fillers=(0x61, 0xE9, 0x65E5, 0x4E00), extra_long=False):
        cases.append(f'allows.id|{hexs(s_)}')
        cases.append(f'allows.ff|{hexs(s_)}')
    cases += fuzz_cases(ctx, {8, 9})      # coverage-guided search of the tree under check (only when the source changed / thorough)
    res = run_cases(cases, ctx.work)

    def nontrivial(case, impl):
        f = case.split('|')
        kind = impl.split('(')[0]
        pos = impl.split(',')[1] if '(' in impl else '-'
        n = len(f[-1].split())
        return (f[0], kind, pos, n) if n >= 2 else None

    evaluate(corr, res, nontrivial)
    corr.rule = (f'allows() of a harness-defined StringClass under {nassign}+7 derived-property assignments over a 14-character alphabet (incl. middle dot, ZWJ, ZWNJ, virama, l, both Arabic digit kinds, katakana middle dot, Hiragana, 3- and 4-byte characters) on labels of length <= {maxlen}; '
                 'IdentifierClass/FreeformClass on all labels <= 3 over 13 representatives (every derived-property value, every contextual rule) and random longer labels. '
                 'distinct_nontrivial = distinct (operation, error kind, reported position, label length)')
    return corr
