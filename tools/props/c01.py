"""C01 — Every public operation returns; no input can make it panic."""
from props.common import *

ASSUMPTIONS = ['a label has fewer than 2^63 code points (Rust allocation bound); for Nickname enforce/compare every intermediate string of the at most four rounds does too',
               'allocation failure, stack exhaustion and panics inside std / unicode-normalization are outside the model: only observed by running every operation under catch_unwind']
TRUSTED = ['the model produces the outcome `panic` exactly where the Rust text can panic (slicing, usize +-1 overflow, unwrap, indexing): hand-written, validated by the correspondence (a PANIC of the implementation is compared like any other result)']
FACT_MODULES = ['Precis.Facts.Prof', 'Precis.Lemmas.Utf8Bytes']
RULES = ['zwnj', 'zwj', 'middledot', 'keraia', 'hebrew', 'katakana', 'arabic', 'extarabic']


def correspondence(ctx):
    corr = Corr()
    rle_check(ctx, corr, ['cls_id', 'cls_ff', 'cls_id_char', 'cls_ff_char'])
    alpha = xa(ctx, [0x61, 0xE9, 0x65E5, 0x20000, 0x20, 0xA0, 0x3000, 0x200D, 0x200C, 0x41, 0xFF21, 0x5D0], 4)
    maxlen = 3 if ctx.tier == 'quick' else 5
    cases = []
    for s in all_strings(alpha, maxlen, 0):
        h = hexs(s)
        for prof in ('um', 'up', 'op', 'nick'):
            cases.append(f'prof|{prof}|prepare|f|b|{h}|')
            cases.append(f'prof|{prof}|enforce|s|o|{h}|')
        # every rule of every profile, including the ones a profile does not define (default method: typed ProfileRuleNotApplicable)
        for prof, rule in [(p_, r_) for p_ in ('um', 'up', 'op', 'nick') for r_ in ('width', 'addmap', 'case', 'norm', 'dir')]:
            cases.append(f'rules|{prof}|{rule}|{h}')
        cases.append(f'allows.id|{h}')
        cases.append(f'allows.ff|{h}')
    # long inputs: block-wise / chunked fast paths (8, 16, 32, 64 bytes ...) fail only at particular byte lengths and
    # alignments: an ASCII run of EVERY length 0..130 (thorough 0..600) followed by a 2-, 3- or 4-byte character, a cased or
    # wide one, through every rule and profile operation; plus random long strings
    fill = [0x62]
    for n in list(range(0, 131 if ctx.tier == 'quick' else 601)) + [n_ + d for n_ in getattr(ctx, 'extra_nums', []) if 100 < n_ <= 70000 for d in (-1, 0, 1)]:
        for tail in ([0xE9], [0x4E16], [0x20000], [0x4E16, 0x41], [0xFF21, 0x62], [0x41, 0x4E16], [0xA0, 0x62], [0x3000]):
            h = hexs(fill * n + tail)
            for prof, rule in (('um', 'width'), ('um', 'case'), ('um', 'norm'), ('um', 'dir'), ('op', 'addmap'), ('nick', 'addmap'), ('nick', 'norm')):
                cases.append(f'rules|{prof}|{rule}|{h}')
            if n % 3 == 0:
                for prof in ('um', 'up', 'op', 'nick'):
                    cases.append(f'prof|{prof}|enforce|f|b|{h}|')
                cases.append(f'allows.ff|{h}')
    for s_ in long_strings(ctx, alpha, 40 if ctx.tier == 'quick' else 1500):
        h = hexs(s_)
        for prof in ('um', 'up', 'op', 'nick'):
            cases.append(f'prof|{prof}|enforce|f|b|{h}|')
        for prof, rule in (('um', 'width'), ('um', 'case'), ('op', 'addmap'), ('nick', 'addmap')):
            cases.append(f'rules|{prof}|{rule}|{h}')
    for s_ in straddle_strings(maxn=40 if ctx.tier == 'quick' else 200):
        h = hexs(s_)
        cases.append(f'rules|nick|addmap|{h}')
        cases.append(f'rules|um|case|{h}')
        cases.append(f'rules|um|width|{h}')
        cases.append(f'prof|nick|enforce|f|b|{h}|')
    # nickname space rule: the byte-length x position combinations the property names, one length further
    sp = [0x61, 0xE9, 0x65E5, 0x20000, 0x20, 0xA0, 0x3000]
    for s in all_strings(sp, maxlen + 2, maxlen + 1):
        h = hexs(s)
        cases.append(f'prof|nick|enforce|f|b|{h}|')
        cases.append(f'rules|nick|addmap|{h}')
    for s in all_strings(alpha[:8], 2, 0):
        for t in all_strings(alpha[:8], 2, 0):
            for prof in ('um', 'up', 'op', 'nick'):
                cases.append(f'prof|{prof}|compare|s|b|{hexs(s)}|{hexs(t)}')
    # every context rule at every offset incl. far outside and near usize::MAX
    for s in all_strings([0x61, 0x200C, 0x200D, 0xB7, 0x6C, 0x64B, 0x628, 0x94D, 0x375, 0x5F3, 0x30FB, 0x660, 0x6F0], 2, 0):
        h = hexs(s)
        for r in RULES:
            for o in [str(i) for i in range(len(s) + 2)] + ['half', 'max-1', 'max']:
                cases.append(f'rule|{r}|{h}|{o}')
    for tab in ('0', '1 0', '1 2 0', '1 2 3 3', 'E', '1 I', '1 2 3 4 4'):
        cases.append(f'stabilize|0|{tab}')
    for _ in range(5000 if ctx.tier == 'quick' else 200000):
        n = ctx.rng.randrange(1, 40)
        pool = alpha + CASED + WIDE + COMPAT + DECOMP + CTX + list(BIDI.values())
        h = hexs([ctx.rng.choice(pool) for _ in range(n)])
        prof = ctx.rng.choice(['um', 'up', 'op', 'nick'])
        cases.append(f'prof|{prof}|enforce|f|b|{h}|')
    for s_ in long_strings(ctx, alpha + CASED + WIDE + COMPAT + DECOMP + CTX, (60 if ctx.tier == 'quick' else 3000), 40, 600):
        cases.append(f'prof|{ctx.rng.choice(["um", "up", "op", "nick"])}|enforce|f|b|{hexs(s_)}|')
    for s_ in structured_strings(ctx, 300 if ctx.tier == 'quick' else 4000):
        h = hexs(s_)
        for prof in ('um', 'up', 'op', 'nick'):
            cases.append(f'prof|{prof}|enforce|f|b|{h}|')
        for prof, rule in (('um', 'width'), ('um', 'case'), ('um', 'dir'), ('op', 'addmap'), ('nick', 'addmap')):
            cases.append(f'rules|{prof}|{rule}|{h}')
        cases.append(f'allows.ff|{h}')
    for s_ in product_strings(ctx, extra_long=False):
        h = hexs(s_)
        for prof, rule in (('um', 'width'), ('um', 'case'), ('um', 'dir'), ('op', 'addmap'), ('nick', 'addmap')):
            cases.append(f'rules|{prof}|{rule}|{h}')
        if len(s_) % 3 == 0 or len(s_) > 60000:
            cases.append(f'prof|nick|enforce|f|b|{h}|')
            cases.append(f'prof|um|enforce|f|b|{h}|')
    cases += fuzz_cases(ctx, set(range(13)))      # coverage-guided search of the tree under check (only when the source changed / thorough)
    res = run_cases(cases, ctx.work)

    def nontrivial(case, impl):
        f = case.split('|')
        sidx = {'prof': 5, 'rules': 3, 'rule': 2, 'allows.id': 1, 'allows.ff': 1}.get(f[0])
        if sidx is None:
            return None
        s = [int(x, 16) for x in f[sidx].split()]
        if len(s) > 5 or not any(c > 0x7F for c in s):
            return None
        return (f[0], f[1] if f[0] != 'allows.id' else '', f[2] if f[0] in ('prof', 'rules') else '', tuple(len(chr(c).encode()) if c not in (0x20, 0xA0, 0x3000) else 'S' for c in s))

    # C01 is about returning at all: an implementation PANIC is a violation with that case as the failing input;
    # whether the returned value is the right one is the business of C02-C14 (their verdicts are not used here)
    evaluate(corr, res, nontrivial, use_verdicts=False)
    corr.count('implementation_panics', len([1 for r in res if r[1] == 'PANIC']))
    corr.exhaustive = True
    corr.rule = (f'every public operation under catch_unwind: prepare/enforce of the four profiles (fresh instance and static API), all five Rules methods, allows of both classes on ALL strings of length <= {maxlen} over '
                 '{1-,2-,3-,4-byte letters, U+0020, U+00A0, U+3000, ZWJ, ZWNJ, cased, wide, RTL}; the nickname space rule on all space/byte-length patterns two characters longer; compare on all pairs of strings <= 2; '
                 'every context rule at every offset inside, outside, at 2^63, usize::MAX-1 and usize::MAX; both entry points of both classes at every code point incl. surrogates and values above U+10FFFF; random strings up to 40 characters. '
                 'distinct_nontrivial = distinct (operation, profile, UTF-8 byte-length / space pattern) among inputs with a multi-byte character')
    return corr
