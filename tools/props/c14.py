"""C14 — Derived property of every code point follows the RFC 8264 algorithm."""
from props.common import *

ASSUMPTIONS = ['HasCompat (toNFKC(cp) != cp) is computed by the implementation with unicode-normalization (Unicode 17); its graph is dumped on every run and enters the RFC-side theorem as data; the IANA registry comparison is independent of it']
TRUSTED = ['IANA precis-tables-6.3.0.csv and the Unicode 6.3.0 files in /repo/precis-core/resources as parsed by tools/ucd_spec.py', 'transcription of RFC 8264 sections 8-9 in lean/Precis/Spec/Rfc8264.lean']
FACT_MODULES = ['Precis.Facts.Core', 'Precis.Facts.SpecSF', 'Precis.Facts.IanaDomain', 'Precis.Facts.DpIanaId', 'Precis.Facts.DpIanaFf',
                'Precis.Facts.DpRfcId', 'Precis.Facts.DpRfcFf', 'Precis.Facts.DpMiscId', 'Precis.Facts.DpMiscFf', 'Precis.Facts.IdVsFree', 'Precis.Facts.HasCompatCode', 'Precis.Facts.SrcTie']
PRED = ['is_letter_digit', 'is_join_control', 'is_old_hangul_jamo', 'is_unassigned', 'is_ascii7', 'is_control',
        'is_precis_ignorable_property', 'is_space', 'is_symbol', 'is_punctuation', 'is_other_letter_digit']


def correspondence(ctx):
    corr = Corr()
    fns = ['cls_id', 'cls_ff', 'cls_id_char', 'cls_ff_char', 'exception', 'backward_compatible', 'has_compat'] + PRED
    spec = ['cls_id', 'cls_ff', 'cls_id_char', 'cls_ff_char', 'exception'] + PRED
    impl = rle_check(ctx, corr, fns, spec)
    # the NFKC model agrees with the dumped has_compat graph
    a = sh([DRIVER, 'rle', 'has_compat_nfkc']).stdout.replace('has_compat_nfkc', 'has_compat')
    b = '\n'.join(f'has_compat\t{s_:X}\t{e:X}\t{v}' for s_, e, v in impl['has_compat']) + '\n'
    if a != b:
        corr.disagreements.append(('rle|has_compat_nfkc', 'graph of has_compat', 'nfkc model differs'))
    # entry points agree (char vs u32) on every scalar
    for a_, b_ in (('cls_id', 'cls_id_char'), ('cls_ff', 'cls_ff_char')):
        byc = {}
        for s_, e, v in impl[b_]:
            byc[(s_, e)] = v
        full = []
        for s_, e, v in impl[a_]:
            full.append((s_, e, v))
        # compare pointwise on scalars via run intersection
        chars = impl[b_]
        j = 0
        for s_, e, v in chars:
            # find value of u32 entry point at s_..e
            for s2, e2, v2 in full:
                if s2 <= e and e2 >= s_ and v2 != v:
                    corr.spec_violations.append((f'rle|{a_}|{max(s_, s2):04X}', v2, f'VIOLATED:char entry point says {v}'))
                    break
    # order-dependent probes (one process, so the history is real): a representative of every run boundary of the
    # classification, then values that alias it modulo 2^k for k = 16..31 (and back): a cache keyed by truncated bits, or by
    # "the previous code point", answers for the wrong code point
    reps = sorted({c for s_, e, v in impl['cls_id'] for c in (s_, e) if c < 0x110000})
    step = max(1, len(reps) // (300 if ctx.tier == 'quick' else 3000))
    seqc = []
    for c in reps[::step] + [0x41, 0x61, 0x4E00, 0x200D, 0xB7, 0x20, 0x10FFFF]:
        for k in range(16, 32):
            al = (c + (1 << k)) & 0xFFFFFFFF
            for cl in ('id', 'ff'):
                seqc += [f'cls.{cl}|{c:X}', f'cls.{cl}|{al:X}', f'cls.{cl}|{c:X}']
        for top in (0x01, 0x7F, 0x80, 0xFF):
            al = (top << 24) | c
            seqc += [f'cls.id|{c:X}', f'cls.id|{al:X}', f'cls.ff|{al:X}', f'cls.ff|{c:X}', f'cls.id|{c:X}']
    res = run_cases(seqc, ctx.work)
    for case, impl_, model, verdict in res:
        corr.evaluations += 1
        if impl_ != model:
            cp = int(case.split('|')[1], 16)
            (corr.spec_violations if cp > 0x10FFFF and impl_ != 'Disallowed' else corr.disagreements).append(
                (case, impl_, 'VIOLATED:values above U+10FFFF must be Disallowed (asked right after a value with the same low bits)' if cp > 0x10FFFF else model))
    corr.count('order_dependent_probes', len(seqc))
    if ctx.requested_tier == 'thorough':      # not in an escalated quick run: on changed code the sweep can be arbitrarily slow
        # all 2^32 values, 16 threads: above the dump band everything must be Disallowed
        out = sh([HARNESS, 'rle', '--full', 'cls_id', 'cls_ff'], timeout=7200).stdout
        full = parse_rle_text(out)
        for fn in ('cls_id', 'cls_ff'):
            runs = full[fn]
            # merge runs split at thread boundaries
            merged = []
            for r in runs:
                if merged and merged[-1][2] == r[2] and merged[-1][1] + 1 == r[0]:
                    merged[-1] = (merged[-1][0], r[1], r[2])
                else:
                    merged.append(r)
            low = [r for r in merged if r[0] < 0x110100]
            ref = [r for r in impl[fn] if r[0] < 0x110100]
            # the band must equal the quick dump and the tail must be one Disallowed run to u32::MAX
            tail = merged[-1]
            ok = tail[1] == 0xFFFFFFFF and tail[2] == 'Disallowed' and tail[0] <= 0x110000
            if not ok:
                bad = [r for r in merged if r[0] >= 0x110000 and r[2] != 'Disallowed']
                cp = bad[0][0] if bad else tail[1]
                corr.spec_violations.append((f'cls.{fn[-2:]}|{cp:X}', bad[0][2] if bad else 'n/a', 'VIOLATED:values above U+10FFFF must be Disallowed'))
            corr.evaluations += 1 << 32
            corr.count(f'full_u32:{fn}:runs', len(merged))
        corr.extra['full_u32_sweep'] = True
    corr.exhaustive = True
    corr.rule = ('get_value_from_codepoint and get_value_from_char of both classes and the 13 table predicates behind them evaluated at EVERY code point 0..0x1100FF plus u32 boundary samples '
                 '(thorough: all 2^32 values), compared run by run with the model and with the IANA registry / Unicode 6.3.0 data parsed independently. '
                 'distinct_nontrivial = distinct (function, value) pairs observed')
    return corr
