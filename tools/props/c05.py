"""C05 — OpaqueString (passwords) applies RFC 8265 section 4.2 exactly."""
from props.common import *
from props.profiles_common import *

ASSUMPTIONS = ['NFC is the external crate unicode-normalization, modelled executably from its dumped tables and compared with the crate on every run']
TRUSTED = ['specifications of the individual steps: C02/C03/C14 (validation), C12 (space mapping)']
FACT_MODULES = ['Precis.Facts.Prof', 'Precis.Props.C05More']


def correspondence(ctx):
    corr = Corr()
    impl = rle_check(ctx, corr, ['zs'], ['zs'])
    zs = [c for s_, e, v in impl['zs'] if v == '1' for c in range(s_, e + 1)]
    maxlen = 3 if ctx.tier == 'quick' else 4
    cases = []
    for op in ('prepare', 'enforce'):
        cases += profile_cases(ctx, 'op', op, xa(ctx, FREE_ALPHA, 5), maxlen, 3000 if ctx.tier == 'quick' else 60000)
    for s in all_strings(FREE_ALPHA, maxlen - 1, 0):
        cases.append(f'composed|op|prepare|{hexs(s)}')
        cases.append(f'composed|op|enforce|{hexs(s)}')
    # every Zs code point in every position of strings mixed with 1-4 byte characters, compatibility characters, mixed case
    fill = [0x61, 0xE9, 0x65E5, 0x20000, 0x41, 0xFB01, 0x2460]
    for z in zs:
        for pat in ([z], [z, 0x61], [0x61, z], [0x65E5, z, 0x41], [0x20000, z, z, 0xE9], [0xFB01, 0x20, z, 0x2460], [0x41, 0x301, z], [z, 0x301]):
            cases.append(f'prof|op|enforce|f|b|{hexs(pat)}|')
        for f1 in fill:
            for f2 in fill:
                cases.append(f'prof|op|enforce|f|b|{hexs([f1, z, f2])}|')
    for s_ in long_strings(ctx, FREE_ALPHA, (60 if ctx.tier == 'quick' else 3000)):
        cases.append(f'prof|op|enforce|f|b|{hexs(s_)}|')
    # every code point at which any table-driven behaviour changes, alone and next to an ASCII letter
    bc = boundary_cps(ctx, None if ctx.tier == 'quick' else 11)
    corr.count('boundary_code_points', len(bc))
    for prof_, op_ in (('op','prepare'),('op','enforce')):
        for c_ in bc:
            cases.append(f'prof|{prof_}|{op_}|f|b|{c_:04X}|')
            cases.append(f'prof|{prof_}|{op_}|f|b|0061 {c_:04X}|')
            cases.append(f'prof|{prof_}|{op_}|f|b|{c_:04X} 0041|')
    for s_ in mark_structures(ctx):
        cases.append(f'prof|op|enforce|f|b|{hexs(s_)}|')
    for s_ in straddle_strings(maxn=24 if ctx.tier == 'quick' else 130):
        cases.append(f'prof|op|enforce|f|b|{hexs(s_)}|')
    for s_ in structured_strings(ctx, 600 if ctx.tier == 'quick' else 8000, ['filler_ascii', 'filler_2', 'filler_3', 'filler_4', 'cased', 'wide', 'space', 'space', 'marks', 'marks', 'compat', 'hangul', 'ctx']):
        cases.append(f'prof|op|enforce|f|b|{hexs(s_)}|')
    for s_ in composition_pair_strings(ctx) + product_strings(ctx, tails=[0xC5, 0x212B, 0x301, 0xA0, 0x3000, 0xFB01, 0x41], heads=[[], [0x41, 0x30A]], extra_long=False):
        cases.append(f'prof|op|enforce|f|b|{hexs(s_)}|')
    cases += fuzz_cases(ctx, {2, 7, 10})      # coverage-guided search of the tree under check (only when the source changed / thorough)
    res = run_cases(cases, ctx.work)
    zset = set(zs)

    def nontrivial(case, impl):
        f = case.split('|')
        sidx = 5 if f[0] == 'prof' else 3
        s = [int(x, 16) for x in f[sidx].split()]
        if not s or len(s) > 4:
            return None
        pat = tuple(('S' if c == 0x20 else 'Z') if c in zset else ('c' if c in (0xC5, 0x212B, 0x301, 0x1100, 0x1161) else len(chr(c).encode())) for c in s)
        return (f[1], f[2], pat, impl.split('(')[0][:12])

    evaluate(corr, res, nontrivial)
    direct = {}
    for case, impl_, _, _ in res:
        f = case.split('|')
        if f[0] == 'prof':
            direct[(f[1], f[2], f[5])] = impl_
    for case, impl_, _, _ in res:
        f = case.split('|')
        if f[0] == 'composed':
            d = direct.get((f[1], f[2], f[3]))
            if d is not None and d != impl_:
                corr.spec_violations.append((case, d, f'VIOLATED:composition of the public rules in RFC order gives {impl_}'))
    corr.rule = (f'OpaqueString prepare/enforce on ALL strings of length <= {maxlen} over 23 characters (ASCII/2-byte/3-byte spaces, decomposed and composable sequences, compatibility characters, mixed case, '
                 'disallowed/unassigned/contextual code points, Hangul jamo), every one of the 17 Zs code points in 57 placements, random longer strings; compared with the composition of the public rules. '
                 'distinct_nontrivial = distinct (operation, per-character pattern of space kind / composing / UTF-8 length, outcome)')
    return corr
