"""C09 — The directionality rule is the RFC 5893 Bidi rule, on every label."""
from props.common import *

ASSUMPTIONS = ['code points not listed in UnicodeData 16.0.0 default to class L in both the implementation and the specification (unassigned code points never reach this rule through a profile)']
TRUSTED = ['Bidi_Class of Unicode 16.0.0 as parsed by tools/ucd_spec.py', 'transcription of RFC 5893 section 2 in lean/Precis/Spec/Rfc5893.lean']
FACT_MODULES = ['Precis.Facts.Prof', 'Precis.Facts.SrcTie']
KNOWN_ID = 'bidi-interior-nsm'


def correspondence(ctx):
    corr = Corr()
    impl = rle_check(ctx, corr, ['bidi', 'hasrtl1', 'dir_1', 'dir_a1', 'dir_p1', 'dir_n1', 'dir_rE', 'dir_rcr', 'dir_lcl', 'dir_rcn'], ['bidi', 'hasrtl1', 'dir_1', 'dir_a1', 'dir_p1', 'dir_rE'])
    classes = sorted({v for _, _, v in impl['bidi']})
    corr.count('bidi_classes_in_table', len(classes))
    # several representatives per class, taken from the regenerated table
    reps = {}
    for s_, e, v in impl['bidi']:
        if s_ < 0x110000 and not (0xD800 <= s_ <= 0xDFFF):
            reps.setdefault(v, [])
            if len(reps[v]) < 3:
                reps[v].append(s_)
    main = ['L', 'R', 'AL', 'AN', 'EN', 'ES', 'CS', 'ET', 'ON', 'BN', 'NSM', 'WS']
    alpha = xa(ctx, [BIDI[c] for c in main], 4)
    maxlen = 4 if ctx.tier == 'quick' else 5
    cases = []
    for s in all_strings(alpha, maxlen, 1):
        h = hexs(s)
        cases.append(f'rules|um|dir|{h}')
    # the remaining classes (B, S, LRE, RLO, ... ) in every position of short labels
    for cl, cps in reps.items():
        for c in cps:
            for pat in ([c], [0x5D0, c], [c, 0x5D0], [0x61, c, 0x627], [0x5D0, c, 0x5B0], [0x627, 0x31, c, 0x5D0], [0x5D0, 0x5B0, c]):
                cases.append(f'rules|up|dir|{hexs(pat)}')
                cases.append(f'hasrtl|{hexs(pat)}')
                cases.append(f'bidirule|{hexs(pat)}')
    for s in all_strings(alpha, 3, 0):
        cases.append(f'hasrtl|{hexs(s)}')
        cases.append(f'bidirule|{hexs(s)}')
    for _ in range(5000 if ctx.tier == 'quick' else 200000):
        n = ctx.rng.randrange(5, 14)
        cases.append(f'rules|um|dir|{hexs([ctx.rng.choice(alpha) for _ in range(n)])}')
    for s_ in long_strings(ctx, alpha, (60 if ctx.tier == 'quick' else 3000)):
        cases.append(f'rules|um|dir|{hexs(s_)}')
    for s_ in structured_strings(ctx, 800 if ctx.tier == 'quick' else 10000, ['filler_ascii', 'filler_2', 'rtl', 'rtl', 'rtl', 'ltrish', 'ltrish', 'marks', 'bad']):
        cases.append(f'rules|um|dir|{hexs(s_)}')
    for s_ in product_strings(ctx, tails=[0x5D0, 0x627, 0x661, 0x31, 0x2D, 0x5B0, 0x61, 0x670], heads=[[], [0x5D0], [0x61]], fillers=(0x61, 0x5D0, 0x5B0, 0x31), extra_long=False):
        cases.append(f'rules|um|dir|{hexs(s_)}')
    cases += fuzz_cases(ctx, {12})      # coverage-guided search of the tree under check (only when the source changed / thorough)
    res = run_cases(cases, ctx.work)
    listed = {k.get('id') for k in ctx.known}
    inv = {v: k for k, v in BIDI.items()}

    def known(case, impl, model, verdict):
        if verdict.startswith('VIOLATED-KNOWN:' + KNOWN_ID) and KNOWN_ID in listed and impl == model:
            return KNOWN_ID
        return None

    def nontrivial(case, impl):
        f = case.split('|')
        s = [int(x, 16) for x in f[-1].split()]
        if len(s) > 5 or not all(c in inv for c in s):
            return None
        cl = tuple(inv[c] for c in s)
        if not any(c in ('R', 'AL', 'AN') for c in cl):
            return None
        return (f[0], cl)

    evaluate(corr, res, nontrivial, known)
    # a VIOLATED-KNOWN verdict that is not listed (or where the model disagrees) is an ordinary violation
    for case, impl_, model, verdict in res:
        if verdict.startswith('VIOLATED-KNOWN') and known(case, impl_, model, verdict) is None:
            corr.spec_violations.append((case, impl_, verdict))
    corr.exhaustive = True
    corr.rule = (f'bidi_class, has_rtl on every one-character label and the directionality rule on every label c and a+c compared over ALL code points with the model and with the independent UnicodeData parse / RFC 5893; directionality_rule on ALL class sequences of length 1..{maxlen} over 12 classes '
                 '(L R AL AN EN ES CS ET ON BN NSM WS), 3 representatives of every one of the 23 classes in 7 placements, has_rtl / satisfy_bidi_rule (hooks) on all sequences <= 3, random longer sequences. '
                 'distinct_nontrivial = distinct (operation, class sequence) among RTL labels of length <= 5')
    return corr
