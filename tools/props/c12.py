"""C12 — Space rules map, trim and collapse spaces without touching anything else."""
from props.common import *

ASSUMPTIONS = ['strings are sequences of Unicode scalar values (Rust &str)']
TRUSTED = ['General_Category=Zs of Unicode 16.0.0 as parsed by tools/ucd_spec.py']
FACT_MODULES = ['Precis.Facts.Prof']


def correspondence(ctx):
    corr = Corr()
    impl = rle_check(ctx, corr, ['zs', 'nonascii_zs', 'opmap_after', 'nickmap_mid', 'nickmap_trail'], ['zs', 'nonascii_zs', 'opmap_after', 'nickmap_mid', 'nickmap_trail'])
    zs = [c for s_, e, v in impl['zs'] if v == '1' for c in range(s_, e + 1)]
    corr.count('zs_code_points', len(zs))
    alpha = xa(ctx, SPACES + PLAIN, 3)
    maxlen = 5 if ctx.tier == 'quick' else 6
    cases = []
    for s in all_strings(alpha, maxlen):
        h = hexs(s)
        cases.append(f'rules|nick|addmap|{h}')
        cases.append(f'rules|op|addmap|{h}')
        cases.append(f'finddis|{h}')
    for z in zs:   # all Zs code points in every position of short strings
        for pat in ([z], [z, 0x61], [0x61, z], [0x65E5, z, 0x61], [0x61, z, z, 0xE9], [0x61, 0x20, z, 0x20000], [0x20000, z, 0x20], [z, z], [0xE9, z, 0x65E5, z]):
            h = hexs(pat)
            cases.append(f'rules|nick|addmap|{h}')
            cases.append(f'rules|op|addmap|{h}')
            cases.append(f'finddis|{h}')
    for _ in range(3000 if ctx.tier == 'quick' else 100000):
        n = ctx.rng.randrange(6, 16)
        h = hexs([ctx.rng.choice(alpha + zs) for _ in range(n)])
        cases.append(f'rules|nick|addmap|{h}')
        cases.append(f'rules|op|addmap|{h}')
    for s_ in long_strings(ctx, alpha + zs, (60 if ctx.tier == 'quick' else 3000)):
        cases.append(f'rules|nick|addmap|{hexs(s_)}')
        cases.append(f'rules|op|addmap|{hexs(s_)}')
    for s_ in straddle_strings(maxn=70 if ctx.tier == 'quick' else 300):
        h_ = hexs(s_)
        cases.append(f'rules|nick|addmap|{h_}')
        cases.append(f'rules|op|addmap|{h_}')
        cases.append(f'finddis|{h_}')
    for s_ in structured_strings(ctx, 800 if ctx.tier == 'quick' else 10000, ['filler_ascii', 'filler_2', 'filler_3', 'filler_4', 'space', 'space', 'space', 'bad', 'wide', 'marks']):
        cases.append(f'rules|nick|addmap|{hexs(s_)}')
        cases.append(f'rules|op|addmap|{hexs(s_)}')
    for s_ in product_strings(ctx, tails=[[0x20, 0x20, 0x62], [0xA0, 0x62], [0x20], [0x3000], [0x62, 0x20, 0x20, 0xE9], [0x9, 0x20, 0x20]], heads=[[], [0x20], [0x61, 0x20]], extra_long=(ctx.requested_tier == 'thorough')):
        cases.append(f'rules|nick|addmap|{hexs(s_)}')
        cases.append(f'rules|op|addmap|{hexs(s_)}')
    # labels beyond 16-bit offsets (decided inside the harness against a straightforward reference: implementation-vs-oracle,
    # reported as a correspondence failure naming the case)
    for n_ in ([65530, 65536, 70000] if ctx.tier == 'quick' else [4090, 32768, 65530, 65534, 65535, 65536, 65537, 70000, 131073, 1 << 20]):
        for tail_ in ('0020 0020 0061 006C 0070 0068 0061 0020 0062 0065 0074 0061', '3000 00E9 0074 00E9 00A0 0066 0069 006E 0020', '0020', '00A0 0062'):
            cases.append(f'longspace|{n_}|{tail_}')
    cases += fuzz_cases(ctx, {7})      # coverage-guided search of the tree under check (only when the source changed / thorough)
    res = run_cases(cases, ctx.work)
    zset = set(zs)

    def nontrivial(case, impl):
        f = case.split('|')
        s = [int(x, 16) for x in f[-1].split()]
        if not any(c in zset for c in s) or len(s) > 6:
            return None
        # space / byte-length pattern
        return (f[0] + f[1] if f[0] == 'rules' else f[0], tuple(('S' if c == 0x20 else 'Z') if c in zset else len(chr(c).encode()) for c in s))

    evaluate(corr, res, nontrivial)
    corr.exhaustive = True
    corr.rule = (f'is_space_separator over ALL scalars, and both additional mapping rules with EVERY scalar c placed after a non-ASCII space / between two letters (so that nothing but Zs is ever touched), vs model and vs the independent UnicodeData parse; Nickname and OpaqueString additional mapping rules and find_disallowed_space on ALL strings of length <= {maxlen} over '
                 '{U+0020, U+00A0, U+2003, U+3000} x {1-,2-,3-,4-byte non-spaces}; all Zs code points in 9 placements; random longer strings. '
                 'distinct_nontrivial = distinct (operation, pattern of ASCII-space / other-Zs / UTF-8 length per character) among strings containing a space')
    return corr
