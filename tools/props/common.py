"""helpers shared by the per-property plugins"""
import itertools
from verif import Corr, run_cases, rle_compare, parse_rle_text, log


def hexs(cps):
    return ' '.join(f'{c:04X}' for c in cps)


def all_strings(alphabet, maxlen, minlen=0):
    for n in range(minlen, maxlen + 1):
        for t in itertools.product(alphabet, repeat=n):
            yield list(t)


def evaluate(corr, results, nontrivial=None, known=None, panic_is_violation=True):
    """standard accounting: model disagreement, spec verdicts, PANIC.
    nontrivial(case, impl) -> key or None ; known(case, impl, model, verdict) -> known-finding id or None"""
    for case, impl, model, verdict in results:
        corr.evaluations += 1
        outcome = impl.split(':')[0].split('(')[0]
        corr.count('outcome:' + (impl if impl.startswith('err:') and '(' not in impl else outcome))
        if nontrivial is not None:
            k = nontrivial(case, impl)
            if k is not None:
                corr.nontrivial.add(k)
        kid = known(case, impl, model, verdict) if known is not None else None
        if kid is not None:
            corr.known_hits.setdefault(kid, []).append(case)
            continue
        if impl.startswith('PROTOCOL-ERROR') or model.startswith('PROTOCOL-ERROR'):
            raise RuntimeError(f'protocol error on {case}: impl={impl} model={model}')
        if verdict.startswith('VIOLATED') or (panic_is_violation and impl == 'PANIC'):
            corr.spec_violations.append((case, impl, verdict if verdict.startswith('VIOLATED') else 'implementation panicked'))
        if impl != model:
            corr.disagreements.append((case, impl, model))
    if not corr.samples:
        step = max(1, len(results) // 8)
        corr.samples = [{'case': r[0], 'implementation': r[1], 'model': r[2], 'spec': r[3]} for r in results[::step][:10]]
    # report the smallest failing cases first
    corr.spec_violations.sort(key=lambda x: (len(x[0]), x[0]))
    corr.disagreements.sort(key=lambda x: (len(x[0]), x[0]))
