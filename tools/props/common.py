"""helpers shared by the per-property plugins"""
import itertools
import os
from verif import Corr, run_cases, rle_compare, parse_rle_text, log, sh, HARNESS, DRIVER


def hexs(cps):
    return ' '.join(f'{c:04X}' for c in cps)


def all_strings(alphabet, maxlen, minlen=0):
    for n in range(minlen, maxlen + 1):
        for t in itertools.product(alphabet, repeat=n):
            yield list(t)


def evaluate(corr, results, nontrivial=None, known=None, panic_is_violation=True, use_verdicts=True):
    """standard accounting: model disagreement, spec verdicts, PANIC.
    nontrivial(case, impl) -> key or None ; known(case, impl, model, verdict) -> known-finding id or None"""
    for case, impl, model, verdict in results:
        corr.evaluations += 1
        outcome = impl.split(':')[0].split('(')[0]
        corr.count('outcome:' + (impl if impl.startswith('err:') and '(' not in impl else outcome))
        if nontrivial is not None:
            k = nontrivial(case, impl)
            if k is not None:
                corr.nontrivial.add(k)
        kid = known(case, impl, model, verdict) if known is not None else None
        if kid is not None:
            corr.known_hits.setdefault(kid, []).append(case)
            continue
        if impl.startswith('PROTOCOL-ERROR') or model.startswith('PROTOCOL-ERROR'):
            raise RuntimeError(f'protocol error on {case}: impl={impl} model={model}')
        if impl.startswith('FORMS-DIFFER'):
            # the harness evaluates every rule / profile operation through more than one API form (C16); the content
            # of the result must not depend on it, whatever property this run is about
            corr.spec_violations.append((case, impl, 'VIOLATED:result depends on the API form (borrowed / owned / Cow argument, fresh / long-lived / static instance)'))
        elif (use_verdicts and verdict.startswith('VIOLATED')) or (panic_is_violation and impl == 'PANIC'):
            corr.spec_violations.append((case, impl, verdict if verdict.startswith('VIOLATED') else 'implementation panicked'))
        if impl != model:
            corr.disagreements.append((case, impl, model))
    if len(corr.samples) < 12 and results:
        step = max(1, len(results) // 8)
        corr.samples = corr.samples[:4] + [{'case': r[0], 'implementation': r[1], 'model': r[2], 'spec': r[3]} for r in results[::step][:8]]
    # report the smallest failing cases first
    corr.spec_violations.sort(key=lambda x: (len(x[0]), x[0]))
    corr.disagreements.sort(key=lambda x: (len(x[0]), x[0]))


def _first_diff(a_runs, b_runs):
    """a_runs/b_runs: sorted lists of (start,end,value) -> first code point where they differ, with both values"""
    def expand(runs):
        d = {}
        for s_, e_, v in runs:
            d[(s_, e_)] = v
        return runs
    ia = ib = 0
    pos = 0
    A, B = a_runs, b_runs
    while ia < len(A) or ib < len(B):
        ra = A[ia] if ia < len(A) else None
        rb = B[ib] if ib < len(B) else None
        if ra is None or rb is None:
            r = ra or rb
            return (r[0], ra[2] if ra else '<absent>', rb[2] if rb else '<absent>')
        lo = max(ra[0], rb[0])
        if ra[0] != rb[0] and min(ra[0], rb[0]) >= pos:
            # one of them starts earlier: the other is absent there
            if ra[0] < rb[0] and ra[0] >= pos:
                return (ra[0], ra[2], '<absent>')
            if rb[0] < ra[0] and rb[0] >= pos:
                return (rb[0], '<absent>', rb[2])
        if ra[2] != rb[2]:
            return (lo, ra[2], rb[2])
        hi = min(ra[1], rb[1])
        pos = hi + 1
        if ra[1] == hi:
            ia += 1
        else:
            A = A[:ia] + [(hi + 1, ra[1], ra[2])] + A[ia + 1:]
        if rb[1] == hi:
            ib += 1
        else:
            B = B[:ib] + [(hi + 1, rb[1], rb[2])] + B[ib + 1:]
    return None


def rle_check(ctx, corr, fns, spec_fns=()):
    """exhaustive per-code-point comparison: implementation vs model for `fns`, implementation vs
    independent specification for `spec_fns` (subset of fns).  Adds results to corr."""
    impl = parse_rle_text(sh([HARNESS, 'rle'] + list(fns)).stdout)
    model = parse_rle_text(sh([DRIVER, 'rle'] + list(fns)).stdout)
    spec = parse_rle_text(sh([DRIVER, 'rle'] + ['spec_' + f for f in spec_fns]).stdout) if spec_fns else {}
    for fn in fns:
        runs = impl.get(fn, [])
        n = sum(e - s_ + 1 for s_, e, _ in runs)
        corr.evaluations += n
        corr.count(f'rle:{fn}:code_points', n)
        corr.count(f'rle:{fn}:runs', len(runs))
        for v in {v for _, _, v in runs}:
            corr.nontrivial.add(('rle', fn, v))
        if runs != model.get(fn, []):
            d = _first_diff(runs, model.get(fn, []))
            corr.disagreements.append((f'rle|{fn}|{d[0]:04X}', d[1], d[2]))
        if fn in spec_fns:
            sr = spec.get('spec_' + fn, [])
            if runs != sr:
                d = _first_diff(runs, sr)
                corr.spec_violations.append((f'rle|{fn}|{d[0]:04X}', d[1], f'VIOLATED:independent Unicode/IANA data says {d[2]}'))
    corr.extra.setdefault('exhaustive_functions', []).extend(fns)
    if not corr.samples and fns:
        runs = impl.get(fns[0], [])
        corr.samples = [{'function': fns[0], 'run': f'{s_:04X}..{e:04X}', 'value': v} for s_, e, v in runs[:6]]
    return impl


# ---- class representatives (chosen for behavioural relevance; all are checked against the dumps at run time) ----
PLAIN = [0x61, 0xE9, 0x65E5, 0x20000]            # 1-, 2-, 3-, 4-byte letters, uncased or lowercase
SPACES = [0x20, 0xA0, 0x2003, 0x3000]            # ASCII, 2-byte, 3-byte Zs (U+3000 also <wide>)
CASED = [0x41, 0xC9, 0x130, 0x3A3, 0x1E9E, 0x2126, 0x212A, 0x1F88, 0x1C5, 0x10400, 0x13A0]
WIDE = [0xFF21, 0xFF76, 0xFFE0, 0xFF9E, 0xFF41]
COMPAT = [0xB5, 0x2460, 0xFB01, 0xA8, 0xFDFA, 0x2163]
DECOMP = [0xC5, 0x212B, 0x1E9B, 0x301, 0x308, 0x323, 0x327, 0x1100, 0x1161, 0x11A8, 0xAC00]
BIDI = {'L': 0x61, 'R': 0x5D0, 'AL': 0x627, 'AN': 0x661, 'EN': 0x31, 'ES': 0x2D, 'CS': 0x2C, 'ET': 0x25,
        'ON': 0x21, 'BN': 0xAD, 'NSM': 0x5B0, 'B': 0x2029, 'S': 0x9, 'WS': 0x20}
CTX = [0x200C, 0x200D, 0xB7, 0x375, 0x5F3, 0x5F4, 0x30FB, 0x660, 0x6F0, 0x94D, 0x6C, 0x3B1, 0x5D0, 0x3042,
       0x30A2, 0x4E00, 0x628, 0x627, 0xA872, 0x64B]


def boundary_cps(ctx, stride=None):
    """code points at which ANY table-driven behaviour can change: first/last of every run (and their neighbours) of the
    classification, bidi class, width mapping, Zs, case mapping, plus every key and image of the normalization tables.
    thorough tier: additionally every `stride`-th scalar value."""
    import verif
    runs = parse_rle_text(sh([HARNESS, 'rle', 'cls_id', 'cls_ff', 'bidi', 'widthmap', 'zs']).stdout)
    std = parse_rle_text(open(os.path.join(verif.DUMP, 'std.txt')).read())
    cps = set()
    for d in (runs, std):
        for fn, rr in d.items():
            for s_, e, v in rr:
                for c in (s_ - 1, s_, e, e + 1):
                    cps.add(c)
    for l in open(os.path.join(verif.DUMP, 'norm.txt')):
        f = l.rstrip('\n').split('\t')
        if f[0] in ('canon', 'compat'):
            cps.add(int(f[1], 16))
            cps.update(int(x, 16) for x in f[2].split())
        elif f[0] == 'comp':
            cps.update(int(x, 16) for x in f[1:4])
        elif f[0] == 'ccc':
            cps.add(int(f[1], 16))
    if stride:
        cps.update(range(0, 0x110000, stride))
    return sorted(c for c in cps if 0 <= c < 0x110000 and not (0xD800 <= c <= 0xDFFF))


def xa(ctx, alphabet, k=6):
    """alphabet + code points that occur as literals in lines of the library source that changed since the model was
    last validated against it (none on the unchanged tree): the search is steered towards what a change introduced"""
    extra = [c for c in getattr(ctx, 'extra_cps', []) if c not in alphabet]
    if len(extra) > k:
        step = len(extra) / k
        extra = [extra[int(i * step)] for i in range(k)]
    return list(alphabet) + extra


MARKS = [0x300, 0x301, 0x302, 0x303, 0x304, 0x305, 0x306, 0x307, 0x308, 0x30A, 0x30B, 0x30C, 0x30F, 0x310, 0x311, 0x313, 0x314, 0x31A, 0x31B,
         0x322, 0x323, 0x324, 0x325, 0x327, 0x328, 0x32D, 0x32E, 0x330, 0x331, 0x334, 0x338, 0x342, 0x345, 0x5B0, 0x5BF, 0x64B, 0x651, 0x653, 0x654,
         0x93C, 0x94D, 0x3099, 0x309A, 0xFF9E, 0x34F]


def mark_structures(ctx, bases=(0x61, 0x6F, 0x41, 0x75, 0x3B1, 0x391, 0xFF21)):
    """strings whose interesting property is the STRUCTURE of their combining marks (what a normalizer shortcut must get
    right): base + every ordered pair of marks (different classes, quick-check values, blocked and unblocked), a third
    character after it, and long runs of marks of every length around the stream-safe limit (30)"""
    out = []
    for b in bases[:3 if ctx.tier == 'quick' else len(bases)]:
        for m1 in MARKS:
            for m2 in MARKS:
                out.append([b, m1, m2])
        for m1 in MARKS[::3]:
            for m2 in MARKS[::2]:
                out.append([0x78, b, m1, m2, 0x41])
    for n in list(range(26, 36)) + [40, 63, 64, 65, 100, 200]:
        for m in (0x301, 0x323, 0x5B0):
            out.append([0x65] + [m] * n)
            out.append([0x5A, 0x65] + [m] * n)                    # not NFKC-stable in front of the run: 'Z' is, U+FF3A below is not
            out.append([0xFF3A, 0x65] + [m] * n + [0x20])
            out.append([0x65] + [0x301, 0x323] * (n // 2) + [0xC5])
    return out


def straddle_strings(fill=0x61, maxn=70):
    """a short interesting pattern placed after a run of filler of EVERY length (block-wise scans keep a carry between
    blocks; the carry is wrong only when the pattern straddles a block boundary) and followed by fillers of several lengths"""
    pats = [[0x20, 0x20, 0xE9], [0x20, 0xA0, 0x62], [0x20, 0x20], [0x20, 0xE9, 0x20, 0x20], [0xE9, 0x20, 0x20, 0x62], [0x3000, 0x20, 0x65E5],
            [0x20, 0x20, 0x65E5, 0x62], [0x41, 0xE9], [0xFF21, 0x20, 0x20]]
    out = []
    for n in range(0, maxn + 1):
        for p in pats:
            for m in (0, 1, 5, 8, 13):
                out.append([fill] * n + p + [0x62] * m)
    return out


def long_strings(ctx, alphabet, count, lo=20, hi=300):
    """random LONG strings (the small-scope enumerations stop at a handful of characters; the theorems have no length
    bound, so the correspondence must not have an obvious one either): plain random, long runs of one character,
    a short interesting core buried in long filler, and many combining marks in a row"""
    rng = ctx.rng
    out = []
    filler = [0x61, 0x62, 0xE9, 0x65E5]
    alphabet = xa(ctx, alphabet, 12)
    special = [n + d for n in getattr(ctx, 'extra_nums', []) if 2 <= n <= 5000 for d in (-1, 0, 1, 2)]
    for k in range(count):
        n = rng.choice(special) if special and k % 3 == 0 else rng.randrange(lo, hi)
        mode = k % 4
        if mode == 0:
            out.append([rng.choice(alphabet) for _ in range(n)])
        elif mode == 1:
            c = rng.choice(alphabet)
            s = [rng.choice(filler)] * n
            for _ in range(rng.randrange(1, 4)):
                i = rng.randrange(n)
                s[i:i] = [c] * rng.randrange(1, 20)
            out.append(s)
        elif mode == 2:
            core = [rng.choice(alphabet) for _ in range(rng.randrange(1, 5))]
            pre = [rng.choice(filler) for _ in range(rng.randrange(0, n))]
            post = [rng.choice(filler) for _ in range(rng.randrange(0, n))]
            out.append(pre + core + post)
        else:
            marks = [0x301, 0x308, 0x323, 0x327, 0x5B0, 0x64B, 0x94D]
            s = [rng.choice(alphabet)]
            for _ in range(n):
                s.append(rng.choice(marks) if rng.random() < 0.7 else rng.choice(alphabet))
            out.append(s)
    return out


# ---- coverage-guided search for inputs (libFuzzer through cargo-fuzz), used only when the source differs from the reference
# copy (escalation) or in the thorough tier.  The fuzzer is NOT an oracle: it explores the library code of the tree under
# check and its corpus — inputs that reach new branches, e.g. both sides of a fast path a change introduced, at the lengths,
# alignments and character combinations that take — is run through the ordinary correspondence afterwards.
FUZZ_KINDS = {
    0: lambda h, a, b: [f'prof|um|enforce|f|b|{h}|'], 1: lambda h, a, b: [f'prof|up|enforce|f|b|{h}|'],
    2: lambda h, a, b: [f'prof|op|enforce|f|b|{h}|'], 3: lambda h, a, b: [f'prof|nick|enforce|f|b|{h}|'],
    4: lambda h, a, b: [f'prof|nick|compare|f|b|{h}|{h}'], 5: lambda h, a, b: [f'rules|um|width|{h}'], 12: lambda h, a, b: [f'rules|um|dir|{h}'],
    6: lambda h, a, b: [f'rules|um|case|{h}'], 7: lambda h, a, b: [f'rules|nick|addmap|{h}', f'rules|op|addmap|{h}'],
    8: lambda h, a, b: [f'allows.id|{h}'], 9: lambda h, a, b: [f'allows.ff|{h}'],
    10: lambda h, a, b: [f'rules|nick|norm|{h}', f'rules|op|norm|{h}'],
    11: lambda h, a, b: [f'prof|nick|compare|f|b|{a}|{b}', f'prof|um|compare|f|b|{a}|{b}'],
}


def fuzz_cases(ctx, kinds, seconds=None):
    """protocol cases from a coverage-guided exploration of the CURRENT tree; [] on the unchanged tree in the quick tier"""
    import glob
    import subprocess
    import verif
    if not (getattr(ctx, 'escalated', None) or ctx.tier == 'thorough'):
        return []
    if os.environ.get('VERIF_NO_FUZZ'):
        return []
    seconds = seconds or (40 if ctx.requested_tier == 'quick' else 60)
    fz = os.path.join(verif.VERIF, 'fuzz')
    work = os.path.join(verif.CACHE, 'fuzz-work')
    corpus = os.path.join(verif.CACHE, 'fuzz-corpus', 'ops')
    target = os.path.join(verif.CACHE, 'fuzz-target')
    os.makedirs(work, exist_ok=True)
    os.makedirs(corpus, exist_ok=True)
    env = dict(verif.ENV)
    env['CARGO_NET_OFFLINE'] = 'true'
    lock = os.path.join(verif.REPO, 'Cargo.lock')
    if os.path.exists(lock):
        import shutil
        shutil.copy(lock, os.path.join(fz, 'Cargo.lock'))
    if not os.listdir(corpus):
        for i, s in enumerate(['aAé b', 'אְב', 'l·l', 'ＡÅ', '  a  b ', 'क्‍', 'a' * 40 + '世']):
            for op in range(12):
                open(os.path.join(corpus, f'seed{i}_{op}'), 'wb').write(bytes([op]) + s.encode())
    b = subprocess.run(['cargo', '+nightly', 'fuzz', 'build', '--fuzz-dir', fz, '--target-dir', target, 'ops'], cwd=fz, env=env, text=True,
                       stdout=subprocess.PIPE, stderr=subprocess.STDOUT)
    if b.returncode != 0:
        log('fuzz target does not build (skipped): ' + b.stdout[-300:].replace('\n', ' '))
        return []
    art = os.path.join(work, 'artifacts')
    import shutil
    shutil.rmtree(art, ignore_errors=True)
    os.makedirs(art, exist_ok=True)
    subprocess.run(['cargo', '+nightly', 'fuzz', 'run', '--fuzz-dir', fz, '--target-dir', target, 'ops', corpus, '--',
                    f'-max_total_time={seconds}', '-jobs=12', '-workers=12', f'-dict={os.path.join(fz, "dict.txt")}', '-max_len=400', '-len_control=0',
                    f'-artifact_prefix={art}/'], cwd=work, env=env, text=True, stdout=subprocess.PIPE, stderr=subprocess.STDOUT)
    files = sorted(glob.glob(os.path.join(art, '*')), key=os.path.getmtime) + sorted(glob.glob(os.path.join(corpus, '*')), key=os.path.getmtime, reverse=True)[:25000]
    cases = []
    ncrash = 0
    for fn in files:
        try:
            data = open(fn, 'rb').read()
        except OSError:
            continue
        if not data:
            continue
        k = data[0] % 12
        if k == 5 and 12 in kinds and 5 not in kinds:
            k = 12          # the directionality rule shares the fuzz operation of the width rule; checks that cannot tell the known bidi deviation ask for 5 only
        if k not in kinds:
            continue
        s = data[1:].decode('utf-8', errors='replace')
        cps = [ord(c) for c in s]
        if k == 11:
            bs = s.encode('utf-8')
            m = len(bs) // 2
            while m > 0 and (bs[m] & 0xC0) == 0x80:
                m -= 1
            a, b_ = bs[:m].decode('utf-8'), bs[m:].decode('utf-8')
            cases += FUZZ_KINDS[k]('', hexs([ord(c) for c in a]), hexs([ord(c) for c in b_]))
        else:
            cases += FUZZ_KINDS[k](hexs(cps), '', '')
            if k == 5 and 12 in kinds:
                cases += FUZZ_KINDS[12](hexs(cps), '', '')
        if fn.startswith(art):
            ncrash += 1
    for f_ in glob.glob(os.path.join(work, 'fuzz-*.log')):
        os.remove(f_)
    cases = list(dict.fromkeys(cases))
    log(f'coverage-guided search: {seconds}s, {len(files)} corpus/crash inputs ({ncrash} crashes) -> {len(cases)} cases for kinds {sorted(kinds)}')
    ctx.fuzz_info = {'seconds': seconds, 'inputs': len(files), 'crash_inputs': ncrash, 'cases': len(cases)}
    return cases


# ---- structured random strings: several dimensions at once (each single dimension has its own exhaustive generator above)
SEGMENT_POOL = {
    'filler_ascii': [0x61, 0x62, 0x7A, 0x2D, 0x2E, 0x31],
    'filler_2': [0xE9, 0xF1, 0x3B1, 0x431], 'filler_3': [0x65E5, 0x4E16, 0x30AB, 0x905], 'filler_4': [0x20000, 0x10400, 0x1F600],
    'cased': [0x41, 0x5A, 0xC9, 0x130, 0x3A3, 0x1E9E, 0x212A, 0x212B, 0x23A, 0x23E, 0x2C62, 0x1F88, 0x1C5, 0x10400, 0x13A0, 0x391],
    'wide': [0xFF21, 0xFF41, 0xFF76, 0xFF9E, 0xFF9F, 0x3000, 0xFFE6, 0xFF11],
    'space': [0x20, 0x20, 0xA0, 0x2003, 0x3000, 0x1680, 0x205F],
    'marks': MARKS,
    'rtl': [0x5D0, 0x5D1, 0x627, 0x628, 0x661, 0x6F1, 0x5B0, 0x670, 0x10C00, 0x200F],
    'ltrish': [0x31, 0x2D, 0x2C, 0x25, 0x21, 0xAD],
    'ctx': [0x200C, 0x200D, 0xB7, 0x375, 0x5F3, 0x5F4, 0x30FB, 0x660, 0x6F0],
    'ctx_partner': [0x94D, 0x6C, 0x3B1, 0x5D0, 0x3042, 0x30A2, 0x4E00, 0x628, 0x626, 0x64E, 0x5BF, 0xAD, 0x2E80],
    'compat': [0xB5, 0x2460, 0xFB01, 0xA8, 0xFDFA, 0x2163, 0x3131, 0x314B, 0x13F, 0x140, 0x387, 0xFF65, 0x2017],
    'hangul': [0x1100, 0x1161, 0x11A8, 0xAC00, 0xAC01],
    'bad': [0x0, 0x9, 0xA, 0x7F, 0x85, 0x2028, 0x378, 0xE000, 0xFFFD, 0x34F],
}


def structured_strings(ctx, count, kinds=None, maxseg=7):
    """random strings assembled from SEGMENTS (a run of one filler class of heavy-tailed length, a base with a cluster of
    1-5 marks, a contextual character between partners, a run of spaces, a run of cased / wide / RTL / compatibility
    characters), so that several dimensions vary together: non-adjacent relations, counts, total lengths, characters that
    only meet after an earlier pipeline step rewrote the string"""
    rng = ctx.rng
    kinds = kinds or list(SEGMENT_POOL)
    out = []
    for _ in range(count):
        s = []
        for _ in range(rng.randrange(1, maxseg + 1)):
            k = rng.choice(kinds)
            pool = SEGMENT_POOL[k]
            r = rng.random()
            if k.startswith('filler'):
                n = rng.choice([0, 1, 2, 3, 5, 7, 8, 9, 15, 16, 17, 31, 32, 33]) if r < 0.9 else rng.randrange(34, 90)
                c = rng.choice(pool)
                s += [c] * n if rng.random() < 0.5 else [rng.choice(pool) for _ in range(n)]
            elif k == 'marks':
                s += [rng.choice(SEGMENT_POOL['filler_ascii'] + SEGMENT_POOL['cased'] + SEGMENT_POOL['filler_2'])]
                s += [rng.choice(pool) for _ in range(rng.choice([1, 1, 2, 2, 3, 3, 4, 5, 31]))]
            elif k == 'ctx':
                s += [rng.choice(SEGMENT_POOL['ctx_partner']) for _ in range(rng.randrange(0, 3))]
                s += [rng.choice(pool)]
                s += [rng.choice(SEGMENT_POOL['ctx_partner']) for _ in range(rng.randrange(0, 3))]
            elif k == 'space':
                s += [rng.choice(pool) for _ in range(rng.choice([1, 1, 2, 3]))]
            else:
                s += [rng.choice(pool) for _ in range(rng.choice([1, 1, 2, 3, 4]))]
        out.append(s)
    return out


# ---- product of dimensions: TOTAL LENGTH x filler kind x head x tail.  Fixed-size buffers, block-wise scans and "long enough
# to be worth it" fast paths change behaviour at a particular number of characters or bytes (2^k, 2^k +- 1), for a particular
# encoded width of the filler, and only when a particular kind of character stands at the start or at the end.
INTERESTING_LENGTHS = sorted(set(list(range(0, 10)) + [n + d for k in range(4, 11) for n in (1 << k,) for d in (-2, -1, 0, 1, 2)] + [100, 127, 128, 129, 130, 200, 300, 1000]))
TAIL_POOL = sorted(set(SEGMENT_POOL['cased'] + SEGMENT_POOL['wide'] + SEGMENT_POOL['compat'] + SEGMENT_POOL['rtl'] + SEGMENT_POOL['ctx'] + SEGMENT_POOL['space'] +
                       [0x2167, 0x216B, 0x2160, 0xFB01, 0xB5, 0x301, 0x323, 0x3099, 0x94D, 0x34F, 0x378, 0x2D, 0x31, 0x61, 0xE9, 0x65E5, 0x20000]))


def product_strings(ctx, tails=None, heads=None, fillers=(0x61, 0xE9, 0x65E5), lengths=None, extra_long=True):
    """strings of EXACT total length L: head + filler * (L - len(head) - len(tail)) + tail"""
    tails = tails if tails is not None else TAIL_POOL
    heads = heads if heads is not None else [[], [0x48], [0x5D0], [0x628, 0x200C], [0x20]]
    lengths = lengths if lengths is not None else (INTERESTING_LENGTHS if ctx.tier != 'quick' else [n for n in INTERESTING_LENGTHS if n <= 10 or n % 8 in (0, 1, 7)])
    out = []
    tl = tails if ctx.tier != 'quick' else tails[::2]
    for L in lengths:
        for f in fillers:
            for h in heads:
                for t in tl:
                    tt = t if isinstance(t, list) else [t]
                    n = L - len(h) - len(tt)
                    if n < 0:
                        continue
                    out.append(h + [f] * n + tt)
    if extra_long:
        # beyond 16-bit offsets: total byte lengths around 2^16 (one string per shape)
        for L in (65536, 70000):
            for tt in ([0x20, 0x20, 0x61, 0x62], [0xA0, 0x62]):
                out.append([0x77, 0x30 + (L % 10)] + [0x61 if k % 7 else 0x20 for k in range(L)][2:] + tt)
    return out


def composition_pair_strings(ctx):
    """every pair (a, b) -> c of the normalizer's composition table as ADJACENT characters (alone, inside letters, after a
    base for mark+mark pairs): starter+starter pairs (two-part vowels), kana + voiced marks, Hangul, letters + marks"""
    import verif
    out = []
    for l in open(os.path.join(verif.DUMP, 'norm.txt')):
        f = l.rstrip('\n').split('\t')
        if f[0] == 'comp':
            a, b = int(f[1], 16), int(f[2], 16)
            out.append([a, b])
            out.append([0x78, a, b, 0x79])
            out.append([a, b, b])
    if ctx.tier == 'quick':
        out = out[::2] + [[0x9C7, 0x9BE], [0x304B, 0x3099], [0x30CF, 0x309A], [0x1025, 0x102E], [0xBC6, 0xBBE]]
    return out


def hole_triples(ctx, fn='widthmap'):
    """[h1, u, h2]: two characters the table maps around one it does not, u taken from the holes next to table entries"""
    runs = parse_rle_text(sh([HARNESS, 'rle', fn]).stdout)[fn]
    mapped = [s_ for s_, e, v in runs if v != 'none' and s_ < 0x110000]
    holes = sorted({c for s_, e, v in runs if v != 'none' for c in (s_ - 1, e + 1) if 0 < c < 0x110000 and not (0xD800 <= c <= 0xDFFF)} -
                   {c for s_, e, v in runs if v != 'none' for c in range(s_, e + 1)})
    hs = mapped[::max(1, len(mapped) // (8 if ctx.tier == 'quick' else 30))]
    out = []
    for h1 in hs:
        for u in holes:
            for h2 in hs:
                out.append([h1, u, h2])
    return out
