"""C13 — stabilize returns only fixed points and honours its iteration contract."""
import itertools
from props.common import *

ASSUMPTIONS = ['rule functions are modelled as pure functions List Nat -> Res (List Nat); the theorems quantify over all of them',
               'the correspondence passes closures built from finite function tables (states are one-character strings) to the real precis_core::profile::stabilize and records every call']
TRUSTED = ['Cow borrowed/owned distinction is not modelled (content only)']
FACT_MODULES = ['Precis.Facts.SrcTie']


def orbit_shape(tab, start):
    """(number of applications until fixed point / error / None, kind)"""
    x = start
    for k in range(8):
        t = tab[x]
        if t in ('E', 'I'):
            return (k, 'err' + t)
        if int(t) == x:
            return (k, 'fix')
        x = int(t)
    return (8, 'diverge/cycle')


def correspondence(ctx):
    corr = Corr()
    cases = []
    shapes = {}
    full = 4 if ctx.tier == 'quick' else 5
    for n in range(1, full + 1):
        vals = [str(i) for i in range(n)] + ['E', 'I']
        for tab in itertools.product(vals, repeat=n):
            for start in range(n):
                cases.append(f'stabilize|{start}|{" ".join(tab)}')
                shapes[cases[-1]] = orbit_shape(tab, start)
    # larger state spaces: random functions, plus chains that need exactly 0..6 applications
    for n in (5, 6, 7, 8) if ctx.tier == 'quick' else (6, 7, 8, 10):
        vals = [str(i) for i in range(n)] + ['E', 'I']
        for _ in range(3000 if ctx.tier == 'quick' else 60000):
            tab = [ctx.rng.choice(vals) for _ in range(n)]
            start = ctx.rng.randrange(n)
            cases.append(f'stabilize|{start}|{" ".join(tab)}')
            shapes[cases[-1]] = orbit_shape(tab, start)
    for length in range(0, 8):
        for end in ('fix', 'E', 'I', 'cycle'):
            n = length + 2
            tab = [str(i + 1) for i in range(n)]
            tab[length] = {'fix': str(length), 'E': 'E', 'I': 'I', 'cycle': '0'}[end]
            tab[n - 1] = str(n - 1)
            cases.append(f'stabilize|0|{" ".join(tab)}')
            shapes[cases[-1]] = orbit_shape(tab, 0)
    # the same function tables over state strings with multi-byte characters that share lead bytes and prefixes (family 1:
    # a byte-wise common prefix, a pointer or length comparison instead of string equality goes wrong on these)
    fam1 = []
    for c in list(cases):
        f_ = c.split('|')
        if len(f_[2].split()) <= 12:
            fam1.append(c + '|1')
            shapes[fam1[-1]] = shapes[c]
    for _ in range(4000 if ctx.tier == 'quick' else 80000):
        n = 12
        vals = [str(i) for i in range(n)] + ['E', 'I']
        tab = [ctx.rng.choice(vals[:n]) if ctx.rng.random() < 0.85 else ctx.rng.choice(vals) for _ in range(n)]
        start = ctx.rng.randrange(n)
        fam1.append(f'stabilize|{start}|{" ".join(tab)}|1')
        shapes[fam1[-1]] = orbit_shape(tab, start)
    cases += fam1
    res = run_cases(cases, ctx.work)
    evaluate(corr, res, nontrivial=lambda case, impl: (shapes[case], impl.split(';')[0].split(':')[0]) if shapes[case][0] >= 1 else None)
    for c, sh in shapes.items():
        corr.count(f'applications_until_{sh[1]}={sh[0]}')
    corr.exhaustive = True
    corr.rule = (f'ALL functions f on n <= {full} states with values in (states + rule-error + Invalid) from every start state, run through the real stabilize with call recording; '
                 'random functions on up to 10 states; chains needing exactly 0..7 applications ending in a fixed point / error / cycle. '
                 'distinct_nontrivial = distinct (applications until fixed point or error, kind, outcome) among cases needing at least one re-application')
    return corr
