"""C18 — Codepoints entries compare consistently with code points."""
from props.common import *

ASSUMPTIONS = ['entries are Single(c) or Range(a..=b) with a <= b (the property\'s side condition); inverted ranges are reported n/a by the spec and only compared model-vs-implementation']
TRUSTED = ['the u32 domain: model code points are unbounded Nat; no operator does arithmetic, so no overflow is possible (windows at 0, 2^31 and u32::MAX are compared exhaustively)']


def correspondence(ctx):
    corr = Corr()
    cases = []
    width = 12 if ctx.tier == 'quick' else 20
    windows = [0, (1 << 31) - width // 2, (1 << 32) - width]
    for base in windows:
        vals = [base + i for i in range(width)]
        for cp in vals:
            for a in vals:
                cases.append(f'cmp|S {a}|{cp}')
                for b in vals:
                    # all pairs incl. inverted and empty (a = b+1) entries: compared with the model; spec verdict only for a <= b
                    cases.append(f'cmp|R {a} {b}|{cp}')
    # cross-window: entry in one window, code point in another; extreme values
    ext = [0, 1, 0x10FFFF, 0x110000, (1 << 31) - 1, 1 << 31, (1 << 32) - 2, (1 << 32) - 1]
    for cp in ext:
        for a in ext:
            cases.append(f'cmp|S {a}|{cp}')
            for b in ext:
                cases.append(f'cmp|R {a} {b}|{cp}')
    # entries that SPAN the windows (start near 0 or 2^31, end near 2^31 or u32::MAX), the full range 0..=u32::MAX included:
    # lengths that overflow u32 arithmetic (end - start + 1 = 2^32) exist only here
    M = (1 << 32) - 1
    starts = [0, 1, 2, (1 << 31) - 1, 1 << 31]
    ends = [(1 << 31) - 1, 1 << 31, M - 2, M - 1, M]
    for a in starts:
        for b in ends:
            for cp in sorted(set(ext + [max(a - 1, 0), a, a + 1, b - 1, b, min(b + 1, M)])):
                cases.append(f'cmp|R {a} {b}|{cp}')
    res = run_cases(cases, ctx.work)

    def nontrivial(case, impl):
        # distinct relative positions of cp to (start, end) x entry shape x result
        f = case.split('|')
        e = f[1].split(' ')
        cp = int(f[2])
        if e[0] == 'S':
            a = b = int(e[1])
        else:
            a, b = int(e[1]), int(e[2])
        sgn = lambda x: (x > 0) - (x < 0)
        rel = (e[0], sgn(cp - a), sgn(cp - b), sgn(cp - a + 1), sgn(cp - b - 1), sgn(b - a), sgn(b + 1 - a))
        return (rel, impl)

    evaluate(corr, res, nontrivial)
    corr.exhaustive = True
    corr.rule = (f'every entry Single(a) / Range(a..=b) with a, b in a window of {width} consecutive values and every cp in the same window, '
                 'for windows at 0, around 2^31 and ending at u32::MAX, plus all combinations of 8 extreme values; all 14 operators + eq/ne per case. '
                 'distinct_nontrivial = distinct (entry shape, sign pattern of cp vs start/end/start-1/end+1, start vs end, operator results)')
    return corr
