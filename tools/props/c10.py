"""C10 — Case mapping lowercases every character, wherever it stands."""
from props.common import *

ASSUMPTIONS = ['the full lowercase mapping is the one the toolchain std implements (char::to_lowercase, Unicode 17.0.0), dumped on every run']
TRUSTED = ['std case tables are external: dumped through the public char API and compared exhaustively with the model on every run']
FACT_MODULES = ['Precis.Facts.Prof']


def correspondence(ctx):
    corr = Corr()
    impl = rle_check(ctx, corr, ['std_upper', 'std_lower', 'std_tolower', 'case_p'], ['case_p'])
    mapped = [c for s_, e, v in impl['std_tolower'] if v != 'id' for c in range(s_, e + 1)]
    upper = set(c for s_, e, v in impl['std_upper'] if v == '1' for c in range(s_, e + 1))
    corr.count('mapped_code_points', len(mapped))
    corr.count('mapped_but_not_is_uppercase', len([c for c in mapped if c not in upper]))
    cases = []
    ctxs = [([], []), ([0x41], []), ([0x61], []), ([0x65E5], []), ([0x20000], []), ([], [0x41]), ([], [0x61]), ([0x31], [0x41]), ([0x1F88], []), ([0xE9], [0x130])]
    for c in mapped:   # every code point with a lowercase mapping in every position relative to cased/uncased neighbours
        for pre, post in ctxs:
            cases.append(f'rules|um|case|{hexs(pre + [c] + post)}')
        cases.append(f'rules|nick|case|{hexs([0x65E5, c, c])}')
    alpha = xa(ctx, [0x41, 0x61, 0xC9, 0x65E5, 0x20000, 0x130, 0x3A3, 0x1F88, 0x1C5, 0x13A0, 0x31], 5)
    maxlen = 3 if ctx.tier == 'quick' else 5
    for s in all_strings(alpha, maxlen):
        cases.append(f'rules|um|case|{hexs(s)}')
    for _ in range(2000 if ctx.tier == 'quick' else 50000):
        n = ctx.rng.randrange(4, 12)
        cases.append(f'rules|nick|case|{hexs([ctx.rng.choice(alpha + mapped[::37]) for _ in range(n)])}')
    for s_ in long_strings(ctx, alpha + mapped[::53], (60 if ctx.tier == 'quick' else 3000)):
        cases.append(f'rules|um|case|{hexs(s_)}')
    for s_ in structured_strings(ctx, 800 if ctx.tier == 'quick' else 10000, ['filler_ascii', 'filler_2', 'filler_3', 'filler_4', 'cased', 'cased', 'cased', 'marks', 'wide']):
        cases.append(f'rules|um|case|{hexs(s_)}')
    for s_ in product_strings(ctx, extra_long=False):
        cases.append(f'rules|um|case|{hexs(s_)}')
    cases += fuzz_cases(ctx, {6})      # coverage-guided search of the tree under check (only when the source changed / thorough)
    res = run_cases(cases, ctx.work)
    mset = set(mapped)

    def nontrivial(case, impl):
        s = [int(x, 16) for x in case.split('|')[3].split()]
        idx = [i for i, c in enumerate(s) if c in mset]
        if not idx:
            return None
        first = s[idx[0]]
        return (first if len(s) <= 3 else 0, 'U' if first in upper else 'nonU', tuple(len(chr(c).encode()) for c in s[:idx[0]]), any(c in upper for c in s[:idx[0]]))

    evaluate(corr, res, nontrivial)
    corr.exhaustive = True
    corr.rule = (f'char::is_uppercase/is_lowercase/to_lowercase dumped over ALL scalars and compared with the model tables; case_mapping_rule on every one of the {len(mapped)} mapped code points in 11 neighbour contexts '
                 f'(before/after uppercase, lowercase, uncased 1-4 byte, titlecase), all strings of length <= {maxlen} over 11 class representatives, random longer strings. '
                 'distinct_nontrivial = distinct (mapped code point, trigger kind, UTF-8 pattern of what precedes, uppercase-before flag)')
    return corr
