"""case generation shared by the profile-level properties C04-C08"""
from props.common import *

# characters chosen so that every pair of pipeline steps interacts
USER_ALPHA = [0x61, 0x41, 0xFF21, 0xFF76, 0xC5, 0x212B, 0x2126, 0x130, 0x301, 0x5D0, 0x627, 0x5B0, 0x661, 0x31,
              0x200D, 0x94D, 0xB7, 0x6C, 0x20, 0x13A0, 0x1F88, 0x65E5, 0x20000, 0x1E9B, 0x323, 0x3000, 0x3A3]
FREE_ALPHA = [0x61, 0x41, 0x20, 0xA0, 0x3000, 0xC5, 0x212B, 0x301, 0xA8, 0xFDFA, 0x2163, 0xFF21, 0xB5, 0x1F88,
              0x65E5, 0x20000, 0xAD, 0x378, 0x200D, 0x94D, 0x1100, 0x1161, 0x2460]


def profile_cases(ctx, prof, op, alpha, maxlen, nrand, hows=('f',)):
    cases = []
    for s in all_strings(alpha, maxlen, 0):
        for how in hows:
            cases.append(f'prof|{prof}|{op}|{how}|b|{hexs(s)}|')
    for _ in range(nrand):
        n = ctx.rng.randrange(maxlen + 1, 12)
        cases.append(f'prof|{prof}|{op}|f|b|{hexs([ctx.rng.choice(alpha) for _ in range(n)])}|')
    return cases


def known_bidi(ctx):
    listed = {k.get('id') for k in ctx.known}

    def known(case, impl, model, verdict):
        if verdict.startswith('VIOLATED-KNOWN:bidi-interior-nsm') and 'bidi-interior-nsm' in listed and impl == model:
            return 'bidi-interior-nsm'
        return None
    return known


def add_unlisted_known(corr, res, known):
    for case, impl_, model, verdict in res:
        if verdict.startswith('VIOLATED-KNOWN') and known(case, impl_, model, verdict) is None:
            corr.spec_violations.append((case, impl_, verdict))
