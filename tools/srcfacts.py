#!/usr/bin/env python3
"""tools/srcfacts.py <repo> <gen-dir>: translate the DECLARATIVE fragments of the Rust logic into Lean data, on every run.

The logic of the library is modelled by hand and tied to the code by the correspondence; a few fragments, however, are
plain data written as code, and those are regenerated from the source text so that the theorems about them are re-checked
against what the code says now:

  * the iteration bound of `precis_core::profile::stabilize`            (`for _ in 0..=N`)
  * the arms of `precis_core::context::get_context_rule`                (code point patterns -> rule function)
  * the order and outcomes of the decision list in `get_derived_property_value`

A fragment whose shape is not recognised (the code was restructured) is emitted as `none`: the theorems about it then hold
vacuously and the evidence says so — a harmless rewrite raises no alarm, and the behaviour is still compared by the
correspondence.  A recognised fragment that differs from the model makes a theorem fail (a broken proof obligation).
"""
import os
import re
import sys


def strip_comments(src):
    src = re.sub(r'/\*.*?\*/', '', src, flags=re.S)
    return '\n'.join(l.split('//')[0] for l in src.split('\n'))


def fn_body(src, name):
    m = re.search(r'\bfn\s+' + re.escape(name) + r'\b', src)
    if not m:
        return None
    i = src.find('{', m.end())
    if i < 0:
        return None
    depth = 0
    for j in range(i, len(src)):
        if src[j] == '{':
            depth += 1
        elif src[j] == '}':
            depth -= 1
            if depth == 0:
                return src[i + 1:j]
    return None


def stabilize_bound(repo):
    src = strip_comments(open(os.path.join(repo, 'precis-core/src/profile.rs')).read())
    body = fn_body(src, 'stabilize')
    if body is None:
        return None
    loops = re.findall(r'\bfor\s+\w+\s+in\s+(\d+)\s*\.\.(=?)\s*(\d+)', body)
    if len(loops) != 1 or re.search(r'\b(while|loop)\b', body):
        return None
    lo, eq, hi = loops[0]
    n = int(hi) - int(lo) + (1 if eq else 0)
    return n if n >= 0 else None


def num(tok):
    tok = tok.strip().replace('_', '')
    if re.fullmatch(r'0x[0-9a-fA-F]+', tok):
        return int(tok, 16)
    if re.fullmatch(r'\d+', tok):
        return int(tok)
    return None


def context_registry(repo):
    src = strip_comments(open(os.path.join(repo, 'precis-core/src/context.rs')).read())
    body = fn_body(src, 'get_context_rule')
    if body is None:
        return None
    m = re.fullmatch(r'\s*match\s+cp\s*\{(.*)\}\s*', body, flags=re.S)
    if not m:
        return None
    arms = [a.strip() for a in m.group(1).split(',') if a.strip()]
    out = []
    seen_default = False
    for a in arms:
        mm = re.fullmatch(r'(.+?)=>\s*(.+)', a, flags=re.S)
        if not mm or seen_default:
            return None
        pat, rhs = mm.group(1).strip(), mm.group(2).strip()
        if pat == '_':
            if rhs != 'None':
                return None
            seen_default = True
            continue
        r = re.fullmatch(r'Some\(\s*(\w+)\s*\)', rhs)
        if not r:
            return None
        for alt in pat.split('|'):
            alt = alt.strip()
            rr = re.fullmatch(r'(\S+)\s*\.\.=\s*(\S+)', alt)
            if rr:
                lo, hi = num(rr.group(1)), num(rr.group(2))
            else:
                lo = hi = num(alt)
            if lo is None or hi is None:
                return None
            out.append((lo, hi, r.group(1)))
    return out if seen_default else None


def decision_list(repo):
    src = strip_comments(open(os.path.join(repo, 'precis-core/src/stringclasses.rs')).read())
    body = fn_body(src, 'get_derived_property_value')
    if body is None:
        return None
    # the two table look-ups (`match common::X(cp) { Some(val) => *val, None => ...`) then an if / else-if ladder
    steps = []
    pos = 0
    for m in re.finditer(r'match\s+common::(\w+)\(cp\)\s*\{\s*Some\(val\)\s*=>\s*\*val\s*,\s*None\s*=>', body):
        steps.append((m.group(1), 'val'))
        pos = m.end()
    rest = body[pos:]
    ladder = re.findall(r'(?:\bif|else\s+if)\s+common::(\w+)\(cp\)\s*\{\s*([^{}]+?)\s*\}', rest)
    if not ladder:
        return None
    for fn, outcome in ladder:
        o = outcome.strip()
        mm = re.fullmatch(r'DerivedPropertyValue::(\w+)', o)
        if mm:
            steps.append((fn, mm.group(1)))
            continue
        mm = re.fullmatch(r'obj\.(\w+)\(\)', o)
        if mm:
            steps.append((fn, 'class:' + mm.group(1)))
            continue
        return None
    m = re.search(r'else\s*\{\s*DerivedPropertyValue::(\w+)\s*\}\s*\}?\s*\}?\s*,?\s*\}?\s*,?\s*\}?\s*$', rest.strip())
    if not m:
        return None
    # every `common::` call in the body must have been accounted for, otherwise the shape is not the expected one
    if len(re.findall(r'common::\w+\(cp\)', body)) != len(steps):
        return None
    steps.append(('else', m.group(1)))
    return steps


RULE_FNS = ['rule_zero_width_nonjoiner', 'rule_zero_width_joiner', 'rule_middle_dot', 'rule_greek_lower_numeral_sign_keraia',
            'rule_hebrew_punctuation', 'rule_katakana_middle_dot', 'rule_arabic_indic_digits', 'rule_extended_arabic_indic_digits']
PREDS = ['get_exception_val', 'get_backward_compatible_val', 'is_unassigned', 'is_ascii7', 'is_join_control', 'is_old_hangul_jamo',
         'is_precis_ignorable_property', 'is_control', 'has_compat', 'is_letter_digit', 'is_other_letter_digit', 'is_space', 'is_symbol',
         'is_punctuation', 'else']
VALUES = ['PValid', 'SpecClassPval', 'SpecClassDis', 'ContextJ', 'ContextO', 'Disallowed', 'Unassigned']   # order of the model's DPV
CALLBACKS = ['on_has_compat', 'on_other_letter_digits', 'on_spaces', 'on_symbols', 'on_punctuation']


def code(lst, x, base=0):
    return base + lst.index(x) if x in lst else 99


def outcome_code(o):
    if o == 'val':
        return 50                      # the value found in the table
    if o.startswith('class:'):
        return code(CALLBACKS, o[6:], 20)
    return code(VALUES, o)


def class_callbacks(repo):
    """(class index 0=IdentifierClass 1=FreeformClass, callback index, value code) for the five SpecificDerivedPropertyValue methods"""
    src = strip_comments(open(os.path.join(repo, 'precis-core/src/stringclasses.rs')).read())
    out = []
    for ci, cls in enumerate(('IdentifierClass', 'FreeformClass')):
        m = re.search(r'impl\s+SpecificDerivedPropertyValue\s+for\s+' + cls + r'\s*\{', src)
        if not m:
            return None
        depth, j = 1, m.end()
        while j < len(src) and depth:
            depth += {'{': 1, '}': -1}.get(src[j], 0)
            j += 1
        body = src[m.end():j - 1]
        fns = re.findall(r'fn\s+(\w+)\s*\(\s*&self\s*\)\s*->\s*DerivedPropertyValue\s*\{\s*DerivedPropertyValue::(\w+)\s*\}', body)
        if len(fns) != len(re.findall(r'\bfn\b', body)):
            return None
        for fn, v in fns:
            out.append((ci, code(CALLBACKS, fn), code(VALUES, v)))
    return out


BIDI = ['AL', 'AN', 'B', 'BN', 'CS', 'EN', 'ES', 'ET', 'FSI', 'L', 'LRE', 'LRI', 'LRO', 'NSM', 'ON', 'PDF', 'PDI', 'R', 'RLE', 'RLI', 'RLO', 'S', 'WS']


def bidi_sets(repo):
    """for has_rtl, satisfy_bidi_rule, is_valid_rtl_label, is_valid_ltr_label: every maximal alternation
    `BidiClass::A | BidiClass::B | ...` in the body, in textual order, as lists of class indices"""
    src = strip_comments(open(os.path.join(repo, 'precis-profiles/src/bidi.rs')).read())
    out = []
    for fn in ('has_rtl', 'satisfy_bidi_rule', 'is_valid_rtl_label', 'is_valid_ltr_label'):
        body = fn_body(src, fn)
        if body is None:
            return None
        sets = []
        for m in re.finditer(r'BidiClass::(\w+)(?:\s*\|\s*BidiClass::(?:\w+))*', body):
            names = re.findall(r'BidiClass::(\w+)', m.group(0))
            if any(n not in BIDI for n in names):
                return None
            sets.append([BIDI.index(n) for n in names])
        out.append(sets)
    # the expected skeleton: number of alternations per function (anything else = restructured code)
    if [len(x) for x in out] != [1, 2, 6, 4]:
        return None
    if len(re.findall(r'\bfor\b', fn_body(src, 'is_valid_rtl_label'))) != 1 or len(re.findall(r'\bfor\b', fn_body(src, 'is_valid_ltr_label'))) != 1:
        return None
    return out


def lean_str(s):
    return '"' + s.replace('\\', '\\\\').replace('"', '\\"') + '"'


def main():
    repo, gen = sys.argv[1], sys.argv[2]
    try:
        sb = stabilize_bound(repo)
    except Exception:
        sb = None
    try:
        reg = context_registry(repo)
    except Exception:
        reg = None
    try:
        dl = decision_list(repo)
    except Exception:
        dl = None
    try:
        cb = class_callbacks(repo)
    except Exception:
        cb = None
    try:
        bs = bidi_sets(repo)
    except Exception:
        bs = None
    out = ['-- GENERATED by tools/srcfacts.py from the Rust source text of precis-core (declarative fragments only); do not edit.',
           'namespace Precis.Gen.Src', '',
           '/-- number of applications `stabilize` makes at most (`for _ in 0..=N` gives N+1); `none` = shape not recognised -/',
           'def stabilizeApplications : Option Nat := ' + ('none' if sb is None else f'some {sb}'), '',
           '/-- arms of `get_context_rule` in source order: (first, last, rule function); `none` = shape not recognised.',
           'Rule functions by index: ' + ', '.join(f'{i}={n}' for i, n in enumerate(RULE_FNS)) + '; 99 = any other name -/',
           'def contextRegistry : Option (List (Nat × Nat × Nat)) := ' +
           ('none' if reg is None else 'some [' + ', '.join(f'({lo}, {hi}, {code(RULE_FNS, fn)})' for lo, hi, fn in reg) + ']'),
           ('' if reg is None else '-- ' + ', '.join(f'{lo:04X}..{hi:04X} {fn}' for lo, hi, fn in reg)), '',
           '/-- the decision list of `get_derived_property_value` in source order: (predicate, outcome); `none` = shape not recognised.',
           'Predicates by index: ' + ', '.join(f'{i}={n}' for i, n in enumerate(PREDS)) + '.',
           'Outcomes: 0..6 = ' + ' '.join(VALUES) + '; 20..24 = class callback ' + ' '.join(CALLBACKS) + '; 50 = the value found in the table; 99 = anything else -/',
           'def decisionList : Option (List (Nat × Nat)) := ' +
           ('none' if dl is None else 'some [' + ', '.join(f'({code(PREDS, a)}, {outcome_code(b)})' for a, b in dl) + ']'),
           ('' if dl is None else '-- ' + ', '.join(f'{a}->{b}' for a, b in dl)), '',
           '/-- the five class callbacks: (class 0=IdentifierClass 1=FreeformClass, callback index, value index) -/',
           'def classCallbacks : Option (List (Nat × Nat × Nat)) := ' +
           ('none' if cb is None else 'some [' + ', '.join(f'({a}, {b}, {c})' for a, b, c in cb) + ']'), '',
           '/-- bidi.rs: the class alternations `BidiClass::A | BidiClass::B | …` of has_rtl, satisfy_bidi_rule, is_valid_rtl_label,',
           'is_valid_ltr_label in textual order (class index = position in the alphabetical enum: ' + ' '.join(f'{i}={n}' for i, n in enumerate(BIDI)) + ') -/',
           'def bidiSets : Option (List (List (List Nat))) := ' +
           ('none' if bs is None else 'some [' + ', '.join('[' + ', '.join('[' + ', '.join(str(x) for x in st) + ']' for st in f) + ']' for f in bs) + ']'), '',
           'end Precis.Gen.Src', '']
    text = '\n'.join(out)
    path = os.path.join(gen, 'SrcFacts.lean')
    if not os.path.exists(path) or open(path).read() != text:
        open(path, 'w').write(text)
        print('srcfacts changed: SrcFacts.lean', end=' ')
    else:
        print('srcfacts changed:', end=' ')
    print(f'[stabilize={sb} registry={"none" if reg is None else len(reg)} decisionList={"none" if dl is None else len(dl)} callbacks={"none" if cb is None else len(cb)} bidiSets={"none" if bs is None else "ok"}]')


if __name__ == '__main__':
    main()
