#!/bin/sh
# tools/seedverify.sh <scratch-worktree>: confirm a sub-agent's seeded change in ITS scratch worktree
# (never in /repo): (1) existing suite passes with the change (demo moved aside), (2) the demo fails with
# the change, (3) the demo passes without it.  Expects <worktree>/SEED/patch.diff and exactly one
# untracked demo test file under precis-*/tests/ (or examples/).
W=$(readlink -f "$1")
cd "$W" || exit 2
export CARGO_NET_OFFLINE=true
DEMO=$(git status --porcelain -uall | awk '$1=="??"{print $2}' | grep -v '^SEED' | grep -E 'tests/|examples/' | head -1)
[ -z "$DEMO" ] && { echo "no demo file found"; git status --porcelain; exit 2; }
CRATE=$(echo "$DEMO" | cut -d/ -f1)
NAME=$(basename "$DEMO" .rs)
echo "demo=$DEMO crate=$CRATE name=$NAME"
# make sure the tree is HEAD + patch
git checkout -q -- . && git apply SEED/patch.diff || { echo "patch does not apply to HEAD"; exit 2; }
mv "$DEMO" /tmp/seedverify_demo_$$.rs
cargo test --workspace --no-fail-fast --offline > /tmp/seedverify_suite_$$.log 2>&1; RC1=$?
echo "suite with change: rc=$RC1 $(grep -E '^test result' /tmp/seedverify_suite_$$.log | awk '{p+=$4; f+=$6} END {print "passed=" p " failed=" f}')"
mv /tmp/seedverify_demo_$$.rs "$DEMO"
cargo test --offline -p "$CRATE" --test "$NAME" > /tmp/seedverify_demo1_$$.log 2>&1; RC2=$?
echo "demo with change: rc=$RC2 $(grep -E '^test result' /tmp/seedverify_demo1_$$.log | head -1)"
git apply -R SEED/patch.diff
cargo test --offline -p "$CRATE" --test "$NAME" > /tmp/seedverify_demo2_$$.log 2>&1; RC3=$?
echo "demo without change: rc=$RC3 $(grep -E '^test result' /tmp/seedverify_demo2_$$.log | head -1)"
git apply SEED/patch.diff
rm -f /tmp/seedverify_*_$$.log
if [ $RC1 -eq 0 ] && [ $RC2 -ne 0 ] && [ $RC3 -eq 0 ]; then echo "CONFIRMED"; exit 0; else echo "NOT CONFIRMED"; exit 1; fi
