/-
Tie between the hand-written model and the DECLARATIVE fragments of the Rust source, regenerated on every run by
tools/srcfacts.py (Gen/SrcFacts.lean): the iteration bound of `stabilize`, the arms of `get_context_rule`, the order and
outcomes of the decision list of `get_derived_property_value`, the five class callbacks of both string classes.

Each fragment is an `Option`: `none` means the translator did not recognise the shape of the code (a rewrite), in which
case the statement holds vacuously and the behaviour is tied by the correspondence alone.  When the shape is recognised
the theorem says the model IS what the source text says; a changed constant, arm, order or outcome breaks the proof.
-/
import Precis.Model.Profiles
import Precis.Gen.SrcFacts
namespace Precis.SrcTie
open Precis Precis.Gen.Src

/-! ### `stabilize`: number of applications -/

theorem stabilize_rounds_from_source : stabilizeApplications.all (fun n => n == stabilizeRounds) = true := by decide

/-! ### `get_context_rule` -/

/-- index of the Rust rule function a model rule stands for (same numbering as tools/srcfacts.py) -/
def ruleCode : RuleId → Nat
  | .zwnj => 0 | .zwj => 1 | .middleDot => 2 | .keraia => 3 | .hebrew => 4 | .katakana => 5 | .arabic => 6 | .extArabic => 7

/-- a Rust `match` on `cp`: the first arm whose pattern contains `cp` -/
def regLookup (reg : List (Nat × Nat × Nat)) (cp : Nat) : Option Nat :=
  (reg.find? (fun e => decide (e.1 ≤ cp) && decide (cp ≤ e.2.1))).map (·.2.2)

theorem regLookup_none (reg : List (Nat × Nat × Nat)) (cp : Nat) (h : ∀ e ∈ reg, e.2.1 < cp) :
    regLookup reg cp = none := by
  unfold regLookup
  rw [Option.map_eq_none_iff, List.find?_eq_none]
  intro e he
  have := h e he
  simp only [Bool.and_eq_true, decide_eq_true_eq, not_and, Nat.not_le]
  intro _; exact this

theorem getContextRule_none (cp : Nat) (h : 0x3100 ≤ cp) : getContextRule cp = none := by
  unfold getContextRule
  simp only [Bool.or_eq_true, decide_eq_true_eq, Bool.and_eq_true]
  repeat (first | rw [if_neg (by omega)] | rfl)

/-- every code point below 0x3100 agrees, and no arm reaches 0x3100 -/
def registryOk (reg : List (Nat × Nat × Nat)) : Bool :=
  (List.range 0x3100).all (fun cp => (getContextRule cp).map ruleCode == regLookup reg cp) &&
  reg.all (fun e => decide (e.2.1 < 0x3100))

theorem registry_ok : contextRegistry.all registryOk = true := by decide +kernel

/-- the model's rule registry is the `match` of the source text, for every code point -/
theorem registry_from_source (reg : List (Nat × Nat × Nat)) (h : contextRegistry = some reg) (cp : Nat) :
    (getContextRule cp).map ruleCode = regLookup reg cp := by
  have hk := registry_ok
  rw [h] at hk
  simp only [Option.all_some, registryOk, Bool.and_eq_true, List.all_eq_true, List.mem_range, beq_iff_eq,
    decide_eq_true_eq] at hk
  by_cases hc : cp < 0x3100
  · exact hk.1 cp hc
  · rw [getContextRule_none cp (by omega), regLookup_none reg cp (fun e he => by have := hk.2 e he; omega)]
    rfl

/-! ### the decision list -/

/-- value index of tools/srcfacts.py -/
def dpvOfCode : Nat → DPV
  | 0 => .pValid | 1 => .specClassPval | 2 => .specClassDis | 3 => .contextJ | 4 => .contextO | 5 => .disallowed
  | _ => .unassigned

/-- one step of the list: `some v` = the step decides with value `v`; `none` = go on.  Predicate and outcome codes as in
tools/srcfacts.py.  Outcome 50 = the value found by the table look-up, 20..24 = the class callback. -/
def stepValue (cls : Cls) (cp : Nat) (pred out : Nat) : Option DPV :=
  let fixed : DPV := if 20 ≤ out && out ≤ 24 then cls.spec else dpvOfCode out
  let onBool (b : Bool) : Option DPV := if b then some fixed else none
  match pred with
  | 0 => getExceptionVal cp
  | 1 => getBackwardCompatibleVal cp
  | 2 => onBool (isUnassigned cp)
  | 3 => onBool (isAscii7 cp)
  | 4 => onBool (isJoinControl cp)
  | 5 => onBool (isOldHangulJamo cp)
  | 6 => onBool (isPrecisIgnorableProperty cp)
  | 7 => onBool (isControl cp)
  | 8 => onBool (hasCompat cp)
  | 9 => onBool (isLetterDigit cp)
  | 10 => onBool (isOtherLetterDigit cp)
  | 11 => onBool (isSpace cp)
  | 12 => onBool (isSymbol cp)
  | 13 => onBool (isPunctuation cp)
  | _ => some fixed

/-- run the list: first deciding step wins -/
def evalSteps (cls : Cls) (cp : Nat) : List (Nat × Nat) → DPV
  | [] => .disallowed
  | (p, o) :: r =>
    match stepValue cls cp p o with
    | some v => v
    | none => evalSteps cls cp r

/-- the list the model's `derivedProp` implements -/
def modelSteps : List (Nat × Nat) :=
  [(0, 50), (1, 50), (2, 6), (3, 0), (4, 3), (5, 5), (6, 5), (7, 5), (8, 20), (9, 0), (10, 21), (11, 22), (12, 23),
   (13, 24), (14, 5)]

/-- `derivedProp` IS the interpretation of that list (same predicates, same order, same outcomes) -/
theorem derivedProp_eq_steps (cls : Cls) (cp : Nat) : derivedProp cls cp = evalSteps cls cp modelSteps := by
  unfold derivedProp modelSteps
  simp only [evalSteps, stepValue]
  generalize getExceptionVal cp = e
  generalize getBackwardCompatibleVal cp = g
  generalize isUnassigned cp = b1
  generalize isAscii7 cp = b2
  generalize isJoinControl cp = b3
  generalize isOldHangulJamo cp = b4
  generalize isPrecisIgnorableProperty cp = b5
  generalize isControl cp = b6
  generalize hasCompat cp = b7
  generalize isLetterDigit cp = b8
  generalize isOtherLetterDigit cp = b9
  generalize isSpace cp = b10
  generalize isSymbol cp = b11
  generalize isPunctuation cp = b12
  cases e <;> try rfl
  cases g <;> try rfl
  cases b1 <;> try rfl
  cases b2 <;> try rfl
  cases b3 <;> try rfl
  cases b4 <;> try rfl
  cases b5 <;> try rfl
  cases b6 <;> try rfl
  cases b7 <;> try rfl
  cases b8 <;> try rfl
  cases b9 <;> try rfl
  cases b10 <;> try rfl
  cases b11 <;> try rfl
  cases b12 <;> rfl

/-- and that list is the one read from the source text -/
theorem decision_list_from_source : decisionList.all (fun l => l == modelSteps) = true := by decide

/-- the class callbacks: IdentifierClass answers SpecClassDis to all five, FreeformClass SpecClassPval -/
def callbacksOk (l : List (Nat × Nat × Nat)) : Bool :=
  l == [(0, 0, 2), (0, 1, 2), (0, 2, 2), (0, 3, 2), (0, 4, 2), (1, 0, 1), (1, 1, 1), (1, 2, 1), (1, 3, 1), (1, 4, 1)]

theorem class_callbacks_from_source : classCallbacks.all callbacksOk = true := by decide

theorem cls_spec_codes : dpvOfCode 2 = Cls.spec .identifier ∧ dpvOfCode 1 = Cls.spec .freeform := ⟨rfl, rfl⟩

/-! ### bidi.rs: the class sets of `has_rtl`, `satisfy_bidi_rule` and the two label scans -/

/-- position of a class in the (alphabetical) generated enum: the numbering of tools/srcfacts.py -/
def bidiCode : BidiClass → Nat
  | .AL => 0 | .AN => 1 | .B => 2 | .BN => 3 | .CS => 4 | .EN => 5 | .ES => 6 | .ET => 7 | .FSI => 8 | .L => 9
  | .LRE => 10 | .LRI => 11 | .LRO => 12 | .NSM => 13 | .ON => 14 | .PDF => 15 | .PDI => 16 | .R => 17 | .RLE => 18
  | .RLI => 19 | .RLO => 20 | .S => 21 | .WS => 22

/-- `matches!(c, BidiClass::A | BidiClass::B | …)` -/
def inSet (st : List Nat) (c : BidiClass) : Bool := st.contains (bidiCode c)

def hasRtlSet : List Nat := [17, 0, 1]
def firstRtlSet : List Nat := [17, 0]
def firstLtrSet : List Nat := [9]
def rtlPlain : List Nat := [17, 0, 6, 4, 7, 14, 3]
def rtlEnd : List Nat := [17, 0, 5, 1]
def ltrPlain : List Nat := [9, 5, 6, 4, 7, 14, 3]
def ltrEnd : List Nat := [9, 5]

/-- `is_valid_rtl_label` with the class sets of its `match` arms as parameters (arms tried in source order) -/
def scanRtl (plain anS enS nsmS nsmPrev endS : List Nat) :
    List BidiClass → BidiClass → Bool → Bool → Bool → Bool
  | [], prev, nsm, _, _ => nsm || inSet endS prev
  | cl :: r, prev, nsm, en, an =>
    if inSet plain cl then (if nsm then false else scanRtl plain anS enS nsmS nsmPrev endS r cl nsm en an)
    else if inSet anS cl then
      (if en then false else if nsm then false else scanRtl plain anS enS nsmS nsmPrev endS r cl nsm en true)
    else if inSet enS cl then
      (if an then false else if nsm then false else scanRtl plain anS enS nsmS nsmPrev endS r cl nsm true an)
    else if inSet nsmS cl then
      (if !inSet nsmPrev prev then false else scanRtl plain anS enS nsmS nsmPrev endS r prev true en an)
    else false

/-- `is_valid_ltr_label` likewise -/
def scanLtr (plain nsmS nsmPrev endS : List Nat) : List BidiClass → BidiClass → Bool → Bool
  | [], prev, nsm => nsm || inSet endS prev
  | cl :: r, prev, nsm =>
    if inSet plain cl then (if nsm then false else scanLtr plain nsmS nsmPrev endS r cl nsm)
    else if inSet nsmS cl then (if !inSet nsmPrev prev then false else scanLtr plain nsmS nsmPrev endS r prev true)
    else false

theorem endsRtl_eq (c : BidiClass) : endsRtl c = inSet rtlEnd c := by cases c <;> rfl
theorem endsLtr_eq (c : BidiClass) : endsLtr c = inSet ltrEnd c := by cases c <;> rfl
theorem isRtlClass_eq (c : BidiClass) : isRtlClass c = inSet hasRtlSet c := by cases c <;> rfl

theorem validRtl_eq_scan (cs : List BidiClass) : ∀ (prev : BidiClass) (nsm en an : Bool),
    validRtl cs prev nsm en an = scanRtl rtlPlain [1] [5] [13] rtlEnd rtlEnd cs prev nsm en an := by
  induction cs with
  | nil => intro prev nsm en an; simp only [validRtl, scanRtl, endsRtl_eq]
  | cons cl r ih =>
    intro prev nsm en an
    cases cl <;>
      simp [validRtl, scanRtl, inSet, bidiCode, rtlPlain, ih, endsRtl_eq, rtlEnd]

theorem validLtr_eq_scan (cs : List BidiClass) : ∀ (prev : BidiClass) (nsm : Bool),
    validLtr cs prev nsm = scanLtr ltrPlain [13] ltrEnd ltrEnd cs prev nsm := by
  induction cs with
  | nil => intro prev nsm; simp only [validLtr, scanLtr, endsLtr_eq]
  | cons cl r ih =>
    intro prev nsm
    cases cl <;>
      simp [validLtr, scanLtr, inSet, bidiCode, ltrPlain, ih, endsLtr_eq, ltrEnd]

/-- `satisfy_bidi_rule` on the classes: dispatch on the first character by the two first-character sets -/
theorem satisfyBidiClasses_eq (cs : List BidiClass) :
    satisfyBidiClasses cs =
      match cs with
      | [] => true
      | first :: r =>
        if inSet firstRtlSet first then scanRtl rtlPlain [1] [5] [13] rtlEnd rtlEnd r first false false false
        else if inSet firstLtrSet first then scanLtr ltrPlain [13] ltrEnd ltrEnd r first false
        else false := by
  cases cs with
  | nil => rfl
  | cons first r =>
    simp only [satisfyBidiClasses, validRtl_eq_scan, validLtr_eq_scan]
    cases first <;> simp [inSet, bidiCode, firstRtlSet, firstLtrSet]

/-- the sets the model scans with, laid out as tools/srcfacts.py reads them from bidi.rs -/
def modelBidiSets : List (List (List Nat)) :=
  [[hasRtlSet], [firstRtlSet, firstLtrSet], [rtlPlain, [1], [5], [13], rtlEnd, rtlEnd], [ltrPlain, [13], ltrEnd, ltrEnd]]

theorem bidi_sets_from_source : bidiSets.all (fun l => l == modelBidiSets) = true := by decide

end Precis.SrcTie
