/-
`precis_core::common::has_compat(cp)` is, in the Rust text,
    match char::from_u32(cp) { None => false, Some(c) => c.to_string() != c.to_string().nfkc().collect::<String>() }
The model so far used the GRAPH of that function dumped from the running implementation (`Gen/HasCompat.lean`,
`hasCompatTab`).  This file proves, in the kernel and for every natural number, that the code-shaped definition over
the normalizer model (`Model/Normalize.lean`) equals that table.

THE STATEMENT OF `has_compat_code` MUST NOT BE CHANGED.
-/
import Precis.Model.Tables
import Precis.Model.Normalize
import Precis.Model.Utf8
import Precis.Facts.Core
import Precis.Facts.Closure
import Precis.Lemmas.NfcClosure
namespace Precis.Facts
open Precis Precis.Gen.Norm Precis.Gen.Compat

/-- `has_compat` as the Rust text computes it -/
def hasCompatCode (cp : Nat) : Bool := isScalar cp && (nfkc [cp] != [cp])

namespace HasCompatAux
open NfcAux

set_option maxRecDepth 1000000

/-! ### twins of the normalizer functions over abstract `ccc` / `composePair` -/

def reorderG (cf : Nat → Nat) : List Nat → List (Nat × Nat) → List Nat
  | [], run => run.map (·.1)
  | c :: r, run =>
    if cf c = 0 then run.map (·.1) ++ c :: reorderG cf r [] else reorderG cf r (insertMark c (cf c) run)

def recompStepG (cf : Nat → Nat) (pf : Nat → Nat → Option Nat) (st : Recomp) (ch : Nat) : Recomp :=
  match st.composee with
  | none => if cf ch != 0 then { st with out := st.out ++ [ch] } else { st with composee := some ch }
  | some s =>
    match st.lastCcc with
    | none =>
      match pf s ch with
      | some r => { st with composee := some r }
      | none =>
        if cf ch == 0 then { st with out := st.out ++ [s], composee := some ch }
        else { st with buffer := st.buffer ++ [ch], lastCcc := some (cf ch) }
    | some l =>
      if l ≥ cf ch then
        if cf ch == 0 then
          { out := st.out ++ [s] ++ st.buffer, composee := some ch, buffer := [], lastCcc := none }
        else { st with buffer := st.buffer ++ [ch], lastCcc := some (cf ch) }
      else
        match pf s ch with
        | some r => { st with composee := some r }
        | none => { st with buffer := st.buffer ++ [ch], lastCcc := some (cf ch) }

def recomposeG (cf : Nat → Nat) (pf : Nat → Nat → Option Nat) (s : List Nat) : List Nat :=
  let st := s.foldl (recompStepG cf pf) {}
  st.out ++ st.composee.toList ++ st.buffer

theorem reorder_eq_G (l : List Nat) : ∀ run, reorder l run = reorderG ccc l run := by
  induction l with
  | nil => intro run; rfl
  | cons c r ih =>
    intro run
    rw [reorder_cons, reorderG, ih, ih]

theorem recompStep_eq_G : recompStep = recompStepG ccc composePair := by
  funext st ch
  rw [recompStep_def]
  rfl

theorem recompose_eq_G (s : List Nat) : recompose s = recomposeG ccc composePair s := by
  unfold recompose recomposeG
  rw [recompStep_eq_G]

/-! ### bitmap-guarded list look-ups -/

/-- bitmap of `f key` over the keys of a table -/
def keyBits {V} (f : Nat → Nat) (l : List (Nat × V)) : Nat := bitsOf (l.map (fun e => Cps.single (f e.1)))

theorem keyBits_mem {V} (f : Nat → Nat) (l : List (Nat × V)) (e : Nat × V) (he : e ∈ l) :
    (keyBits f l).testBit (f e.1) = true := by
  unfold keyBits
  rw [testBit_bitsOf, memL, List.any_eq_true]
  exact ⟨Cps.single (f e.1), List.mem_map.mpr ⟨e, he, rfl⟩, by simp [Cps.eqCp]⟩

theorem keyBits_lookup {V} (l : List (Nat × V)) (c : Nat) (h : (keyBits id l).testBit c = false) :
    l.lookup c = none := by
  cases hl : l.lookup c with
  | none => rfl
  | some v =>
    have := keyBits_mem id l _ (mem_of_lookup _ _ _ hl)
    simp only [id] at this
    rw [h] at this
    cases this

/-! ### hashed two-level buckets: a list look-up the kernel evaluates in a few dozen steps -/

def nthD {α} (d : α) : List α → Nat → α
  | [], _ => d
  | a :: _, 0 => a
  | _ :: r, n + 1 => nthD d r n

theorem nthD_eq {α} (d : α) (l : List α) (i : Nat) : nthD d l i = l[i]?.getD d := by
  induction l generalizing i with
  | nil => simp [nthD]
  | cons a r ih =>
    cases i with
    | zero => simp [nthD]
    | succ n => simp [nthD, ih]

theorem nthD_map_range {α} (d : α) (f : Nat → α) (m i : Nat) (h : i < m) :
    nthD d ((List.range m).map f) i = f i := by
  rw [nthD_eq, List.getElem?_map, List.getElem?_range h]
  rfl

def lookupN {V} : List (Nat × V) → Nat → Option V
  | [], _ => none
  | e :: r, k => bif Nat.beq e.1 k then some e.2 else lookupN r k

theorem lookupN_eq {V} (l : List (Nat × V)) (k : Nat) : lookupN l k = l.lookup k := by
  induction l with
  | nil => rfl
  | cons e r ih =>
    obtain ⟨a, v⟩ := e
    rw [lookupN, List.lookup_cons, ih]
    by_cases h : a = k
    · subst h; simp
    · have h1 : Nat.beq a k = false := by
        cases hb : Nat.beq a k with
        | false => rfl
        | true => exact absurd (Nat.eq_of_beq_eq_true hb) h
      have h2 : (k == a) = false := by simp; omega
      simp [h1, h2]

theorem lookup_filter {V} (p : Nat × V → Bool) (k : Nat) (l : List (Nat × V))
    (hp : ∀ e ∈ l, e.1 = k → p e = true) : (l.filter p).lookup k = l.lookup k := by
  induction l with
  | nil => rfl
  | cons x r ih =>
    obtain ⟨a, v⟩ := x
    have ihr := ih (fun e he => hp e (List.mem_cons_of_mem _ he))
    by_cases hka : a = k
    · have := hp (a, v) List.mem_cons_self hka
      rw [List.filter_cons_of_pos this]
      simp [hka]
    · have hne : (k == a) = false := by simp; omega
      cases hpx : p (a, v) with
      | true =>
        rw [List.filter_cons_of_pos hpx, List.lookup_cons, List.lookup_cons, hne]
        exact ihr
      | false =>
        rw [List.filter_cons_of_neg (by simp [hpx]), List.lookup_cons, hne]
        exact ihr

def bucketsOf {V} (m : Nat) (l : List (Nat × V)) : List (List (Nat × V)) :=
  (List.range m).map (fun i => l.filter (fun e => e.1 % m == i))

def buckets2 {V} (m1 m2 : Nat) (l : List (Nat × V)) : List (List (List (Nat × V))) :=
  (bucketsOf m1 l).map (bucketsOf m2)

def lookupB {V} (m1 m2 : Nat) (bs : List (List (List (Nat × V)))) (k : Nat) : Option V :=
  lookupN (nthD [] (nthD [] bs (k % m1)) (k % m2)) k

theorem lookupB_eq {V} (m1 m2 : Nat) (h1 : 0 < m1) (h2 : 0 < m2) (l : List (Nat × V)) (k : Nat) :
    lookupB m1 m2 (buckets2 m1 m2 l) k = l.lookup k := by
  unfold lookupB buckets2 bucketsOf
  rw [List.map_map, nthD_map_range _ _ _ _ (Nat.mod_lt _ h1)]
  simp only [Function.comp]
  rw [nthD_map_range _ _ _ _ (Nat.mod_lt _ h2), lookupN_eq,
    lookup_filter _ _ _ (by intro e _ he; simp [he]), lookup_filter _ _ _ (by intro e _ he; simp [he])]

def cccBits : Nat := keyBits id cccTabL
def cccBk : List (List (List (Nat × Nat))) := buckets2 11 13 cccTabL
def compBk : List (List (List (Nat × Nat))) := buckets2 11 13 compTabL
/-- hashed bitmap of the packed keys of the composition table: a clear bit means "no such pair" -/
def compHash : Nat := keyBits (· % 65521) compTabL

def cccL (b : Nat) (bk : List (List (List (Nat × Nat)))) (c : Nat) : Nat :=
  bif b.testBit c then (lookupB 11 13 bk c).getD 0 else 0

def compTabFind (bh : Nat) (bk : List (List (List (Nat × Nat)))) (k : Nat) : Option Nat :=
  bif bh.testBit (k % 65521) then lookupB 11 13 bk k else none

/-- `match o with | some r => some r | none => x` as a function of two variables, so that no proof below
compares two `match` terms with a table look-up inside -/
def optOr (o x : Option Nat) : Option Nat :=
  match o with
  | some r => some r
  | none => x

def compL (bh : Nat) (bk : List (List (List (Nat × Nat)))) (a c : Nat) : Option Nat :=
  optOr (bif Nat.ble 0x1100 a then composeHangul a c else none) (compTabFind bh bk (a * 2097152 + c))

theorem ccc_eq_L : ccc = cccL cccBits cccBk := by
  funext c
  unfold ccc cccL cccBk
  rw [kvFind_eq_lookup cccTab c ccc_sorted, lookupB_eq 11 13 (by omega) (by omega)]
  show (cccTabL.lookup c).getD 0 = _
  cases hb : cccBits.testBit c with
  | true => rw [cond_true]
  | false =>
    rw [keyBits_lookup cccTabL c hb]
    simp only [cond_false, Option.getD_none]

theorem compTabFind_eq (k : Nat) : compTabFind compHash compBk k = compTabL.lookup k := by
  unfold compTabFind compBk
  rw [lookupB_eq 11 13 (by omega) (by omega)]
  cases hb : compHash.testBit (k % 65521) with
  | true => rw [cond_true]
  | false =>
    rw [cond_false]
    cases hl : compTabL.lookup k with
    | none => rfl
    | some v =>
      have := keyBits_mem (· % 65521) compTabL _ (mem_of_lookup _ _ _ hl)
      simp only at this
      unfold compHash at hb
      rw [hb] at this
      cases this

theorem composeHangul_small (a c : Nat) (h : a < 0x1100) : composeHangul a c = none := by
  unfold composeHangul
  simp only [Bool.and_eq_true, decide_eq_true_eq]
  unfold sBase lBase vBase tBase lCount vCount tCount nCount sCount
  rw [if_neg (by omega), if_neg (by omega)]

theorem hangul_guard (a c : Nat) :
    (bif Nat.ble 0x1100 a then composeHangul a c else none) = composeHangul a c := by
  cases hb : Nat.ble 0x1100 a with
  | true => rfl
  | false =>
    have : a < 0x1100 := by
      cases hle : decide (0x1100 ≤ a) with
      | true => rw [Nat.ble_eq_true_of_le (of_decide_eq_true hle)] at hb; cases hb
      | false => exact Nat.lt_of_not_le (of_decide_eq_false hle)
    rw [composeHangul_small a c this]
    rfl

theorem optOr_match (o x : Option Nat) :
    (match o with
      | some c => some c
      | none => x) = optOr o x := by
  cases o <;> rfl

theorem compTab_find (k : Nat) : kvFind compTab k = compTabL.lookup k :=
  kvFind_eq_lookup compTab k comp_sorted

theorem composePair_optOr (a b : Nat) :
    composePair a b = optOr (composeHangul a b) (kvFind compTab (a * 2097152 + b)) := by
  rw [composePair_def]
  exact optOr_match _ _

theorem composePair_eq_L : composePair = compL compHash compBk := by
  funext a c
  unfold compL
  rw [composePair_optOr, compTab_find, hangul_guard, compTabFind_eq]

/-! ### the kernel-evaluated table facts -/

def hcBits : Nat := bitsOf hasCompatTabL

def scalarL : List Cps := [.range 0 0xD7FF, .range 0xE000 0x10FFFF]
def hangulL : List Cps := [.range 0xAC00 0xD7A3]
def compatKeysL : List Cps := compatTabL.map (fun e => Cps.single e.1)

def entryOk (h bc : Nat) (kc : List (List (List (Nat × Nat)))) (bh : Nat)
    (kp : List (List (List (Nat × Nat)))) (e : Nat × List Nat) : Bool :=
  (recomposeG (cccL bc kc) (compL bh kp) (reorderG (cccL bc kc) e.2 []) != [e.1]) == h.testBit e.1

/-- for every entry `(cp, d)` of the compatibility table: NFKC of `cp` (recomposition of the canonically
reordered `d`) differs from `cp` exactly when the dumped graph of `has_compat` contains `cp` -/
def compatOk : Bool := compatTabL.all (entryOk hcBits cccBits cccBk compHash compBk)

/-- the dumped graph contains only scalar values -/
theorem scalar_fact : (hcBits &&& bitsOf scalarL == hcBits) = true := by decide +kernel
/-- the dumped graph contains no Hangul syllable -/
theorem hangul_fact : (hcBits &&& bitsOf hangulL == 0) = true := by decide +kernel
/-- every code point of the dumped graph is a key of the compatibility table -/
theorem keys_fact : (hcBits &&& bitsOf compatKeysL == hcBits) = true := by decide +kernel
theorem compat_fact : compatOk = true := by decide +kernel

/-! ### assembly -/

theorem and_eq_self_imp (h : Nat) (l : List Cps) (hf : (h &&& bitsOf l == h) = true) (cp : Nat)
    (hb : h.testBit cp = true) : memL cp l = true := by
  have e : h &&& bitsOf l = h := by simpa using hf
  rw [← e, Nat.testBit_and, testBit_bitsOf] at hb
  simp only [Bool.and_eq_true] at hb
  exact hb.2

theorem and_eq_zero_imp (h : Nat) (l : List Cps) (hf : (h &&& bitsOf l == 0) = true) (cp : Nat)
    (hm : memL cp l = true) : h.testBit cp = false := by
  have e : h &&& bitsOf l = 0 := by simpa using hf
  have := congrArg (fun n => Nat.testBit n cp) e
  simp only [Nat.testBit_and, testBit_bitsOf, hm, Bool.and_true, Nat.zero_testBit] at this
  exact this

theorem rhs_eq (cp : Nat) : isInTable cp hasCompatTab = hcBits.testBit cp := by
  rw [isInTable_eq_memL hasCompatTab cp sorted_hasCompatTab]
  show memL cp hasCompatTabL = _
  unfold hcBits
  rw [testBit_bitsOf]

theorem hc_scalar (cp : Nat) (h : hcBits.testBit cp = true) : isScalar cp = true := by
  have := and_eq_self_imp hcBits scalarL scalar_fact cp h
  simp only [memL, scalarL, List.any_cons, List.any_nil, Cps.eqCp, Bool.or_false, Bool.or_eq_true,
    Bool.and_eq_true, decide_eq_true_eq] at this
  simp only [isScalar, Bool.or_eq_true, Bool.and_eq_true, decide_eq_true_eq]
  omega

theorem hc_hangul (cp : Nat) (h : isHangulSyllable cp = true) : hcBits.testBit cp = false := by
  apply and_eq_zero_imp hcBits hangulL hangul_fact cp
  simp only [isHangulSyllable, Bool.and_eq_true, decide_eq_true_eq] at h
  unfold sBase sCount at h
  simp only [memL, hangulL, List.any_cons, List.any_nil, Cps.eqCp, Bool.or_false,
    Bool.and_eq_true, decide_eq_true_eq]
  omega

theorem hc_nokey (cp : Nat) (h : compatTabL.lookup cp = none) : hcBits.testBit cp = false := by
  cases hb : hcBits.testBit cp with
  | false => rfl
  | true =>
    have := and_eq_self_imp hcBits compatKeysL keys_fact cp hb
    unfold compatKeysL at this
    rw [memL, List.any_eq_true] at this
    obtain ⟨x, hx, hxe⟩ := this
    obtain ⟨e, he, rfl⟩ := List.mem_map.mp hx
    simp only [Cps.eqCp, beq_iff_eq] at hxe
    have hp := sortedKeys_pairwise _ compat_sorted
    obtain ⟨i, hi, hie⟩ := List.getElem_of_mem he
    have := lookup_eq_some' cp compatTabL hp i hi (by rw [hie]; exact hxe)
    rw [h] at this
    cases this

theorem nfkc_single (cp : Nat) : nfkc [cp] = recompose (reorder (decompChar true cp) []) := by
  simp [nfkc, decompose]

theorem recompose_single (cp : Nat) : recompose [cp] = [cp] := by
  unfold recompose
  rw [List.foldl_cons, List.foldl_nil, recompStep_def]
  simp only
  split <;> simp

theorem reorder_single (cp : Nat) : reorder [cp] [] = [cp] := by
  rw [reorder_cons]
  split
  · simp [reorder_nil]
  · simp [reorder_nil, insertMark]

theorem decomp_nokey (cp : Nat) (hh : ¬ isHangulSyllable cp = true) (h : compatTabL.lookup cp = none) :
    decompChar true cp = [cp] := by
  unfold decompChar
  rw [if_neg hh]
  simp only [↓reduceIte]
  rw [kvFind_eq_lookup compatTab cp compat_sorted]
  show (match compatTabL.lookup cp with | some d => d | none => [cp]) = _
  rw [h]

theorem decomp_key (cp : Nat) (d : List Nat) (hh : ¬ isHangulSyllable cp = true)
    (h : compatTabL.lookup cp = some d) : decompChar true cp = d := by
  unfold decompChar
  rw [if_neg hh]
  simp only [↓reduceIte]
  rw [kvFind_eq_lookup compatTab cp compat_sorted]
  show (match compatTabL.lookup cp with | some d => d | none => [cp]) = _
  rw [h]

theorem nfkc_hangul (cp : Nat) (hh : isHangulSyllable cp = true) : nfkc [cp] = [cp] := by
  have ht := tabOk_of norm_tables_ok
  have hccc := ccc_jamo ht ccc_sorted
  rw [nfkc_single]
  unfold decompChar
  rw [if_pos hh]
  simp only [isHangulSyllable, Bool.and_eq_true, decide_eq_true_eq] at hh
  unfold sBase sCount at hh
  unfold hangulDecomp
  simp only []
  unfold sBase lBase vBase tBase nCount tCount
  have hl : JL (0x1100 + (cp - 0xAC00) / 588) := by unfold JL; omega
  have hv : JV (0x1161 + (cp - 0xAC00) % 588 / 28) := by unfold JV; omega
  have s0 : ∀ l, ccc l = 0 → recompStep {} l = ⟨[], some l, [], none⟩ := by
    intro l hk
    rw [recompStep_def]
    simp [hk]
  have c1 : composePair (0x1100 + (cp - 0xAC00) / 588) (0x1161 + (cp - 0xAC00) % 588 / 28)
      = some (0xAC00 + (cp - 0xAC00) / 588 * 588 + (cp - 0xAC00) % 588 / 28 * 28) := by
    apply composePair_of_hangul
    unfold composeHangul
    simp only [Bool.and_eq_true, decide_eq_true_eq]
    unfold sBase lBase vBase tBase lCount vCount tCount nCount sCount
    rw [if_pos (by omega)]
    exact congrArg some (by omega)
  split
  · rename_i h0
    rw [reorder_starter _ _ _ (hccc _ (jamo_JL hl)), reorder_starter _ _ _ (hccc _ (jamo_JV hv)), reorder_nil]
    simp only [List.map_nil, List.nil_append]
    unfold recompose
    rw [List.foldl_cons, List.foldl_cons, List.foldl_nil, s0 _ (hccc _ (jamo_JL hl)),
      step_compose _ _ _ _ _ c1]
    simp only [Option.toList, List.nil_append, List.append_nil, List.cons.injEq, and_true]
    omega
  · rename_i h0
    have htj : JT (0x11A7 + (cp - 0xAC00) % 28) := by unfold JT; omega
    have c2 : composePair (0xAC00 + (cp - 0xAC00) / 588 * 588 + (cp - 0xAC00) % 588 / 28 * 28)
        (0x11A7 + (cp - 0xAC00) % 28) = some cp := by
      apply composePair_of_hangul
      unfold composeHangul
      simp only [Bool.and_eq_true, decide_eq_true_eq]
      unfold sBase lBase vBase tBase lCount vCount tCount nCount sCount
      rw [if_neg (by omega), if_pos (by omega)]
      exact congrArg some (by omega)
    rw [reorder_starter _ _ _ (hccc _ (jamo_JL hl)), reorder_starter _ _ _ (hccc _ (jamo_JV hv)),
      reorder_starter _ _ _ (hccc _ (jamo_JT htj)), reorder_nil]
    simp only [List.map_nil, List.nil_append]
    unfold recompose
    rw [List.foldl_cons, List.foldl_cons, List.foldl_cons, List.foldl_nil, s0 _ (hccc _ (jamo_JL hl)),
      step_compose _ _ _ _ _ c1, step_compose _ _ _ _ _ c2]
    simp [Option.toList]

theorem nfkc_key (cp : Nat) (d : List Nat) (hh : ¬ isHangulSyllable cp = true)
    (h : compatTabL.lookup cp = some d) : (nfkc [cp] != [cp]) = hcBits.testBit cp := by
  rw [nfkc_single, decomp_key cp d hh h, reorder_eq_G, recompose_eq_G, ccc_eq_L, composePair_eq_L]
  have hm := mem_of_lookup _ _ _ h
  have := List.all_eq_true.mp (show compatTabL.all _ = true from compat_fact) _ hm
  unfold entryOk at this
  simp only [beq_iff_eq] at this
  exact this

end HasCompatAux

open HasCompatAux in
theorem has_compat_code (cp : Nat) : hasCompatCode cp = isInTable cp hasCompatTab := by
  rw [rhs_eq]
  unfold hasCompatCode
  cases hs : isScalar cp with
  | false =>
    rw [Bool.false_and]
    cases hb : hcBits.testBit cp with
    | false => rfl
    | true => rw [hc_scalar cp hb] at hs; cases hs
  | true =>
    rw [Bool.true_and]
    by_cases hh : isHangulSyllable cp = true
    · rw [nfkc_hangul cp hh, hc_hangul cp hh]; simp
    · cases hl : compatTabL.lookup cp with
      | none =>
        rw [nfkc_single, decomp_nokey cp hh hl, reorder_single, recompose_single, hc_nokey cp hl]; simp
      | some d => exact nfkc_key cp d hh hl

end Precis.Facts
