/-
Closure facts for C08 "never drifts": sets that additionally exclude the characters a later enforcement
would change (non-ASCII spaces; wide/narrow characters; characters with a lowercase mapping) are still
closed under canonical decomposition and composition.  Generic in the bitmap of excluded code points.
-/
import Precis.Facts.Closure
import Precis.Lemmas.NfcClosure
namespace Precis.Facts
open Precis Precis.Step Precis.Gen.Forb Precis.Gen.Norm Precis.Gen.Std Precis.Gen.Prof

set_option maxRecDepth 1000000

/-- the three closure checks for an arbitrary bitmap `b` of excluded code points -/
def closedB (b : Nat) : Bool :=
  canonTabL.all (fun e => b.testBit e.1 || e.2.all (fun x => !b.testBit x)) &&
  compTabL.all (fun e => b.testBit (e.1 / 2097152) || b.testBit (e.1 % 2097152) || !b.testBit e.2) &&
  allBelow (fun i => !b.testBit (0xAC00 + i)) 11172 &&
  allBelow (fun i => !isJamoLVT (0x1100 + i) || b.testBit (0x1100 + i)) 256

/-- non-ASCII Zs (profile crate table, Unicode 16) -/
def zsNonAsciiBits : Nat := bitsOf spaceSeparatorL ^^^ (1 <<< 0x20)
/-- characters with a wide/narrow mapping -/
def widthKeyBits : Nat := bitsOf (wideNarrowMappingL.map (·.1))
/-- characters with a lowercase mapping other than themselves -/
def lowerKeyBits : Nat := bitsOf (toLowerTabL.map (fun e => Cps.single e.1))

def bFfZ : Nat := bitsOf forbFfL ||| zsNonAsciiBits
def bIdW : Nat := bitsOf forbIdL ||| widthKeyBits
def bIdWL : Nat := bitsOf forbIdL ||| widthKeyBits ||| lowerKeyBits

theorem closed_ffz : closedB bFfZ = true := by decide +kernel
theorem closed_idw : closedB bIdW = true := by decide +kernel
theorem closed_idwl : closedB bIdWL = true := by decide +kernel

/-- U+0020 is in the Zs table (so the xor above removes exactly that bit) -/
theorem space_in_zs : (bitsOf spaceSeparatorL).testBit 0x20 = true := by decide +kernel

/-- lowercase images are not themselves keys of the lowercase table, nor wide/narrow characters -/
theorem lower_images_stable :
    toLowerTabL.all (fun e => e.2.all (fun x => !lowerKeyBits.testBit x)) = true := by decide +kernel

/-- width-mapping images are not lowercase... (not needed) ; images are not keys: Facts.width_values_ok -/
theorem width_images_not_keys :
    wideNarrowMappingL.all (fun e => !widthKeyBits.testBit e.2) = true := by decide +kernel

end Precis.Facts
