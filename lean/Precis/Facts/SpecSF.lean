/-
Specification-side step functions (independent UCD 6.3.0 data, IANA registry, RFC 8264 §8 list) and the
proof that the readable specification functions of Spec/ are these step functions.
-/
import Precis.Facts.Core
namespace Precis.Facts
open Precis Precis.Step Precis.Gen.Core Precis.Gen.Ctx Precis.Gen.Compat Precis.Spec Precis.Gen.Ucd63

set_option maxRecDepth 1000000

def gcSF : SF Gc := ⟨.Cn, gcStep⟩
def ianaSF : SF Iana := ⟨.notListed, ianaStep⟩
def inUnicode : SF Bool := ⟨true, [(0x110000, false)]⟩
def nonScalarSF : SF Bool := ⟨false, [(0xD800, true), (0xE000, false), (0x110000, true)]⟩
def scriptSF : SF Script := ⟨.other, scriptStep⟩
def jtSF : SF Jt := ⟨.U, jtStep⟩

theorem gc63_at (cp : Nat) : gc63 cp = gcSF.at cp := rfl
theorem iana63_at (cp : Nat) : iana63 cp = ianaSF.at cp := rfl
theorem inUnicode_at (cp : Nat) : inUnicode.at cp = decide (cp < 0x110000) := by
  simp only [inUnicode, SF.at, eval]
  by_cases h : cp < 0x110000 <;> simp [h]
theorem nonScalar_at (cp : Nat) : nonScalarSF.at cp = !isScalar cp := by
  simp only [nonScalarSF, SF.at, eval, isScalar]
  by_cases h1 : cp < 0xD800 <;> by_cases h2 : cp < 0xE000 <;> by_cases h3 : cp < 0x110000 <;>
    simp [h1, h2, h3] <;> omega

def ascii7SpecSF : SF Bool := ⟨false, [(0x21, true), (0x7F, false)]⟩
def excSpecSF : SF (Option DPV) := ⟨none, exceptionSteps⟩

/-- RFC 8264 §8 over the independent UCD 6.3.0 data, HasCompat taken from the implementation's dump -/
def rfcSF (identifier : Bool) : SF DPV :=
  excSpecSF.orElse
    (SF.cond ((gcSF.map (fun g => g == Gc.Cn)).and (SF.not ⟨false, noncharStep⟩)) .unassigned
    (SF.cond ascii7SpecSF .pValid
    (SF.cond ⟨false, joinControlStep⟩ .contextJ
    (SF.cond (SF.map isOldHangulJamoHst ⟨Hst.NA, hstStep⟩) .disallowed
    (SF.cond (SF.or ⟨false, defaultIgnorableStep⟩ ⟨false, noncharStep⟩) .disallowed
    (SF.cond (gcSF.map (fun g => g == Gc.Cc)) .disallowed
    (SF.cond (T hasCompatTabL) (classValue identifier)
    (SF.cond (gcSF.map isLetterDigitGc) .pValid
    (SF.cond (gcSF.map isOtherLetterDigitGc) (classValue identifier)
    (SF.cond (gcSF.map (fun g => g == Gc.Zs)) (classValue identifier)
    (SF.cond (gcSF.map isSymbolGc) (classValue identifier)
    (SF.cond (gcSF.map isPunctuationGc) (classValue identifier)
    (SF.const .disallowed)))))))))))))

theorem rfc_derived_sf (identifier : Bool) (cp : Nat) :
    Spec.derived hasCompat identifier cp = (rfcSF identifier).at cp := by
  have e0 : Spec.exceptions cp = excSpecSF.at cp := rfl
  have e1 : nonchar63 cp = (⟨false, noncharStep⟩ : SF Bool).at cp := rfl
  have e2 : joinControl63 cp = (⟨false, joinControlStep⟩ : SF Bool).at cp := rfl
  have e3 : hst63 cp = (⟨Hst.NA, hstStep⟩ : SF Hst).at cp := rfl
  have e4 : defaultIgnorable63 cp = (⟨false, defaultIgnorableStep⟩ : SF Bool).at cp := rfl
  have e5 : (decide (0x21 ≤ cp) && decide (cp ≤ 0x7E)) = ascii7SpecSF.at cp := by
    simp only [ascii7SpecSF, SF.at, eval]
    by_cases h1 : cp < 0x21 <;> by_cases h2 : cp < 0x7F <;> simp [h1, h2] <;> omega
  simp only [Spec.derived, rfcSF, Spec.backwardCompatible, SF.orElse_at, SF.cond_at,
    SF.const_at, SF.and_at, SF.or_at, SF.not_at, SF.map_at, gc63_at, hasCompat, tab_hasCompatTab,
    e0, e1, e2, e3, e4, e5]
  cases excSpecSF.at cp <;> rfl

/-- the registry as the model has it -/
def ctxRuleSF : SF (Option RuleId) := ⟨none, [
  (0x00B7, some .middleDot), (0x00B8, none), (0x0375, some .keraia), (0x0376, none),
  (0x05F3, some .hebrew), (0x05F5, none), (0x0660, some .arabic), (0x066A, none),
  (0x06F0, some .extArabic), (0x06FA, none), (0x200C, some .zwnj), (0x200D, some .zwj), (0x200E, none),
  (0x30FB, some .katakana), (0x30FC, none)]⟩

theorem eval_skip {α} (d : α) (s : Nat) (v : α) (r : List (Nat × α)) (cp : Nat) (h : s ≤ cp) :
    eval d ((s, v) :: r) cp = eval v r cp := by
  have : ¬ cp < s := by omega
  simp [eval, this]

set_option maxRecDepth 100000 in
theorem small_check : allBelow (fun cp => decide (getContextRule cp = ctxRuleSF.at cp)) 0x700 = true := by decide +kernel

theorem getContextRule_sf (cp : Nat) : getContextRule cp = ctxRuleSF.at cp := by
  by_cases h : cp < 0x700
  · simpa using allBelow_sound _ _ small_check cp h
  · have e : ctxRuleSF.at cp = eval none [(0x200C, some RuleId.zwnj), (0x200D, some .zwj), (0x200E, none),
        (0x30FB, some .katakana), (0x30FC, none)] cp := by
      simp only [ctxRuleSF, SF.at]
      iterate 10 rw [eval_skip _ _ _ _ _ (by omega)]
    rw [e]
    have h1 : ¬ cp = 0xb7 := by omega
    have h4 : ¬ cp = 0x375 := by omega
    have h5 : ¬ cp = 0x5f3 := by omega
    have h6 : ¬ cp = 0x5f4 := by omega
    have h8 : ¬ cp ≤ 0x669 := by omega
    have h9 : ¬ cp ≤ 0x6f9 := by omega
    simp only [getContextRule, eval, h1, h4, h5, h6, h8, h9, if_false, decide_false, Bool.or_false,
      Bool.and_false, Bool.false_eq_true]
    repeat' split
    all_goals first | rfl | omega
end Precis.Facts
