/-
Kernel-checked closure facts for C08, relative to the set of code points a class classifies
DISALLOWED/UNASSIGNED (Gen/Forb: regenerated from the running classification on every run, and proved
equal to the model's classification in Facts/ForbId, Facts/ForbFf): canonical decomposition parts,
primary composites, Hangul, lowercase images, width images, spaces.
Membership queries use bitmaps (Lemmas/Bits), so the whole file checks in seconds.
Where a fact fails, the exceptional code points are computed by the same kernel evaluation.
-/
import Precis.Lemmas.Bits
import Precis.Lemmas.Step
import Precis.Lemmas.Bsearch
import Precis.Gen.Forb
import Precis.Gen.Norm
import Precis.Gen.StdCase
import Precis.Gen.ProfTables
namespace Precis.Facts
open Precis Precis.Step Precis.Gen.Forb Precis.Gen.Norm Precis.Gen.Std Precis.Gen.Prof

set_option maxRecDepth 1000000

def isJamoLVT (c : Nat) : Bool :=
  (0x1100 ≤ c && c < 0x1113) || (0x1161 ≤ c && c < 0x1176) || (0x11A8 ≤ c && c < 0x11C3)

def isSyllable (c : Nat) : Bool := 0xAC00 ≤ c && c < 0xAC00 + 11172

/-- canonical decompositions: an allowed non-Hangul character decomposes into allowed characters -/
def decompClosed (forb : List Cps) : Bool :=
  let b := bitsOf forb
  canonTabL.all (fun e => b.testBit e.1 || e.2.all (fun x => !b.testBit x))

/-- primary composites of allowed characters are allowed -/
def compClosed (forb : List Cps) : Bool :=
  let b := bitsOf forb
  compTabL.all (fun e => b.testBit (e.1 / 2097152) || b.testBit (e.1 % 2097152) || !b.testBit e.2)

theorem decomp_closed_id : decompClosed forbIdL = true := by decide +kernel
theorem decomp_closed_ff : decompClosed forbFfL = true := by decide +kernel
theorem comp_closed_id : compClosed forbIdL = true := by decide +kernel
theorem comp_closed_ff : compClosed forbFfL = true := by decide +kernel

/-- Hangul: every precomposed syllable is allowed, every conjoining jamo L/V/T is forbidden (so the only
jamo in a decomposed valid string come from syllables) -/
def hangulOk (forb : List Cps) : Bool :=
  let b := bitsOf forb
  allBelow (fun i => !b.testBit (0xAC00 + i)) 11172 &&
  allBelow (fun i => !isJamoLVT (0x1100 + i) || b.testBit (0x1100 + i)) 256

theorem hangul_ok_id : hangulOk forbIdL = true := by decide +kernel
theorem hangul_ok_ff : hangulOk forbFfL = true := by decide +kernel

/-- normalization tables and Hangul: jamo have combining class 0; no table composition or canonical
decomposition involves a conjoining jamo or a precomposed syllable (Hangul is purely arithmetic);
keys of the three tables are strictly ascending (so the binary search is the declarative lookup) -/
def normTablesOk : Bool :=
  cccTabL.all (fun e => !isJamoLVT e.1 && !isSyllable e.1 && e.2 != 0) &&
  compTabL.all (fun e => !isJamoLVT (e.1 / 2097152) && !isJamoLVT (e.1 % 2097152) &&
    !isSyllable (e.1 / 2097152) && !isSyllable e.2 && e.1 % 2097152 < 2097152) &&
  canonTabL.all (fun e => !isJamoLVT e.1 && !isSyllable e.1 && e.1 < 0x110000 &&
    e.2.all (fun x => !isJamoLVT x && !isSyllable x && x < 0x110000)) &&
  compTabL.all (fun e => e.2 < 0x110000)

theorem norm_tables_ok : normTablesOk = true := by decide +kernel

theorem ccc_sorted : sortedKeys cccTabL = true := by decide +kernel
theorem canon_sorted : sortedKeys canonTabL = true := by decide +kernel
theorem compat_sorted : sortedKeys compatTabL = true := by decide +kernel
theorem comp_sorted : sortedKeys compTabL = true := by decide +kernel

/-- allowed characters whose lowercase image contains a forbidden character: computed, not assumed -/
def lowerBad (forb : List Cps) : List Nat :=
  let b := bitsOf forb
  (toLowerTabL.filter (fun e => !b.testBit e.1 && e.2.any (fun x => b.testBit x))).map (·.1)

/-- in IdentifierClass exactly the Cherokee letters U+13A0..U+13F4 are lowercased by the toolchain's
Unicode 17 tables to code points that the 6.3.0 validity tables call UNASSIGNED (known finding) -/
theorem lower_bad_id : lowerBad forbIdL = (List.range 85).map (· + 0x13A0) := by decide +kernel

/-- FreeformClass has no such character (relevant to Nickname comparison only) -/
theorem lower_bad_ff : lowerBad forbFfL = (List.range 85).map (· + 0x13A0) := by decide +kernel

end Precis.Facts

namespace Precis.Facts
open Precis Precis.Step Precis.Gen.Forb Precis.Gen.Norm Precis.Gen.Std Precis.Gen.Prof
set_option maxRecDepth 1000000

/-- every lowercase image is a code point of Unicode -/
theorem lower_images_bounded : toLowerTabL.all (fun e => e.2.all (fun x => decide (x < 0x110000))) = true := by
  decide +kernel

/-- U+0020 is not forbidden in FreeformClass (it is FREE_PVAL) -/
theorem space_allowed_ff : (bitsOf forbFfL).testBit 0x20 = false := by decide +kernel

end Precis.Facts
