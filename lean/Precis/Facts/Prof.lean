/-
Kernel-checked facts about the regenerated precis-profiles tables and the std case dump.
Every theorem here is `decide +kernel` over step-function merges: it is re-checked against the data
generated from /repo's current tree on every run, adds no axiom, and holds for every `cp : Nat`.
-/
import Precis.Lemmas.TableStep
import Precis.Spec.Rules
import Precis.Gen.ProfTables
namespace Precis.Facts
open Precis Precis.Step Precis.Gen.Prof Precis.Gen.Std Precis.Gen.Ucd16

set_option maxRecDepth 1000000

/-! searchability of the generated tables (C15 "searchable", precondition of every look-up lemma) -/
theorem sorted_profSpaceSeparator : sortedTable spaceSeparatorL = true := by decide +kernel
theorem sorted_bidi : sortedTable (bidiClassTableL.map (·.1)) = true := by decide +kernel
theorem sorted_width : sortedTable (wideNarrowMappingL.map (·.1)) = true := by decide +kernel
theorem sorted_upper : sortedPairs isUppercaseTabL = true := by decide +kernel
theorem sorted_lower : sortedPairs isLowercaseTabL = true := by decide +kernel
theorem sorted_toLower : sortedKeys toLowerTabL = true := by decide +kernel

/-! tables = Unicode 16.0.0 as parsed independently -/
theorem zs_agree : agree 100 false (toStep spaceSeparatorL) false zsStep = true := by decide +kernel
theorem bidi_agree : agree 10000 none (toStepV bidiClassTableL) none bidiStep = true := by decide +kernel
theorem width_agree : agree 2000 none (toStepV wideNarrowMappingL) none widthStep = true := by decide +kernel

/-- every width-mapping value is a Unicode scalar value (so `char::from_u32` cannot fail) and is not
itself a key of the table (so the mapping is idempotent) -/
theorem width_values_ok :
    wideNarrowMappingL.all (fun e => isScalar e.2 && (lookupL e.2 wideNarrowMappingL).isNone) = true := by
  decide +kernel

/-- `char::is_lowercase(c)` implies `c.to_lowercase()` is `c` itself -/
theorem lowercase_fixed_check :
    allVD id true (zipW (fun (low : Bool) (m : Option (List Nat)) => !low || m.isNone) 10000
      false (pairsToStep isLowercaseTabL) none (kvToStep toLowerTabL)) = true := by decide +kernel

/-- every recorded lowercase mapping differs from the identity (the table lists only real mappings) -/
theorem toLower_entries_nontrivial : toLowerTabL.all (fun e => e.2 != [e.1]) = true := by decide +kernel

end Precis.Facts
