/-
IdentifierClass disallows exactly the code points FreeformClass class-validates; the classes agree everywhere else.
Kernel-checked (`decide +kernel`) over the tables regenerated from /repo on every run; one heavy fact
per file so that lake checks them in parallel.
-/
import Precis.Facts.SpecSF
namespace Precis.Facts
open Precis Precis.Step Precis.Gen.Core Precis.Gen.Ctx Precis.Gen.Compat Precis.Spec Precis.Gen.Ucd63

set_option maxRecDepth 1000000

theorem id_vs_free_check :
    (SF.zip (fun (a b : DPV) =>
        (a == .specClassDis && b == .specClassPval) ||
        (a == b && a != .specClassDis && a != .specClassPval)) (dpSF .identifier) (dpSF .freeform)).all id = true := by
  decide +kernel

end Precis.Facts
