/-
Class .freeform: the model's decision list equals RFC 8264 §8 over the independently parsed UCD 6.3.0 data, on every code point of Unicode.
Kernel-checked (`decide +kernel`) over the tables regenerated from /repo on every run; one heavy fact
per file so that lake checks them in parallel.
-/
import Precis.Facts.SpecSF
namespace Precis.Facts
open Precis Precis.Step Precis.Gen.Core Precis.Gen.Ctx Precis.Gen.Compat Precis.Spec Precis.Gen.Ucd63

set_option maxRecDepth 1000000

theorem dp_rfc_check_ff :
    (SF.zip (fun (u : Bool) (p : DPV × DPV) => !u || decide (p.1 = p.2)) inUnicode
      (SF.zip Prod.mk (dpSF .freeform) (rfcSF false))).all id = true := by decide +kernel

end Precis.Facts
