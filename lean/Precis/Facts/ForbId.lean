/-
The forbidden-set table of class .identifier (Gen/Forb, dumped from the running classification) is exactly
the set of code points of Unicode whose model derived property is DISALLOWED or UNASSIGNED.
-/
import Precis.Facts.SpecSF
import Precis.Lemmas.Bits
import Precis.Gen.Forb
namespace Precis.Facts
open Precis Precis.Step Precis.Gen.Forb

set_option maxRecDepth 1000000

theorem sorted_forbId : sortedTable forbIdL = true := by decide +kernel

theorem forb_id_check :
    (SF.zip (fun (u : Bool) (p : Bool × Bool) => !u || p.1 == p.2) inUnicode
      (SF.zip Prod.mk ((dpSF .identifier).map (fun d => d == .disallowed || d == .unassigned)) (T forbIdL))).all id = true := by
  decide +kernel

/-- bitmap membership = "the class calls it DISALLOWED or UNASSIGNED", for every code point of Unicode -/
theorem forb_id_bit (cp : Nat) (h : cp < 0x110000) :
    (bitsOf forbIdL).testBit cp =
      (derivedProp .identifier cp == .disallowed || derivedProp .identifier cp == .unassigned) := by
  have := SF.all_zip_at _ _ _ forb_id_check cp
  simp only [SF.zip_at, SF.map_at, inUnicode_at, h, decide_true, Bool.not_true, Bool.false_or,
    ← derivedProp_sf] at this
  rw [testBit_bitsOf, ← eval_toStep _ sorted_forbId]
  have e : (T forbIdL).at cp = eval false (toStep forbIdL) cp := rfl
  rw [← e]
  exact (by simpa using this : _ = _).symm

end Precis.Facts
