/-
Class .identifier: the derived property of every listed code point is what the IANA precis-tables-6.3.0 registry says; above U+10FFFF it is DISALLOWED.
Kernel-checked (`decide +kernel`) over the tables regenerated from /repo on every run; one heavy fact
per file so that lake checks them in parallel.
-/
import Precis.Facts.SpecSF
namespace Precis.Facts
open Precis Precis.Step Precis.Gen.Core Precis.Gen.Ctx Precis.Gen.Compat Precis.Spec Precis.Gen.Ucd63

set_option maxRecDepth 1000000

theorem dp_iana_check_id :
    (SF.zip (fun (d : DPV) (i : Iana) =>
        if i = Iana.notListed then decide (d = DPV.disallowed) else decide (Iana.expect true i = some d))
      (dpSF .identifier) ianaSF).all id = true := by decide +kernel

end Precis.Facts
