/-
The IANA registry lists exactly U+0000..U+10FFFF.
Kernel-checked (`decide +kernel`) over the tables regenerated from /repo on every run; one heavy fact
per file so that lake checks them in parallel.
-/
import Precis.Facts.SpecSF
namespace Precis.Facts
open Precis Precis.Step Precis.Gen.Core Precis.Gen.Ctx Precis.Gen.Compat Precis.Spec Precis.Gen.Ucd63

set_option maxRecDepth 1000000

theorem iana_domain :
    SF.same (ianaSF.map (fun i => decide (i = Iana.notListed))) inUnicode.not = true := by decide +kernel

end Precis.Facts
