/-
Kernel-checked facts about the regenerated precis-core tables (precis_tables.rs, context_tables.rs):
searchability of every table, and the derived-property / context-table step functions compared with
the independent Unicode 6.3.0 data and the IANA registry.  Every theorem is re-checked against the data
generated from /repo's current tree on every run and holds for every `cp : Nat`.
-/
import Precis.Lemmas.TableStep
import Precis.Model.StringClass
import Precis.Spec.Rfc8264
import Precis.Spec.Rfc5892
namespace Precis.Facts
open Precis Precis.Step Precis.Gen.Core Precis.Gen.Ctx Precis.Gen.Compat

set_option maxRecDepth 1000000

/-! ### searchability (sortedTable) of every generated table -/
theorem sorted_ascii7 : sortedTable ascii7L = true := by decide +kernel
theorem sorted_lowercaseLetter : sortedTable lowercaseLetterL = true := by decide +kernel
theorem sorted_uppercaseLetter : sortedTable uppercaseLetterL = true := by decide +kernel
theorem sorted_otherLetter : sortedTable otherLetterL = true := by decide +kernel
theorem sorted_decimalNumber : sortedTable decimalNumberL = true := by decide +kernel
theorem sorted_modifierLetter : sortedTable modifierLetterL = true := by decide +kernel
theorem sorted_nonspacingMark : sortedTable nonspacingMarkL = true := by decide +kernel
theorem sorted_spacingMark : sortedTable spacingMarkL = true := by decide +kernel
theorem sorted_unassigned : sortedTable unassignedL = true := by decide +kernel
theorem sorted_control : sortedTable controlL = true := by decide +kernel
theorem sorted_spaceSeparator : sortedTable spaceSeparatorL = true := by decide +kernel
theorem sorted_mathSymbol : sortedTable mathSymbolL = true := by decide +kernel
theorem sorted_currencySymbol : sortedTable currencySymbolL = true := by decide +kernel
theorem sorted_modifierSymbol : sortedTable modifierSymbolL = true := by decide +kernel
theorem sorted_otherSymbol : sortedTable otherSymbolL = true := by decide +kernel
theorem sorted_connectorPunctuation : sortedTable connectorPunctuationL = true := by decide +kernel
theorem sorted_dashPunctuation : sortedTable dashPunctuationL = true := by decide +kernel
theorem sorted_openPunctuation : sortedTable openPunctuationL = true := by decide +kernel
theorem sorted_closePunctuation : sortedTable closePunctuationL = true := by decide +kernel
theorem sorted_initialPunctuation : sortedTable initialPunctuationL = true := by decide +kernel
theorem sorted_finalPunctuation : sortedTable finalPunctuationL = true := by decide +kernel
theorem sorted_otherPunctuation : sortedTable otherPunctuationL = true := by decide +kernel
theorem sorted_titlecaseLetter : sortedTable titlecaseLetterL = true := by decide +kernel
theorem sorted_letterNumber : sortedTable letterNumberL = true := by decide +kernel
theorem sorted_otherNumber : sortedTable otherNumberL = true := by decide +kernel
theorem sorted_enclosingMark : sortedTable enclosingMarkL = true := by decide +kernel
theorem sorted_leadingJamo : sortedTable leadingJamoL = true := by decide +kernel
theorem sorted_vowelJamo : sortedTable vowelJamoL = true := by decide +kernel
theorem sorted_trailingJamo : sortedTable trailingJamoL = true := by decide +kernel
theorem sorted_joinControl : sortedTable joinControlL = true := by decide +kernel
theorem sorted_noncharacterCodePoint : sortedTable noncharacterCodePointL = true := by decide +kernel
theorem sorted_defaultIgnorableCodePoint : sortedTable defaultIgnorableCodePointL = true := by decide +kernel
theorem sorted_exceptions : sortedTable (exceptionsL.map (·.1)) = true := by decide +kernel
theorem sorted_backwardCompatible : sortedTable (backwardCompatibleL.map (·.1)) = true := by decide +kernel
theorem sorted_virama : sortedTable viramaL = true := by decide +kernel
theorem sorted_greek : sortedTable greekL = true := by decide +kernel
theorem sorted_hebrew : sortedTable hebrewL = true := by decide +kernel
theorem sorted_hiragana : sortedTable hiraganaL = true := by decide +kernel
theorem sorted_katakana : sortedTable katakanaL = true := by decide +kernel
theorem sorted_han : sortedTable hanL = true := by decide +kernel
theorem sorted_dualJoining : sortedTable dualJoiningL = true := by decide +kernel
theorem sorted_leftJoining : sortedTable leftJoiningL = true := by decide +kernel
theorem sorted_rightJoining : sortedTable rightJoiningL = true := by decide +kernel
theorem sorted_transparent : sortedTable transparentL = true := by decide +kernel
theorem sorted_hasCompatTab : sortedTable hasCompatTabL = true := by decide +kernel

/-- a set table as a step function -/
def T (l : List Cps) : SF Bool := ⟨false, toStep l⟩
/-- a valued table as a step function -/
def TV {V} (l : List (Cps × V)) : SF (Option V) := ⟨none, toStepV l⟩

theorem T_at (t : Array Cps) (h : sortedTable t.toList = true) (cp : Nat) :
    isInTable cp t = (T t.toList).at cp := isInTable_eq_eval t h cp

theorem TV_at {V} [Inhabited V] (t : Array (Cps × V)) (h : sortedTable (t.toList.map (·.1)) = true)
    (cp : Nat) : lookupVal cp t = (TV t.toList).at cp := lookupVal_eq_eval t h cp

/-! ### every table look-up of the model as a step function -/
theorem tab_ascii7 (cp : Nat) : isInTable cp ascii7 = (T ascii7L).at cp := T_at _ sorted_ascii7 cp
theorem tab_lowercaseLetter (cp : Nat) : isInTable cp lowercaseLetter = (T lowercaseLetterL).at cp := T_at _ sorted_lowercaseLetter cp
theorem tab_uppercaseLetter (cp : Nat) : isInTable cp uppercaseLetter = (T uppercaseLetterL).at cp := T_at _ sorted_uppercaseLetter cp
theorem tab_otherLetter (cp : Nat) : isInTable cp otherLetter = (T otherLetterL).at cp := T_at _ sorted_otherLetter cp
theorem tab_decimalNumber (cp : Nat) : isInTable cp decimalNumber = (T decimalNumberL).at cp := T_at _ sorted_decimalNumber cp
theorem tab_modifierLetter (cp : Nat) : isInTable cp modifierLetter = (T modifierLetterL).at cp := T_at _ sorted_modifierLetter cp
theorem tab_nonspacingMark (cp : Nat) : isInTable cp nonspacingMark = (T nonspacingMarkL).at cp := T_at _ sorted_nonspacingMark cp
theorem tab_spacingMark (cp : Nat) : isInTable cp spacingMark = (T spacingMarkL).at cp := T_at _ sorted_spacingMark cp
theorem tab_unassigned (cp : Nat) : isInTable cp unassigned = (T unassignedL).at cp := T_at _ sorted_unassigned cp
theorem tab_control (cp : Nat) : isInTable cp control = (T controlL).at cp := T_at _ sorted_control cp
theorem tab_spaceSeparator (cp : Nat) : isInTable cp spaceSeparator = (T spaceSeparatorL).at cp := T_at _ sorted_spaceSeparator cp
theorem tab_mathSymbol (cp : Nat) : isInTable cp mathSymbol = (T mathSymbolL).at cp := T_at _ sorted_mathSymbol cp
theorem tab_currencySymbol (cp : Nat) : isInTable cp currencySymbol = (T currencySymbolL).at cp := T_at _ sorted_currencySymbol cp
theorem tab_modifierSymbol (cp : Nat) : isInTable cp modifierSymbol = (T modifierSymbolL).at cp := T_at _ sorted_modifierSymbol cp
theorem tab_otherSymbol (cp : Nat) : isInTable cp otherSymbol = (T otherSymbolL).at cp := T_at _ sorted_otherSymbol cp
theorem tab_connectorPunctuation (cp : Nat) : isInTable cp connectorPunctuation = (T connectorPunctuationL).at cp := T_at _ sorted_connectorPunctuation cp
theorem tab_dashPunctuation (cp : Nat) : isInTable cp dashPunctuation = (T dashPunctuationL).at cp := T_at _ sorted_dashPunctuation cp
theorem tab_openPunctuation (cp : Nat) : isInTable cp openPunctuation = (T openPunctuationL).at cp := T_at _ sorted_openPunctuation cp
theorem tab_closePunctuation (cp : Nat) : isInTable cp closePunctuation = (T closePunctuationL).at cp := T_at _ sorted_closePunctuation cp
theorem tab_initialPunctuation (cp : Nat) : isInTable cp initialPunctuation = (T initialPunctuationL).at cp := T_at _ sorted_initialPunctuation cp
theorem tab_finalPunctuation (cp : Nat) : isInTable cp finalPunctuation = (T finalPunctuationL).at cp := T_at _ sorted_finalPunctuation cp
theorem tab_otherPunctuation (cp : Nat) : isInTable cp otherPunctuation = (T otherPunctuationL).at cp := T_at _ sorted_otherPunctuation cp
theorem tab_titlecaseLetter (cp : Nat) : isInTable cp titlecaseLetter = (T titlecaseLetterL).at cp := T_at _ sorted_titlecaseLetter cp
theorem tab_letterNumber (cp : Nat) : isInTable cp letterNumber = (T letterNumberL).at cp := T_at _ sorted_letterNumber cp
theorem tab_otherNumber (cp : Nat) : isInTable cp otherNumber = (T otherNumberL).at cp := T_at _ sorted_otherNumber cp
theorem tab_enclosingMark (cp : Nat) : isInTable cp enclosingMark = (T enclosingMarkL).at cp := T_at _ sorted_enclosingMark cp
theorem tab_leadingJamo (cp : Nat) : isInTable cp leadingJamo = (T leadingJamoL).at cp := T_at _ sorted_leadingJamo cp
theorem tab_vowelJamo (cp : Nat) : isInTable cp vowelJamo = (T vowelJamoL).at cp := T_at _ sorted_vowelJamo cp
theorem tab_trailingJamo (cp : Nat) : isInTable cp trailingJamo = (T trailingJamoL).at cp := T_at _ sorted_trailingJamo cp
theorem tab_joinControl (cp : Nat) : isInTable cp joinControl = (T joinControlL).at cp := T_at _ sorted_joinControl cp
theorem tab_noncharacterCodePoint (cp : Nat) : isInTable cp noncharacterCodePoint = (T noncharacterCodePointL).at cp := T_at _ sorted_noncharacterCodePoint cp
theorem tab_defaultIgnorableCodePoint (cp : Nat) : isInTable cp defaultIgnorableCodePoint = (T defaultIgnorableCodePointL).at cp := T_at _ sorted_defaultIgnorableCodePoint cp
theorem tab_virama (cp : Nat) : isInTable cp virama = (T viramaL).at cp := T_at _ sorted_virama cp
theorem tab_greek (cp : Nat) : isInTable cp greek = (T greekL).at cp := T_at _ sorted_greek cp
theorem tab_hebrew (cp : Nat) : isInTable cp hebrew = (T hebrewL).at cp := T_at _ sorted_hebrew cp
theorem tab_hiragana (cp : Nat) : isInTable cp hiragana = (T hiraganaL).at cp := T_at _ sorted_hiragana cp
theorem tab_katakana (cp : Nat) : isInTable cp katakana = (T katakanaL).at cp := T_at _ sorted_katakana cp
theorem tab_han (cp : Nat) : isInTable cp han = (T hanL).at cp := T_at _ sorted_han cp
theorem tab_dualJoining (cp : Nat) : isInTable cp dualJoining = (T dualJoiningL).at cp := T_at _ sorted_dualJoining cp
theorem tab_leftJoining (cp : Nat) : isInTable cp leftJoining = (T leftJoiningL).at cp := T_at _ sorted_leftJoining cp
theorem tab_rightJoining (cp : Nat) : isInTable cp rightJoining = (T rightJoiningL).at cp := T_at _ sorted_rightJoining cp
theorem tab_transparent (cp : Nat) : isInTable cp transparent = (T transparentL).at cp := T_at _ sorted_transparent cp
theorem tab_hasCompatTab (cp : Nat) : isInTable cp hasCompatTab = (T hasCompatTabL).at cp := T_at _ sorted_hasCompatTab cp
theorem tab_exceptions (cp : Nat) : lookupVal cp exceptions = (TV exceptionsL).at cp := TV_at _ sorted_exceptions cp
theorem tab_backwardCompatible (cp : Nat) : lookupVal cp backwardCompatible = (TV backwardCompatibleL).at cp := TV_at _ sorted_backwardCompatible cp

/-! ### the model's predicates as step functions (same structure as Model/Tables.lean) -/

def letterDigitSF : SF Bool :=
  ((((((T lowercaseLetterL).or (T uppercaseLetterL)).or (T otherLetterL)).or (T decimalNumberL)).or
    (T modifierLetterL)).or (T nonspacingMarkL)).or (T spacingMarkL)
def oldHangulJamoSF : SF Bool := ((T leadingJamoL).or (T vowelJamoL)).or (T trailingJamoL)
def unassignedSF : SF Bool := (T noncharacterCodePointL).not.and (T unassignedL)
def ignorableSF : SF Bool := (T defaultIgnorableCodePointL).or (T noncharacterCodePointL)
def symbolSF : SF Bool := (((T mathSymbolL).or (T currencySymbolL)).or (T modifierSymbolL)).or (T otherSymbolL)
def punctuationSF : SF Bool :=
  ((((((T connectorPunctuationL).or (T dashPunctuationL)).or (T openPunctuationL)).or
    (T closePunctuationL)).or (T initialPunctuationL)).or (T finalPunctuationL)).or (T otherPunctuationL)
def otherLetterDigitSF : SF Bool :=
  (((T titlecaseLetterL).or (T letterNumberL)).or (T otherNumberL)).or (T enclosingMarkL)

theorem isLetterDigit_sf (cp : Nat) : isLetterDigit cp = letterDigitSF.at cp := by
  simp only [isLetterDigit, letterDigitSF, SF.or_at, tab_lowercaseLetter, tab_uppercaseLetter,
    tab_otherLetter, tab_decimalNumber, tab_modifierLetter, tab_nonspacingMark, tab_spacingMark]
theorem isOldHangulJamo_sf (cp : Nat) : isOldHangulJamo cp = oldHangulJamoSF.at cp := by
  simp only [isOldHangulJamo, oldHangulJamoSF, SF.or_at, tab_leadingJamo, tab_vowelJamo, tab_trailingJamo]
theorem isUnassigned_sf (cp : Nat) : isUnassigned cp = unassignedSF.at cp := by
  simp only [isUnassigned, unassignedSF, SF.and_at, SF.not_at, tab_noncharacterCodePoint, tab_unassigned]
theorem isPrecisIgnorable_sf (cp : Nat) : isPrecisIgnorableProperty cp = ignorableSF.at cp := by
  simp only [isPrecisIgnorableProperty, ignorableSF, SF.or_at, tab_defaultIgnorableCodePoint,
    tab_noncharacterCodePoint]
theorem isSymbol_sf (cp : Nat) : isSymbol cp = symbolSF.at cp := by
  simp only [isSymbol, symbolSF, SF.or_at, tab_mathSymbol, tab_currencySymbol, tab_modifierSymbol,
    tab_otherSymbol]
theorem isPunctuation_sf (cp : Nat) : isPunctuation cp = punctuationSF.at cp := by
  simp only [isPunctuation, punctuationSF, SF.or_at, tab_connectorPunctuation, tab_dashPunctuation,
    tab_openPunctuation, tab_closePunctuation, tab_initialPunctuation, tab_finalPunctuation,
    tab_otherPunctuation]
theorem isOtherLetterDigit_sf (cp : Nat) : isOtherLetterDigit cp = otherLetterDigitSF.at cp := by
  simp only [isOtherLetterDigit, otherLetterDigitSF, SF.or_at, tab_titlecaseLetter, tab_letterNumber,
    tab_otherNumber, tab_enclosingMark]

/-- the whole RFC 8264 decision list of the model as one step function -/
def dpSF (cls : Cls) : SF DPV :=
  (TV exceptionsL).orElse ((TV backwardCompatibleL).orElse
    (SF.cond unassignedSF .unassigned
    (SF.cond (T ascii7L) .pValid
    (SF.cond (T joinControlL) .contextJ
    (SF.cond oldHangulJamoSF .disallowed
    (SF.cond ignorableSF .disallowed
    (SF.cond (T controlL) .disallowed
    (SF.cond (T hasCompatTabL) cls.spec
    (SF.cond letterDigitSF .pValid
    (SF.cond otherLetterDigitSF cls.spec
    (SF.cond (T spaceSeparatorL) cls.spec
    (SF.cond symbolSF cls.spec
    (SF.cond punctuationSF cls.spec
    (SF.const .disallowed))))))))))))))

theorem optMatch_getD {α} (o : Option α) (x : α) : (match o with | some v => v | none => x) = o.getD x := by
  cases o <;> rfl

theorem derivedProp_sf (cls : Cls) (cp : Nat) : derivedProp cls cp = (dpSF cls).at cp := by
  simp only [derivedProp, dpSF, getExceptionVal, getBackwardCompatibleVal,
    tab_exceptions, tab_backwardCompatible, SF.orElse_at, SF.cond_at, SF.const_at,
    isUnassigned_sf, isAscii7, tab_ascii7, isJoinControl, tab_joinControl, isOldHangulJamo_sf,
    isPrecisIgnorable_sf, isControl, tab_control, hasCompat, tab_hasCompatTab, isLetterDigit_sf,
    isOtherLetterDigit_sf, isSpace, tab_spaceSeparator, isSymbol_sf, isPunctuation_sf]
  cases (TV exceptionsL).at cp with
  | some v => rfl
  | none =>
    cases (TV backwardCompatibleL).at cp with
    | some v => rfl
    | none => rfl

end Precis.Facts
