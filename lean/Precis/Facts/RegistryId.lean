/-
Class .identifier: exactly the CONTEXTJ/CONTEXTO code points have a registered context rule.
Kernel-checked (`decide +kernel`) over the tables regenerated from /repo on every run; one heavy fact
per file so that lake checks them in parallel.
-/
import Precis.Facts.SpecSF
namespace Precis.Facts
open Precis Precis.Step Precis.Gen.Core Precis.Gen.Ctx Precis.Gen.Compat Precis.Spec Precis.Gen.Ucd63

set_option maxRecDepth 1000000

theorem registry_check_id :
    (SF.zip (fun (d : DPV) (r : Option RuleId) => (d == .contextJ || d == .contextO) == r.isSome)
      (dpSF .identifier) ctxRuleSF).all id = true := by decide +kernel

end Precis.Facts
