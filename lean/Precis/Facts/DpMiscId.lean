/-
Class .identifier: surrogates and values above U+10FFFF are DISALLOWED; exactly the CONTEXTJ/CONTEXTO code points have a registered context rule.
Kernel-checked (`decide +kernel`) over the tables regenerated from /repo on every run; one heavy fact
per file so that lake checks them in parallel.
-/
import Precis.Facts.SpecSF
namespace Precis.Facts
open Precis Precis.Step Precis.Gen.Core Precis.Gen.Ctx Precis.Gen.Compat Precis.Spec Precis.Gen.Ucd63

set_option maxRecDepth 1000000

theorem non_scalar_check_id :
    (SF.zip (fun (ns : Bool) (d : DPV) => !ns || d == .disallowed) nonScalarSF (dpSF .identifier)).all id = true := by
  decide +kernel

end Precis.Facts
