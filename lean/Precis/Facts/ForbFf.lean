/-
The forbidden-set table of class .freeform (Gen/Forb, dumped from the running classification) is exactly
the set of code points of Unicode whose model derived property is DISALLOWED or UNASSIGNED.
-/
import Precis.Facts.SpecSF
import Precis.Lemmas.Bits
import Precis.Gen.Forb
namespace Precis.Facts
open Precis Precis.Step Precis.Gen.Forb

set_option maxRecDepth 1000000

theorem sorted_forbFf : sortedTable forbFfL = true := by decide +kernel

theorem forb_ff_check :
    (SF.zip (fun (u : Bool) (p : Bool × Bool) => !u || p.1 == p.2) inUnicode
      (SF.zip Prod.mk ((dpSF .freeform).map (fun d => d == .disallowed || d == .unassigned)) (T forbFfL))).all id = true := by
  decide +kernel

/-- bitmap membership = "the class calls it DISALLOWED or UNASSIGNED", for every code point of Unicode -/
theorem forb_ff_bit (cp : Nat) (h : cp < 0x110000) :
    (bitsOf forbFfL).testBit cp =
      (derivedProp .freeform cp == .disallowed || derivedProp .freeform cp == .unassigned) := by
  have := SF.all_zip_at _ _ _ forb_ff_check cp
  simp only [SF.zip_at, SF.map_at, inUnicode_at, h, decide_true, Bool.not_true, Bool.false_or,
    ← derivedProp_sf] at this
  rw [testBit_bitsOf, ← eval_toStep _ sorted_forbFf]
  have e : (T forbFfL).at cp = eval false (toStep forbFfL) cp := rfl
  rw [← e]
  exact (by simpa using this : _ = _).symm

end Precis.Facts
