/-
The ten context tables are the Unicode 6.3.0 virama / script / joining-type assignments (independent parse).
Kernel-checked (`decide +kernel`) over the tables regenerated from /repo on every run; one heavy fact
per file so that lake checks them in parallel.
-/
import Precis.Facts.SpecSF
namespace Precis.Facts
open Precis Precis.Step Precis.Gen.Core Precis.Gen.Ctx Precis.Gen.Compat Precis.Spec Precis.Gen.Ucd63

set_option maxRecDepth 1000000

theorem virama_check : SF.same (T viramaL) ⟨false, viramaStep⟩ = true := by decide +kernel
theorem greek_check : SF.same (T greekL) (scriptSF.map (· == .greek)) = true := by decide +kernel
theorem hebrew_check : SF.same (T hebrewL) (scriptSF.map (· == .hebrew)) = true := by decide +kernel
theorem hiragana_check : SF.same (T hiraganaL) (scriptSF.map (· == .hiragana)) = true := by decide +kernel
theorem katakana_check : SF.same (T katakanaL) (scriptSF.map (· == .katakana)) = true := by decide +kernel
theorem han_check : SF.same (T hanL) (scriptSF.map (· == .han)) = true := by decide +kernel
theorem dual_check : SF.same (T dualJoiningL) (jtSF.map (· == .D)) = true := by decide +kernel
theorem left_check : SF.same (T leftJoiningL) (jtSF.map (· == .L)) = true := by decide +kernel
theorem right_check : SF.same (T rightJoiningL) (jtSF.map (· == .R)) = true := by decide +kernel
theorem transparent_check : SF.same (T transparentL) (jtSF.map (· == .T)) = true := by decide +kernel

end Precis.Facts
