/-
Basic types shared by the model, the generated tables and the specifications.
No imports: everything under Model/ and Gen/ is core Lean only, so the driver links as a lean_exe.
-/
namespace Precis

/-- `precis_core::DerivedPropertyValue` -/
inductive DPV where
  | pValid | specClassPval | specClassDis | contextJ | contextO | disallowed | unassigned
  deriving DecidableEq, Repr, Inhabited

def DPV.name : DPV → String
  | .pValid => "PValid" | .specClassPval => "SpecClassPval" | .specClassDis => "SpecClassDis"
  | .contextJ => "ContextJ" | .contextO => "ContextO" | .disallowed => "Disallowed"
  | .unassigned => "Unassigned"

/-- The generated `BidiClass` enum (UAX #44 Table 13) -/
inductive BidiClass where
  | AL | AN | B | BN | CS | EN | ES | ET | FSI | L | LRE | LRI | LRO | NSM | ON | PDF | PDI | R
  | RLE | RLI | RLO | S | WS
  deriving DecidableEq, Repr, Inhabited

/-- A table entry: the generated `Codepoints` enum (`Single(u32)` / `Range(RangeInclusive<u32>)`). -/
inductive Cps where
  | single (c : Nat)
  | range (a b : Nat)
  deriving DecidableEq, Repr, Inhabited

@[inline] def Cps.lo : Cps → Nat | .single c => c | .range a _ => a
@[inline] def Cps.hi : Cps → Nat | .single c => c | .range _ b => b

/-- `precis_core::Error` (with `UnexpectedError` flattened). Positions are code-point indices. -/
inductive Err where
  | invalid
  | bad (cp pos : Nat) (p : DPV)
  | notApplicable (cp pos : Nat) (p : DPV)
  | missingRule (cp pos : Nat) (p : DPV)
  | profileRuleNA
  | undefined
  deriving DecidableEq, Repr, Inhabited

/-- Outcome of a modelled Rust operation: `Ok`, `Err`, or a panic. -/
inductive Res (α : Type) where
  | ok (a : α)
  | err (e : Err)
  | panic
  deriving DecidableEq, Repr, Inhabited

namespace Res
@[inline] def bind {α β} (r : Res α) (f : α → Res β) : Res β :=
  match r with
  | ok a => f a
  | err e => err e
  | panic => panic

@[inline] def map {α β} (f : α → β) (r : Res α) : Res β := r.bind (fun a => ok (f a))

instance : Monad Res where
  pure := ok
  bind := bind

@[simp] theorem bind_ok {α β} (a : α) (f : α → Res β) : (ok a).bind f = f a := rfl
@[simp] theorem bind_err {α β} (e : Err) (f : α → Res β) : (err e : Res α).bind f = err e := rfl
@[simp] theorem bind_panic {α β} (f : α → Res β) : (panic : Res α).bind f = panic := rfl
end Res

/-- Result of a context rule: `Result<bool, ContextRuleError>` (plus panic). -/
inductive CtxRes where
  | ok (b : Bool)
  | notApplicable
  | undefined
  | panic
  deriving DecidableEq, Repr, Inhabited

end Precis
