/-
Model of the table generators of precis-tools (src/generators/{ucd_generator,bidi_class}.rs, src/common.rs)
on the rows of UnicodeData.txt after First/Last folding (`ucd_parsers::UnicodeData::parse`).
One Lean function per Rust function, same loop state.  `none` = the generator returns an error / panics.
-/
import Precis.Model.Types
namespace Precis.Gen'

/-- one folded UnicodeData row: the fields the generators read -/
structure URow where
  cps : Cps
  gc : String
  ccc : Nat
  bidi : String
  /-- `Some(first code point of the mapping)` when the decomposition tag is `<wide>` or `<narrow>` -/
  width : Option Nat
  deriving Repr, Inhabited, DecidableEq

/-! ### `UnicodeData::parse`: folding `<…, First>` / `<…, Last>` line pairs -/
inductive RawKind where
  | plain | first | last
  deriving DecidableEq, Repr, Inhabited

structure RawRow where
  cp : Nat
  kind : RawKind
  gc : String
  ccc : Nat
  bidi : String
  width : Option Nat
  deriving Repr, Inhabited

/-- `none` = one of the four error returns -/
def foldRanges : List RawRow → Option Nat → List URow → Option (List URow)
  | [], _, acc => some acc
  | r :: rest, range, acc =>
    -- `match range.as_mut()`
    match range with
    | some start =>
      if r.kind != .last then none
      else if start > r.cp then none
      else
        -- not a range start (kind = last): build the row, clear the range
        foldRanges rest none (acc ++ [⟨.range start r.cp, r.gc, r.ccc, r.bidi, r.width⟩])
    | none =>
      if r.kind == .last then none
      else if r.kind == .first then foldRanges rest (some r.cp) acc
      else foldRanges rest none (acc ++ [⟨.single r.cp, r.gc, r.ccc, r.bidi, r.width⟩])

def parseUnicodeData (rows : List RawRow) : Option (List URow) := foldRanges rows none []

/-! ### set tables: `UcdTableGen`, `ViramaTableGen` (HashSet insert, sort, run compression) -/

def expand : Cps → List Nat
  | .single c => [c]
  | .range a b => (List.range (b + 1 - a)).map (· + a)

/-- `insert_codepoint` / `insert_codepoint_range`: `none` = "Codepoint already processed" -/
def insertAll : List Nat → List Nat → Option (List Nat)
  | [], set => some set
  | c :: r, set => if set.contains c then none else insertAll r (c :: set)

def collect (p : URow → Bool) : List URow → List Nat → Option (List Nat)
  | [], set => some set
  | row :: r, set =>
    if p row then
      match insertAll (expand row.cps) set with
      | none => none
      | some set' => collect p r set'
    else collect p r set

/-- `add_range` of common.rs -/
def addRange (range : Option (Nat × Nat)) (out : List Cps) : List Cps :=
  match range with
  | none => out
  | some (a, b) => if a = b then out ++ [.single a] else out ++ [.range a b]

/-- loop of `get_codepoints_vector` over the sorted code points -/
def compress : List Nat → Option (Nat × Nat) → List Cps → List Cps
  | [], range, out => addRange range out
  | cp :: r, range, out =>
    match range with
    | some (a, b) =>
      if cp - b = 1 then compress r (some (a, cp)) out
      else compress r (some (cp, cp)) (addRange (some (a, b)) out)
    | none => compress r (some (cp, cp)) out

/-- `get_codepoints_vector`: the HashSet's elements, sorted, compressed into singles and ranges -/
def codepointsVector (set : List Nat) : List Cps := compress (set.mergeSort (· ≤ ·)) none []

def setTable (p : URow → Bool) (rows : List URow) : Option (List Cps) :=
  (collect p rows []).map codepointsVector

def gcTable (name : String) : List URow → Option (List Cps) := setTable (fun r => r.gc == name)
def viramaTable : List URow → Option (List Cps) := setTable (fun r => r.ccc == 9)

/-! ### `UnassignedTableGen`: gap tracker with its `range` state (start, end) -/

/-- `add_codepoints` of common.rs -/
def addCodepoints (a b : Nat) (vec : List Cps) : List Cps :=
  if a = b then vec ++ [.single a] else vec ++ [.range a b]

/-- `process_entry`; `none` = `Codepoint::from_u32` error (value above U+10FFFF) or u32 underflow panic -/
def unassignedStep (st : (Nat × Nat) × List Cps) (row : URow) : Option ((Nat × Nat) × List Cps) :=
  let ((rs, re), vec) := st
  match row.cps with
  | .range a b =>
    if a < re then none                                   -- `r.start - self.range.end` underflows
    else
      let vec' := if a - re > 0 then (if a = 0 then none else some (addCodepoints rs (a - 1) vec)) else some vec
      match vec' with
      | none => none
      | some v => if b + 1 > 0x10FFFF then none else some ((b + 1, a), v)
  | .single cp =>
    if cp + 1 > 0x10FFFF then none
    else if cp < re then none
    else
      let vec' := if cp - re != 0 then (if cp = 0 then none else some (addCodepoints rs (cp - 1) vec)) else some vec
      match vec' with
      | none => none
      | some v => some ((cp + 1, cp + 1), v)

def unassignedLoop : List URow → (Nat × Nat) × List Cps → Option ((Nat × Nat) × List Cps)
  | [], st => some st
  | row :: r, st =>
    match unassignedStep st row with
    | none => none
    | some st' => unassignedLoop r st'

/-- `generate_code`: the gaps found so far plus the gap after the last row up to U+10FFFF -/
def unassignedTable (rows : List URow) : Option (List Cps) :=
  match unassignedLoop rows ((0, 0), []) with
  | none => none
  | some ((rs, _), vec) => if rs ≤ 0x10FFFF then some (addCodepoints rs 0x10FFFF vec) else some vec

/-! ### `BidiClassGen::compress_into_ranges` -/

def addRangeB (r : Nat × Nat) (bidi : String) (out : List (Cps × String)) : List (Cps × String) :=
  if r.1 = r.2 then out ++ [(.single r.1, bidi)] else out ++ [(.range r.1 r.2, bidi)]

structure BidiSt where
  out : List (Cps × String) := []
  range : Option (Nat × Nat) := none
  val : Option String := none

def bidiStep (st : BidiSt) (e : Cps × String) : Option BidiSt :=
  let (cp, bidi) := e
  let val := match st.val with | none => some bidi | v => v
  -- class change: flush the pending run
  let st1 : BidiSt :=
    if val != some bidi then
      match st.range with
      | some r => { out := addRangeB r (val.getD "") st.out, range := none, val := some bidi }
      | none => { out := st.out, range := none, val := some bidi }
    else { st with val := val }
  match cp with
  | .single c =>
    match st1.range with
    | some (a, b) =>
      if c < b then none                                   -- u32 underflow
      else if c - b = 1 then some { st1 with range := some (a, c) }
      else some { st1 with out := addRangeB (a, b) bidi st1.out, range := some (c, c) }
    | none => some { st1 with range := some (c, c) }
  | .range s e' =>
    match st1.range with
    | some (a, b) =>
      if s < b then none
      else if s - b = 1 then some { st1 with range := some (a, e') }
      else some { st1 with out := st1.out ++ [(.range a b, bidi), (.range s e', bidi)], range := none }
    | none => some { st1 with range := some (s, e') }

def bidiLoop : List (Cps × String) → BidiSt → Option BidiSt
  | [], st => some st
  | e :: r, st =>
    match bidiStep st e with
    | none => none
    | some st' => bidiLoop r st'

/-- the compressed table, with the last pending run flushed -/
def bidiTable (rows : List URow) : Option (List (Cps × String)) :=
  match bidiLoop (rows.map (fun r => (r.cps, r.bidi))) {} with
  | none => none
  | some st =>
    match st.range with
    | some r => some (addRangeB r (st.val.getD "") st.out)
    | none => some st.out

/-! ### `WidthMappingTableGen`: rows tagged wide/narrow in file order -/
def widthTable (rows : List URow) : List (Cps × Nat) :=
  rows.filterMap (fun r => r.width.map (fun m => (r.cps, m)))

end Precis.Gen'
