/-
Model of the generated `Codepoints` comparison operators (precis-tools/src/generators/codepoints.template)
and of `slice::binary_search_by` as implemented in the toolchain's core library.
One Lean function per Rust operator body, same case structure.
-/
import Precis.Model.Types
namespace Precis

namespace Cps

/-! `impl PartialEq<u32> for Codepoints` -/
def eqCp : Cps → Nat → Bool
  | .single c, cp => c == cp
  | .range a b, cp => a ≤ cp && cp ≤ b      -- RangeInclusive::contains

/-! `impl PartialOrd<u32> for Codepoints` -/
def ltCp : Cps → Nat → Bool
  | .single c, cp => c < cp
  | .range _ b, cp => b < cp
def leCp : Cps → Nat → Bool
  | .single c, cp => c ≤ cp
  | .range a _, cp => a ≤ cp
def gtCp : Cps → Nat → Bool
  | .single c, cp => c > cp
  | .range a _, cp => a > cp
def geCp : Cps → Nat → Bool
  | .single c, cp => c ≥ cp
  | .range _ b, cp => b ≥ cp

/-- `partial_cmp(&self, other: &u32)`; the Rust body returns `Some` on all three paths -/
def partialCmp (e : Cps) (cp : Nat) : Option Ordering :=
  if e.ltCp cp then some .lt else if e.gtCp cp then some .gt else some .eq

/-! `impl PartialOrd<Codepoints> for u32` (code point on the left) -/
def cpPartialCmp (cp : Nat) : Cps → Option Ordering
  | .single c => some (compare cp c)
  | .range a b => if cp < a then some .lt else if cp > b then some .gt else some .eq
def cpLt (cp : Nat) : Cps → Bool
  | .single c => cp < c
  | .range a _ => cp < a
def cpLe (cp : Nat) : Cps → Bool
  | .single c => cp ≤ c
  | .range _ b => cp ≤ b
def cpGt (cp : Nat) : Cps → Bool
  | .single c => cp > c
  | .range _ b => cp > b
def cpGe (cp : Nat) : Cps → Bool
  | .single c => cp ≥ c
  | .range a _ => cp ≥ a
/-- `impl PartialEq<Codepoints> for u32`: `other.eq(self)` -/
def cpEq (cp : Nat) (e : Cps) : Bool := e.eqCp cp

/-- `cps.partial_cmp(&cp).unwrap()`: `none` would be a panic -/
def cmpUnwrap (e : Cps) (cp : Nat) : Option Ordering := e.partialCmp cp

/-- The ordering the searches use (total because `partialCmp` never returns `none`). -/
def cmpCp (e : Cps) (cp : Nat) : Ordering :=
  if e.ltCp cp then .lt else if e.gtCp cp then .gt else .eq

end Cps

/-- `slice::binary_search_by` loop: returns the final `base`. -/
def bsearchLoop {α} [Inhabited α] (t : Array α) (f : α → Ordering) (size base : Nat) : Nat :=
  if h : size > 1 then
    let half := size / 2
    let mid := base + half
    let cmp := f t[mid]!
    let base' := if cmp == .gt then base else mid
    bsearchLoop t f (size - half) base'
  else base
termination_by size
decreasing_by omega

/-- `slice::binary_search_by`: `Ok(idx)` ↦ `.ok idx`, `Err(idx)` ↦ `.error idx` -/
def bsearchBy {α} [Inhabited α] (t : Array α) (f : α → Ordering) : Except Nat Nat :=
  if t.size == 0 then .error 0
  else
    let base := bsearchLoop t f t.size 0
    let cmp := f t[base]!
    if cmp == .eq then .ok base
    else .error (base + (if cmp == .lt then 1 else 0))

/-- `is_in_table` and the inline searches: membership by binary search. -/
def isInTable (cp : Nat) (t : Array Cps) : Bool :=
  match bsearchBy t (fun e => e.cmpCp cp) with
  | .ok _ => true
  | .error _ => false

/-- valued tables: `match TABLE.binary_search_by(..) { Ok(idx) => Some(TABLE[idx].1), Err(_) => None }` -/
def lookupVal {V} [Inhabited V] (cp : Nat) (t : Array (Cps × V)) : Option V :=
  match bsearchBy t (fun e => e.1.cmpCp cp) with
  | .ok idx => some t[idx]!.2
  | .error _ => none

/-- declarative membership (what the searches are proved equal to on sorted tables) -/
def memL (cp : Nat) (t : List Cps) : Bool := t.any (fun e => e.eqCp cp)

/-- declarative valued lookup: first entry containing `cp` -/
def lookupL {V} (cp : Nat) : List (Cps × V) → Option V
  | [] => none
  | (e, v) :: r => if e.eqCp cp then some v else lookupL cp r

/-- entries ascending and non-overlapping; an entry may be empty (`lo = hi + 1`) but not more inverted -/
def sortedTable : List Cps → Bool
  | [] => true
  | [e] => e.lo ≤ e.hi + 1
  | e :: e' :: r => e.lo ≤ e.hi + 1 && e.hi < e'.lo && sortedTable (e' :: r)

end Precis
