/-
UTF-8 byte offsets: the Rust code slices `&str` at byte positions (`str::find` results), so the model
computes them.  `none` from a slice = Rust panic ("byte index is not a char boundary" / out of range).
-/
import Precis.Model.Types
namespace Precis

def utf8Len (c : Nat) : Nat :=
  if c < 0x80 then 1 else if c < 0x800 then 2 else if c < 0x10000 then 3 else 4

def byteLen : List Nat → Nat
  | [] => 0
  | c :: r => utf8Len c + byteLen r

/-- `str::find(pred)`: byte offset of the first matching character -/
def findByte (p : Nat → Bool) : List Nat → Option Nat
  | [] => none
  | c :: r => if p c then some 0 else (findByte p r).map (· + utf8Len c)

/-- `&s[..pos]` -/
def sliceTo : List Nat → Nat → Option (List Nat)
  | _, 0 => some []
  | [], _ + 1 => none
  | c :: r, pos + 1 =>
    if pos + 1 < utf8Len c then none else (sliceTo r (pos + 1 - utf8Len c)).map (c :: ·)

/-- `&s[pos..]` -/
def sliceFrom : List Nat → Nat → Option (List Nat)
  | s, 0 => some s
  | [], _ + 1 => none
  | c :: r, pos + 1 =>
    if pos + 1 < utf8Len c then none else sliceFrom r (pos + 1 - utf8Len c)

/-- Rust scalar values (what a `char` / `&str` can hold) -/
def isScalar (c : Nat) : Bool := c < 0xD800 || (0xE000 ≤ c && c < 0x110000)

def Scalars (s : List Nat) : Prop := ∀ c ∈ s, isScalar c = true

/-- `usize::MAX` on the 64-bit targets the checks run on -/
def usizeMax : Nat := 2 ^ 64 - 1

end Precis
