/-
Model of precis-core/src/common.rs: the membership predicates over the generated tables.
Same disjunction structure and order as the Rust functions.
-/
import Precis.Model.Codepoints
import Precis.Gen.CoreTables
import Precis.Gen.CtxTables
import Precis.Gen.HasCompat
namespace Precis
open Precis.Gen.Core Precis.Gen.Ctx

def getExceptionVal (cp : Nat) : Option DPV := lookupVal cp exceptions
def getBackwardCompatibleVal (cp : Nat) : Option DPV := lookupVal cp backwardCompatible

def isLetterDigit (cp : Nat) : Bool :=
  isInTable cp lowercaseLetter || isInTable cp uppercaseLetter || isInTable cp otherLetter
    || isInTable cp decimalNumber || isInTable cp modifierLetter || isInTable cp nonspacingMark
    || isInTable cp spacingMark
def isJoinControl (cp : Nat) : Bool := isInTable cp joinControl
def isOldHangulJamo (cp : Nat) : Bool :=
  isInTable cp leadingJamo || isInTable cp vowelJamo || isInTable cp trailingJamo
def isUnassigned (cp : Nat) : Bool := !isInTable cp noncharacterCodePoint && isInTable cp unassigned
def isAscii7 (cp : Nat) : Bool := isInTable cp ascii7
def isControl (cp : Nat) : Bool := isInTable cp control
def isPrecisIgnorableProperty (cp : Nat) : Bool :=
  isInTable cp defaultIgnorableCodePoint || isInTable cp noncharacterCodePoint
def isSpace (cp : Nat) : Bool := isInTable cp spaceSeparator
def isSymbol (cp : Nat) : Bool :=
  isInTable cp mathSymbol || isInTable cp currencySymbol || isInTable cp modifierSymbol
    || isInTable cp otherSymbol
def isPunctuation (cp : Nat) : Bool :=
  isInTable cp connectorPunctuation || isInTable cp dashPunctuation || isInTable cp openPunctuation
    || isInTable cp closePunctuation || isInTable cp initialPunctuation
    || isInTable cp finalPunctuation || isInTable cp otherPunctuation
def isOtherLetterDigit (cp : Nat) : Bool :=
  isInTable cp titlecaseLetter || isInTable cp letterNumber || isInTable cp otherNumber
    || isInTable cp enclosingMark

/-- `has_compat`: `char::from_u32(cp)` fails → false; otherwise `c.to_string() != nfkc(c)`.
The NFKC computation is an external function (unicode-normalization); its graph on single code
points is regenerated from the running implementation on every run (`Gen/HasCompat.lean`) and the
executable NFKC model is compared with it exhaustively by the correspondence check. -/
def hasCompat (cp : Nat) : Bool := isInTable cp Precis.Gen.Compat.hasCompatTab

def isVirama (cp : Nat) : Bool := isInTable cp virama
def isGreek (cp : Nat) : Bool := isInTable cp greek
def isHebrew (cp : Nat) : Bool := isInTable cp hebrew
def isHiragana (cp : Nat) : Bool := isInTable cp hiragana
def isKatakana (cp : Nat) : Bool := isInTable cp katakana
def isHan (cp : Nat) : Bool := isInTable cp han
def isDualJoining (cp : Nat) : Bool := isInTable cp dualJoining
def isLeftJoining (cp : Nat) : Bool := isInTable cp leftJoining
def isRightJoining (cp : Nat) : Bool := isInTable cp rightJoining
def isTransparent (cp : Nat) : Bool := isInTable cp transparent

end Precis
