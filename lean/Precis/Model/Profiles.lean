/-
Model of `precis_core::profile::stabilize` and of prepare / enforce / compare of the four profiles
(precis-profiles/src/{usernames,passwords,nicknames}.rs).
-/
import Precis.Model.StringClass
import Precis.Model.Rules
namespace Precis

/-- `(!s.is_empty()).then_some(s).ok_or(Error::Invalid)` -/
def nonEmpty (s : List Nat) : Res (List Nat) := if s.isEmpty then .err .invalid else .ok s

/-- `stabilize`: the loop `for _ in 0..n { tmp = f(&c)?; if tmp == c { return Ok(c) }; c = tmp }; Err(Invalid)` -/
def stabilizeN (f : List Nat → Res (List Nat)) : Nat → List Nat → Res (List Nat)
  | 0, _ => .err .invalid
  | n + 1, c =>
    match f c with
    | .ok tmp => if tmp == c then .ok c else stabilizeN f n tmp
    | .err e => .err e
    | .panic => .panic

/-- number of applications `stabilize` makes at most: the first plus three re-applications -/
def stabilizeRounds : Nat := 4

def stabilize (f : List Nat → Res (List Nat)) (s : List Nat) : Res (List Nat) :=
  stabilizeN f stabilizeRounds s

/-- the same loop, also recording the arguments `f` was called with (for the call-count contract) -/
def stabilizeTrace (f : List Nat → Res (List Nat)) : Nat → List Nat → List (List Nat) → Res (List Nat) × List (List Nat)
  | 0, _, tr => (.err .invalid, tr)
  | n + 1, c, tr =>
    match f c with
    | .ok tmp => if tmp == c then (.ok c, tr ++ [c]) else stabilizeTrace f n tmp (tr ++ [c])
    | .err e => (.err e, tr ++ [c])
    | .panic => (.panic, tr ++ [c])

inductive Profile where
  | usernameCaseMapped | usernameCasePreserved | opaqueString | nickname
  deriving DecidableEq, Repr, Inhabited

namespace Username
def prepare (s : List Nat) : Res (List Nat) := do
  let s ← widthMappingRule s
  let s ← nonEmpty s
  let _ ← allows (derivedProp .identifier) s
  pure s

def enforce (mapped : Bool) (s : List Nat) : Res (List Nat) := do
  let s ← prepare s
  let s ← if mapped then caseMappingRule s else pure s
  let s ← normalizationFormNfc s
  let s ← nonEmpty s
  directionalityRule s
end Username

namespace Opaque
def prepare (s : List Nat) : Res (List Nat) := do
  let s ← nonEmpty s
  let _ ← allows (derivedProp .freeform) s
  pure s

def enforce (s : List Nat) : Res (List Nat) := do
  let s ← prepare s
  let s ← opaqueAdditionalMappingRule s
  let s ← normalizationFormNfc s
  nonEmpty s
end Opaque

namespace Nickname
def applyPrepareRules (s : List Nat) : Res (List Nat) := do
  let s ← nonEmpty s
  let _ ← allows (derivedProp .freeform) s
  pure s

def applyEnforceRules (s : List Nat) : Res (List Nat) := do
  let s ← applyPrepareRules s
  let s ← trimSpaces s
  let s ← normalizationFormNfkc s
  nonEmpty s

def applyCompareRules (s : List Nat) : Res (List Nat) := do
  let s ← applyPrepareRules s
  let s ← trimSpaces s
  let s ← caseMappingRule s
  normalizationFormNfkc s

def prepare (s : List Nat) : Res (List Nat) := applyPrepareRules s
def enforce (s : List Nat) : Res (List Nat) := stabilize applyEnforceRules s
def canon (s : List Nat) : Res (List Nat) := stabilize applyCompareRules s
end Nickname

def Profile.prepare : Profile → List Nat → Res (List Nat)
  | .usernameCaseMapped => Username.prepare
  | .usernameCasePreserved => Username.prepare
  | .opaqueString => Opaque.prepare
  | .nickname => Nickname.prepare

def Profile.enforce : Profile → List Nat → Res (List Nat)
  | .usernameCaseMapped => Username.enforce true
  | .usernameCasePreserved => Username.enforce false
  | .opaqueString => Opaque.enforce
  | .nickname => Nickname.enforce

/-- the canonical form `compare` computes for each operand -/
def Profile.canon : Profile → List Nat → Res (List Nat)
  | .nickname => Nickname.canon
  | p => p.enforce

/-- `Ok(canon(s1)? == canon(s2)?)` -/
def Profile.compare (p : Profile) (a b : List Nat) : Res Bool :=
  match p.canon a with
  | .ok x =>
    match p.canon b with
    | .ok y => .ok (x == y)
    | .err e => .err e
    | .panic => .panic
  | .err e => .err e
  | .panic => .panic

end Precis
