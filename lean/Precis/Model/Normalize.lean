/-
Executable model of the external crate unicode-normalization (UAX #15): decomposition, canonical
ordering and canonical composition (the crate's `Recompositions` state machine), over the tables
dumped from the crate's public per-character API on every run (`Gen/Norm.lean`).
-/
import Precis.Model.Codepoints
import Precis.Gen.Norm
namespace Precis
open Precis.Gen.Norm

/-- lookup in a key-sorted table by the same binary search the tables use -/
def kvFind {V} [Inhabited V] (t : Array (Nat × V)) (k : Nat) : Option V :=
  match bsearchBy t (fun e => compare e.1 k) with
  | .ok i => some t[i]!.2
  | .error _ => none

def ccc (c : Nat) : Nat := (kvFind cccTab c).getD 0

def sBase : Nat := 0xAC00
def lBase : Nat := 0x1100
def vBase : Nat := 0x1161
def tBase : Nat := 0x11A7
def lCount : Nat := 19
def vCount : Nat := 21
def tCount : Nat := 28
def nCount : Nat := 588
def sCount : Nat := 11172

def isHangulSyllable (c : Nat) : Bool := sBase ≤ c && c < sBase + sCount

def hangulDecomp (c : Nat) : List Nat :=
  let si := c - sBase
  let l := lBase + si / nCount
  let v := vBase + (si % nCount) / tCount
  let t := tBase + si % tCount
  if si % tCount = 0 then [l, v] else [l, v, t]

/-- full decomposition of one character (canonical, or compatibility when `k`) -/
def decompChar (k : Bool) (c : Nat) : List Nat :=
  if isHangulSyllable c then hangulDecomp c
  else match kvFind (if k then compatTab else canonTab) c with
    | some d => d
    | none => [c]

/-- insert a non-starter into a run kept sorted by combining class (stable) -/
def insertMark (c k : Nat) : List (Nat × Nat) → List (Nat × Nat)
  | [] => [(c, k)]
  | (d, j) :: r => if j ≤ k then (d, j) :: insertMark c k r else (c, k) :: (d, j) :: r

/-- canonical ordering: stable sort of every maximal run of non-starters by combining class -/
def reorder : List Nat → List (Nat × Nat) → List Nat
  | [], run => run.map (·.1)
  | c :: r, run =>
    let k := ccc c
    if k = 0 then run.map (·.1) ++ c :: reorder r [] else reorder r (insertMark c k run)

def decompose (k : Bool) (s : List Nat) : List Nat := reorder (s.flatMap (decompChar k)) []

def composeHangul (a b : Nat) : Option Nat :=
  if lBase ≤ a && a < lBase + lCount && vBase ≤ b && b < vBase + vCount then
    some (sBase + (a - lBase) * nCount + (b - vBase) * tCount)
  else if sBase ≤ a && a < sBase + sCount && tBase + 1 ≤ b && b < tBase + tCount
      && (a - sBase) % tCount = 0 then
    some (a + (b - tBase))
  else none

def composePair (a b : Nat) : Option Nat :=
  match composeHangul a b with
  | some c => some c
  | none => kvFind compTab (a * 2097152 + b)

structure Recomp where
  out : List Nat := []
  composee : Option Nat := none
  buffer : List Nat := []
  lastCcc : Option Nat := none

/-- one input character of the crate's `Recompositions::next` loop in state `Composing` -/
def recompStep (st : Recomp) (ch : Nat) : Recomp :=
  let k := ccc ch
  match st.composee with
  | none => if k != 0 then { st with out := st.out ++ [ch] } else { st with composee := some ch }
  | some s =>
    match st.lastCcc with
    | none =>
      match composePair s ch with
      | some r => { st with composee := some r }
      | none =>
        if k == 0 then { st with out := st.out ++ [s], composee := some ch }
        else { st with buffer := st.buffer ++ [ch], lastCcc := some k }
    | some l =>
      if l ≥ k then
        if k == 0 then
          { out := st.out ++ [s] ++ st.buffer, composee := some ch, buffer := [], lastCcc := none }
        else { st with buffer := st.buffer ++ [ch], lastCcc := some k }
      else
        match composePair s ch with
        | some r => { st with composee := some r }
        | none => { st with buffer := st.buffer ++ [ch], lastCcc := some k }

def recompose (s : List Nat) : List Nat :=
  let st := s.foldl recompStep {}
  st.out ++ st.composee.toList ++ st.buffer

def nfc (s : List Nat) : List Nat := recompose (decompose false s)
def nfkc (s : List Nat) : List Nat := recompose (decompose true s)
def nfd (s : List Nat) : List Nat := decompose false s
def nfkd (s : List Nat) : List Nat := decompose true s

end Precis
