/-
Model of precis-core/src/context.rs: the nine RFC 5892 Appendix A rules and the registry.
Offsets are `usize`: `offset + 1` / `i - 1` are modelled with their overflow behaviour
(the crates are built with overflow checks, so a wrap would be a panic).
-/
import Precis.Model.Tables
import Precis.Model.Utf8
namespace Precis

/-- `s.chars().nth(i)` -/
def nth (s : List Nat) (i : Nat) : Option Nat := s[i]?

/-- `after(s, offset) = s.chars().nth(offset + 1)`; `none` = arithmetic overflow panic -/
def after (s : List Nat) (offset : Nat) : Option (Option Nat) :=
  if offset + 1 > usizeMax then none else some (nth s (offset + 1))

/-- `before(s, offset)` -/
def before (s : List Nat) (offset : Nat) : Option Nat :=
  if offset = 0 then none else nth s (offset - 1)

/-- backwards scan of `rule_zero_width_nonjoiner` over transparent characters.
State: current code point `cp`, index `i` (`before(s, i)` is `nth (i-1)`, `None` at `i = 0`).
Returns the first non-transparent code point found, `none` for Undefined (ran off the start). -/
def zwnjBack (s : List Nat) : Nat → Nat → Option Nat
  | cp, 0 => if isTransparent cp then none else some cp
  | cp, i + 1 =>
    if isTransparent cp then
      match nth s i with
      | none => none
      | some p => zwnjBack s p i
    else some cp

/-- forwards scan. Result: `.ok cp` (first non-transparent), `.undefined`, `.panic` (overflow) -/
inductive Scan where
  | found (cp : Nat) | undefined | panic

def zwnjFwd (s : List Nat) : Nat → Nat → Nat → Scan
  | 0, cp, _ => if isTransparent cp then .undefined else .found cp
  | fuel + 1, cp, i =>
    if isTransparent cp then
      match after s i with
      | none => .panic
      | some none => .undefined
      | some (some n) => if i + 1 > usizeMax then .panic else zwnjFwd s fuel n (i + 1)
    else .found cp

def ruleZeroWidthNonjoiner (s : List Nat) (offset : Nat) : CtxRes :=
  match nth s offset with
  | none => .undefined
  | some c =>
    if c != 0x200c then .notApplicable else
    match before s offset with
    | none => .undefined
    | some prev =>
      if isVirama prev then .ok true else
      -- `let mut i = offset - 1` (offset ≠ 0 here because `before` succeeded)
      match zwnjBack s prev (offset - 1) with
      | none => .undefined
      | some cp =>
        if !(isLeftJoining cp || isDualJoining cp) then .ok false else
        match after s offset with
        | none => .panic
        | some none => .undefined
        | some (some next) =>
          match zwnjFwd s s.length next (offset + 1) with
          | .panic => .panic
          | .undefined => .undefined
          | .found cp => .ok (isRightJoining cp || isDualJoining cp)

def ruleZeroWidthJoiner (s : List Nat) (offset : Nat) : CtxRes :=
  match nth s offset with
  | none => .undefined
  | some c =>
    if c != 0x200d then .notApplicable else
    match before s offset with
    | none => .undefined
    | some prev => .ok (isVirama prev)

def ruleMiddleDot (s : List Nat) (offset : Nat) : CtxRes :=
  match nth s offset with
  | none => .undefined
  | some c =>
    if c != 0x00b7 then .notApplicable else
    match before s offset with
    | none => .undefined
    | some prev =>
      match after s offset with
      | none => .panic
      | some none => .undefined
      | some (some next) => .ok (prev == 0x006c && next == 0x006c)

def ruleGreekKeraia (s : List Nat) (offset : Nat) : CtxRes :=
  match nth s offset with
  | none => .undefined
  | some c =>
    if c != 0x0375 then .notApplicable else
    match after s offset with
    | none => .panic
    | some none => .undefined
    | some (some a) => .ok (isGreek a)

def ruleHebrewPunctuation (s : List Nat) (offset : Nat) : CtxRes :=
  match nth s offset with
  | none => .undefined
  | some cp =>
    if cp != 0x05f3 && cp != 0x05f4 then .notApplicable else
    match before s offset with
    | none => .undefined
    | some prev => .ok (isHebrew prev)

def ruleKatakanaMiddleDot (s : List Nat) (offset : Nat) : CtxRes :=
  match nth s offset with
  | none => .undefined
  | some c =>
    if c != 0x30fb then .notApplicable else
    .ok (s.any (fun cp => isHiragana cp || isKatakana cp || isHan cp))

def ruleArabicIndicDigits (s : List Nat) (offset : Nat) : CtxRes :=
  match nth s offset with
  | none => .undefined
  | some cp =>
    if !(0x0660 ≤ cp && cp ≤ 0x0669) then .notApplicable else
    .ok (!s.any (fun c => 0x06f0 ≤ c && c ≤ 0x06f9))

def ruleExtendedArabicIndicDigits (s : List Nat) (offset : Nat) : CtxRes :=
  match nth s offset with
  | none => .undefined
  | some cp =>
    if !(0x06f0 ≤ cp && cp ≤ 0x06f9) then .notApplicable else
    .ok (!s.any (fun c => 0x0660 ≤ c && c ≤ 0x0669))

/-- names of the rule functions (the registry returns function pointers) -/
inductive RuleId where
  | zwnj | zwj | middleDot | keraia | hebrew | katakana | arabic | extArabic
  deriving DecidableEq, Repr, Inhabited

def RuleId.name : RuleId → String
  | .zwnj => "zwnj" | .zwj => "zwj" | .middleDot => "middledot" | .keraia => "keraia"
  | .hebrew => "hebrew" | .katakana => "katakana" | .arabic => "arabic" | .extArabic => "extarabic"

def applyRule : RuleId → List Nat → Nat → CtxRes
  | .zwnj => ruleZeroWidthNonjoiner
  | .zwj => ruleZeroWidthJoiner
  | .middleDot => ruleMiddleDot
  | .keraia => ruleGreekKeraia
  | .hebrew => ruleHebrewPunctuation
  | .katakana => ruleKatakanaMiddleDot
  | .arabic => ruleArabicIndicDigits
  | .extArabic => ruleExtendedArabicIndicDigits

/-- `get_context_rule` -/
def getContextRule (cp : Nat) : Option RuleId :=
  if cp = 0x00b7 then some .middleDot
  else if cp = 0x200c then some .zwnj
  else if cp = 0x200d then some .zwj
  else if cp = 0x0375 then some .keraia
  else if cp = 0x05f3 || cp = 0x5f4 then some .hebrew
  else if cp = 0x30fb then some .katakana
  else if 0x0660 ≤ cp && cp ≤ 0x0669 then some .arabic
  else if 0x06f0 ≤ cp && cp ≤ 0x06f9 then some .extArabic
  else none

end Precis
