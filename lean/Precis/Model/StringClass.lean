/-
Model of precis-core/src/stringclasses.rs: the RFC 8264 §8 decision list, context dispatch and
`StringClass::allows`.
-/
import Precis.Model.Context
namespace Precis

inductive Cls where
  | identifier | freeform
  deriving DecidableEq, Repr, Inhabited

/-- the five `SpecificDerivedPropertyValue` callbacks: both classes answer the same for all five -/
def Cls.spec : Cls → DPV
  | .identifier => .specClassDis
  | .freeform => .specClassPval

/-- `get_derived_property_value` -/
def derivedProp (cls : Cls) (cp : Nat) : DPV :=
  match getExceptionVal cp with
  | some v => v
  | none =>
    match getBackwardCompatibleVal cp with
    | some v => v
    | none =>
      if isUnassigned cp then .unassigned
      else if isAscii7 cp then .pValid
      else if isJoinControl cp then .contextJ
      else if isOldHangulJamo cp then .disallowed
      else if isPrecisIgnorableProperty cp then .disallowed
      else if isControl cp then .disallowed
      else if hasCompat cp then cls.spec
      else if isLetterDigit cp then .pValid
      else if isOtherLetterDigit cp then cls.spec
      else if isSpace cp then cls.spec
      else if isSymbol cp then cls.spec
      else if isPunctuation cp then cls.spec
      else .disallowed

/-- `allowed_by_context_rule` -/
def allowedByContextRule (label : List Nat) (val : DPV) (cp offset : Nat) : Res Unit :=
  match getContextRule cp with
  | none => .err (.missingRule cp offset val)
  | some r =>
    match applyRule r label offset with
    | .ok true => .ok ()
    | .ok false => .err (.bad cp offset val)
    | .notApplicable => .err (.notApplicable cp offset val)
    | .undefined => .err .undefined
    | .panic => .panic

/-- body of the `allows` loop for one character -/
def allowsAt (dp : Nat → DPV) (label : List Nat) (offset c : Nat) : Res Unit :=
  match dp c with
  | .pValid | .specClassPval => .ok ()
  | .specClassDis => .err (.bad c offset .specClassDis)
  | .disallowed => .err (.bad c offset .disallowed)
  | .unassigned => .err (.bad c offset .unassigned)
  | .contextJ => allowedByContextRule label .contextJ c offset
  | .contextO => allowedByContextRule label .contextO c offset

/-- `for (offset, c) in label.chars().enumerate() { … ? }` over the remaining characters -/
def allowsLoop (dp : Nat → DPV) (label : List Nat) : List Nat → Nat → Res Unit
  | [], _ => .ok ()
  | c :: r, offset =>
    match allowsAt dp label offset c with
    | .ok () => allowsLoop dp label r (offset + 1)
    | .err e => .err e
    | .panic => .panic

/-- `StringClass::allows` for a class whose `get_value_from_char` is `dp` -/
def allows (dp : Nat → DPV) (label : List Nat) : Res Unit := allowsLoop dp label label 0

end Precis
