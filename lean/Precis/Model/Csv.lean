/-
Model of precis-tools/src/csv_parser.rs: the PRECIS registry CSV row parser and the line iterator.
Strings are lists of code points.  External functions are modelled by their specification:
`u32::from_str_radix(s, 16)` (optional leading '+', digits of either case, overflow), `ucd_parse::Codepoint`
(rejects values above U+10FFFF), the two anchored regexes, `str::splitn(3, ',')`, `BufRead::read_line`.
-/
import Precis.Model.Types
namespace Precis.Csv

inductive Prop7 where
  | pvalid | freePval | contextJ | contextO | disallowed | idDis | unassigned
  deriving DecidableEq, Repr, Inhabited

inductive Props where
  | single (p : Prop7)
  | tuple (p q : Prop7)
  deriving DecidableEq, Repr, Inhabited

structure Row where
  cps : Cps
  props : Props
  desc : List Nat
  deriving DecidableEq, Repr, Inhabited

def ofStr (s : String) : List Nat := s.toList.map Char.toNat

/-- `DerivedProperty::from_str`: exact comparison with the seven names -/
def parseProp (w : List Nat) : Option Prop7 :=
  if w = ofStr "PVALID" then some .pvalid
  else if w = ofStr "FREE_PVAL" then some .freePval
  else if w = ofStr "CONTEXTJ" then some .contextJ
  else if w = ofStr "CONTEXTO" then some .contextO
  else if w = ofStr "DISALLOWED" then some .disallowed
  else if w = ofStr "ID_DIS" then some .idDis
  else if w = ofStr "UNASSIGNED" then some .unassigned
  else none

def hexVal (c : Nat) : Option Nat :=
  if 0x30 ≤ c ∧ c ≤ 0x39 then some (c - 0x30)
  else if 0x41 ≤ c ∧ c ≤ 0x46 then some (c - 0x41 + 10)
  else if 0x61 ≤ c ∧ c ≤ 0x66 then some (c - 0x61 + 10)
  else none

def isHexDigit (c : Nat) : Bool := (hexVal c).isSome

/-- digits of `from_str_radix`: left-to-right accumulation with u32 overflow check -/
def hexDigits : List Nat → Nat → Option Nat
  | [], acc => some acc
  | c :: r, acc =>
    match hexVal c with
    | none => none
    | some v => if acc * 16 + v < 2 ^ 32 then hexDigits r (acc * 16 + v) else none

/-- `u32::from_str_radix(s, 16)` -/
def fromStrRadix16 (s : List Nat) : Option Nat :=
  match s with
  | [] => none
  | [0x2B] => none                       -- "+" alone
  | [0x2D] => none                       -- "-" alone
  | 0x2B :: r => hexDigits r 0           -- leading '+' accepted
  | s => hexDigits s 0                   -- a leading '-' is an invalid digit for an unsigned type

/-- `ucd_parse::Codepoint::from_str` -/
def parseCodepoint (s : List Nat) : Option Nat :=
  match fromStrRadix16 s with
  | some n => if n ≤ 0x10FFFF then some n else none
  | none => none

def isAZ09 (c : Nat) : Bool := (0x41 ≤ c && c ≤ 0x5A) || (0x30 ≤ c && c ≤ 0x39)
def isAZus (c : Nat) : Bool := (0x41 ≤ c && c ≤ 0x5A) || c == 0x5F

/-- regex `^(?P<start>[A-Z0-9]+)-(?P<end>[A-Z0-9]+)$` -/
def matchRange (s : List Nat) : Option (List Nat × List Nat) :=
  let a := s.takeWhile isAZ09
  match s.dropWhile isAZ09 with
  | 0x2D :: b => if !a.isEmpty && !b.isEmpty && b.all isAZ09 then some (a, b) else none
  | _ => none

/-- `parse_codepoint_range` -/
def parseRange (s : List Nat) : Option Cps :=
  match matchRange s with
  | none => none
  | some (a, b) =>
    match parseCodepoint a, parseCodepoint b with
    | some x, some y => some (.range x y)
    | _, _ => none

/-- `parse_codepoints`: a field containing '-' is a range; otherwise a single code point made of
hexadecimal digits only (the digit check keeps `from_str_radix`'s optional sign out) -/
def parseCodepoints (s : List Nat) : Option Cps :=
  if s.contains 0x2D then parseRange s
  else if s.all isHexDigit then (parseCodepoint s).map Cps.single
  else none

/-- Unicode White_Space (regex `\s`) -/
def isWhite (c : Nat) : Bool :=
  (0x09 ≤ c && c ≤ 0x0D) || c == 0x20 || c == 0x85 || c == 0xA0 || c == 0x1680 ||
  (0x2000 ≤ c && c ≤ 0x200A) || c == 0x2028 || c == 0x2029 || c == 0x202F || c == 0x205F || c == 0x3000

/-- regex `^(?P<p1>[A-Z_]+)\s+or\s+(?P<p2>[A-Z_]+)$` -/
def matchTuple (s : List Nat) : Option (List Nat × List Nat) :=
  let p1 := s.takeWhile isAZus
  let r1 := s.dropWhile isAZus
  let w1 := r1.takeWhile isWhite
  match r1.dropWhile isWhite with
  | 0x6F :: 0x72 :: r2 =>
    let w2 := r2.takeWhile isWhite
    let p2 := r2.dropWhile isWhite
    if !p1.isEmpty && !w1.isEmpty && !w2.isEmpty && !p2.isEmpty && p2.all isAZus then some (p1, p2) else none
  | _ => none

/-- `s.contains(" or ")` -/
def containsOr : List Nat → Bool
  | 0x20 :: 0x6F :: 0x72 :: 0x20 :: _ => true
  | _ :: r => containsOr r
  | [] => false

/-- `parse_derived_properties` -/
def parseProps (s : List Nat) : Option Props :=
  if containsOr s then
    match matchTuple s with
    | none => none
    | some (a, b) =>
      match parseProp a, parseProp b with
      | some p, some q => some (.tuple p q)
      | _, _ => none
  else (parseProp s).map Props.single

/-- `line.splitn(3, ',')` collected; `none` when there are fewer than three pieces -/
def splitn3 (s : List Nat) : Option (List Nat × List Nat × List Nat) :=
  match s.dropWhile (· != 0x2C) with
  | _ :: r1 =>
    match r1.dropWhile (· != 0x2C) with
    | _ :: r2 => some (s.takeWhile (· != 0x2C), r1.takeWhile (· != 0x2C), r2)
    | [] => none
  | [] => none

/-- `PrecisDerivedProperty::from_str` -/
def parseLine (line : List Nat) : Option Row :=
  match splitn3 line with
  | none => none
  | some (f1, f2, f3) =>
    match parseCodepoints f1 with
    | none => none
    | some cps =>
      match parseProps f2 with
      | none => none
      | some props => some ⟨cps, props, f3⟩

/-- `read_line`: split after each '\n', terminator kept -/
def lines : List Nat → List Nat → List (List Nat)
  | [], cur => if cur.isEmpty then [] else [cur]
  | c :: r, cur => if c = 0x0A then (cur ++ [c]) :: lines r [] else lines r (cur ++ [c])

/-- result of the line iterator for one data line: the row, or an error carrying its 1-based line number -/
inductive Item where
  | ok (r : Row)
  | err (line : Nat)
  deriving DecidableEq, Repr

/-- `CsvLineParser` iteration: the first line (header) is skipped, rows are delivered in file order -/
def parseFile (content : List Nat) : List Item :=
  ((lines content []).drop 1).mapIdx (fun i l =>
    match parseLine l with
    | some r => .ok r
    | none => .err (i + 2))

end Precis.Csv
