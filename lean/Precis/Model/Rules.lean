/-
Model of the profile rules: precis-profiles/src/{common,usernames,passwords,nicknames,bidi}.rs.
Same control structure as the Rust: fast path (`find`), prefix copy by byte slicing, loop over the rest.
-/
import Precis.Model.Utf8
import Precis.Model.Normalize
import Precis.Gen.ProfTables
import Precis.Gen.StdCase
namespace Precis
open Precis.Gen.Prof Precis.Gen.Std

/-! ### external: std case functions (tables dumped from the toolchain's std) -/
def pairCmp (cp : Nat) (e : Nat × Nat) : Ordering :=
  if e.2 < cp then .lt else if e.1 > cp then .gt else .eq

def inPairs (t : Array (Nat × Nat)) (cp : Nat) : Bool :=
  match bsearchBy t (pairCmp cp) with
  | .ok _ => true
  | .error _ => false

/-- `char::is_uppercase` -/
def isUppercase (c : Nat) : Bool := inPairs isUppercaseTab c
/-- `char::is_lowercase` -/
def isLowercase (c : Nat) : Bool := inPairs isLowercaseTab c
/-- `char::to_lowercase` (full, unconditional mapping) -/
def toLower (c : Nat) : List Nat := (kvFind toLowerTab c).getD [c]

/-! ### precis-profiles/src/common.rs -/
def isSpaceSeparator (c : Nat) : Bool := isInTable c spaceSeparator
def isNonAsciiSpace (c : Nat) : Bool := c != 0x20 && isSpaceSeparator c

/-- `normalization_form_nfc`: `if is_nfc(&s) { s } else { s.nfc().collect() }`.
`is_nfc` is modelled as `nfc s == s` (the crate's quick check is exact). -/
def normalizationFormNfc (s : List Nat) : Res (List Nat) :=
  if nfc s == s then .ok s else .ok (nfc s)
def normalizationFormNfkc (s : List Nat) : Res (List Nat) :=
  if nfkc s == s then .ok s else .ok (nfkc s)

/-- trigger of the case-mapping fast path: the character has a lowercase mapping other than itself -/
def hasLowercaseMapping (c : Nat) : Bool := toLower c != [c]

def caseMapChar (c : Nat) : List Nat := if isLowercase c then [c] else toLower c

/-- `case_mapping_rule` -/
def caseMappingRule (s : List Nat) : Res (List Nat) :=
  match findByte hasLowercaseMapping s with
  | none => .ok s
  | some pos =>
    match sliceTo s pos, sliceFrom s pos with
    | some pre, some suf => .ok (pre ++ suf.flatMap caseMapChar)
    | _, _ => .panic

/-! ### usernames.rs -/
def getDecompositionMapping (cp : Nat) : Option Nat := lookupVal cp wideNarrowMapping
def hasWidthMapping (c : Nat) : Bool := (getDecompositionMapping c).isSome

/-- loop of `width_mapping_rule` over the rest of the string; `char::from_u32(d)` failing is the typed error -/
def widthLoop : List Nat → List Nat → Res (List Nat)
  | [], res => .ok res
  | c :: r, res =>
    match getDecompositionMapping c with
    | some d => if isScalar d then widthLoop r (res ++ [d]) else .err .undefined
    | none => widthLoop r (res ++ [c])

def widthMappingRule (s : List Nat) : Res (List Nat) :=
  match findByte hasWidthMapping s with
  | none => .ok s
  | some pos =>
    match sliceTo s pos, sliceFrom s pos with
    | some pre, some suf => widthLoop suf pre
    | _, _ => .panic

/-! ### bidi.rs -/
def bidiClass (cp : Nat) : BidiClass := (lookupVal cp bidiClassTable).getD .L

def isRtlClass : BidiClass → Bool
  | .R | .AL | .AN => true
  | _ => false

def hasRtl (s : List Nat) : Bool := s.any (fun c => isRtlClass (bidiClass c))

def endsRtl : BidiClass → Bool
  | .R | .AL | .EN | .AN => true
  | _ => false

/-- `is_valid_rtl_label`, over the classes of the remaining characters -/
def validRtl : List BidiClass → BidiClass → Bool → Bool → Bool → Bool
  | [], prev, nsm, _, _ => nsm || endsRtl prev
  | cl :: r, prev, nsm, en, an =>
    match cl with
    | .R | .AL | .ES | .CS | .ET | .ON | .BN =>
      if nsm then false else validRtl r cl nsm en an
    | .AN => if en then false else if nsm then false else validRtl r cl nsm en true
    | .EN => if an then false else if nsm then false else validRtl r cl nsm true an
    | .NSM => if !endsRtl prev then false else validRtl r prev true en an
    | _ => false

def endsLtr : BidiClass → Bool
  | .L | .EN => true
  | _ => false

/-- `is_valid_ltr_label` -/
def validLtr : List BidiClass → BidiClass → Bool → Bool
  | [], prev, nsm => nsm || endsLtr prev
  | cl :: r, prev, nsm =>
    match cl with
    | .L | .EN | .ES | .CS | .ET | .ON | .BN => if nsm then false else validLtr r cl nsm
    | .NSM => if !endsLtr prev then false else validLtr r prev true
    | _ => false

def satisfyBidiClasses : List BidiClass → Bool
  | [] => true
  | first :: r =>
    if first = .R || first = .AL then validRtl r first false false false
    else if first = .L then validLtr r first false
    else false

def satisfyBidiRule (s : List Nat) : Bool := satisfyBidiClasses (s.map bidiClass)

/-- `directionality_rule` -/
def directionalityRule (s : List Nat) : Res (List Nat) :=
  if hasRtl s then (if satisfyBidiRule s then .ok s else .err .invalid) else .ok s

/-! ### passwords.rs -/
def opaqueAdditionalMappingRule (s : List Nat) : Res (List Nat) :=
  match findByte isNonAsciiSpace s with
  | none => .ok s
  | some pos =>
    match sliceTo s pos, sliceFrom s pos with
    | some pre, some suf => .ok (pre ++ suf.map (fun c => if isNonAsciiSpace c then 0x20 else c))
    | _, _ => .panic

/-! ### nicknames.rs -/

/-- loop of `find_disallowed_space`. `pos` is the byte offset of the current character
(`char_indices`), `offset` the byte offset of the last character seen. -/
def fdsLoop : List Nat → Nat → Bool → Bool → Option Nat → Nat → Option Nat
  | [], _, _, _, lastC, offset => if lastC == some 0x20 then some offset else none
  | c :: r, pos, begin, prevSpace, lastC, _ =>
    if !isSpaceSeparator c then fdsLoop r (pos + utf8Len c) false false (some c) pos
    else if begin then some pos
    else if prevSpace then some pos
    else if c == 0x20 then fdsLoop r (pos + utf8Len c) begin true (some c) pos
    else some pos

def findDisallowedSpace (label : List Nat) : Option Nat := fdsLoop label 0 true false none 0

/-- rebuild loop of `trim_spaces` -/
def trimLoop : List Nat → List Nat → Bool → Bool → List Nat
  | [], res, _, _ => res
  | c :: r, res, begin, prevSpace =>
    if !isSpaceSeparator c then trimLoop r (res ++ [c]) false false
    else if begin then trimLoop r res begin prevSpace
    else trimLoop r (if !prevSpace then res ++ [0x20] else res) begin true

/-- `if let Some(c) = res.pop() { if c != SPACE { res.push(c) } }` -/
def popSpace (res : List Nat) : List Nat :=
  match res.getLast? with
  | some 0x20 => res.dropLast
  | _ => res

/-- `trim_spaces` (Nickname additional mapping rule) -/
def trimSpaces (s : List Nat) : Res (List Nat) :=
  match findDisallowedSpace s with
  | none => .ok s
  | some pos =>
    match sliceTo s pos, sliceFrom s pos with
    | some pre, some suf =>
      .ok (popSpace (trimLoop suf pre (pos == 0) (pre.getLast? == some 0x20)))
    | _, _ => .panic

end Precis
