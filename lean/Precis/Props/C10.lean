/-
C10 — Case mapping lowercases every character, wherever it stands.
-/
import Precis.Model.Rules
import Precis.Spec.Rules
import Precis.Facts.Prof
import Precis.Lemmas.Utf8
import Precis.Lemmas.TableStep
namespace Precis.C10
open Precis Precis.Step

/-- the model's `to_lowercase` is the specification's full lowercase mapping (same dumped data, read
through the binary search vs. declaratively) -/
theorem toLower_eq_spec (c : Nat) : toLower c = Spec.lowerFull c := by
  sorry

/-- `char::is_lowercase(c)` implies `to_lowercase(c) = c`, for every code point (kernel-checked table fact) -/
theorem lowercase_is_fixed (c : Nat) (h : isLowercase c = true) : toLower c = [c] := by
  sorry

/-- the fast-path trigger is complete: a character that is not a trigger is its own lowercase mapping -/
theorem trigger_complete (c : Nat) (h : hasLowercaseMapping c = false) : toLower c = [c] := by
  sorry

/-- what the loop does to one character is the lowercase mapping -/
theorem caseMapChar_eq (c : Nat) : caseMapChar c = toLower c := by
  sorry

/-- the rule lowercases every character, wherever it stands -/
theorem case_rule_eq (s : List Nat) : caseMappingRule s = .ok (Spec.specCase s) := by
  sorry

/-- the result for a character never depends on what precedes or follows it -/
theorem case_context_free (a b : List Nat) : Spec.specCase (a ++ b) = Spec.specCase a ++ Spec.specCase b := by
  sorry

theorem case_rule_total (s : List Nat) : ∃ t, caseMappingRule s = .ok t := ⟨_, case_rule_eq s⟩

/-- non-vacuity: a titlecase letter with no uppercase letter before it is mapped (U+1F88 → U+1F80),
also after a multi-byte uncased character -/
example : caseMappingRule [0x65E5, 0x1F88, 0x41] = .ok [0x65E5, 0x1F80, 0x61] := by
  sorry

end Precis.C10
