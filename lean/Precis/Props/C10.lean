/-
C10 — Case mapping lowercases every character, wherever it stands.
-/
import Precis.Model.Rules
import Precis.Spec.Rules
import Precis.Facts.Prof
import Precis.Lemmas.Utf8
import Precis.Lemmas.TableStep
namespace Precis.C10
open Precis Precis.Step

theorem toLowerTab_toList : Gen.Std.toLowerTab.toList = Gen.Std.toLowerTabL := by
  simp [Gen.Std.toLowerTab]

theorem lowerTab_toList : Gen.Std.isLowercaseTab.toList = Gen.Std.isLowercaseTabL := by
  simp [Gen.Std.isLowercaseTab]

theorem toLowerTab_sorted : sortedKeys Gen.Std.toLowerTab.toList = true := by
  rw [toLowerTab_toList]; exact Facts.sorted_toLower

theorem lowerTab_sorted : sortedPairs Gen.Std.isLowercaseTab.toList = true := by
  rw [lowerTab_toList]; exact Facts.sorted_lower

set_option maxRecDepth 1000000 in
theorem lower_fuel :
    (pairsToStep Gen.Std.isLowercaseTabL).length + (kvToStep Gen.Std.toLowerTabL).length ≤ 10000 := by
  decide +kernel

/-- the model's `to_lowercase` is the specification's full lowercase mapping (same dumped data, read
through the binary search vs. declaratively) -/
theorem toLower_eq_spec (c : Nat) : toLower c = Spec.lowerFull c := by
  unfold toLower Spec.lowerFull
  rw [kvFind_eq_lookup _ c toLowerTab_sorted, toLowerTab_toList]

/-- `char::is_lowercase(c)` implies `to_lowercase(c) = c`, for every code point (kernel-checked table fact) -/
theorem lowercase_is_fixed (c : Nat) (h : isLowercase c = true) : toLower c = [c] := by
  have h1 : eval false (pairsToStep Gen.Std.isLowercaseTabL) c = true := by
    rw [← lowerTab_toList, ← inPairs_eq_eval _ lowerTab_sorted c]; exact h
  have h2 : kvFind Gen.Std.toLowerTab c = eval none (kvToStep Gen.Std.toLowerTabL) c := by
    rw [kvFind_eq_eval _ toLowerTab_sorted c, toLowerTab_toList]
  have h3 := allVD_eval id true _ Facts.lowercase_fixed_check c
  have h4 := eval_zipW (fun (low : Bool) (m : Option (List Nat)) => !low || m.isNone) 10000
      false (pairsToStep Gen.Std.isLowercaseTabL) none (kvToStep Gen.Std.toLowerTabL) c lower_fuel
  have h5 : (!(eval false (pairsToStep Gen.Std.isLowercaseTabL) c)
      || (eval none (kvToStep Gen.Std.toLowerTabL) c).isNone) = true := by
    rw [← h4]; exact h3
  rw [h1, ← h2] at h5
  have h6 : kvFind Gen.Std.toLowerTab c = none := by simpa using h5
  unfold toLower
  rw [h6]; rfl

/-- the fast-path trigger is complete: a character that is not a trigger is its own lowercase mapping -/
theorem trigger_complete (c : Nat) (h : hasLowercaseMapping c = false) : toLower c = [c] := by
  unfold hasLowercaseMapping at h
  simpa using h

/-- what the loop does to one character is the lowercase mapping -/
theorem caseMapChar_eq (c : Nat) : caseMapChar c = toLower c := by
  unfold caseMapChar
  cases h : isLowercase c with
  | true => rw [if_pos rfl, lowercase_is_fixed c h]
  | false => rw [if_neg (by simp)]

theorem flatMap_id_of_no_mapping (l : List Nat) (h : ∀ c ∈ l, hasLowercaseMapping c = false) :
    l.flatMap toLower = l := by
  induction l with
  | nil => rfl
  | cons c r ih =>
    rw [List.flatMap_cons, ih (fun x hx => h x (by simp [hx])), trigger_complete c (h c (by simp))]
    rfl

theorem specCase_eq (s : List Nat) : Spec.specCase s = s.flatMap toLower := by
  unfold Spec.specCase
  have : Spec.lowerFull = toLower := funext (fun c => (toLower_eq_spec c).symm)
  rw [this]

/-- the rule lowercases every character, wherever it stands -/
theorem case_rule_eq (s : List Nat) : caseMappingRule s = .ok (Spec.specCase s) := by
  unfold caseMappingRule
  rw [specCase_eq]
  have hf : caseMapChar = toLower := funext caseMapChar_eq
  rw [hf]
  cases h : findByte hasLowercaseMapping s with
  | none =>
    have := (findByte_none_iff _ _).mp h
    simp only
    rw [flatMap_id_of_no_mapping s this]
  | some pos =>
    obtain ⟨h1, h2⟩ := slice_at_find _ _ _ h
    simp only [h1, h2]
    have hpre : (s.takeWhile (fun c => !hasLowercaseMapping c)).flatMap toLower
        = s.takeWhile (fun c => !hasLowercaseMapping c) := by
      apply flatMap_id_of_no_mapping
      intro c hc
      have := List.all_eq_true.mp
        (List.all_takeWhile (l := s) (p := fun c => !hasLowercaseMapping c)) c hc
      simpa using this
    conv => rhs; rw [← List.takeWhile_append_dropWhile (p := fun c => !hasLowercaseMapping c) (l := s)]
    rw [List.flatMap_append, hpre]

/-- the result for a character never depends on what precedes or follows it -/
theorem case_context_free (a b : List Nat) : Spec.specCase (a ++ b) = Spec.specCase a ++ Spec.specCase b := by
  unfold Spec.specCase
  exact List.flatMap_append

theorem case_rule_total (s : List Nat) : ∃ t, caseMappingRule s = .ok t := ⟨_, case_rule_eq s⟩

set_option maxRecDepth 1000000 in
/-- non-vacuity: a titlecase letter with no uppercase letter before it is mapped (U+1F88 → U+1F80),
also after a multi-byte uncased character -/
example : caseMappingRule [0x65E5, 0x1F88, 0x41] = .ok [0x65E5, 0x1F80, 0x61] := by
  rw [case_rule_eq]; decide +kernel

end Precis.C10
