/-
C08, second half — "enforcing an accepted result again never yields a different string", for the
OpaqueString and username profiles.  Nothing is assumed about the normalizer any more: idempotence of NFC is proved for
the normalizer model over the tables dumped from the crate (Lemmas/NfcIdem.lean).  The accepted result contains no character that the additional
mapping / width mapping / case mapping of a second enforcement would change, because the corresponding
sets are closed under canonical decomposition and composition (kernel-checked facts in
Facts/Closure2.lean + the generic closure lemma `nfc_closed`).
-/
import Precis.Props.C08
import Precis.Props.C01
import Precis.Facts.Closure2
import Precis.Lemmas.NfcIdem
namespace Precis.C08
open Precis Precis.Spec Precis.Facts Precis.Gen.Forb Precis.Gen.Norm Precis.Gen.Std Precis.Gen.Prof

/-- NFC of the normalizer model is idempotent on strings of Unicode code points: PROVED (Lemmas/NfcIdem.lean, generic
induction over the crate's recomposition state machine + kernel-checked facts about the dumped tables), no longer an
assumption -/
theorem nfc_idempotent (t : List Nat) (ht : ∀ c ∈ t, c < 0x110000) : nfc (nfc t) = nfc t := NfcIdem.nfc_idem t ht

/-- likewise NFKC -/
theorem nfkc_idempotent (t : List Nat) (ht : ∀ c ∈ t, c < 0x110000) : nfkc (nfkc t) = nfkc t := NfcIdem.nfkc_idem t ht

/-! ### generic: the complement of a bitmap of excluded code points -/

/-- a code point of Unicode outside the excluded bitmap `b` -/
def inS (b : Nat) (c : Nat) : Bool := decide (c < 0x110000) && !b.testBit c

theorem inS_iff (b c : Nat) : inS b c = true ↔ c < 0x110000 ∧ b.testBit c = false := by
  simp only [inS, Bool.and_eq_true, decide_eq_true_eq, Bool.not_eq_true']

theorem nfcClosed_of_bits (b : Nat) (h : closedB b = true) : NfcClosed (inS b) := by
  have hn := norm_tables_ok
  simp only [normTablesOk, Bool.and_eq_true, List.all_eq_true, decide_eq_true_eq, Bool.not_eq_true'] at hn
  obtain ⟨⟨⟨_, hcomp⟩, hcanon⟩, hcompv⟩ := hn
  simp only [closedB, Bool.and_eq_true] at h
  obtain ⟨⟨⟨hd, hc⟩, hh1⟩, hh2⟩ := h
  simp only [List.all_eq_true, Bool.or_eq_true, Bool.not_eq_true'] at hd hc
  constructor
  · intro e he hs x hx
    rw [inS_iff] at hs ⊢
    have hb := (hcanon e he).2 x hx
    refine ⟨hb.2, ?_⟩
    rcases hd e he with h1 | h1
    · rw [hs.2] at h1; cases h1
    · exact h1 x hx
  · intro e he ha hb
    rw [inS_iff] at ha hb ⊢
    refine ⟨hcompv e he, ?_⟩
    rcases hc e he with (h1 | h1) | h1
    · rw [ha.2] at h1; cases h1
    · rw [hb.2] at h1; cases h1
    · exact h1
  · intro c hc'
    simp only [isSyllable, Bool.and_eq_true, decide_eq_true_eq] at hc'
    have := Step.allBelow_sound _ _ hh1 (c - 0xAC00) (by omega)
    simp only [Bool.not_eq_true'] at this
    have e : 0xAC00 + (c - 0xAC00) = c := by omega
    rw [e] at this
    rw [inS_iff]
    exact ⟨by omega, this⟩
  · intro c hc'
    have hlt : c - 0x1100 < 256 := by
      simp only [isJamoLVT, Bool.or_eq_true, Bool.and_eq_true, decide_eq_true_eq] at hc'; omega
    have hge : 0x1100 ≤ c := by
      simp only [isJamoLVT, Bool.or_eq_true, Bool.and_eq_true, decide_eq_true_eq] at hc'; omega
    have := Step.allBelow_sound _ _ hh2 (c - 0x1100) hlt
    have e : 0x1100 + (c - 0x1100) = c := by omega
    rw [e, hc'] at this
    simp only [Bool.not_true, Bool.false_or] at this
    simp [inS, this]

theorem nfc_inS (b : Nat) (h : closedB b = true) (s : List Nat) (hs : ∀ c ∈ s, inS b c = true) :
    ∀ c ∈ nfc s, inS b c = true :=
  nfc_closed (inS b) (nfcClosed_of_bits b h) norm_tables_ok canon_sorted comp_sorted ccc_sorted
    (fun c hc => ((inS_iff b c).mp hc).1) s hs

/-! ### the three key bitmaps, read through the model's / specification's look-ups -/

theorem spaceSeparator_toList : spaceSeparator.toList = spaceSeparatorL := by
  simp [spaceSeparator]

theorem zs_bit (x : Nat) : zsNonAsciiBits.testBit x = (Spec.zs16 x && x != 0x20) := by
  have hmem : memL x spaceSeparatorL = Spec.zs16 x := by
    rw [← C12.zs_table_is_ucd16]
    unfold isSpaceSeparator
    rw [isInTable_eq_memL spaceSeparator x (by rw [spaceSeparator_toList]; exact sorted_profSpaceSeparator),
      spaceSeparator_toList]
  unfold zsNonAsciiBits
  rw [Nat.testBit_xor, Nat.one_shiftLeft, Nat.testBit_two_pow]
  by_cases hx : x = 0x20
  · subst hx
    rw [space_in_zs]
    simp
  · rw [testBit_bitsOf, hmem]
    have h1 : decide (0x20 = x) = false := by simp; omega
    have h2 : (x != 0x20) = true := by simp [hx]
    rw [h1, h2]
    simp

theorem lookupL_isSome {V} (cp : Nat) (l : List (Cps × V)) :
    (lookupL cp l).isSome = memL cp (l.map (·.1)) := by
  induction l with
  | nil => simp [lookupL, memL]
  | cons x r ih =>
    obtain ⟨e, v⟩ := x
    have hr : memL cp (((e, v) :: r).map (·.1)) = (e.eqCp cp || memL cp (r.map (·.1))) := by
      simp [memL]
    rw [hr, ← ih]
    simp only [lookupL]
    cases e.eqCp cp <;> simp

theorem width_bit (c : Nat) : widthKeyBits.testBit c = (getDecompositionMapping c).isSome := by
  unfold widthKeyBits
  rw [testBit_bitsOf, C11.getDecomp_eq_lookupL, lookupL_isSome]

theorem lookup_isSome {V} (k : Nat) (l : List (Nat × V)) :
    (l.lookup k).isSome = memL k (l.map (fun e => Cps.single e.1)) := by
  induction l with
  | nil => simp [memL]
  | cons x r ih =>
    obtain ⟨a, v⟩ := x
    have hr : memL k (((a, v) :: r).map (fun e => Cps.single e.1))
        = ((a == k) || memL k (r.map (fun e => Cps.single e.1))) := by
      simp [memL, Cps.eqCp]
    rw [hr, ← ih, List.lookup_cons]
    by_cases hka : k = a
    · subst hka; simp
    · have h1 : (k == a) = false := by simp [hka]
      have h2 : (a == k) = false := by simp; omega
      rw [h1, h2]; simp

theorem lower_bit (c : Nat) : lowerKeyBits.testBit c = (toLowerTabL.lookup c).isSome := by
  unfold lowerKeyBits
  rw [testBit_bitsOf, lookup_isSome]

/-- lowercase images of characters that are not wide/narrow characters are not wide/narrow characters
either (kernel-checked on the generated tables).  The unconditional statement is false: U+FF21
FULLWIDTH LATIN CAPITAL LETTER A lowercases to U+FF41, itself a wide character — but the width mapping
runs first, so no wide character reaches the case mapping. -/
theorem lower_images_not_width :
    toLowerTabL.all (fun e => widthKeyBits.testBit e.1 ||
      e.2.all (fun x => !widthKeyBits.testBit x)) = true := by
  set_option maxRecDepth 1000000 in decide +kernel

/-! ### the mappings are the identity on strings without keys -/

theorem opaqueMap_id (e : List Nat) (h : ∀ c ∈ e, zsNonAsciiBits.testBit c = false) :
    Spec.specOpaqueMap e = e := by
  rw [SpacesAux.specOpaqueMap_eq]
  apply SpacesAux.map_opaqueF_of_none
  intro c hc
  rw [← zs_bit]; exact h c hc

theorem width_id (e : List Nat) (h : ∀ c ∈ e, widthKeyBits.testBit c = false) :
    Spec.specWidth e = e := by
  rw [C11.specWidth_eq_map]
  apply C11.map_id_of_no_mapping
  intro c hc
  unfold hasWidthMapping
  rw [← width_bit]; exact h c hc

theorem case_id (e : List Nat) (h : ∀ c ∈ e, lowerKeyBits.testBit c = false) :
    Spec.specCase e = e := by
  induction e with
  | nil => rfl
  | cons c r ih =>
    have hc := h c (by simp)
    rw [lower_bit] at hc
    have hl : toLowerTabL.lookup c = none := by
      cases hh : toLowerTabL.lookup c with
      | none => rfl
      | some v => rw [hh] at hc; simp at hc
    have hr := ih (fun x hx => h x (by simp [hx]))
    unfold Spec.specCase at hr ⊢
    rw [List.flatMap_cons, hr]
    simp only [Spec.lowerFull, hl, Option.getD_none]
    rfl

/-- characters of a width-mapped string are not wide/narrow characters -/
theorem width_not_key (s : List Nat) : ∀ c ∈ Spec.specWidth s, widthKeyBits.testBit c = false := by
  intro c hc
  rw [C11.specWidth_eq_map, List.mem_map] at hc
  obtain ⟨x, _, rfl⟩ := hc
  rw [width_bit]
  unfold C11.widthMapChar
  cases hx : getDecompositionMapping x with
  | none => simp [hx]
  | some d =>
    have := (C11.getDecomp_value x d hx).2
    simp [this]

theorem testBit_lor_false {a b c : Nat} (ha : a.testBit c = false) (hb : b.testBit c = false) :
    (a ||| b).testBit c = false := by
  rw [Nat.testBit_or, ha, hb]; rfl

theorem testBit_lor_false_iff {a b c : Nat} :
    (a ||| b).testBit c = false ↔ a.testBit c = false ∧ b.testBit c = false := by
  rw [Nat.testBit_or]
  cases a.testBit c <;> cases b.testBit c <;> simp

/-! ### OpaqueString -/

/-- OpaqueString: re-enforcing an accepted result returns it unchanged or an error -/
theorem op_no_drift (s e : List Nat) (h : Opaque.enforce s = .ok e)
    (hf : e.length < 2 ^ 63) : Opaque.enforce e = .ok e ∨ ∃ x, Opaque.enforce e = .err x := by
  -- what the first run tells about `e`
  have hfix : nfc (Spec.specOpaqueMap e) = e := by
    rw [C05.enforce_eq] at h
    simp only [C05.specEnforce] at h
    cases hp : C05.specPrepare s with
    | ok w =>
      simp only [hp] at h
      split at h
      · cases h
      · cases h
        have hw : ∀ c ∈ w, allowed .freeform c = true := by
          apply valid_allowed .freeform w
          simp only [C05.specPrepare] at hp
          split at hp
          · cases hp
          · cases ha : allows (derivedProp .freeform) s with
            | ok u => simp only [ha] at hp; cases hp; exact ha
            | err x => simp [ha] at hp
            | panic => simp [ha] at hp
        have hm : ∀ c ∈ Spec.specOpaqueMap w, inS bFfZ c = true := by
          intro c hc
          simp only [Spec.specOpaqueMap, List.mem_map] at hc
          obtain ⟨x, hx, rfl⟩ := hc
          rw [inS_iff]
          unfold bFfZ
          split
          · refine ⟨by omega, testBit_lor_false space_allowed_ff ?_⟩
            rw [zs_bit]; simp
          · rename_i hz
            have ha := hw x hx
            simp only [allowed, forbL, Bool.and_eq_true, decide_eq_true_eq, Bool.not_eq_true'] at ha
            refine ⟨ha.1, testBit_lor_false ha.2 ?_⟩
            rw [zs_bit]
            simpa using hz
        have he := nfc_inS bFfZ closed_ffz _ hm
        have hz : ∀ c ∈ nfc (Spec.specOpaqueMap w), zsNonAsciiBits.testBit c = false := by
          intro c hc
          have := ((inS_iff _ _).mp (he c hc)).2
          unfold bFfZ at this
          exact (testBit_lor_false_iff.mp this).2
        rw [opaqueMap_id _ hz]
        exact NfcIdem.nfc_idem _ (fun c hc => ((inS_iff _ _).mp (hm c hc)).1)
    | err x => simp [hp] at h
    | panic => simp [hp] at h
  have hne := C01.opaque_enforce_total e hf
  cases h2 : Opaque.enforce e with
  | ok e' =>
    left
    rw [C05.enforce_eq] at h2
    simp only [C05.specEnforce] at h2
    cases hp : C05.specPrepare e with
    | ok w =>
      have hw : w = e := C05.prepare_ok_unchanged e w (by rw [C05.prepare_eq]; exact hp)
      subst hw
      simp only [hp, hfix] at h2
      split at h2
      · cases h2
      · cases h2; rfl
    | err x => simp [hp] at h2
    | panic => simp [hp] at h2
  | err x => right; exact ⟨x, rfl⟩
  | panic => exact absurd h2 hne

/-! ### usernames -/

/-- second run of a username profile on a string that its own mappings leave unchanged -/
theorem user_second (mapped : Bool) (e : List Nat) (hf : e.length < 2 ^ 63)
    (hw : Spec.specWidth e = e) (hc : (if mapped then Spec.specCase e else e) = e) (hn : nfc e = e)
    (hd : C04.dirStep e = .ok e) :
    Username.enforce mapped e = .ok e ∨ ∃ x, Username.enforce mapped e = .err x := by
  have hne := C01.user_enforce_total mapped e hf
  cases h2 : Username.enforce mapped e with
  | ok e' =>
    left
    rw [C04.enforce_eq] at h2
    simp only [C04.specEnforce] at h2
    cases hp : C04.specPrepare e with
    | ok w =>
      have hw' : w = e := by
        rw [C04.prepare_ok_is_width e w (by rw [C04.prepare_eq]; exact hp), hw]
      subst hw'
      simp only [hp, hc, hn] at h2
      split at h2
      · cases h2
      · rw [hd] at h2; exact h2.symm
    | err x => simp [hp] at h2
    | panic => simp [hp] at h2
  | err x => right; exact ⟨x, rfl⟩
  | panic => exact absurd h2 hne

/-- UsernameCasePreserved -/
theorem up_no_drift (s e : List Nat) (h : Username.enforce false s = .ok e)
    (hf : e.length < 2 ^ 63) :
    Username.enforce false e = .ok e ∨ ∃ x, Username.enforce false e = .err x := by
  rw [C04.enforce_eq] at h
  simp only [C04.specEnforce] at h
  cases hp : C04.specPrepare s with
  | ok w =>
    simp only [hp, Bool.false_eq_true, if_false] at h
    have hww := C04.prepare_ok_is_width s w (by rw [C04.prepare_eq]; exact hp)
    split at h
    · cases h
    · have he := dirStep_ok _ _ h
      have hm : ∀ c ∈ w, inS bIdW c = true := by
        intro c hc
        have ha := prepare_allowed s w hp c hc
        simp only [allowed, forbL, Bool.and_eq_true, decide_eq_true_eq, Bool.not_eq_true'] at ha
        rw [inS_iff]
        unfold bIdW
        exact ⟨ha.1, testBit_lor_false ha.2 (width_not_key s c (hww ▸ hc))⟩
      have hS := nfc_inS bIdW closed_idw _ hm
      rw [← he] at hS h
      have hk : ∀ c ∈ e, widthKeyBits.testBit c = false := by
        intro c hc
        have := ((inS_iff _ _).mp (hS c hc)).2
        unfold bIdW at this
        exact (testBit_lor_false_iff.mp this).2
      apply user_second false e hf (width_id e hk) (by simp) (by rw [he]; exact NfcIdem.nfc_idem _ (fun c hc => ((inS_iff _ _).mp (hm c hc)).1)) h
  | err x => simp [hp] at h
  | panic => simp [hp] at h

/-- UsernameCaseMapped, for inputs without a character whose lowercase image is forbidden (the
Cherokee letters of the known finding; for those the second enforcement is an error, see the sweep) -/
theorem um_no_drift_partial (s e : List Nat) (h : Username.enforce true s = .ok e)
    (hk : ∀ c ∈ Spec.specWidth s, c ∉ lowerBad forbIdL) (hf : e.length < 2 ^ 63) :
    Username.enforce true e = .ok e ∨ ∃ x, Username.enforce true e = .err x := by
  rw [C04.enforce_eq] at h
  simp only [C04.specEnforce] at h
  cases hp : C04.specPrepare s with
  | ok w =>
    simp only [hp, if_true] at h
    have hww := C04.prepare_ok_is_width s w (by rw [C04.prepare_eq]; exact hp)
    split at h
    · cases h
    · have he := dirStep_ok _ _ h
      have hm : ∀ c ∈ Spec.specCase w, inS bIdWL c = true := by
        intro c hc
        simp only [Spec.specCase, List.mem_flatMap] at hc
        obtain ⟨x, hx, hcx⟩ := hc
        have ha := lower_allowed x (prepare_allowed s w hp x hx) (hk x (hww ▸ hx)) c hcx
        simp only [allowed, forbL, Bool.and_eq_true, decide_eq_true_eq, Bool.not_eq_true'] at ha
        rw [inS_iff]
        unfold bIdWL
        refine ⟨ha.1, testBit_lor_false (testBit_lor_false ha.2 ?_) ?_⟩
        · -- not a wide/narrow character
          simp only [Spec.lowerFull] at hcx
          cases hl : toLowerTabL.lookup x with
          | none =>
            simp only [hl, Option.getD_none, List.mem_singleton] at hcx
            subst hcx
            exact width_not_key s c (hww ▸ hx)
          | some v =>
            simp only [hl, Option.getD_some] at hcx
            have hmem : (x, v) ∈ toLowerTabL := NfcAux.mem_of_lookup _ _ _ hl
            have hb := lower_images_not_width
            simp only [List.all_eq_true, Bool.or_eq_true, Bool.not_eq_true'] at hb
            rcases hb (x, v) hmem with h1 | h1
            · have := width_not_key s x (hww ▸ hx)
              simp only at h1
              rw [this] at h1; cases h1
            · exact h1 c hcx
        · -- not a character with a lowercase mapping
          simp only [Spec.lowerFull] at hcx
          cases hl : toLowerTabL.lookup x with
          | none =>
            simp only [hl, Option.getD_none, List.mem_singleton] at hcx
            subst hcx
            rw [lower_bit, hl]; rfl
          | some v =>
            simp only [hl, Option.getD_some] at hcx
            have hmem : (x, v) ∈ toLowerTabL := NfcAux.mem_of_lookup _ _ _ hl
            have hb := lower_images_stable
            simp only [List.all_eq_true, Bool.not_eq_true'] at hb
            exact hb (x, v) hmem c hcx
      have hS := nfc_inS bIdWL closed_idwl _ hm
      rw [← he] at hS h
      have hbits : ∀ c ∈ e, widthKeyBits.testBit c = false ∧ lowerKeyBits.testBit c = false := by
        intro c hc
        have := ((inS_iff _ _).mp (hS c hc)).2
        unfold bIdWL at this
        have h1 := testBit_lor_false_iff.mp this
        exact ⟨(testBit_lor_false_iff.mp h1.1).2, h1.2⟩
      apply user_second true e hf (width_id e (fun c hc => (hbits c hc).1))
        (by simp only [if_true]; exact case_id e (fun c hc => (hbits c hc).2))
        (by rw [he]; exact NfcIdem.nfc_idem _ (fun c hc => ((inS_iff _ _).mp (hm c hc)).1)) h
  | err x => simp [hp] at h
  | panic => simp [hp] at h

end Precis.C08
