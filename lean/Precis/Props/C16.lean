/-
C16 — Results depend only on the arguments, not on API form, history or threads.

The logic part, as an abstract protocol: each static profile lives in a lazily initialised cell
(`lazy_static` / `Once`): Uninit → Running(thread) → Init(value).  The value is a profile, i.e. a
wrapper around a string class, both of which carry no data (zero-sized; checked on the real types by
`harness sizes` on every run).  A call on the static API first forces the cell, then runs the pure
operation on the cell's value; a call on a fresh or long-lived instance runs it on that instance.
Inputs arrive as a borrowed slice, an owned String or a Cow — all with the same content.

Theorem `any_schedule_pure`: in every reachable state and for every interleaving of initialisation
steps and calls of any number of threads, a completed call returns exactly the pure function of its
arguments.  What this model cannot exhibit is the runtime part: the memory model and the correctness
of `std::sync::Once`; that is explored (16-thread first-call races in fresh processes), not proved.
-/
import Precis.Model.Profiles
namespace Precis.C16
open Precis

/-- a profile value: `struct UsernameCaseMapped(IdentifierClass)` etc. — no fields with data -/
structure ProfileVal where
  cls : Unit
  deriving DecidableEq

theorem profileVal_unique (a b : ProfileVal) : a = b := by cases a; cases b; rfl

inductive Cell where
  | uninit
  | running (tid : Nat)
  | init (v : ProfileVal)

inductive How where
  | fresh | longLived | static
  deriving DecidableEq

inductive Form where
  | borrowed | owned | cowBorrowed | cowOwned
  deriving DecidableEq

inductive Op where
  | prepare | enforce | compare
  deriving DecidableEq

inductive Out where
  | str (r : Res (List Nat))
  | bool (r : Res Bool)
  deriving DecidableEq

structure Call where
  tid : Nat
  how : How
  form : Form
  p : Profile
  op : Op
  a : List Nat
  b : List Nat

/-- the content an argument denotes does not depend on how it is passed -/
def content (_ : Form) (s : List Nat) : List Nat := s

/-- the operation as executed on a profile value `v` with the arguments in the given form -/
def runOn (_v : ProfileVal) (c : Call) : Out :=
  match c.op with
  | .prepare => .str (c.p.prepare (content c.form c.a))
  | .enforce => .str (c.p.enforce (content c.form c.a))
  | .compare => .bool (c.p.compare (content c.form c.a) (content c.form c.b))

/-- the pure function of the arguments -/
def pureOp (p : Profile) (op : Op) (a b : List Nat) : Out :=
  match op with
  | .prepare => .str (p.prepare a)
  | .enforce => .str (p.enforce a)
  | .compare => .bool (p.compare a b)

structure St where
  cells : Profile → Cell
  /-- long-lived instances created so far, with the number of calls already made on them -/
  history : Nat

def St.init : St := ⟨fun _ => .uninit, 0⟩

inductive Event where
  | beginInit (tid : Nat) (p : Profile)
  | endInit (tid : Nat) (p : Profile) (v : ProfileVal)
  | ret (c : Call) (out : Out)

def setCell (f : Profile → Cell) (p : Profile) (c : Cell) : Profile → Cell :=
  fun q => if q = p then c else f q

/-- one atomic step of some thread -/
inductive Step : St → Event → St → Prop where
  | beginInit (st : St) (tid : Nat) (p : Profile) (h : ∃ _ : Unit, match st.cells p with | .uninit => True | _ => False) :
      Step st (.beginInit tid p) { st with cells := setCell st.cells p (.running tid) }
  | endInit (st : St) (tid : Nat) (p : Profile) (v : ProfileVal)
      (h : ∃ _ : Unit, match st.cells p with | .running t => t = tid | _ => False) :
      Step st (.endInit tid p v) { st with cells := setCell st.cells p (.init v) }
  /-- a static call completes only once the cell is initialised, and runs on the cell's value -/
  | retStatic (st : St) (c : Call) (v : ProfileVal) (hs : c.how = .static)
      (h : ∃ _ : Unit, match st.cells c.p with | .init w => w = v | _ => False) :
      Step st (.ret c (runOn v c)) { st with history := st.history + 1 }
  /-- a call on a fresh or long-lived instance `v` -/
  | retInstance (st : St) (c : Call) (v : ProfileVal) (hs : c.how ≠ .static) :
      Step st (.ret c (runOn v c)) { st with history := st.history + 1 }

/-- executions: any interleaving of steps of any threads -/
inductive Exec : St → List Event → St → Prop where
  | nil (st : St) : Exec st [] st
  | cons {st st' st'' : St} {e : Event} {es : List Event} : Step st e st' → Exec st' es st'' → Exec st (e :: es) st''

theorem runOn_pure (v : ProfileVal) (c : Call) : runOn v c = pureOp c.p c.op c.a c.b := by
  cases hc : c.op <;> simp [runOn, pureOp, content, hc]

/-- every call, under every schedule and after every history, returns the pure function of its arguments -/
theorem any_schedule_pure (st st' : St) (es : List Event) (h : Exec st es st') :
    ∀ c out, Event.ret c out ∈ es → out = pureOp c.p c.op c.a c.b := by
  induction h with
  | nil => intro c out hm; cases hm
  | cons hstep _ ih =>
    intro c out hm
    cases hm with
    | head =>
      cases hstep <;> exact runOn_pure _ c
    | tail _ hm' => exact ih c out hm'

/-- the three API flavours and the four argument forms agree -/
theorem forms_agree (v w : ProfileVal) (c d : Call) (hp : c.p = d.p) (ho : c.op = d.op) (ha : c.a = d.a)
    (hb : c.b = d.b) : runOn v c = runOn w d := by
  rw [runOn_pure, runOn_pure, hp, ho, ha, hb]

/-! ### the lazy cell itself: initialised at most once, never changes afterwards, read only when initialised -/

theorem step_cell_init (st st' : St) (e : Event) (p : Profile) (v : ProfileVal) (h : Step st e st')
    (hc : st.cells p = .init v) : st'.cells p = .init v := by
  cases h with
  | beginInit tid q hq =>
    simp only [setCell]
    split
    · rename_i heq; subst heq; rw [hc] at hq; obtain ⟨_, hq⟩ := hq; exact hq.elim
    · exact hc
  | endInit tid q w hq =>
    simp only [setCell]
    split
    · rename_i heq; subst heq; rw [hc] at hq; obtain ⟨_, hq⟩ := hq; exact hq.elim
    · exact hc
  | retStatic c w hs hq => exact hc
  | retInstance c w hs => exact hc

/-- once a static profile is initialised it keeps its value in every later state, whatever the threads do -/
theorem cell_stays_init (st st' : St) (es : List Event) (h : Exec st es st') (p : Profile) (v : ProfileVal)
    (hc : st.cells p = .init v) : st'.cells p = .init v := by
  induction h with
  | nil => exact hc
  | cons hstep _ ih => exact ih (step_cell_init _ _ _ p v hstep hc)

/-- number of completed initialisations of `p` in a trace -/
def initCount (p : Profile) : List Event → Nat
  | [] => 0
  | .endInit _ q _ :: es => (if q = p then 1 else 0) + initCount p es
  | _ :: es => initCount p es

/-- the initialiser of a static profile completes at most once in any execution from the initial state (in any execution
at all: at most once after the cell left `uninit`) — the `Once` protocol, as far as the model carries it -/
theorem init_at_most_once (st st' : St) (es : List Event) (h : Exec st es st') (p : Profile) :
    initCount p es ≤ 1 ∧ (∀ v, st.cells p = .init v → initCount p es = 0) := by
  induction h with
  | nil => exact ⟨Nat.zero_le _, fun _ _ => rfl⟩
  | @cons st st1 st2 e es hstep hexec ih =>
    cases hstep with
    | beginInit tid q hq =>
      refine ⟨ih.1, fun v hv => ih.2 v ?_⟩
      simp only [setCell]
      split
      · rename_i heq; subst heq; rw [hv] at hq; obtain ⟨_, hq⟩ := hq; exact hq.elim
      · exact hv
    | endInit tid q w hq =>
      by_cases hqp : q = p
      · subst hqp
        have h0 : initCount q es = 0 := ih.2 w (by simp [setCell])
        refine ⟨by simp [initCount, h0], fun v hv => ?_⟩
        rw [hv] at hq; obtain ⟨_, hq⟩ := hq; exact hq.elim
      · refine ⟨by simpa [initCount, hqp] using ih.1, fun v hv => ?_⟩
        have : initCount p es = 0 := ih.2 v (by simp only [setCell]; rw [if_neg (Ne.symm hqp)]; exact hv)
        simpa [initCount, hqp] using this
    | retStatic c w hs hq => exact ⟨ih.1, fun v hv => ih.2 v hv⟩
    | retInstance c w hs => exact ⟨ih.1, fun v hv => ih.2 v hv⟩

/-- a static call can only complete in a state whose cell is initialised (it never observes a half-built profile) -/
theorem static_ret_needs_init (st st' : St) (c : Call) (out : Out) (h : Step st (.ret c out) st') (hs : c.how = .static) :
    ∃ v, st.cells c.p = .init v := by
  cases h with
  | retStatic c' v hs' hq =>
    obtain ⟨_, hq⟩ := hq
    cases hc : st.cells c.p with
    | init w => exact ⟨w, rfl⟩
    | uninit => rw [hc] at hq; exact hq.elim
    | running t => rw [hc] at hq; exact hq.elim
  | retInstance c' v hs' => exact absurd hs hs'

/-- non-vacuity: a schedule in which thread 2's static call completes after thread 1 initialised the cell -/
example : ∃ st', Exec St.init
    [.beginInit 1 .nickname, .endInit 1 .nickname ⟨()⟩,
     .ret ⟨2, .static, .owned, .nickname, .prepare, [0x61], []⟩
       (runOn ⟨()⟩ ⟨2, .static, .owned, .nickname, .prepare, [0x61], []⟩)] st' :=
  ⟨_, Exec.cons (Step.beginInit _ 1 .nickname ⟨(), by simp [St.init]⟩)
    (Exec.cons (Step.endInit _ 1 .nickname ⟨()⟩ ⟨(), by simp [setCell]⟩)
      (Exec.cons (Step.retStatic _ ⟨2, .static, .owned, .nickname, .prepare, [0x61], []⟩ ⟨()⟩ rfl
        ⟨(), by simp [setCell]⟩) (Exec.nil _)))⟩

end Precis.C16
