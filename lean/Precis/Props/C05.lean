/-
C05 — OpaqueString (passwords) applies RFC 8265 section 4.2 exactly.
-/
import Precis.Model.Profiles
import Precis.Props.C04
import Precis.Props.C12
namespace Precis.C05
open Precis Precis.Spec

/-- prepare: non-empty and every code point accepted by FreeformClass; the string is returned unchanged -/
def specPrepare (s : List Nat) : Res (List Nat) :=
  if s = [] then .err .invalid
  else match allows (derivedProp .freeform) s with
    | .ok () => .ok s
    | .err e => .err e
    | .panic => .panic

/-- enforce: prepare, non-ASCII Zs ↦ U+0020, NFC, reject empty -/
def specEnforce (s : List Nat) : Res (List Nat) :=
  match specPrepare s with
  | .ok s =>
    let n := nfc (Spec.specOpaqueMap s)
    if n = [] then .err .invalid else .ok n
  | .err e => .err e
  | .panic => .panic

theorem prepare_eq (s : List Nat) : Opaque.prepare s = specPrepare s := by
  simp only [Opaque.prepare, specPrepare, bind, Res.bind, C04.nonEmpty_eq, pure]
  by_cases h : s = []
  · simp [h]
  · simp only [h, if_false]
    cases allows (derivedProp .freeform) s <;> rfl

theorem enforce_eq (s : List Nat) : Opaque.enforce s = specEnforce s := by
  simp only [Opaque.enforce, specEnforce, bind, Res.bind, prepare_eq]
  cases specPrepare s with
  | ok w =>
    simp only [C12.opaque_map_eq, C04.normNfc_eq, C04.nonEmpty_eq]
  | err e => rfl
  | panic => rfl

/-- an accepted prepare returns its argument unchanged -/
theorem prepare_ok_unchanged (s t : List Nat) (h : Opaque.prepare s = .ok t) : t = s := by
  rw [prepare_eq] at h
  simp only [specPrepare] at h
  split at h
  · simp at h
  · cases hh : allows (derivedProp .freeform) s <;> simp [hh] at h
    exact h.symm

/-- before NFC, only non-ASCII spaces are altered: case, width and every other character are preserved -/
theorem enforce_only_maps_spaces (s : List Nat) (i : Nat) (h : i < s.length)
    (hn : ¬ (Spec.zs16 s[i] = true ∧ s[i] ≠ 0x20)) :
    ∃ h' : i < (Spec.specOpaqueMap s).length, (Spec.specOpaqueMap s)[i] = s[i] :=
  C12.opaque_map_preserves s i h hn

/-- every failure of prepare is also the result of enforce -/
theorem prepare_err_is_enforce_err (s : List Nat) (e : Err) (h : Opaque.prepare s = .err e) :
    Opaque.enforce s = .err e := by
  rw [enforce_eq]; rw [prepare_eq] at h; simp [specEnforce, h]

end Precis.C05
