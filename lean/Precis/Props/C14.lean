/-
C14 — Derived property of every code point follows the RFC 8264 algorithm.
All statements are for every `cp : Nat` (⊇ all 2^32 u32 values); the heavy lifting is the
kernel-checked step-function facts in Precis/Facts (re-checked against the regenerated tables).
The char and code-point entry points of both classes are the same model function `derivedProp`
(as in the Rust: both call `get_derived_property_value(c as u32 / cp, self)`); the correspondence
run compares both real entry points with it over the whole domain.
-/
import Precis.Facts.DpIanaId
import Precis.Facts.DpIanaFf
import Precis.Facts.DpRfcId
import Precis.Facts.DpRfcFf
import Precis.Facts.DpMiscId
import Precis.Facts.DpMiscFf
import Precis.Facts.IdVsFree
import Precis.Facts.IanaDomain
import Precis.Facts.HasCompatCode
namespace Precis.C14
open Precis Precis.Step Precis.Spec Precis.Facts

def Cls.isId : Cls → Bool
  | .identifier => true
  | .freeform => false

/-- the IANA precis-tables-6.3.0 registry lists exactly the code points of Unicode -/
theorem iana_lists_unicode (cp : Nat) : iana63 cp = .notListed ↔ ¬ cp < 0x110000 := by
  have h := SF.same_at _ _ iana_domain cp
  simp only [SF.map_at, SF.not_at, inUnicode_at] at h
  rw [iana63_at]
  by_cases hA : ianaSF.at cp = Iana.notListed <;> by_cases hB : cp < 0x110000 <;> simp [hA, hB] at h ⊢

/-- both classes return exactly what the IANA registry (derived from Unicode 6.3.0) lists -/
theorem dp_eq_iana (cls : Cls) (cp : Nat) (h : cp < 0x110000) :
    Iana.expect (Cls.isId cls) (iana63 cp) = some (derivedProp cls cp) := by
  have hl : iana63 cp ≠ .notListed := fun e => (iana_lists_unicode cp).mp e h
  cases cls with
  | identifier =>
    have := SF.all_zip_at _ _ _ dp_iana_check_id cp
    simp only [← derivedProp_sf, ← iana63_at, hl, if_false] at this
    simpa [Cls.isId] using this
  | freeform =>
    have := SF.all_zip_at _ _ _ dp_iana_check_ff cp
    simp only [← derivedProp_sf, ← iana63_at, hl, if_false] at this
    simpa [Cls.isId] using this

/-- …and the RFC 8264 §8 decision list, in its fixed order, over the Unicode 6.3.0 character data
(exceptions, unassigned, ASCII7, join controls, old Hangul jamo, ignorables, controls, HasCompat,
letters/digits, other letters/digits, spaces, symbols, punctuation) -/
theorem dp_eq_rfc8264 (cls : Cls) (cp : Nat) (h : cp < 0x110000) :
    derivedProp cls cp = Spec.derived hasCompat (Cls.isId cls) cp := by
  cases cls with
  | identifier =>
    have := SF.all_zip_at _ _ _ dp_rfc_check_id cp
    simp only [SF.zip_at, ← derivedProp_sf, ← rfc_derived_sf, inUnicode_at, h, decide_true,
      Bool.not_true, Bool.false_or, decide_eq_true_eq] at this
    simpa [Cls.isId] using this
  | freeform =>
    have := SF.all_zip_at _ _ _ dp_rfc_check_ff cp
    simp only [SF.zip_at, ← derivedProp_sf, ← rfc_derived_sf, inUnicode_at, h, decide_true,
      Bool.not_true, Bool.false_or, decide_eq_true_eq] at this
    simpa [Cls.isId] using this

/-- the two classes agree everywhere except that IdentifierClass disallows exactly the code points
FreeformClass class-validates -/
theorem id_vs_free (cp : Nat) :
    (derivedProp .identifier cp = .specClassDis ∧ derivedProp .freeform cp = .specClassPval) ∨
    (derivedProp .identifier cp = derivedProp .freeform cp ∧
      derivedProp .identifier cp ≠ .specClassDis ∧ derivedProp .identifier cp ≠ .specClassPval) := by
  have := SF.all_zip_at _ _ _ id_vs_free_check cp
  simp only [← derivedProp_sf] at this
  revert this
  cases derivedProp .identifier cp <;> cases derivedProp .freeform cp <;> simp

/-- surrogates and values above U+10FFFF are never valid: DISALLOWED in both classes -/
theorem non_scalar_invalid (cls : Cls) (cp : Nat) (h : isScalar cp = false) :
    derivedProp cls cp = .disallowed := by
  cases cls with
  | identifier =>
    have := SF.all_zip_at _ _ _ non_scalar_check_id cp
    simp only [← derivedProp_sf, nonScalar_at, h] at this
    simpa using this
  | freeform =>
    have := SF.all_zip_at _ _ _ non_scalar_check_ff cp
    simp only [← derivedProp_sf, nonScalar_at, h] at this
    simpa using this

/-- HasCompat (step Q of the decision list) as the Rust text computes it — `char::from_u32(cp)` fails: false; otherwise
`c.to_string() != c.to_string().nfkc()` — over the normalizer model.  The classification model looks the value up in the
graph of `has_compat` dumped from the implementation; this theorem says that graph IS the code-shaped definition, for
every natural number (kernel-checked entry by entry against the regenerated normalization tables). -/
theorem has_compat_is_code (cp : Nat) : hasCompat cp = (isScalar cp && (nfkc [cp] != [cp])) := by
  have h := Facts.has_compat_code cp
  unfold Facts.hasCompatCode at h
  unfold hasCompat
  exact h.symm

/-- consequently: surrogates and values above U+10FFFF never have HasCompat, Hangul syllables and every character
without a compatibility decomposition do not either -/
theorem has_compat_scalar (cp : Nat) (h : hasCompat cp = true) : isScalar cp = true := by
  rw [has_compat_is_code] at h
  simp only [Bool.and_eq_true] at h
  exact h.1

/-- every 32-bit value (indeed every natural number) has exactly one derived property in each class:
classification cannot fail or panic — `derivedProp` is a total function and the comparison used by
every table search never answers `None` (C18 `partialCmp_isSome`) -/
theorem classify_total (cls : Cls) (cp : Nat) : ∃ v, derivedProp cls cp = v := ⟨_, rfl⟩

/-- non-vacuity: the three kinds of disagreement-free facts on concrete code points -/
example : iana63 0x20 = .idDisOrFreePval ∧ iana63 0x200D = .contextJ ∧ iana63 0x10FFFF = .disallowed := by
  decide +kernel

end Precis.C14
