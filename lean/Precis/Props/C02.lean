/-
C02 — A string class accepts a label iff every code point is valid in its context.
`dp : Nat → DPV` is an arbitrary assignment of derived-property values (any user-supplied class);
the two standard classes are `derivedProp .identifier` / `derivedProp .freeform`.
-/
import Precis.Model.StringClass
import Precis.Props.C03
namespace Precis.C02
open Precis

/-- position `i` of the label is acceptable: protocol-valid or class-valid, or contextual with its
registered rule satisfied at that position (positions are code-point indices) -/
def OkAt (dp : Nat → DPV) (label : List Nat) (i : Nat) : Prop :=
  ∃ h : i < label.length,
    dp label[i] = .pValid ∨ dp label[i] = .specClassPval ∨
    ((dp label[i] = .contextJ ∨ dp label[i] = .contextO) ∧
      ∃ r, getContextRule label[i] = some r ∧ applyRule r label i = .ok true)

/-- the error reported for an offending position -/
def errAt (dp : Nat → DPV) (label : List Nat) (i c : Nat) : Res Unit :=
  match dp c with
  | .pValid | .specClassPval => .ok ()
  | .specClassDis => .err (.bad c i .specClassDis)
  | .disallowed => .err (.bad c i .disallowed)
  | .unassigned => .err (.bad c i .unassigned)
  | v =>
    match getContextRule c with
    | none => .err (.missingRule c i v)
    | some r =>
      match applyRule r label i with
      | .ok true => .ok ()
      | .ok false => .err (.bad c i v)
      | .notApplicable => .err (.notApplicable c i v)
      | .undefined => .err .undefined
      | .panic => .panic

theorem allowsAt_eq_errAt (dp : Nat → DPV) (label : List Nat) (i c : Nat) :
    allowsAt dp label i c = errAt dp label i c := by
  unfold allowsAt errAt allowedByContextRule
  generalize dp c = v
  cases v <;> rfl

theorem errAt_ok_iff_aux (dp : Nat → DPV) (label : List Nat) (i c : Nat) :
    errAt dp label i c = .ok () ↔
      (dp c = .pValid ∨ dp c = .specClassPval ∨
        ((dp c = .contextJ ∨ dp c = .contextO) ∧
          ∃ r, getContextRule c = some r ∧ applyRule r label i = .ok true)) := by
  unfold errAt
  cases hv : dp c <;> simp
  all_goals
    cases hr : getContextRule c with
    | none => simp
    | some r =>
      cases ha : applyRule r label i with
      | ok b => cases b <;> simp [ha]
      | notApplicable => simp [ha]
      | undefined => simp [ha]
      | panic => simp [ha]

theorem errAt_ok_iff (dp : Nat → DPV) (label : List Nat) (i : Nat) (h : i < label.length) :
    errAt dp label i label[i] = .ok () ↔ OkAt dp label i := by
  rw [errAt_ok_iff_aux]
  unfold OkAt
  constructor
  · intro H; exact ⟨h, H⟩
  · rintro ⟨_, H⟩; exact H

/-- the loop succeeds iff the body succeeds at every remaining position -/
theorem allowsLoop_ok_iff (dp : Nat → DPV) (label : List Nat) (rest : List Nat) (offset : Nat) :
    allowsLoop dp label rest offset = .ok () ↔
      ∀ j, (hj : j < rest.length) → errAt dp label (offset + j) rest[j] = .ok () := by
  induction rest generalizing offset with
  | nil => simp [allowsLoop]
  | cons c r ih =>
    rw [allowsLoop, allowsAt_eq_errAt]
    constructor
    · intro H j hj
      cases hc : errAt dp label offset c with
      | ok u =>
        rw [hc] at H
        cases j with
        | zero => simpa using hc
        | succ j =>
          have := (ih (offset + 1)).1 H j (by simpa using hj)
          simpa [Nat.add_assoc, Nat.add_comm 1 j] using this
      | err e => rw [hc] at H; simp at H
      | panic => rw [hc] at H; simp at H
    · intro H
      have h0 := H 0 (by simp)
      simp at h0
      rw [h0]
      refine (ih (offset + 1)).2 ?_
      intro j hj
      have := H (j + 1) (by simpa using hj)
      simpa [Nat.add_assoc, Nat.add_comm 1 j] using this

/-- the loop returns the body's result at the first failing position -/
theorem allowsLoop_first (dp : Nat → DPV) (label : List Nat) (rest : List Nat) (offset k : Nat)
    (hk : k < rest.length) (hbad : errAt dp label (offset + k) rest[k] ≠ .ok ())
    (hmin : ∀ j, (hj : j < k) → errAt dp label (offset + j) (rest[j]'(Nat.lt_trans hj hk)) = .ok ()) :
    allowsLoop dp label rest offset = errAt dp label (offset + k) rest[k] := by
  induction rest generalizing offset k with
  | nil => simp at hk
  | cons c r ih =>
    rw [allowsLoop, allowsAt_eq_errAt]
    cases k with
    | zero =>
      simp at hbad ⊢
      cases hc : errAt dp label offset c with
      | ok u => exact absurd hc hbad
      | err e => rfl
      | panic => rfl
    | succ k =>
      have h0 := hmin 0 (by omega)
      simp at h0
      rw [h0]
      have hk' : k < r.length := by simpa using hk
      have := ih (offset + 1) k hk'
        (by simpa [Nat.add_assoc, Nat.add_comm 1 k] using hbad)
        (by
          intro j hj
          have := hmin (j + 1) (by omega)
          simpa [Nat.add_assoc, Nat.add_comm 1 j] using this)
      simpa [Nat.add_assoc, Nat.add_comm 1 k] using this

/-- every error of the loop is the body's result at the first failing position -/
theorem allowsLoop_err (dp : Nat → DPV) (label : List Nat) (rest : List Nat) (offset : Nat) (e : Err)
    (h : allowsLoop dp label rest offset = .err e) :
    ∃ k, ∃ hk : k < rest.length,
      (∀ j, (hj : j < k) → errAt dp label (offset + j) (rest[j]'(Nat.lt_trans hj hk)) = .ok ()) ∧
      errAt dp label (offset + k) rest[k] = .err e := by
  induction rest generalizing offset with
  | nil => simp [allowsLoop] at h
  | cons c r ih =>
    rw [allowsLoop, allowsAt_eq_errAt] at h
    cases hc : errAt dp label offset c with
    | ok u =>
      rw [hc] at h
      obtain ⟨k, hk, hmin, hek⟩ := ih (offset + 1) h
      refine ⟨k + 1, by simpa using hk, ?_, ?_⟩
      · intro j hj
        cases j with
        | zero => simpa using hc
        | succ j =>
          have := hmin j (by omega)
          simpa [Nat.add_assoc, Nat.add_comm 1 j] using this
      · simpa [Nat.add_assoc, Nat.add_comm 1 k] using hek
    | err e' =>
      rw [hc] at h
      simp at h
      subst h
      exact ⟨0, by simp, by intro j hj; omega, by simpa using hc⟩
    | panic => rw [hc] at h; simp at h

/-- accepted exactly when every position is acceptable -/
theorem allows_ok_iff (dp : Nat → DPV) (label : List Nat) :
    allows dp label = .ok () ↔ ∀ i, i < label.length → OkAt dp label i := by
  unfold allows
  rw [allowsLoop_ok_iff]
  constructor
  · intro H i hi
    have := H i hi
    rw [Nat.zero_add] at this
    exact (errAt_ok_iff dp label i hi).1 this
  · intro H j hj
    rw [Nat.zero_add]
    exact (errAt_ok_iff dp label j hj).2 (H j hj)

/-- rejection is caused by, and reported for, the FIRST offending code point:
its code point, its zero-based position counted in code points, its derived property -/
theorem allows_first_err (dp : Nat → DPV) (label : List Nat) (k : Nat) (hk : k < label.length)
    (hbad : ¬ OkAt dp label k) (hmin : ∀ i, i < k → OkAt dp label i) :
    allows dp label = errAt dp label k label[k] := by
  unfold allows
  have := allowsLoop_first dp label label 0 k hk
    (by rw [Nat.zero_add]; exact fun H => hbad ((errAt_ok_iff dp label k hk).1 H))
    (by
      intro j hj
      rw [Nat.zero_add]
      exact (errAt_ok_iff dp label j (Nat.lt_trans hj hk)).2 (hmin j hj))
  rw [Nat.zero_add] at this
  exact this

/-- the shape of every error: BadCodepoint carries (cp, position, property) of an offending position;
Undefined only arises from a contextual code point whose rule answered Undefined -/
theorem allows_err_shape (dp : Nat → DPV) (label : List Nat) (e : Err) (h : allows dp label = .err e) :
    ∃ k, ∃ hk : k < label.length, (∀ i, i < k → OkAt dp label i) ∧ ¬ OkAt dp label k ∧
      errAt dp label k label[k] = .err e := by
  unfold allows at h
  obtain ⟨k, hk, hmin, hek⟩ := allowsLoop_err dp label label 0 e h
  rw [Nat.zero_add] at hek
  refine ⟨k, hk, ?_, ?_, hek⟩
  · intro i hi
    have := hmin i hi
    rw [Nat.zero_add] at this
    exact (errAt_ok_iff dp label i (Nat.lt_trans hi hk)).1 this
  · intro H
    have := (errAt_ok_iff dp label k hk).2 H
    rw [hek] at this
    cases this

/-- the two standard classes never report a missing or inapplicable context rule: exactly their
contextual code points are registered (C03 `registry_exact`), and the registered rule is the code
point's own (C03 `registry_applies`, `rule_notapp_iff`) -/
theorem std_classes_never_missing (cls : Cls) (label : List Nat) (e : Err)
    (h : allows (derivedProp cls) label = .err e) :
    (∀ c p v, e ≠ .missingRule c p v) ∧ (∀ c p v, e ≠ .notApplicable c p v) := by
  obtain ⟨k, hk, _, _, herr⟩ := allows_err_shape (derivedProp cls) label e h
  have hreg := C03.registry_exact cls label[k]
  simp only [errAt] at herr
  constructor
  · intro c p v he
    subst he
    cases hd : derivedProp cls label[k] <;> simp only [hd] at herr hreg <;> try (simp at herr; done)
    all_goals
      cases hr : getContextRule label[k] with
      | none => simp [hr] at hreg
      | some r =>
        simp only [hr] at herr
        cases ha : applyRule r label k with
        | ok b => cases b <;> simp [ha] at herr
        | notApplicable => simp [ha] at herr
        | undefined => simp [ha] at herr
        | panic => simp [ha] at herr
  · intro c p v he
    subst he
    cases hd : derivedProp cls label[k] <;> simp only [hd] at herr hreg <;> try (simp at herr; done)
    all_goals
      cases hr : getContextRule label[k] with
      | none => simp [hr] at herr
      | some r =>
        simp only [hr] at herr
        have hown := (C03.registry_applies label[k] r hr).1
        cases ha : applyRule r label k with
        | ok b => cases b <;> simp [ha] at herr
        | notApplicable =>
          obtain ⟨c', hc', hown'⟩ := (C03.rule_notapp_iff r label k).mp ha
          have : c' = label[k] := by
            have := List.getElem?_eq_getElem hk
            rw [this] at hc'; exact (Option.some.inj hc').symm
          subst this
          rw [hown] at hown'
          cases hown'
        | undefined => simp [ha] at herr
        | panic => simp [ha] at herr

/-- non-vacuity: a label whose third code point is the first offender (a 3-byte character before it) -/
example : allows (fun c => if c = 0x41 then .disallowed else .pValid) [0x65E5, 0x61, 0x41, 0x41]
    = .err (.bad 0x41 2 .disallowed) := by
  decide

end Precis.C02
