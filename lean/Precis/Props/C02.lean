/-
C02 — A string class accepts a label iff every code point is valid in its context.
`dp : Nat → DPV` is an arbitrary assignment of derived-property values (any user-supplied class);
the two standard classes are `derivedProp .identifier` / `derivedProp .freeform`.
-/
import Precis.Model.StringClass
namespace Precis.C02
open Precis

/-- position `i` of the label is acceptable: protocol-valid or class-valid, or contextual with its
registered rule satisfied at that position (positions are code-point indices) -/
def OkAt (dp : Nat → DPV) (label : List Nat) (i : Nat) : Prop :=
  ∃ h : i < label.length,
    dp label[i] = .pValid ∨ dp label[i] = .specClassPval ∨
    ((dp label[i] = .contextJ ∨ dp label[i] = .contextO) ∧
      ∃ r, getContextRule label[i] = some r ∧ applyRule r label i = .ok true)

/-- the error reported for an offending position -/
def errAt (dp : Nat → DPV) (label : List Nat) (i c : Nat) : Res Unit :=
  match dp c with
  | .pValid | .specClassPval => .ok ()
  | .specClassDis => .err (.bad c i .specClassDis)
  | .disallowed => .err (.bad c i .disallowed)
  | .unassigned => .err (.bad c i .unassigned)
  | v =>
    match getContextRule c with
    | none => .err (.missingRule c i v)
    | some r =>
      match applyRule r label i with
      | .ok true => .ok ()
      | .ok false => .err (.bad c i v)
      | .notApplicable => .err (.notApplicable c i v)
      | .undefined => .err .undefined
      | .panic => .panic

theorem allowsAt_eq_errAt (dp : Nat → DPV) (label : List Nat) (i c : Nat) :
    allowsAt dp label i c = errAt dp label i c := by
  sorry

theorem errAt_ok_iff (dp : Nat → DPV) (label : List Nat) (i : Nat) (h : i < label.length) :
    errAt dp label i label[i] = .ok () ↔ OkAt dp label i := by
  sorry

/-- accepted exactly when every position is acceptable -/
theorem allows_ok_iff (dp : Nat → DPV) (label : List Nat) :
    allows dp label = .ok () ↔ ∀ i, i < label.length → OkAt dp label i := by
  sorry

/-- rejection is caused by, and reported for, the FIRST offending code point:
its code point, its zero-based position counted in code points, its derived property -/
theorem allows_first_err (dp : Nat → DPV) (label : List Nat) (k : Nat) (hk : k < label.length)
    (hbad : ¬ OkAt dp label k) (hmin : ∀ i, i < k → OkAt dp label i) :
    allows dp label = errAt dp label k label[k] := by
  sorry

/-- the shape of every error: BadCodepoint carries (cp, position, property) of an offending position;
Undefined only arises from a contextual code point whose rule answered Undefined -/
theorem allows_err_shape (dp : Nat → DPV) (label : List Nat) (e : Err) (h : allows dp label = .err e) :
    ∃ k, ∃ hk : k < label.length, (∀ i, i < k → OkAt dp label i) ∧ ¬ OkAt dp label k ∧
      errAt dp label k label[k] = .err e := by
  sorry

/-- non-vacuity: a label whose third code point is the first offender (a 3-byte character before it) -/
example : allows (fun c => if c = 0x41 then .disallowed else .pValid) [0x65E5, 0x61, 0x41, 0x41]
    = .err (.bad 0x41 2 .disallowed) := by
  sorry

end Precis.C02
