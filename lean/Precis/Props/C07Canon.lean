/-
C07, second file — consequences of `compare_eq` that the relations over pairs and triples need:
compare depends on its operands only through their comparison forms (congruence), an accepted string
compares equal to its own comparison form (Nickname: unconditionally, from the stabilize contract of
C13), and the verdict on a pair of accepted strings is decided by the pair of forms alone.
-/
import Precis.Props.C07
import Precis.Props.C08
namespace Precis.C07
open Precis Precis.Spec

/-- compare sees its first operand only through the comparison form -/
theorem compare_depends_on_canon_left (p : Profile) (a a' b : List Nat) (h : p.canon a = p.canon a') :
    p.compare a b = p.compare a' b := by
  rw [compare_eq, compare_eq, h]

/-- ... and likewise its second -/
theorem compare_depends_on_canon_right (p : Profile) (a b b' : List Nat) (h : p.canon b = p.canon b') :
    p.compare a b = p.compare a b' := by
  rw [compare_eq, compare_eq, h]

/-- substitutivity: operands that compare equal are interchangeable on the left of any comparison -/
theorem compare_congr_left (p : Profile) (a b c : List Nat) (h : p.compare a b = .ok true) :
    p.compare a c = p.compare b c := by
  obtain ⟨x, ha, hb⟩ := (compare_true_iff p a b).mp h
  exact compare_depends_on_canon_left p a b c (ha.trans hb.symm)

/-- ... and on the right -/
theorem compare_congr_right (p : Profile) (a b c : List Nat) (h : p.compare a b = .ok true) :
    p.compare c a = p.compare c b := by
  obtain ⟨x, ha, hb⟩ := (compare_true_iff p a b).mp h
  exact compare_depends_on_canon_right p c a b (ha.trans hb.symm)

/-- Ok(false) is not transitive in general but it is stable under replacing an operand by an equal one -/
theorem compare_false_of_equal_left (p : Profile) (a b c : List Nat) (h1 : p.compare a b = .ok true)
    (h2 : p.compare a c = .ok false) : p.compare b c = .ok false := by
  rw [← compare_congr_left p a b c h1]; exact h2

/-- a result is Ok exactly when both operands are accepted: no pair is accepted on one side only -/
theorem compare_ok_iff (p : Profile) (a b : List Nat) :
    (∃ r, p.compare a b = .ok r) ↔ (∃ x, p.canon a = .ok x) ∧ (∃ y, p.canon b = .ok y) := by
  rw [compare_eq]
  cases ha : p.canon a <;> cases hb : p.canon b <;> simp

/-- whether a pair is accepted does not depend on the order of the operands (which error is reported does) -/
theorem compare_ok_symm (p : Profile) (a b : List Nat) :
    (∃ r, p.compare a b = .ok r) ↔ (∃ r, p.compare b a = .ok r) := by
  rw [compare_ok_iff, compare_ok_iff]; exact And.comm

/-- an accepted operand never masks the other operand's rejection -/
theorem compare_err_of_second (p : Profile) (a b : List Nat) (e : Err) (hb : p.canon b = .err e)
    (hnp : p.canon a ≠ .panic) : ∃ e', p.compare a b = .err e' := by
  rw [compare_eq, hb]
  cases ha : p.canon a with
  | ok x => exact ⟨e, rfl⟩
  | err e' => exact ⟨e', rfl⟩
  | panic => exact absurd ha hnp

/-- Nickname: the comparison form of an accepted string is itself accepted and is its own comparison form -/
theorem nick_canon_idem (a x : List Nat) (h : Profile.canon .nickname a = .ok x) :
    Profile.canon .nickname x = .ok x := by
  rw [canon_eq] at h ⊢
  have hfix := (C13.stab_ok_fixed cround a x h).1
  exact C13.stab_accepts cround x x 0 (by omega) rfl hfix (by intro j hj; omega)

/-- Nickname: every accepted string compares equal to its comparison form -/
theorem nick_compare_with_form (a x : List Nat) (h : Profile.canon .nickname a = .ok x) :
    Profile.compare .nickname a x = .ok true :=
  (compare_true_iff .nickname a x).mpr ⟨x, h, nick_canon_idem a x h⟩

/-- Nickname: comparison forms are canonical representatives — two accepted strings compare equal
exactly when their forms are the same string, and the forms themselves then compare equal -/
theorem nick_forms_compare (a b x y : List Nat) (ha : Profile.canon .nickname a = .ok x)
    (hb : Profile.canon .nickname b = .ok y) :
    Profile.compare .nickname x y = Profile.compare .nickname a b :=
  (compare_depends_on_canon_left .nickname x a y ((nick_canon_idem a x ha).trans ha.symm)).trans
    (compare_depends_on_canon_right .nickname a y b ((nick_canon_idem b y hb).trans hb.symm))

/-- Nickname: an enforced nickname is accepted by enforcement again (C08) — and the comparison of a
string with its enforced form is therefore decided by the comparison rules alone -/
theorem nick_enforced_reenforces (s e : List Nat) (h : Nickname.enforce s = .ok e) :
    Nickname.enforce e = .ok e := C08.nick_no_drift s e h

/-- username and password profiles: when the enforced form is stable (C08 no-drift), a string compares
equal to its enforced form -/
theorem compare_with_enforced (p : Profile) (hp : p ≠ .nickname) (a x : List Nat)
    (ha : p.enforce a = .ok x) (hx : p.enforce x = .ok x) : p.compare a x = .ok true := by
  rw [compare_is_enforce_eq p hp a x x x ha hx]; simp

/-- non-vacuity: the hypotheses of the Nickname theorems are met by a concrete accepted string -/
example : ∃ x, C13.iter cround 1 [0x61] = .ok x ∧ x = [0x61] := ⟨[0x61], by decide +kernel, rfl⟩

end Precis.C07
