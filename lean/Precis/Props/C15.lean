/-
C15 — Table generators are faithful to any well-formed UCD input.

`WF rows`: the folded UnicodeData rows are strictly ascending and disjoint, each with lo ≤ hi, and
none reaches U+10FFFE/U+10FFFF (noncharacters are never listed).  For such input every generator
succeeds, the emitted table is searchable the way the library searches it (`sortedTable`, which by
C18/Bsearch makes the binary search find an entry iff one contains the code point), and it denotes
exactly what the input assigns.
-/
import Precis.Model.Generators
import Precis.Model.Codepoints
import Precis.Lemmas.GenSetAux
import Precis.Lemmas.GenRunAux
namespace Precis.C15
open Precis Precis.Gen'

/-- well-formed folded rows -/
def WF : List URow → Prop
  | [] => True
  | [r] => r.cps.lo ≤ r.cps.hi ∧ r.cps.hi ≤ 0x10FFFD
  | r :: r' :: rest => r.cps.lo ≤ r.cps.hi ∧ r.cps.hi < r'.cps.lo ∧ WF (r' :: rest)

/-- some row with property `p` contains `cp` -/
def assigned (p : URow → Bool) (rows : List URow) (cp : Nat) : Bool :=
  rows.any (fun r => p r && r.cps.eqCp cp)

/-- `add_codepoints` / `add_range` emit a `Single` exactly when the run has one element -/
theorem addCodepoints_denotes (a b : Nat) (vec : List Cps) (cp : Nat) (h : a ≤ b) :
    memL cp (addCodepoints a b vec) = (memL cp vec || (decide (a ≤ cp) && decide (cp ≤ b))) := by
  unfold addCodepoints
  split
  · rename_i e; subst e
    simp only [memL, List.any_append, List.any_cons, List.any_nil, Bool.or_false, Cps.eqCp]
    congr 1
    rw [Bool.eq_iff_iff]; simp; omega
  · simp [memL, List.any_append, Cps.eqCp]

/-- general-category / script / property / virama set tables (HashSet, sort, run compression):
exactly the code points of the rows with the property; searchable -/
theorem set_table_exact (p : URow → Bool) (rows : List URow) (h : WF rows) :
    ∃ t, setTable p rows = some t ∧ sortedTable t = true ∧ ∀ cp, memL cp t = assigned p rows cp := by
  have h' : GenSetAux.WFc rows := by
    induction rows using WF.induct <;> simp_all [WF, GenSetAux.WFc]
  exact GenSetAux.set_table_exact p rows h'

/-- well-formed property-file lines (Scripts.txt, DerivedJoiningType.txt, PropList.txt, DerivedCoreProperties.txt,
HangulSyllableType.txt): each line a non-empty range, no code point listed twice — in ANY order of lines -/
def WFLines (rows : List URow) : Prop :=
  rows.Pairwise (fun r r' => r.cps.hi < r'.cps.lo ∨ r'.cps.hi < r.cps.lo) ∧ ∀ r ∈ rows, r.cps.lo ≤ r.cps.hi

/-- script / joining-type / property / Hangul-syllable-type set tables: the same `UcdTableGen` fed from a property
file whose lines need not be ascending (UAX #44 gives line order no meaning): exactly the code points of the
selected lines; searchable -/
theorem property_table_exact (p : URow → Bool) (rows : List URow) (h : WFLines rows) :
    ∃ t, setTable p rows = some t ∧ sortedTable t = true ∧ ∀ cp, memL cp t = assigned p rows cp :=
  GenSetAux.set_table_exact_unordered p rows h.1 h.2

/-- the unassigned-gap table: exactly the code points of Unicode that no row contains; searchable
(it may contain empty entries `start = end + 1` after a range, which never match: C18) -/
theorem unassigned_exact (rows : List URow) (h : WF rows) :
    ∃ t, unassignedTable rows = some t ∧ sortedTable t = true ∧
      ∀ cp, memL cp t = (decide (cp ≤ 0x10FFFF) && !assigned (fun _ => true) rows cp) := by
  exact GenRunAux.unassigned_exact WF (fun _ h => h) (fun _ _ _ h => h) rows h

/-- the bidirectional class table: every code point of a row is found with that row's class, no other
code point is found; searchable, so no code point is covered by two entries with different values -/
theorem bidi_exact (rows : List URow) (h : WF rows) :
    ∃ t, bidiTable rows = some t ∧ sortedTable (t.map (·.1)) = true ∧
      ∀ cp, lookupL cp t = (rows.find? (fun r => r.cps.eqCp cp)).map (·.bidi) := by
  exact GenRunAux.bidi_exact WF (fun _ h => h) (fun _ _ _ h => h) rows h

/-- the width-mapping table: the rows tagged wide/narrow with their first mapping code point -/
theorem width_exact (rows : List URow) (h : WF rows) :
    sortedTable ((widthTable rows).map (·.1)) = true ∧
      ∀ cp, lookupL cp (widthTable rows) = ((rows.find? (fun r => r.cps.eqCp cp)).bind (·.width)) := by
  have h' : GenSetAux.WFc rows := by
    induction rows using WF.induct <;> simp_all [WF, GenSetAux.WFc]
  exact GenSetAux.width_exact rows h'

/-- non-vacuity and the two historic defects as regression examples: class change after two stored
ranges, and a trailing run -/
example : bidiTable [⟨.range 0x10 0x20, "Lo", 0, "L", none⟩, ⟨.range 0x30 0x40, "Lo", 0, "L", none⟩,
    ⟨.single 0x41, "Lu", 0, "R", none⟩, ⟨.single 0x42, "Lu", 0, "R", none⟩]
    = some [(.range 0x10 0x20, "L"), (.range 0x30 0x40, "L"), (.range 0x41 0x42, "R")] := by decide

/-- non-vacuity: blocks of one script listed out of order, adjacent pieces on non-adjacent lines, are well-formed lines -/
example : WFLines [⟨.range 0x1F00 0x1F15, "Greek", 0, "", none⟩, ⟨.range 0x372 0x373, "Greek", 0, "", none⟩,
    ⟨.single 0x41, "Latin", 0, "", none⟩, ⟨.range 0x370 0x371, "Greek", 0, "", none⟩] := by
  simp [WFLines, Cps.lo, Cps.hi]

example : unassignedTable [⟨.single 0, "Cc", 0, "BN", none⟩, ⟨.range 2 4, "Lo", 0, "L", none⟩]
    = some [.single 1, .range 5 0x10FFFF] := by decide

end Precis.C15
