/-
C18 — Codepoints entries compare consistently with code points.
Theorems about the model of the generated `Codepoints` operators (Model/Codepoints.lean).
`WF e` is the property's side condition "a single code point or an inclusive range with start ≤ end".
-/
import Precis.Model.Codepoints
import Precis.Lemmas.Bsearch
namespace Precis.C18
open Precis Cps

def WF : Cps → Prop
  | .single _ => True
  | .range a b => a ≤ b

/-- exactly one of less-than, equal (contains), greater-than holds -/
theorem trichotomy (e : Cps) (cp : Nat) (h : WF e) :
    (e.ltCp cp = true ∧ e.eqCp cp = false ∧ e.gtCp cp = false) ∨
    (e.ltCp cp = false ∧ e.eqCp cp = true ∧ e.gtCp cp = false) ∨
    (e.ltCp cp = false ∧ e.eqCp cp = false ∧ e.gtCp cp = true) := by
  cases e with
  | single c =>
    simp only [ltCp, eqCp, gtCp, decide_eq_true_eq, decide_eq_false_iff_not, beq_iff_eq,
      beq_eq_false_iff_ne]
    omega
  | range a b =>
    simp only [WF] at h
    simp only [ltCp, eqCp, gtCp, decide_eq_true_eq, decide_eq_false_iff_not, Bool.and_eq_true,
      Bool.and_eq_false_iff]
    omega

/-- `partial_cmp` never answers `None`: the `.unwrap()` in every table search cannot panic -/
theorem partialCmp_isSome (e : Cps) (cp : Nat) : (e.partialCmp cp).isSome = true := by
  unfold partialCmp; split
  · rfl
  · split <;> rfl

/-- `partial_cmp` agrees with `lt`, `eq`, `gt` -/
theorem partialCmp_agrees (e : Cps) (cp : Nat) (h : WF e) :
    (e.partialCmp cp = some .lt ↔ e.ltCp cp = true) ∧
    (e.partialCmp cp = some .eq ↔ e.eqCp cp = true) ∧
    (e.partialCmp cp = some .gt ↔ e.gtCp cp = true) := by
  rcases trichotomy e cp h with ⟨a, b, c⟩ | ⟨a, b, c⟩ | ⟨a, b, c⟩ <;> simp [partialCmp, a, b, c]

/-- `le` is `lt ∨ eq`, `ge` is `gt ∨ eq`, `ne` is `¬ eq` -/
theorem le_ge_agree (e : Cps) (cp : Nat) (h : WF e) :
    e.leCp cp = (e.ltCp cp || e.eqCp cp) ∧ e.geCp cp = (e.gtCp cp || e.eqCp cp) := by
  cases e with
  | single c =>
    simp only [leCp, geCp, ltCp, gtCp, eqCp]
    constructor <;> (rw [Bool.eq_iff_iff]; simp; omega)
  | range a b =>
    simp only [WF] at h
    simp only [leCp, geCp, ltCp, gtCp, eqCp]
    constructor <;> (rw [Bool.eq_iff_iff]; simp; omega)

/-- the mirrored comparisons (code point on the left) are the swapped ones -/
theorem mirrored (e : Cps) (cp : Nat) (h : WF e) :
    Cps.cpPartialCmp cp e = (e.partialCmp cp).map Ordering.swap ∧
    Cps.cpLt cp e = e.gtCp cp ∧ Cps.cpGt cp e = e.ltCp cp ∧
    Cps.cpLe cp e = e.geCp cp ∧ Cps.cpGe cp e = e.leCp cp ∧
    Cps.cpEq cp e = e.eqCp cp := by
  cases e with
  | single c =>
    refine ⟨?_, rfl, rfl, rfl, rfl, rfl⟩
    simp only [cpPartialCmp, partialCmp, ltCp, gtCp, compare, compareOfLessAndEq]
    by_cases h1 : c < cp
    · have : ¬ cp < c := by omega
      have : ¬ cp = c := by omega
      simp [*]
    · by_cases h2 : cp < c
      · simp [*]
      · have : cp = c := by omega
        simp [*]
  | range a b =>
    simp only [WF] at h
    refine ⟨?_, rfl, rfl, rfl, rfl, rfl⟩
    simp only [cpPartialCmp, partialCmp, ltCp, gtCp]
    by_cases h1 : b < cp
    · have : ¬ cp < a := by omega
      simp [*]
    · by_cases h2 : cp < a
      · simp [*]
      · have : ¬ a > cp := by omega
        simp [*]

/-- a `Single(c)` entry behaves exactly like `Range(c..=c)` -/
theorem single_eq_range (c cp : Nat) :
    (Cps.single c).ltCp cp = (Cps.range c c).ltCp cp ∧ (Cps.single c).gtCp cp = (Cps.range c c).gtCp cp ∧
    (Cps.single c).leCp cp = (Cps.range c c).leCp cp ∧ (Cps.single c).geCp cp = (Cps.range c c).geCp cp ∧
    (Cps.single c).eqCp cp = (Cps.range c c).eqCp cp ∧
    (Cps.single c).partialCmp cp = (Cps.range c c).partialCmp cp := by
  refine ⟨rfl, rfl, rfl, rfl, ?_, rfl⟩
  simp only [eqCp]; rw [Bool.eq_iff_iff]; simp; omega

/-- an empty entry (`start = end + 1`, which the unassigned-gap generator can emit) is never `Equal`
and still orders consistently: it is `Greater` for everything up to `end`, `Less` from `start` on -/
theorem empty_entry_never_equal (a b cp : Nat) (h : a = b + 1) :
    (Cps.range a b).eqCp cp = false ∧ (Cps.range a b).cmpCp cp ≠ .eq := by
  subst h
  constructor
  · simp [eqCp]; omega
  · simp only [cmpCp, ltCp, gtCp]
    by_cases h1 : b < cp <;> simp [h1]; omega

/-- entries laid out in increasing order form a valid binary-search key for any code point -/
theorem sorted_is_search_key (t : List Cps) (cp : Nat) (h : sortedTable t = true) :
    MonoKey (fun e => e.cmpCp cp) t := monoKey_of_sorted t cp h

/-- …so the binary search the library uses finds an entry iff one contains the code point -/
theorem search_finds_iff (t : Array Cps) (cp : Nat) (h : sortedTable t.toList = true) :
    isInTable cp t = true ↔ ∃ e ∈ t.toList, e.eqCp cp = true := by
  rw [isInTable_eq_memL t cp h]; simp only [memL, List.any_eq_true]

/-- non-vacuity: a concrete sorted table with a range, a single and an empty entry -/
example : sortedTable [.range 2 4, .single 7, .range 9 8, .range 10 20] = true ∧ WF (.range 2 4) := by
  constructor
  · decide
  · simp [WF]

end Precis.C18
