/-
C15, input side — `ucd_parsers::UnicodeData::parse` folds `<…, First>` / `<…, Last>` line pairs of
UnicodeData.txt into range rows (taking the fields of the Last line) and rejects unpaired lines.
-/
import Precis.Model.Generators
namespace Precis.C15
open Precis Precis.Gen'

/-- what folding means: a plain line is a single-code-point row; a First line followed by a Last line
is one range row carrying the fields of the Last line -/
def foldSpec : List RawRow → List URow
  | [] => []
  | [r] => [⟨.single r.cp, r.gc, r.ccc, r.bidi, r.width⟩]
  | r :: l :: rest =>
    if r.kind = .first then ⟨.range r.cp l.cp, l.gc, l.ccc, l.bidi, l.width⟩ :: foldSpec rest
    else ⟨.single r.cp, r.gc, r.ccc, r.bidi, r.width⟩ :: foldSpec (l :: rest)

/-- First/Last lines are properly paired, and a range does not run backwards -/
def Paired : List RawRow → Prop
  | [] => True
  | [r] => r.kind = .plain
  | r :: l :: rest =>
    if r.kind = .first then l.kind = .last ∧ r.cp ≤ l.cp ∧ Paired rest
    else r.kind = .plain ∧ Paired (l :: rest)

/-! ### one-step unfoldings of the parser loop -/
private theorem fr_plain (r : RawRow) (rest : List RawRow) (acc : List URow) (h : r.kind = .plain) :
    foldRanges (r :: rest) none acc
      = foldRanges rest none (acc ++ [⟨.single r.cp, r.gc, r.ccc, r.bidi, r.width⟩]) := by
  simp [foldRanges, h]

private theorem fr_last (r : RawRow) (rest : List RawRow) (acc : List URow) (h : r.kind = .last) :
    foldRanges (r :: rest) none acc = none := by
  simp [foldRanges, h]

private theorem fr_first_nil (r : RawRow) (acc : List URow) (h : r.kind = .first) :
    foldRanges [r] none acc = some acc := by
  simp [foldRanges, h]

private theorem fr_first_cons (r l : RawRow) (rest : List RawRow) (acc : List URow) (h : r.kind = .first) :
    foldRanges (r :: l :: rest) none acc
      = if l.kind = .last ∧ r.cp ≤ l.cp then
          foldRanges rest none (acc ++ [⟨.range r.cp l.cp, l.gc, l.ccc, l.bidi, l.width⟩])
        else none := by
  simp only [foldRanges, h]
  cases hl : l.kind <;> simp
  by_cases hc : r.cp ≤ l.cp
  · simp [hc, Nat.not_lt.mpr hc]
  · simp [hc, Nat.lt_of_not_le hc]

/-! ### the specification on a non-First head, whatever the tail -/
private theorem foldSpec_notFirst (r : RawRow) (rest : List RawRow) (h : ¬ r.kind = .first) :
    foldSpec (r :: rest) = ⟨.single r.cp, r.gc, r.ccc, r.bidi, r.width⟩ :: foldSpec rest := by
  cases rest <;> simp [foldSpec, h]

private theorem paired_notFirst (r : RawRow) (rest : List RawRow) (h : ¬ r.kind = .first) :
    Paired (r :: rest) ↔ r.kind = .plain ∧ Paired rest := by
  cases rest <;> simp [Paired, h]

private theorem foldSpec_first (r l : RawRow) (rest : List RawRow) (h : r.kind = .first) :
    foldSpec (r :: l :: rest) = ⟨.range r.cp l.cp, l.gc, l.ccc, l.bidi, l.width⟩ :: foldSpec rest := by
  simp [foldSpec, h]

private theorem paired_first (r l : RawRow) (rest : List RawRow) (h : r.kind = .first) :
    Paired (r :: l :: rest) ↔ l.kind = .last ∧ r.cp ≤ l.cp ∧ Paired rest := by
  simp [Paired, h]

private theorem paired_gen (raw : List RawRow) :
    ∀ acc, Paired raw → foldRanges raw none acc = some (acc ++ foldSpec raw) := by
  fun_induction foldSpec raw with
  | case1 => intro acc _; simp [foldRanges]
  | case2 r =>
    intro acc hp
    have hp : r.kind = .plain := hp
    rw [fr_plain _ _ _ hp]; simp [foldRanges]
  | case3 r l rest h ih =>
    intro acc hp
    rw [paired_first _ _ _ h] at hp
    rw [fr_first_cons _ _ _ _ h, if_pos ⟨hp.1, hp.2.1⟩, ih _ hp.2.2]
    simp
  | case4 r l rest h ih =>
    intro acc hp
    rw [paired_notFirst _ _ h] at hp
    rw [fr_plain _ _ _ hp.1, ih _ hp.2]
    simp

/-- completeness: properly paired input is folded as specified -/
theorem parse_paired (raw : List RawRow) (h : Paired raw) : parseUnicodeData raw = some (foldSpec raw) := by
  simpa [parseUnicodeData] using paired_gen raw [] h

private theorem sound_gen (raw : List RawRow) :
    ∀ acc rows, foldRanges raw none acc = some rows →
      (Paired raw ∧ rows = acc ++ foldSpec raw) ∨
      ∃ pre f, raw = pre ++ [f] ∧ f.kind = .first ∧ Paired pre ∧ rows = acc ++ foldSpec pre := by
  fun_induction foldSpec raw with
  | case1 =>
    intro acc rows hf
    left
    simp [foldRanges] at hf
    simp [Paired, hf]
  | case2 r =>
    intro acc rows hf
    cases hk : r.kind with
    | plain =>
      left
      rw [fr_plain _ _ _ hk] at hf
      simp [foldRanges] at hf
      exact ⟨hk, by simp [hf]⟩
    | first =>
      right
      rw [fr_first_nil _ _ hk] at hf
      exact ⟨[], r, rfl, hk, trivial, by simp [foldSpec] at *; exact hf.symm⟩
    | last =>
      rw [fr_last _ _ _ hk] at hf
      cases hf
  | case3 r l rest h ih =>
    intro acc rows hf
    rw [fr_first_cons _ _ _ _ h] at hf
    split at hf
    · rename_i hc
      rcases ih _ _ hf with ⟨hp, hr⟩ | ⟨pre, f, he, hk, hp, hr⟩
      · left
        exact ⟨(paired_first _ _ _ h).2 ⟨hc.1, hc.2, hp⟩, by simp [hr]⟩
      · right
        refine ⟨r :: l :: pre, f, by simp [he], hk, (paired_first _ _ _ h).2 ⟨hc.1, hc.2, hp⟩, ?_⟩
        rw [foldSpec_first _ _ _ h]; simp [hr]
    · cases hf
  | case4 r l rest h ih =>
    intro acc rows hf
    cases hk : r.kind with
    | first => exact absurd hk h
    | last =>
      rw [fr_last _ _ _ hk] at hf
      cases hf
    | plain =>
      rw [fr_plain _ _ _ hk] at hf
      rcases ih _ _ hf with ⟨hp, hr⟩ | ⟨pre, f, he, hkf, hp, hr⟩
      · left
        exact ⟨(paired_notFirst _ _ h).2 ⟨hk, hp⟩, by simp [hr]⟩
      · right
        refine ⟨r :: pre, f, by simp [he], hkf, (paired_notFirst _ _ h).2 ⟨hk, hp⟩, ?_⟩
        rw [foldSpec_notFirst _ _ h]; simp [hr]

/-- soundness: whatever is accepted was properly paired, except that a First line at the very end of the
file is silently dropped by the parser (recorded here, not hidden) -/
theorem parse_sound (raw : List RawRow) (rows : List URow) (h : parseUnicodeData raw = some rows) :
    Paired raw ∨ ∃ pre f, raw = pre ++ [f] ∧ f.kind = .first ∧ Paired pre ∧ rows = foldSpec pre := by
  rcases sound_gen raw [] rows h with ⟨hp, _⟩ | ⟨pre, f, he, hk, hp, hr⟩
  · exact Or.inl hp
  · exact Or.inr ⟨pre, f, he, hk, hp, by simpa using hr⟩


end Precis.C15
