/-
C06 — Nickname enforcement applies RFC 8266 rules until the string is stable.
-/
import Precis.Model.Profiles
import Precis.Props.C04
import Precis.Props.C05
import Precis.Props.C12
import Precis.Props.C13
namespace Precis.C06
open Precis Precis.Spec

theorem normNfkc_eq (s : List Nat) : normalizationFormNfkc s = .ok (nfkc s) := by
  unfold normalizationFormNfkc
  split
  · rename_i h; simp at h; rw [h]
  · rfl

/-- one application of the enforcement rules: validate with FreeformClass (non-empty); map every Zs to
U+0020, strip, collapse; NFKC; reject if empty.  Case is preserved (there is no case step). -/
def round (s : List Nat) : Res (List Nat) :=
  match C05.specPrepare s with
  | .ok s =>
    let n := nfkc (Spec.specSpaces s)
    if n = [] then .err .invalid else .ok n
  | .err e => .err e
  | .panic => .panic

theorem prepare_eq (s : List Nat) : Nickname.prepare s = C05.specPrepare s := C05.prepare_eq s

theorem applyEnforceRules_eq (s : List Nat) : Nickname.applyEnforceRules s = round s := by
  have hp : Nickname.applyPrepareRules s = C05.specPrepare s := C05.prepare_eq s
  simp only [Nickname.applyEnforceRules, round, bind, Res.bind, hp]
  cases C05.specPrepare s with
  | ok w => simp only [C12.nick_spaces_eq, normNfkc_eq, C04.nonEmpty_eq]
  | err e => rfl
  | panic => rfl

/-- enforce = the rules applied until the string is stable (first application + three re-applications) -/
theorem enforce_eq (s : List Nat) : Nickname.enforce s = stabilize round s := by
  have : Nickname.applyEnforceRules = round := funext applyEnforceRules_eq
  simp [Nickname.enforce, this]

/-- every accepted result is a fixed point of the nickname rules, reachable from the input in at most
three re-applications; validation happens on every round -/
theorem enforce_fixed_point (s e : List Nat) (h : Nickname.enforce s = .ok e) :
    round e = .ok e ∧ ∃ k, k ≤ 3 ∧ C13.iter round k s = .ok e := by
  rw [enforce_eq] at h
  exact C13.stab_ok_fixed round s e h

/-- returns the first result the rules leave unchanged -/
theorem enforce_accepts (s x : List Nat) (k : Nat) (hk : k ≤ 3) (hit : C13.iter round k s = .ok x)
    (hfix : round x = .ok x) (hmin : ∀ j, j < k → ∀ y, C13.iter round j s = .ok y → round y ≠ .ok y) :
    Nickname.enforce s = .ok x := by
  rw [enforce_eq]; exact C13.stab_accepts round s x k hk hit hfix hmin

/-- a string that fails any application is rejected with that failure -/
theorem enforce_err (s y : List Nat) (e : Err) (k : Nat) (hk : k ≤ 3) (hit : C13.iter round k s = .ok y)
    (hf : round y = .err e) (hmin : ∀ j, j < k → ∀ z, C13.iter round j s = .ok z → round z ≠ .ok z) :
    Nickname.enforce s = .err e := by
  rw [enforce_eq]; exact C13.stab_err round s y e k hk hit hf hmin

/-- still changing after the permitted number of re-applications: rejected -/
theorem enforce_unstable (s : List Nat)
    (h : ∀ k, k ≤ 3 → ∃ y y', C13.iter round k s = .ok y ∧ round y = .ok y' ∧ y' ≠ y) :
    Nickname.enforce s = .err .invalid := by
  rw [enforce_eq]; exact C13.stab_invalid round s h

/-- a fixed point contains no space that needs action and is in NFKC form w.r.t. the model normalizer -/
theorem fixed_point_shape (e : List Nat) (h : round e = .ok e) :
    C05.specPrepare e = .ok e ∧ nfkc (Spec.specSpaces e) = e := by
  simp only [round] at h
  cases hp : C05.specPrepare e with
  | ok w =>
    have hw : w = e := by
      have := C05.prepare_ok_unchanged e w (by rw [C05.prepare_eq]; exact hp)
      exact this
    subst hw
    simp only [hp] at h
    split at h
    · simp at h
    · simp at h; exact ⟨rfl, h⟩
  | err x => simp [hp] at h
  | panic => simp [hp] at h

end Precis.C06
