/-
C03 — Context rules decide exactly what RFC 5892 Appendix A prescribes.
-/
import Precis.Model.Context
import Precis.Model.StringClass
import Precis.Spec.Rfc5892
import Precis.Facts.CtxTables
import Precis.Facts.RegistryId
import Precis.Facts.RegistryFf
import Precis.Lemmas.CtxAux
namespace Precis.C03
open Precis Precis.Step Precis.Spec Precis.Facts

/-- the model's rule names are the specification's -/
def toSpec : RuleId → Spec.Rule
  | .zwnj => .zwnj | .zwj => .zwj | .middleDot => .middleDot | .keraia => .keraia
  | .hebrew => .hebrew | .katakana => .katakana | .arabic => .arabic | .extArabic => .extArabic

/-! ### the ten generated context tables are the Unicode 6.3.0 assignments, for every code point -/

theorem script63_at (cp : Nat) : script63 cp = scriptSF.at cp := rfl
theorem jt63_at (cp : Nat) : jt63 cp = jtSF.at cp := rfl

theorem virama_is_ucd63 (cp : Nat) : isVirama cp = virama63 cp := by
  rw [isVirama, tab_virama]; exact SF.same_at _ _ virama_check cp
theorem greek_is_ucd63 (cp : Nat) : isGreek cp = (script63 cp == .greek) := by
  rw [isGreek, tab_greek]; simpa [script63_at, jt63_at] using SF.same_at _ _ greek_check cp
theorem hebrew_is_ucd63 (cp : Nat) : isHebrew cp = (script63 cp == .hebrew) := by
  rw [isHebrew, tab_hebrew]; simpa [script63_at, jt63_at] using SF.same_at _ _ hebrew_check cp
theorem hiragana_is_ucd63 (cp : Nat) : isHiragana cp = (script63 cp == .hiragana) := by
  rw [isHiragana, tab_hiragana]; simpa [script63_at, jt63_at] using SF.same_at _ _ hiragana_check cp
theorem katakana_is_ucd63 (cp : Nat) : isKatakana cp = (script63 cp == .katakana) := by
  rw [isKatakana, tab_katakana]; simpa [script63_at, jt63_at] using SF.same_at _ _ katakana_check cp
theorem han_is_ucd63 (cp : Nat) : isHan cp = (script63 cp == .han) := by
  rw [isHan, tab_han]; simpa [script63_at, jt63_at] using SF.same_at _ _ han_check cp
theorem dual_is_ucd63 (cp : Nat) : isDualJoining cp = (jt63 cp == .D) := by
  rw [isDualJoining, tab_dualJoining]; simpa [script63_at, jt63_at] using SF.same_at _ _ dual_check cp
theorem left_is_ucd63 (cp : Nat) : isLeftJoining cp = (jt63 cp == .L) := by
  rw [isLeftJoining, tab_leftJoining]; simpa [script63_at, jt63_at] using SF.same_at _ _ left_check cp
theorem right_is_ucd63 (cp : Nat) : isRightJoining cp = (jt63 cp == .R) := by
  rw [isRightJoining, tab_rightJoining]; simpa [script63_at, jt63_at] using SF.same_at _ _ right_check cp
theorem transparent_is_ucd63 (cp : Nat) : isTransparent cp = Spec.isT cp := by
  rw [isTransparent, tab_transparent]; simpa [Spec.isT, jt63_at] using SF.same_at _ _ transparent_check cp

/-- the table facts in the form the helper lemmas (Lemmas/CtxAux) take them -/
theorem tabs : CtxAux.Tabs :=
  ⟨virama_is_ucd63, greek_is_ucd63, hebrew_is_ucd63, hiragana_is_ucd63, katakana_is_ucd63, han_is_ucd63,
    dual_is_ucd63, left_is_ucd63, right_is_ucd63, transparent_is_ucd63⟩

theorem toSpec_eq : toSpec = CtxAux.toSpec := by funext r; cases r <;> rfl

/-! ### the registry -/

/-- exactly the code points whose derived property is CONTEXTJ or CONTEXTO have a registered rule -/
theorem registry_exact (cls : Cls) (cp : Nat) :
    (getContextRule cp).isSome = true ↔
      (derivedProp cls cp = .contextJ ∨ derivedProp cls cp = .contextO) := by
  cases cls with
  | identifier =>
    have := SF.all_zip_at _ _ _ registry_check_id cp
    simp only [← derivedProp_sf, ← getContextRule_sf] at this
    revert this
    cases derivedProp .identifier cp <;> cases getContextRule cp <;> simp
  | freeform =>
    have := SF.all_zip_at _ _ _ registry_check_ff cp
    simp only [← derivedProp_sf, ← getContextRule_sf] at this
    revert this
    cases derivedProp .freeform cp <;> cases getContextRule cp <;> simp

/-- the registered rule is the one RFC 5892 defines for that code point (so it applies to it) -/
theorem registry_applies (cp : Nat) (r : RuleId) (h : getContextRule cp = some r) :
    (toSpec r).own cp = true ∧ Spec.ruleFor cp = some (toSpec r) := by
  rw [toSpec_eq]; exact CtxAux.registry_applies cp r h

/-! ### the nine rules -/

/-- a rule answers true exactly when the code point at the position is its own and the RFC 5892
condition holds (for labels of any length a Rust `&str` can have) -/
theorem rule_true_iff (r : RuleId) (l : List Nat) (i : Nat) (hl : l.length < 2 ^ 63) :
    applyRule r l i = .ok true ↔
      ∃ c, l[i]? = some c ∧ (toSpec r).own c = true ∧ Spec.cond (toSpec r) l i = true := by
  rw [toSpec_eq]; exact CtxAux.rule_true_iff tabs r l i hl

/-- not-applicable only (and always) when the code point at the position is not the rule's own -/
theorem rule_notapp_iff (r : RuleId) (l : List Nat) (i : Nat) :
    applyRule r l i = .notApplicable ↔ ∃ c, l[i]? = some c ∧ (toSpec r).own c = false := by
  rw [toSpec_eq]; exact CtxAux.rule_notapp_iff tabs r l i

/-- undefined only when the position, or a neighbour the rule must inspect, lies outside the label -/
theorem rule_undef_only (r : RuleId) (l : List Nat) (i : Nat) (h : applyRule r l i = .undefined) :
    l[i]? = none ∨ Spec.needsOutside (toSpec r) l i = true := by
  rw [toSpec_eq]; exact CtxAux.rule_undef_only tabs r l i h

/-- a position outside the label is always Undefined -/
theorem rule_outside (r : RuleId) (l : List Nat) (i : Nat) (h : l.length ≤ i) :
    applyRule r l i = .undefined := by
  exact CtxAux.rule_outside r l i h

/-- no `offset ± 1` computation can overflow: the rules never panic (for any `usize` offset) -/
theorem rule_no_panic (r : RuleId) (l : List Nat) (i : Nat) (hl : l.length < 2 ^ 63) :
    applyRule r l i ≠ .panic := by
  exact CtxAux.rule_no_panic tabs r l i hl

/-- non-vacuity: ZWNJ between a dual-joining letter + transparent mark and a right-joining letter -/
example : Spec.cond .zwnj [0x628, 0x64B, 0x200C, 0x64B, 0x627] 2 = true := by decide +kernel


end Precis.C03
