/-
C01 — Every public operation returns; no input can make it panic.

In the model a Rust panic is the explicit outcome `.panic` (Res) / `.panic` (CtxRes), produced exactly
where the Rust text can panic: slicing off a character boundary, `usize` `+1`/`-1` overflow (the crates
are built with overflow checks), `Option::unwrap` on `partial_cmp`, indexing after `binary_search`.
Each theorem says the outcome is never `.panic`.  The only hypothesis is Rust's own allocation bound:
a string has fewer than 2^63 code points.

Not covered by any theorem (outside the model): allocation failure, stack exhaustion, panics inside std
or unicode-normalization — the correspondence runs every operation under `catch_unwind`.
-/
import Precis.Props.C02
import Precis.Props.C03
import Precis.Props.C04
import Precis.Props.C05
import Precis.Props.C06
import Precis.Props.C07
import Precis.Props.C09
import Precis.Props.C10
import Precis.Props.C11
import Precis.Props.C12
import Precis.Props.C13
import Precis.Props.C14
import Precis.Props.C18
import Precis.Lemmas.Utf8Bytes
namespace Precis.C01
open Precis Precis.Spec

/-- Rust's allocation bound for the label -/
def Fits (s : List Nat) : Prop := s.length < 2 ^ 63

/-- classifying any code point (all of u32 and beyond) in either class returns a value; the
comparisons behind every table search never answer `None`, so no `unwrap` can fail -/
theorem classify_total (cls : Cls) (cp : Nat) :
    (∃ v, derivedProp cls cp = v) ∧ ∀ e : Cps, (e.partialCmp cp).isSome = true :=
  ⟨⟨_, rfl⟩, fun e => C18.partialCmp_isSome e cp⟩

/-- each context rule at any position (inside, outside, near usize::MAX) -/
theorem rule_total (r : RuleId) (l : List Nat) (i : Nat) (h : Fits l) : applyRule r l i ≠ .panic :=
  C03.rule_no_panic r l i h

theorem allowsAt_total (dp : Nat → DPV) (label : List Nat) (i c : Nat) (h : Fits label) :
    allowsAt dp label i c ≠ .panic := by
  rw [C02.allowsAt_eq_errAt]
  unfold C02.errAt
  intro hp
  split at hp <;> try (cases hp; done)
  split at hp
  · cases hp
  · rename_i r hr
    have := rule_total r label i h
    split at hp <;> first | (exact this (by assumption)) | cases hp

theorem allowsLoop_total (dp : Nat → DPV) (label rest : List Nat) (off : Nat) (h : Fits label) :
    allowsLoop dp label rest off ≠ .panic := by
  induction rest generalizing off with
  | nil => simp [allowsLoop]
  | cons c r ih =>
    simp only [allowsLoop]
    cases ha : allowsAt dp label off c with
    | ok u => exact ih (off + 1)
    | err e => simp
    | panic => exact absurd ha (allowsAt_total dp label off c h)

/-- string-class acceptance, for any user-supplied class -/
theorem allows_total (dp : Nat → DPV) (label : List Nat) (h : Fits label) : allows dp label ≠ .panic :=
  allowsLoop_total dp label label 0 h

/-! ### profile rules: the slices at `find` offsets are always on character boundaries -/
theorem width_total (s : List Nat) : widthMappingRule s ≠ .panic := by rw [C11.width_rule_eq]; simp
theorem case_total (s : List Nat) : caseMappingRule s ≠ .panic := by rw [C10.case_rule_eq]; simp
theorem nick_space_total (s : List Nat) : trimSpaces s ≠ .panic := by rw [C12.nick_spaces_eq]; simp
theorem opaque_space_total (s : List Nat) : opaqueAdditionalMappingRule s ≠ .panic := by
  rw [C12.opaque_map_eq]; simp
theorem nfc_total (s : List Nat) : normalizationFormNfc s ≠ .panic := by rw [C04.normNfc_eq]; simp
theorem nfkc_total (s : List Nat) : normalizationFormNfkc s ≠ .panic := by rw [C06.normNfkc_eq]; simp
theorem dir_total (s : List Nat) : directionalityRule s ≠ .panic := by
  rcases C09.dir_rule_never_modifies s with h | h <;> simp [h]

/-! ### prepare / enforce / compare -/

theorem user_prepare_total (s : List Nat) (h : Fits s) : Username.prepare s ≠ .panic := by
  rw [C04.prepare_eq]
  simp only [C04.specPrepare]
  split
  · simp
  · have hf : Fits (Spec.specWidth s) := by simpa [Fits, Spec.specWidth] using h
    have := allows_total (derivedProp .identifier) _ hf
    cases ha : allows (derivedProp .identifier) (Spec.specWidth s) <;> simp_all

theorem user_enforce_total (mapped : Bool) (s : List Nat) (h : Fits s) :
    Username.enforce mapped s ≠ .panic := by
  rw [C04.enforce_eq]
  simp only [C04.specEnforce]
  have hp := user_prepare_total s h
  rw [C04.prepare_eq] at hp
  cases hq : C04.specPrepare s with
  | ok w =>
    simp only []
    have hd : ∀ n, (if n = [] then Res.err Err.invalid else C04.dirStep n) ≠ Res.panic := by
      intro n
      split
      · simp
      · rw [← C04.dir_eq]; exact dir_total _
    cases mapped <;> exact hd _
  | err e => simp
  | panic => exact absurd hq hp

theorem free_prepare_total (s : List Nat) (h : Fits s) : C05.specPrepare s ≠ .panic := by
  simp only [C05.specPrepare]
  split
  · simp
  · have := allows_total (derivedProp .freeform) s h
    cases ha : allows (derivedProp .freeform) s <;> simp_all

theorem opaque_prepare_total (s : List Nat) (h : Fits s) : Opaque.prepare s ≠ .panic := by
  rw [C05.prepare_eq]; exact free_prepare_total s h

theorem opaque_enforce_total (s : List Nat) (h : Fits s) : Opaque.enforce s ≠ .panic := by
  rw [C05.enforce_eq]
  simp only [C05.specEnforce]
  have hp := free_prepare_total s h
  cases hq : C05.specPrepare s with
  | ok w => simp only []; split <;> simp
  | err e => simp
  | panic => exact absurd hq hp

theorem nick_prepare_total (s : List Nat) (h : Fits s) : Nickname.prepare s ≠ .panic := by
  rw [C06.prepare_eq]; exact free_prepare_total s h

theorem nick_round_total (s : List Nat) (h : Fits s) : C06.round s ≠ .panic := by
  simp only [C06.round]
  have hp := free_prepare_total s h
  cases hq : C05.specPrepare s with
  | ok w => simp only []; split <;> simp
  | err e => simp
  | panic => exact absurd hq hp

/-- Nickname enforcement: every intermediate string of the (at most four) rounds fits in memory -/
theorem nick_enforce_total (s : List Nat)
    (h : ∀ k y, k ≤ 3 → C13.iter C06.round k s = .ok y → Fits y) : Nickname.enforce s ≠ .panic := by
  rw [C06.enforce_eq]
  intro hp
  obtain ⟨k, y, hk, hit, hf⟩ := C13.stabilizeN_panic C06.round stabilizeRounds s hp
  exact nick_round_total y (h k y (by simp [stabilizeRounds] at hk; omega) hit) hf

theorem nick_cround_total (s : List Nat) (h : Fits s) : C07.cround s ≠ .panic := by
  simp only [C07.cround]
  have hp := free_prepare_total s h
  cases hq : C05.specPrepare s with
  | ok w => simp
  | err e => simp
  | panic => exact absurd hq hp

/-- compare: no panic when neither canonicalisation panics -/
theorem compare_total (p : Profile) (a b : List Nat) (ha : p.canon a ≠ .panic) (hb : p.canon b ≠ .panic) :
    p.compare a b ≠ .panic := by
  rw [C07.compare_eq]
  cases h1 : p.canon a <;> cases h2 : p.canon b <;> simp_all

theorem canon_total (p : Profile) (s : List Nat) (h : Fits s)
    (hn : ∀ k y, k ≤ 3 → C13.iter C07.cround k s = .ok y → Fits y) : p.canon s ≠ .panic := by
  cases p with
  | usernameCaseMapped => exact user_enforce_total true s h
  | usernameCasePreserved => exact user_enforce_total false s h
  | opaqueString => exact opaque_enforce_total s h
  | nickname =>
    rw [C07.canon_eq]
    intro hp
    obtain ⟨k, y, hk, hit, hf⟩ := C13.stabilizeN_panic C07.cround stabilizeRounds s hp
    exact nick_cround_total y (hn k y (by simp [stabilizeRounds] at hk; omega) hit) hf

/-- stabilize with any rule function -/
theorem stabilize_total (f : List Nat → Res (List Nat)) (s : List Nat) (h : ∀ x, f x ≠ .panic) :
    stabilize f s ≠ .panic := C13.stab_no_panic f s h

/-- "never slices a string inside a multi-byte character", in terms of REAL UTF-8 bytes (Lemmas/Utf8Bytes.lean):
the position every fast path slices at — the byte offset `str::find` returns — is a char boundary of the encoded string
in the sense of `str::is_char_boundary`, so `&s[..pos]` and `&s[pos..]` succeed, and they are the bytes before / from the
first matching character.  The model's `sliceTo`/`sliceFrom` answer `none` (= Rust panics) exactly off such boundaries
(`Utf8Bytes.sliceTo_isSome_iff`, `sliceFrom_isSome_iff`). -/
theorem find_offset_is_char_boundary (p : Nat → Bool) (s : List Nat) (hs : ∀ c ∈ s, c < 0x110000) (pos : Nat)
    (hf : findByte p s = some pos) :
    Utf8Bytes.isCharBoundary (Utf8Bytes.encode s) pos = true ∧ pos ≤ (Utf8Bytes.encode s).length ∧
      (sliceTo s pos).isSome = true ∧ (sliceFrom s pos).isSome = true := by
  have hb := (Utf8Bytes.findByte_bytes p s hs pos hf).2
  have h1 := Utf8Bytes.sliceTo_isSome_iff s hs pos
  have h2 := Utf8Bytes.sliceFrom_isSome_iff s hs pos
  obtain ⟨hsl, _⟩ := slice_at_find p s pos hf
  have h3 : (sliceTo s pos).isSome = true := by rw [hsl]; rfl
  rw [h3, hb, Bool.and_true] at h1
  have hle : pos ≤ (Utf8Bytes.encode s).length := by simpa using h1.symm
  refine ⟨hb, hle, h3, ?_⟩
  rw [h2, hb, Bool.and_true]
  simpa using hle

/-- non-vacuity: the model CAN express a panic — slicing inside a multi-byte character is one -/
example : sliceTo [0xE9, 0x20] 1 = none := by decide

end Precis.C01
