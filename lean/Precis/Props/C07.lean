/-
C07 — compare is equality of comparison forms: an equivalence with strict errors.
-/
import Precis.Model.Profiles
import Precis.Props.C06
import Precis.Props.C10
namespace Precis.C07
open Precis Precis.Spec

/-- one application of the Nickname comparison rules: the enforcement rules plus lowercase mapping
before NFKC (the empty check is left to the next application's validation) -/
def cround (s : List Nat) : Res (List Nat) :=
  match C05.specPrepare s with
  | .ok s => .ok (nfkc (Spec.specCase (Spec.specSpaces s)))
  | .err e => .err e
  | .panic => .panic

theorem applyCompareRules_eq (s : List Nat) : Nickname.applyCompareRules s = cround s := by
  have hp : Nickname.applyPrepareRules s = C05.specPrepare s := C05.prepare_eq s
  simp only [Nickname.applyCompareRules, cround, bind, Res.bind, hp]
  cases C05.specPrepare s with
  | ok w => simp only [C12.nick_spaces_eq, C10.case_rule_eq, C06.normNfkc_eq]
  | err e => rfl
  | panic => rfl

/-- the canonical form each operand is reduced to -/
theorem canon_eq (p : Profile) (s : List Nat) :
    p.canon s = match p with
      | .nickname => stabilize cround s
      | _ => p.enforce s := by
  cases p <;> simp [Profile.canon, Nickname.canon, funext applyCompareRules_eq]

/-- compare(a, b): the first string's error if it is rejected, else the second's, else equality of
the canonical strings -/
theorem compare_eq (p : Profile) (a b : List Nat) :
    p.compare a b = match p.canon a with
      | .ok x => (match p.canon b with
        | .ok y => .ok (x == y)
        | .err e => .err e
        | .panic => .panic)
      | .err e => .err e
      | .panic => .panic := rfl

theorem compare_true_iff (p : Profile) (a b : List Nat) :
    p.compare a b = .ok true ↔ ∃ x, p.canon a = .ok x ∧ p.canon b = .ok x := by
  rw [compare_eq]
  cases ha : p.canon a <;> cases hb : p.canon b <;> simp
  exact eq_comm

theorem compare_false_iff (p : Profile) (a b : List Nat) :
    p.compare a b = .ok false ↔ ∃ x y, p.canon a = .ok x ∧ p.canon b = .ok y ∧ x ≠ y := by
  rw [compare_eq]
  cases ha : p.canon a <;> cases hb : p.canon b <;> simp

/-- an error whenever either string is rejected — the first string's error if both are -/
theorem compare_first_error (p : Profile) (a b : List Nat) (e : Err) (h : p.canon a = .err e) :
    p.compare a b = .err e := by
  rw [compare_eq, h]

theorem compare_second_error (p : Profile) (a b x : List Nat) (e : Err) (ha : p.canon a = .ok x)
    (hb : p.canon b = .err e) : p.compare a b = .err e := by
  rw [compare_eq, ha, hb]

/-- reflexive on accepted strings -/
theorem compare_refl (p : Profile) (a x : List Nat) (h : p.canon a = .ok x) : p.compare a a = .ok true :=
  (compare_true_iff p a a).mpr ⟨x, h, h⟩

/-- symmetric -/
theorem compare_symm (p : Profile) (a b : List Nat) (r : Bool) (h : p.compare a b = .ok r) :
    p.compare b a = .ok r := by
  rw [compare_eq] at h ⊢
  cases ha : p.canon a <;> cases hb : p.canon b <;> simp [ha, hb] at h ⊢
  rw [← h]; exact Bool.eq_iff_iff.mpr ⟨fun e => by simpa using (by simpa using e : _ = _).symm,
    fun e => by simpa using (by simpa using e : _ = _).symm⟩

/-- transitive -/
theorem compare_trans (p : Profile) (a b c : List Nat) (h1 : p.compare a b = .ok true)
    (h2 : p.compare b c = .ok true) : p.compare a c = .ok true := by
  obtain ⟨x, ha, hb⟩ := (compare_true_iff p a b).mp h1
  obtain ⟨y, hb', hc⟩ := (compare_true_iff p b c).mp h2
  rw [hb] at hb'
  cases hb'
  exact (compare_true_iff p a c).mpr ⟨x, ha, hc⟩

/-- for the username and password profiles compare(a, b) = (enforce(a) == enforce(b)) -/
theorem compare_is_enforce_eq (p : Profile) (hp : p ≠ .nickname) (a b x y : List Nat)
    (ha : p.enforce a = .ok x) (hb : p.enforce b = .ok y) : p.compare a b = .ok (x == y) := by
  have hc : ∀ s, p.canon s = p.enforce s := by
    intro s; cases p <;> simp_all [Profile.canon]
  rw [compare_eq, hc, hc, ha, hb]

/-- omitting the empty check inside the comparison rules is unobservable: an empty intermediate is
rejected by the next application's validation with the same Invalid error, and an empty string is
never a fixed point -/
theorem cround_empty : cround [] = .err .invalid := by
  simp [cround, C05.specPrepare]

theorem nick_canon_nonempty (s x : List Nat) (h : Profile.canon .nickname s = .ok x) : x ≠ [] := by
  rw [canon_eq] at h
  have := (C13.stab_ok_fixed cround s x h).1
  intro e
  subst e
  rw [cround_empty] at this
  cases this

end Precis.C07
