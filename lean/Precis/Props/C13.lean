/-
C13 — stabilize returns only fixed points and honours its iteration contract.
Quantified over every rule function `f : List Nat → Res (List Nat)` and every start string.
-/
import Precis.Model.Profiles
namespace Precis.C13
open Precis

/-- `iter f k s`: apply `f` `k` times, stopping at the first failure -/
def iter (f : List Nat → Res (List Nat)) : Nat → List Nat → Res (List Nat)
  | 0, s => .ok s
  | k + 1, s =>
    match f s with
    | .ok t => iter f k t
    | .err e => .err e
    | .panic => .panic

/-- soundness for any bound: an accepted result is a fixed point reachable in fewer than `n` steps -/
theorem stabilizeN_ok (f : List Nat → Res (List Nat)) (n : Nat) (s x : List Nat)
    (h : stabilizeN f n s = .ok x) : f x = .ok x ∧ ∃ k, k < n ∧ iter f k s = .ok x := by
  induction n generalizing s with
  | zero => simp [stabilizeN] at h
  | succ n ih =>
    simp only [stabilizeN] at h
    cases hf : f s with
    | ok tmp =>
      simp only [hf] at h
      by_cases he : (tmp == s) = true
      · simp only [he, if_true, Res.ok.injEq] at h
        subst h
        have : tmp = s := by simpa using he
        subst this
        exact ⟨hf, 0, by omega, rfl⟩
      · simp only [he] at h
        obtain ⟨h1, k, hk, h2⟩ := ih tmp h
        exact ⟨h1, k + 1, by omega, by simp [iter, hf, h2]⟩
    | err e => simp [hf] at h
    | panic => simp [hf] at h

/-- completeness for any bound: if the string stops changing at step `k < n` (and not before),
`stabilizeN` accepts it -/
theorem stabilizeN_accepts (f : List Nat → Res (List Nat)) (n k : Nat) (s x : List Nat)
    (hk : k < n) (hit : iter f k s = .ok x) (hfix : f x = .ok x)
    (hmin : ∀ j, j < k → ∀ y, iter f j s = .ok y → f y ≠ .ok y) :
    stabilizeN f n s = .ok x := by
  induction n generalizing s k with
  | zero => omega
  | succ n ih =>
    cases k with
    | zero =>
      simp only [iter, Res.ok.injEq] at hit
      subst hit
      simp [stabilizeN, hfix]
    | succ k =>
      simp only [iter] at hit
      cases hf : f s with
      | ok t =>
        simp only [hf] at hit
        have hne : f s ≠ .ok s := hmin 0 (by omega) s rfl
        have hts : (t == s) = false := by
          apply Bool.eq_false_iff.mpr
          intro h
          have : t = s := by simpa using h
          subst this
          exact hne hf
        simp only [stabilizeN, hf, hts]
        apply ih k t (by omega) hit
        intro j hj y hy
        apply hmin (j + 1) (by omega) y
        simp [iter, hf, hy]
      | err e => simp [hf] at hit
      | panic => simp [hf] at hit

/-- an error result is either the rule's own error at the first failing application,
or `Invalid` because none of the `n` applications left the string unchanged -/
theorem stabilizeN_err (f : List Nat → Res (List Nat)) (n : Nat) (s : List Nat) (e : Err)
    (h : stabilizeN f n s = .err e) :
    (∃ k y, k < n ∧ iter f k s = .ok y ∧ f y = .err e) ∨
    (e = .invalid ∧ ∀ k, k < n → ∃ y y', iter f k s = .ok y ∧ f y = .ok y' ∧ y' ≠ y) := by
  induction n generalizing s with
  | zero =>
    simp only [stabilizeN, Res.err.injEq] at h
    exact Or.inr ⟨h.symm, by intro k hk; omega⟩
  | succ n ih =>
    simp only [stabilizeN] at h
    cases hf : f s with
    | ok tmp =>
      simp only [hf] at h
      by_cases he : (tmp == s) = true
      · simp [he] at h
      · simp only [he] at h
        have hne : tmp ≠ s := by simpa using he
        rcases ih tmp h with ⟨k, y, hk, h1, h2⟩ | ⟨h1, h2⟩
        · exact Or.inl ⟨k + 1, y, by omega, by simp [iter, hf, h1], h2⟩
        · refine Or.inr ⟨h1, ?_⟩
          intro k hk
          cases k with
          | zero => exact ⟨s, tmp, rfl, hf, hne⟩
          | succ k =>
            obtain ⟨y, y', a, b, c⟩ := h2 k (by omega)
            exact ⟨y, y', by simp [iter, hf, a], b, c⟩
    | err e' =>
      simp only [hf, Res.err.injEq] at h
      subst h
      exact Or.inl ⟨0, s, by omega, rfl, hf⟩
    | panic => simp [hf] at h

/-- the rule's error is returned as soon as an application fails (if nothing stabilised before) -/
theorem stabilizeN_propagates (f : List Nat → Res (List Nat)) (n k : Nat) (s y : List Nat) (e : Err)
    (hk : k < n) (hit : iter f k s = .ok y) (hf : f y = .err e)
    (hmin : ∀ j, j < k → ∀ z, iter f j s = .ok z → f z ≠ .ok z) :
    stabilizeN f n s = .err e := by
  induction n generalizing s k with
  | zero => omega
  | succ n ih =>
    cases k with
    | zero =>
      simp only [iter, Res.ok.injEq] at hit
      subst hit
      simp [stabilizeN, hf]
    | succ k =>
      simp only [iter] at hit
      cases hfs : f s with
      | ok t =>
        simp only [hfs] at hit
        have hne : f s ≠ .ok s := hmin 0 (by omega) s rfl
        have hts : (t == s) = false := by
          apply Bool.eq_false_iff.mpr
          intro h
          have : t = s := by simpa using h
          subst this
          exact hne hfs
        simp only [stabilizeN, hfs, hts]
        apply ih k t (by omega) hit
        intro j hj z hz
        apply hmin (j + 1) (by omega) z
        simp [iter, hfs, hz]
      | err e' => simp [hfs] at hit
      | panic => simp [hfs] at hit

/-- still changing after `n` applications: the invalid-label error -/
theorem stabilizeN_invalid (f : List Nat → Res (List Nat)) (n : Nat) (s : List Nat)
    (h : ∀ k, k < n → ∃ y y', iter f k s = .ok y ∧ f y = .ok y' ∧ y' ≠ y) :
    stabilizeN f n s = .err .invalid := by
  induction n generalizing s with
  | zero => rfl
  | succ n ih =>
    obtain ⟨y, y', a, b, c⟩ := h 0 (by omega)
    simp only [iter, Res.ok.injEq] at a
    subst a
    have hts : (y' == s) = false := by
      apply Bool.eq_false_iff.mpr
      intro h'
      exact c (by simpa using h')
    simp only [stabilizeN, b, hts]
    apply ih
    intro k hk
    obtain ⟨z, z', a', b', c'⟩ := h (k + 1) (by omega)
    simp only [iter, b] at a'
    exact ⟨z, z', a', b', c'⟩

/-- the traced loop computes the same result, calls `f` at most `n` times, and the i-th call is on
the i-th iterate of `s` -/
theorem trace_contract (f : List Nat → Res (List Nat)) (n : Nat) (s : List Nat) (tr : List (List Nat)) :
    (stabilizeTrace f n s tr).1 = stabilizeN f n s ∧
    ∃ calls : List (List Nat), (stabilizeTrace f n s tr).2 = tr ++ calls ∧ calls.length ≤ n ∧
      ∀ i (hi : i < calls.length), iter f i s = .ok calls[i] := by
  induction n generalizing s tr with
  | zero => exact ⟨rfl, [], by simp [stabilizeTrace], by simp, by intro i hi; simp at hi⟩
  | succ n ih =>
    simp only [stabilizeTrace, stabilizeN]
    cases hf : f s with
    | ok tmp =>
      simp only []
      by_cases he : (tmp == s) = true
      · simp only [he, if_true]
        refine ⟨by simp, [s], by simp, by simp, ?_⟩
        intro i hi
        have : i = 0 := by simp at hi; omega
        subst this; rfl
      · simp only [he]
        obtain ⟨h1, calls, h2, h3, h4⟩ := ih tmp (tr ++ [s])
        refine ⟨h1, s :: calls, by simp [h2], by simp; omega, ?_⟩
        intro i hi
        cases i with
        | zero => rfl
        | succ i =>
          have := h4 i (by simp at hi; omega)
          simp [iter, hf, this]
    | err e =>
      refine ⟨rfl, [s], rfl, by simp, ?_⟩
      intro i hi
      have : i = 0 := by simp at hi; omega
      subst this; rfl
    | panic =>
      refine ⟨rfl, [s], rfl, by simp, ?_⟩
      intro i hi
      have : i = 0 := by simp at hi; omega
      subst this; rfl

/-- `stabilize` cannot panic unless the rule does -/
theorem stabilizeN_no_panic (f : List Nat → Res (List Nat)) (n : Nat) (s : List Nat)
    (h : ∀ x, f x ≠ .panic) : stabilizeN f n s ≠ .panic := by
  induction n generalizing s with
  | zero => simp [stabilizeN]
  | succ n ih =>
    simp only [stabilizeN]
    cases hf : f s with
    | ok tmp =>
      simp only []
      split
      · simp
      · exact ih tmp
    | err e => simp
    | panic => exact absurd hf (h s)

/-- a panic of `stabilize` is a panic of the rule on one of the iterates it was applied to -/
theorem stabilizeN_panic (f : List Nat → Res (List Nat)) (n : Nat) (s : List Nat)
    (h : stabilizeN f n s = .panic) : ∃ k y, k < n ∧ iter f k s = .ok y ∧ f y = .panic := by
  induction n generalizing s with
  | zero => simp [stabilizeN] at h
  | succ n ih =>
    simp only [stabilizeN] at h
    cases hf : f s with
    | ok tmp =>
      simp only [hf] at h
      by_cases he : (tmp == s) = true
      · simp [he] at h
      · simp only [he] at h
        obtain ⟨k, y, hk, h1, h2⟩ := ih tmp h
        exact ⟨k + 1, y, by omega, by simp [iter, hf, h1], h2⟩
    | err e => simp [hf] at h
    | panic => exact ⟨0, s, by omega, rfl, hf⟩

/-! ### the contract of `precis_core::profile::stabilize`: first application + three re-applications -/

/-- Ok(x) only if x is reachable from s by repeated application (at most 3 steps) and f(x) = x -/
theorem stab_ok_fixed (f : List Nat → Res (List Nat)) (s x : List Nat) (h : stabilize f s = .ok x) :
    f x = .ok x ∧ ∃ k, k ≤ 3 ∧ iter f k s = .ok x := by
  obtain ⟨h1, k, hk, h2⟩ := stabilizeN_ok f stabilizeRounds s x h
  exact ⟨h1, k, by simp [stabilizeRounds] at hk; omega, h2⟩

/-- it accepts whenever the string stops changing within the first application plus three re-applications -/
theorem stab_accepts (f : List Nat → Res (List Nat)) (s x : List Nat) (k : Nat) (hk : k ≤ 3)
    (hit : iter f k s = .ok x) (hfix : f x = .ok x)
    (hmin : ∀ j, j < k → ∀ y, iter f j s = .ok y → f y ≠ .ok y) : stabilize f s = .ok x :=
  stabilizeN_accepts f stabilizeRounds k s x (by simp [stabilizeRounds]; omega) hit hfix hmin

/-- it returns f's own error if any application fails -/
theorem stab_err (f : List Nat → Res (List Nat)) (s y : List Nat) (e : Err) (k : Nat) (hk : k ≤ 3)
    (hit : iter f k s = .ok y) (hf : f y = .err e)
    (hmin : ∀ j, j < k → ∀ z, iter f j s = .ok z → f z ≠ .ok z) : stabilize f s = .err e :=
  stabilizeN_propagates f stabilizeRounds k s y e (by simp [stabilizeRounds]; omega) hit hf hmin

/-- every error is either f's own or the invalid-label error for a string still changing after four applications -/
theorem stab_err_cases (f : List Nat → Res (List Nat)) (s : List Nat) (e : Err)
    (h : stabilize f s = .err e) :
    (∃ k y, k ≤ 3 ∧ iter f k s = .ok y ∧ f y = .err e) ∨
    (e = .invalid ∧ ∀ k, k ≤ 3 → ∃ y y', iter f k s = .ok y ∧ f y = .ok y' ∧ y' ≠ y) := by
  rcases stabilizeN_err f stabilizeRounds s e h with ⟨k, y, hk, a, b⟩ | ⟨a, b⟩
  · exact Or.inl ⟨k, y, by simp [stabilizeRounds] at hk; omega, a, b⟩
  · exact Or.inr ⟨a, fun k hk => b k (by simp [stabilizeRounds]; omega)⟩

/-- the invalid-label error otherwise -/
theorem stab_invalid (f : List Nat → Res (List Nat)) (s : List Nat)
    (h : ∀ k, k ≤ 3 → ∃ y y', iter f k s = .ok y ∧ f y = .ok y' ∧ y' ≠ y) :
    stabilize f s = .err .invalid :=
  stabilizeN_invalid f stabilizeRounds s (fun k hk => h k (by simp [stabilizeRounds] at hk; omega))

/-- never applies f more than four times, and the calls are the successive iterates -/
theorem stab_calls (f : List Nat → Res (List Nat)) (s : List Nat) :
    (stabilizeTrace f stabilizeRounds s []).1 = stabilize f s ∧
    ∃ calls : List (List Nat), (stabilizeTrace f stabilizeRounds s []).2 = calls ∧ calls.length ≤ 4 ∧
      ∀ i (hi : i < calls.length), iter f i s = .ok calls[i] := by
  obtain ⟨h1, calls, h2, h3, h4⟩ := trace_contract f stabilizeRounds s []
  exact ⟨h1, calls, by simpa using h2, h3, h4⟩

theorem stab_no_panic (f : List Nat → Res (List Nat)) (s : List Nat) (h : ∀ x, f x ≠ .panic) :
    stabilize f s ≠ .panic := stabilizeN_no_panic f stabilizeRounds s h

/-- non-vacuity: a rule that needs exactly the fourth application (0→1→2→3→3) is accepted -/
example : stabilize (fun s => match s with | [n] => .ok [min (n + 1) 3] | _ => .err .invalid) [0] = .ok [3] := by
  decide

end Precis.C13
