/-
C09 — The directionality rule is the RFC 5893 Bidi rule, on every label.

`dir_rule_eq_rfc` (the property at full strength) is FALSE of the code: the implementation rejects
every RTL/LTR label in which an NSM is followed by a non-NSM character (known finding
`bidi-interior-nsm`: the repository's own unit tests assert that behaviour).  What is proved:
* `dir_rule_exact`: the implementation accepts exactly the labels the RFC accepts that have no
  interior NSM — an exact characterisation of the deviation, for every class sequence;
* `dir_rule_eq_rfc_partial`: on labels without interior NSM the rule IS the RFC rule;
* `deviation_witness`: the negation of the full-strength statement, with a concrete witness.
-/
import Precis.Model.Rules
import Precis.Spec.Rfc5893
import Precis.Spec.Rules
import Precis.Facts.Prof
import Precis.Lemmas.TableStep
namespace Precis.C09
open Precis Precis.Step Precis.Spec

/-- the generated class table, searched by binary search with default L, is Bidi_Class of
UnicodeData 16.0.0 for every code point -/
theorem bidi_table_is_ucd16 (cp : Nat) : bidiClass cp = Spec.bidi16 cp := by
  sorry

theorem isRtlClass_eq (c : BidiClass) : isRtlClass c = Spec.isRtlTrigger c := by
  cases c <;> rfl

/-- the one-pass scan with prev/nsm/en/an flags accepts exactly: RFC 5893 conditions 1–6 ∧ no interior NSM.
For every sequence of classes, of any length. -/
theorem scan_exact (cs : List BidiClass) :
    satisfyBidiClasses cs = (Spec.bidiRule cs && !Spec.interiorNsm cs) := by
  sorry

/-- exact characterisation of the directionality rule -/
theorem dir_rule_exact (s : List Nat) :
    directionalityRule s =
      (let cs := s.map Spec.bidi16
       if !cs.any Spec.isRtlTrigger then .ok s
       else if Spec.bidiRule cs && !Spec.interiorNsm cs then .ok s else .err .invalid) := by
  sorry

/-- on labels without an interior NSM the rule is the RFC 5893 Bidi rule -/
theorem dir_rule_eq_rfc_partial (s : List Nat) (h : Spec.interiorNsm (s.map Spec.bidi16) = false) :
    directionalityRule s = Spec.specDirectionality Spec.bidi16 s := by
  sorry

/-- labels with no R/AL/AN character are accepted unchanged -/
theorem dir_rule_no_rtl (s : List Nat) (h : (s.map Spec.bidi16).any Spec.isRtlTrigger = false) :
    directionalityRule s = .ok s := by
  sorry

/-- the string is never modified, and rejection is the invalid-label error -/
theorem dir_rule_never_modifies (s : List Nat) :
    directionalityRule s = .ok s ∨ directionalityRule s = .err .invalid := by
  sorry

/-- the implementation never accepts a label the RFC rejects -/
theorem dir_rule_sound (s : List Nat) (h : directionalityRule s = .ok s)
    (hr : (s.map Spec.bidi16).any Spec.isRtlTrigger = true) : Spec.bidiRule (s.map Spec.bidi16) = true := by
  sorry

/-- the full-strength statement fails: pointed Hebrew `R NSM R` is RFC-valid and rejected -/
theorem deviation_witness :
    directionalityRule [0x5D0, 0x5B0, 0x5D1] = .err .invalid ∧
    Spec.specDirectionality Spec.bidi16 [0x5D0, 0x5B0, 0x5D1] = .ok [0x5D0, 0x5B0, 0x5D1] := by
  sorry

end Precis.C09
