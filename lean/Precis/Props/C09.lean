/-
C09 — The directionality rule is the RFC 5893 Bidi rule, on every label.

`dir_rule_eq_rfc` (the property at full strength) is FALSE of the code: the implementation rejects
every RTL/LTR label in which an NSM is followed by a non-NSM character (known finding
`bidi-interior-nsm`: the repository's own unit tests assert that behaviour).  What is proved:
* `dir_rule_exact`: the implementation accepts exactly the labels the RFC accepts that have no
  interior NSM — an exact characterisation of the deviation, for every class sequence;
* `dir_rule_eq_rfc_partial`: on labels without interior NSM the rule IS the RFC rule;
* `deviation_witness`: the negation of the full-strength statement, with a concrete witness.
-/
import Precis.Model.Rules
import Precis.Spec.Rfc5893
import Precis.Spec.Rules
import Precis.Facts.Prof
import Precis.Lemmas.TableStep
import Precis.Lemmas.BidiAux
namespace Precis.C09
open Precis Precis.Step Precis.Spec Precis.Gen.Prof

set_option maxRecDepth 1000000 in
theorem bidi_len : (toStepV bidiClassTableL).length + Gen.Ucd16.bidiStep.length ≤ 10000 := by
  decide +kernel

/-- the generated class table, searched by binary search with default L, is Bidi_Class of
UnicodeData 16.0.0 for every code point -/
theorem bidi_table_is_ucd16 (cp : Nat) : bidiClass cp = Spec.bidi16 cp := by
  have hs : sortedTable (bidiClassTable.toList.map (·.1)) = true := Facts.sorted_bidi
  unfold bidiClass Spec.bidi16
  rw [lookupVal_eq_eval bidiClassTable hs cp]
  have ht : bidiClassTable.toList = bidiClassTableL := rfl
  rw [ht, Step.agree_eval 10000 none (toStepV bidiClassTableL) none Gen.Ucd16.bidiStep bidi_len
    Facts.bidi_agree cp]

theorem isRtlClass_eq (c : BidiClass) : isRtlClass c = Spec.isRtlTrigger c := by
  cases c <;> rfl

/-- the one-pass scan with prev/nsm/en/an flags accepts exactly: RFC 5893 conditions 1–6 ∧ no interior NSM.
For every sequence of classes, of any length. -/
theorem scan_exact (cs : List BidiClass) :
    satisfyBidiClasses cs = (Spec.bidiRule cs && !Spec.interiorNsm cs) := by
  cases cs with
  | nil => rfl
  | cons first r =>
    by_cases h1 : first = .R ∨ first = .AL
    · have hc : (first == BidiClass.R || first == BidiClass.AL) = true := by
        rcases h1 with h | h <;> subst h <;> rfl
      have hc' : (decide (first = BidiClass.R) || decide (first = BidiClass.AL)) = true := by
        rcases h1 with h | h <;> subst h <;> rfl
      simp only [satisfyBidiClasses, Spec.bidiRule, hc, hc', if_true]
      rw [BidiAux.validRtl_eq r first false false false (by simp), BidiAux.rtl_label first r h1]
      rfl
    · have hc : (first == BidiClass.R || first == BidiClass.AL) = false := by
        cases first <;> first | rfl | exact absurd (by simp) h1
      have hc' : (decide (first = BidiClass.R) || decide (first = BidiClass.AL)) = false := by
        cases first <;> first | rfl | exact absurd (by simp) h1
      by_cases h2 : first = .L
      · subst h2
        simp only [satisfyBidiClasses, Spec.bidiRule]
        rw [BidiAux.validLtr_eq r .L false (by simp), BidiAux.ltr_label r]
        rfl
      · have hl : (first == BidiClass.L) = false := by simpa using h2
        have hl' : decide (first = BidiClass.L) = false := by simpa using h2
        simp [satisfyBidiClasses, Spec.bidiRule, hc, hc', hl, hl']

/-- exact characterisation of the directionality rule -/
theorem dir_rule_exact (s : List Nat) :
    directionalityRule s =
      (let cs := s.map Spec.bidi16
       if !cs.any Spec.isRtlTrigger then .ok s
       else if Spec.bidiRule cs && !Spec.interiorNsm cs then .ok s else .err .invalid) := by
  have hb : bidiClass = Spec.bidi16 := funext bidi_table_is_ucd16
  have hr : isRtlClass = Spec.isRtlTrigger := funext isRtlClass_eq
  have hh : hasRtl s = (s.map Spec.bidi16).any Spec.isRtlTrigger := by
    simp [hasRtl, hb, hr, List.any_map, Function.comp_def]
  simp only [directionalityRule, satisfyBidiRule, hh, hb, scan_exact]
  cases (s.map Spec.bidi16).any Spec.isRtlTrigger <;> simp

/-- on labels without an interior NSM the rule is the RFC 5893 Bidi rule -/
theorem dir_rule_eq_rfc_partial (s : List Nat) (h : Spec.interiorNsm (s.map Spec.bidi16) = false) :
    directionalityRule s = Spec.specDirectionality Spec.bidi16 s := by
  rw [dir_rule_exact]
  simp [Spec.specDirectionality, h]

/-- labels with no R/AL/AN character are accepted unchanged -/
theorem dir_rule_no_rtl (s : List Nat) (h : (s.map Spec.bidi16).any Spec.isRtlTrigger = false) :
    directionalityRule s = .ok s := by
  rw [dir_rule_exact]
  simp [h]

/-- the string is never modified, and rejection is the invalid-label error -/
theorem dir_rule_never_modifies (s : List Nat) :
    directionalityRule s = .ok s ∨ directionalityRule s = .err .invalid := by
  rw [dir_rule_exact]
  simp only []
  split
  · exact Or.inl rfl
  · split
    · exact Or.inl rfl
    · exact Or.inr rfl

/-- the implementation never accepts a label the RFC rejects -/
theorem dir_rule_sound (s : List Nat) (h : directionalityRule s = .ok s)
    (hr : (s.map Spec.bidi16).any Spec.isRtlTrigger = true) : Spec.bidiRule (s.map Spec.bidi16) = true := by
  rw [dir_rule_exact] at h
  simp only [hr, Bool.not_true] at h
  cases hb : Spec.bidiRule (s.map Spec.bidi16)
  · simp [hb] at h
  · rfl

/-- the full-strength statement fails: pointed Hebrew `R NSM R` is RFC-valid and rejected -/
theorem deviation_witness :
    directionalityRule [0x5D0, 0x5B0, 0x5D1] = .err .invalid ∧
    Spec.specDirectionality Spec.bidi16 [0x5D0, 0x5B0, 0x5D1] = .ok [0x5D0, 0x5B0, 0x5D1] := by
  rw [dir_rule_exact]
  have h0 : Spec.bidi16 0x5D0 = .R := by decide +kernel
  have h1 : Spec.bidi16 0x5B0 = .NSM := by decide +kernel
  have h2 : Spec.bidi16 0x5D1 = .R := by decide +kernel
  simp only [Spec.specDirectionality, List.map_cons, List.map_nil, h0, h1, h2]
  decide

end Precis.C09
