/-
C11 — Width mapping replaces exactly the wide/narrow compatibility characters.
-/
import Precis.Model.Rules
import Precis.Spec.Rules
import Precis.Facts.Prof
import Precis.Lemmas.Utf8
import Precis.Lemmas.TableStep
namespace Precis.C11
open Precis Precis.Step

/-- the generated table, searched the way the library searches it, is the `<wide>`/`<narrow>`
decomposition data of UnicodeData 16.0.0 (independent parse), for every code point -/
theorem width_table_is_ucd16 (cp : Nat) :
    getDecompositionMapping cp = eval none Gen.Ucd16.widthStep cp := by
  sorry

/-- the rule is `map` of the per-character mapping: position-independent, nothing else changes -/
theorem width_rule_eq (s : List Nat) : widthMappingRule s = .ok (Spec.specWidth s) := by
  sorry

/-- characters without a wide/narrow mapping (all other compatibility characters included) are kept -/
theorem width_keeps_others (s : List Nat) (i : Nat) (h : i < s.length)
    (hn : eval none Gen.Ucd16.widthStep s[i] = none) :
    ∃ h' : i < (Spec.specWidth s).length, (Spec.specWidth s)[i] = s[i] := by
  sorry

/-- applying the mapping twice equals applying it once -/
theorem width_idem (s : List Nat) : Spec.specWidth (Spec.specWidth s) = Spec.specWidth s := by
  sorry

theorem width_rule_idem (s t : List Nat) (h : widthMappingRule s = .ok t) : widthMappingRule t = .ok t := by
  sorry

/-- never a panic, never the typed `Undefined` error on the generated data -/
theorem width_rule_total (s : List Nat) : ∃ t, widthMappingRule s = .ok t := ⟨_, width_rule_eq s⟩

/-- non-vacuity: a string where the first mapped character follows a 3-byte character -/
example : widthMappingRule [0x65E5, 0xFF21, 0xB5, 0xFF76] = .ok [0x65E5, 0x41, 0xB5, 0x30AB] := by
  sorry

end Precis.C11
