/-
C11 — Width mapping replaces exactly the wide/narrow compatibility characters.
-/
import Precis.Model.Rules
import Precis.Spec.Rules
import Precis.Facts.Prof
import Precis.Lemmas.Utf8
import Precis.Lemmas.TableStep
namespace Precis.C11
open Precis Precis.Step

theorem width_toList : Gen.Prof.wideNarrowMapping.toList = Gen.Prof.wideNarrowMappingL := by
  simp [Gen.Prof.wideNarrowMapping]

theorem width_sorted :
    sortedTable (Gen.Prof.wideNarrowMapping.toList.map (·.1)) = true := by
  rw [width_toList]; exact Facts.sorted_width

set_option maxRecDepth 1000000 in
theorem width_fuel :
    (toStepV Gen.Prof.wideNarrowMappingL).length + Gen.Ucd16.widthStep.length ≤ 2000 := by
  decide +kernel

/-- the generated table, searched the way the library searches it, is the `<wide>`/`<narrow>`
decomposition data of UnicodeData 16.0.0 (independent parse), for every code point -/
theorem width_table_is_ucd16 (cp : Nat) :
    getDecompositionMapping cp = eval none Gen.Ucd16.widthStep cp := by
  unfold getDecompositionMapping
  rw [lookupVal_eq_eval _ width_sorted cp, width_toList]
  exact agree_eval 2000 _ _ _ _ width_fuel Facts.width_agree cp

theorem getDecomp_eq_lookupL (cp : Nat) :
    getDecompositionMapping cp = lookupL cp Gen.Prof.wideNarrowMappingL := by
  unfold getDecompositionMapping
  rw [lookupVal_eq_lookupL _ cp width_sorted, width_toList]

theorem lookupL_mem {V} (cp : Nat) (l : List (Cps × V)) (v : V) (h : lookupL cp l = some v) :
    ∃ e ∈ l, e.2 = v := by
  induction l with
  | nil => simp [lookupL] at h
  | cons x r ih =>
    obtain ⟨e, w⟩ := x
    simp only [lookupL] at h
    split at h
    · exact ⟨(e, w), by simp, by simpa using h⟩
    · obtain ⟨e', he', hv⟩ := ih h
      exact ⟨e', by simp [he'], hv⟩

/-- every value of the table is a scalar value and has no mapping itself -/
theorem getDecomp_value (c d : Nat) (h : getDecompositionMapping c = some d) :
    isScalar d = true ∧ getDecompositionMapping d = none := by
  rw [getDecomp_eq_lookupL] at h
  obtain ⟨e, he, hv⟩ := lookupL_mem _ _ _ h
  have := List.all_eq_true.mp Facts.width_values_ok e he
  rw [hv] at this
  rw [getDecomp_eq_lookupL]
  simpa using this

/-- what the loop does to one character -/
def widthMapChar (c : Nat) : Nat := (getDecompositionMapping c).getD c

theorem widthMapChar_eq (c : Nat) : widthMapChar c = Spec.widthMap16 c := by
  unfold widthMapChar Spec.widthMap16
  rw [width_table_is_ucd16]

/-! unfolding equations of the loop (the equation compiler's own lemmas cannot be generated: their
definitional check tries to evaluate the table search) -/
theorem widthLoop_nil (res : List Nat) : widthLoop [] res = .ok res := by rfl

set_option maxRecDepth 100000 in
theorem widthLoop_cons (c : Nat) (r res : List Nat) :
    widthLoop (c :: r) res =
      match getDecompositionMapping c with
      | some d => if isScalar d then widthLoop r (res ++ [d]) else .err .undefined
      | none => widthLoop r (res ++ [c]) := by rfl

theorem widthLoop_eq (suf pre : List Nat) :
    widthLoop suf pre = .ok (pre ++ suf.map widthMapChar) := by
  induction suf generalizing pre with
  | nil => rw [widthLoop_nil]; simp
  | cons c r ih =>
    rw [widthLoop_cons]
    cases h : getDecompositionMapping c with
    | none =>
      have : widthMapChar c = c := by unfold widthMapChar; rw [h]; rfl
      rw [ih, List.map_cons, this]; simp
    | some d =>
      have hs := (getDecomp_value c d h).1
      have : widthMapChar c = d := by unfold widthMapChar; rw [h]; rfl
      rw [List.map_cons, this]
      show (if isScalar d = true then widthLoop r (pre ++ [d]) else Res.err Err.undefined) = _
      rw [if_pos hs, ih]; simp

theorem map_id_of_no_mapping (l : List Nat) (h : ∀ c ∈ l, hasWidthMapping c = false) :
    l.map widthMapChar = l := by
  induction l with
  | nil => rfl
  | cons c r ih =>
    have hc := h c (by simp)
    unfold hasWidthMapping at hc
    have hc' : getDecompositionMapping c = none := by
      cases h' : getDecompositionMapping c with
      | none => rfl
      | some d => rw [h'] at hc; simp at hc
    have : widthMapChar c = c := by unfold widthMapChar; rw [hc']; rfl
    rw [List.map_cons, ih (fun x hx => h x (by simp [hx])), this]

theorem specWidth_eq_map (s : List Nat) : Spec.specWidth s = s.map widthMapChar := by
  unfold Spec.specWidth
  have : Spec.widthMap16 = widthMapChar := funext (fun c => (widthMapChar_eq c).symm)
  rw [this]

/-- the rule is `map` of the per-character mapping: position-independent, nothing else changes -/
theorem width_rule_eq (s : List Nat) : widthMappingRule s = .ok (Spec.specWidth s) := by
  unfold widthMappingRule
  rw [specWidth_eq_map]
  cases h : findByte hasWidthMapping s with
  | none =>
    have := (findByte_none_iff _ _).mp h
    simp only
    rw [map_id_of_no_mapping s this]
  | some pos =>
    obtain ⟨h1, h2⟩ := slice_at_find _ _ _ h
    simp only [h1, h2]
    rw [widthLoop_eq]
    have hpre : (s.takeWhile (fun c => !hasWidthMapping c)).map widthMapChar
        = s.takeWhile (fun c => !hasWidthMapping c) := by
      apply map_id_of_no_mapping
      intro c hc
      have := List.all_eq_true.mp (List.all_takeWhile (l := s) (p := fun c => !hasWidthMapping c)) c hc
      simpa using this
    conv => rhs; rw [← List.takeWhile_append_dropWhile (p := fun c => !hasWidthMapping c) (l := s)]
    rw [List.map_append, hpre]

/-- characters without a wide/narrow mapping (all other compatibility characters included) are kept -/
theorem width_keeps_others (s : List Nat) (i : Nat) (h : i < s.length)
    (hn : eval none Gen.Ucd16.widthStep s[i] = none) :
    ∃ h' : i < (Spec.specWidth s).length, (Spec.specWidth s)[i] = s[i] := by
  refine ⟨by simpa [Spec.specWidth] using h, ?_⟩
  simp [Spec.specWidth, Spec.widthMap16, hn]

theorem widthMap16_idem (c : Nat) : Spec.widthMap16 (Spec.widthMap16 c) = Spec.widthMap16 c := by
  rw [← widthMapChar_eq, ← widthMapChar_eq]
  cases h : getDecompositionMapping c with
  | none =>
    have : widthMapChar c = c := by unfold widthMapChar; rw [h]; rfl
    rw [this, this]
  | some d =>
    have h1 : widthMapChar c = d := by unfold widthMapChar; rw [h]; rfl
    have h2 : widthMapChar d = d := by unfold widthMapChar; rw [(getDecomp_value c d h).2]; rfl
    rw [h1, h2]

/-- applying the mapping twice equals applying it once -/
theorem width_idem (s : List Nat) : Spec.specWidth (Spec.specWidth s) = Spec.specWidth s := by
  simp [Spec.specWidth, widthMap16_idem]

theorem width_rule_idem (s t : List Nat) (h : widthMappingRule s = .ok t) : widthMappingRule t = .ok t := by
  rw [width_rule_eq] at h
  injection h with h
  subst h
  rw [width_rule_eq, width_idem]

/-- never a panic, never the typed `Undefined` error on the generated data -/
theorem width_rule_total (s : List Nat) : ∃ t, widthMappingRule s = .ok t := ⟨_, width_rule_eq s⟩

set_option maxRecDepth 1000000 in
/-- non-vacuity: a string where the first mapped character follows a 3-byte character -/
example : widthMappingRule [0x65E5, 0xFF21, 0xB5, 0xFF76] = .ok [0x65E5, 0x41, 0xB5, 0x30AB] := by
  rw [width_rule_eq]; decide +kernel

end Precis.C11
