/-
C12 — Space rules map, trim and collapse spaces without touching anything else.
-/
import Precis.Model.Rules
import Precis.Spec.Rules
import Precis.Facts.Prof
import Precis.Lemmas.Utf8
import Precis.Lemmas.TableStep
import Precis.Lemmas.SpacesAux
namespace Precis.C12
open Precis Precis.Step Precis.SpacesAux

/-- the generated Zs table is General_Category = Zs of UnicodeData 16.0.0, for every code point -/
theorem zs_table_is_ucd16 (c : Nat) : isSpaceSeparator c = Spec.zs16 c :=
  isSpaceSeparator_eq c

/-- Nickname additional mapping = collapse ∘ strip ∘ (Zs ↦ U+0020), for every string -/
theorem nick_spaces_eq (s : List Nat) : trimSpaces s = .ok (Spec.specSpaces s) :=
  trimSpaces_eq s

/-- all non-space characters are kept, in order, whatever their encoded length -/
theorem nick_spaces_keep (s : List Nat) :
    (Spec.specSpaces s).filter (fun c => !Spec.zs16 c) = s.filter (fun c => !Spec.zs16 c) := by
  have hq : (fun c => !Spec.zs16 c) 0x20 = false := by simp [zs16_space]
  unfold Spec.specSpaces
  rw [filter_collapse _ hq, filter_strip _ hq, filter_mapSpaces]

/-- the result has no leading / trailing space, no two adjacent spaces, and no non-ASCII space -/
theorem nick_spaces_shape (s : List Nat) :
    (Spec.specSpaces s).head? ≠ some 0x20 ∧ (Spec.specSpaces s).getLast? ≠ some 0x20 ∧
    (∀ i, (h : i + 1 < (Spec.specSpaces s).length) →
        ¬ ((Spec.specSpaces s)[i] = 0x20 ∧ (Spec.specSpaces s)[i + 1] = 0x20)) ∧
    (∀ c ∈ Spec.specSpaces s, Spec.zs16 c = true → c = 0x20) := by
  obtain ⟨h1, h2, h3, h4⟩ := specSpaces_shape s
  exact ⟨h1, h2, fun i h => noAdj_getElem _ h3 i h, h4⟩

theorem nick_spaces_idem (s : List Nat) : Spec.specSpaces (Spec.specSpaces s) = Spec.specSpaces s := by
  obtain ⟨h1, h2, h3, h4⟩ := specSpaces_shape s
  exact specSpaces_fixed _ h1 h2 h3 h4

/-- OpaqueString additional mapping = map (non-ASCII Zs ↦ U+0020), nothing else changes -/
theorem opaque_map_eq (s : List Nat) : opaqueAdditionalMappingRule s = .ok (Spec.specOpaqueMap s) := by
  have hf : ∀ c, (if isNonAsciiSpace c = true then 0x20 else c) = opaqueF c := by
    intro c; simp only [opaqueF, isNonAsciiSpace_eq]
  unfold opaqueAdditionalMappingRule
  cases hfind : findByte isNonAsciiSpace s with
  | none =>
    rw [findByte_none_iff] at hfind
    simp only
    rw [specOpaqueMap_eq, map_opaqueF_of_none s (fun c hc => by rw [← isNonAsciiSpace_eq]; exact hfind c hc)]
  | some pos =>
    obtain ⟨h1, h2⟩ := slice_at_find _ _ _ hfind
    simp only [h1, h2]
    rw [specOpaqueMap_eq]
    conv => rhs; rw [← List.takeWhile_append_dropWhile (p := fun c => !isNonAsciiSpace c) (l := s)]
    rw [List.map_append, map_opaqueF_of_none (s.takeWhile fun c => !isNonAsciiSpace c)]
    · simp only [hf]
    · intro c hc
      have hall := List.all_takeWhile (p := fun c => !isNonAsciiSpace c) (l := s)
      have := List.all_eq_true.mp hall c hc
      rw [← isNonAsciiSpace_eq]; simpa using this

theorem opaque_map_preserves (s : List Nat) (i : Nat) (h : i < s.length)
    (hn : ¬ (Spec.zs16 s[i] = true ∧ s[i] ≠ 0x20)) :
    ∃ h' : i < (Spec.specOpaqueMap s).length, (Spec.specOpaqueMap s)[i] = s[i] := by
  refine ⟨by simpa [Spec.specOpaqueMap] using h, ?_⟩
  simp only [Spec.specOpaqueMap, List.getElem_map]
  rw [if_neg]
  intro hc
  apply hn
  simpa using hc

theorem opaque_map_idem (s : List Nat) : Spec.specOpaqueMap (Spec.specOpaqueMap s) = Spec.specOpaqueMap s := by
  simp only [specOpaqueMap_eq, List.map_map]
  apply List.map_congr_left
  intro c _
  simp only [Function.comp, opaqueF]
  split
  · simp
  · rfl

/-- neither rule can panic (no slice inside a multi-byte character) -/
theorem space_rules_total (s : List Nat) :
    (∃ t, trimSpaces s = .ok t) ∧ (∃ t, opaqueAdditionalMappingRule s = .ok t) :=
  ⟨⟨_, nick_spaces_eq s⟩, ⟨_, opaque_map_eq s⟩⟩

/-- non-vacuity: interior non-ASCII space after a 2-byte character, trailing space after a 3-byte one -/
example : trimSpaces [0xE9, 0xA0, 0x65E5, 0x20] = .ok [0xE9, 0x20, 0x65E5] := by
  rw [nick_spaces_eq]; decide +kernel

end Precis.C12
