/-
C12 — Space rules map, trim and collapse spaces without touching anything else.
-/
import Precis.Model.Rules
import Precis.Spec.Rules
import Precis.Facts.Prof
import Precis.Lemmas.Utf8
import Precis.Lemmas.TableStep
namespace Precis.C12
open Precis Precis.Step

/-- the generated Zs table is General_Category = Zs of UnicodeData 16.0.0, for every code point -/
theorem zs_table_is_ucd16 (c : Nat) : isSpaceSeparator c = Spec.zs16 c := by
  sorry

/-- Nickname additional mapping = collapse ∘ strip ∘ (Zs ↦ U+0020), for every string -/
theorem nick_spaces_eq (s : List Nat) : trimSpaces s = .ok (Spec.specSpaces s) := by
  sorry

/-- all non-space characters are kept, in order, whatever their encoded length -/
theorem nick_spaces_keep (s : List Nat) :
    (Spec.specSpaces s).filter (fun c => !Spec.zs16 c) = s.filter (fun c => !Spec.zs16 c) := by
  sorry

/-- the result has no leading / trailing space, no two adjacent spaces, and no non-ASCII space -/
theorem nick_spaces_shape (s : List Nat) :
    (Spec.specSpaces s).head? ≠ some 0x20 ∧ (Spec.specSpaces s).getLast? ≠ some 0x20 ∧
    (∀ i, (h : i + 1 < (Spec.specSpaces s).length) →
        ¬ ((Spec.specSpaces s)[i] = 0x20 ∧ (Spec.specSpaces s)[i + 1] = 0x20)) ∧
    (∀ c ∈ Spec.specSpaces s, Spec.zs16 c = true → c = 0x20) := by
  sorry

theorem nick_spaces_idem (s : List Nat) : Spec.specSpaces (Spec.specSpaces s) = Spec.specSpaces s := by
  sorry

/-- OpaqueString additional mapping = map (non-ASCII Zs ↦ U+0020), nothing else changes -/
theorem opaque_map_eq (s : List Nat) : opaqueAdditionalMappingRule s = .ok (Spec.specOpaqueMap s) := by
  sorry

theorem opaque_map_preserves (s : List Nat) (i : Nat) (h : i < s.length)
    (hn : ¬ (Spec.zs16 s[i] = true ∧ s[i] ≠ 0x20)) :
    ∃ h' : i < (Spec.specOpaqueMap s).length, (Spec.specOpaqueMap s)[i] = s[i] := by
  sorry

theorem opaque_map_idem (s : List Nat) : Spec.specOpaqueMap (Spec.specOpaqueMap s) = Spec.specOpaqueMap s := by
  sorry

/-- neither rule can panic (no slice inside a multi-byte character) -/
theorem space_rules_total (s : List Nat) :
    (∃ t, trimSpaces s = .ok t) ∧ (∃ t, opaqueAdditionalMappingRule s = .ok t) :=
  ⟨⟨_, nick_spaces_eq s⟩, ⟨_, opaque_map_eq s⟩⟩

/-- non-vacuity: interior non-ASCII space after a 2-byte character, trailing space after a 3-byte one -/
example : trimSpaces [0xE9, 0xA0, 0x65E5, 0x20] = .ok [0xE9, 0x20, 0x65E5] := by
  sorry

end Precis.C12
