/-
C04 — Username profiles apply RFC 8265 rules, all of them, in the specified order.
The pipeline is stated with the specification of each step (C11 width map, C10 lowercase map,
C09 directionality); validation is `allows` of IdentifierClass (C02/C03/C14) and NFC is the model of
the external normalizer.  Both profiles share `Username.prepare`; `mapped = true` is UsernameCaseMapped.
-/
import Precis.Model.Profiles
import Precis.Props.C09
import Precis.Props.C10
import Precis.Props.C11
namespace Precis.C04
open Precis Precis.Spec

/-- directionality step, by its exact characterisation (C09) -/
def dirStep (s : List Nat) : Res (List Nat) :=
  let cs := s.map Spec.bidi16
  if !cs.any Spec.isRtlTrigger then .ok s
  else if Spec.bidiRule cs && !Spec.interiorNsm cs then .ok s else .err .invalid

/-- RFC 8265 §3.3.2/§3.4.2 preparation: width mapping, non-empty, IdentifierClass -/
def specPrepare (s : List Nat) : Res (List Nat) :=
  let w := Spec.specWidth s
  if w = [] then .err .invalid
  else match allows (derivedProp .identifier) w with
    | .ok () => .ok w
    | .err e => .err e
    | .panic => .panic

/-- enforcement: prepare, then (case-mapped profile only) lowercase, NFC, non-empty, directionality —
in this order, nothing else -/
def specEnforce (mapped : Bool) (s : List Nat) : Res (List Nat) :=
  match specPrepare s with
  | .ok w =>
    let c := if mapped then Spec.specCase w else w
    let n := nfc c
    if n = [] then .err .invalid else dirStep n
  | .err e => .err e
  | .panic => .panic

theorem nonEmpty_eq (s : List Nat) : nonEmpty s = if s = [] then .err .invalid else .ok s := by
  cases s <;> simp [nonEmpty]

theorem normNfc_eq (s : List Nat) : normalizationFormNfc s = .ok (nfc s) := by
  unfold normalizationFormNfc
  split
  · rename_i h; simp at h; rw [h]
  · rfl

theorem prepare_eq (s : List Nat) : Username.prepare s = specPrepare s := by
  simp only [Username.prepare, specPrepare, bind, Res.bind, C11.width_rule_eq, nonEmpty_eq, pure]
  by_cases h : Spec.specWidth s = []
  · simp [h]
  · simp only [h, if_false]
    cases allows (derivedProp .identifier) (Spec.specWidth s) <;> rfl

theorem dir_eq (s : List Nat) : directionalityRule s = dirStep s := C09.dir_rule_exact s

/-- UsernameCaseMapped (`mapped = true`) and UsernameCasePreserved (`mapped = false`) -/
theorem enforce_eq (mapped : Bool) (s : List Nat) : Username.enforce mapped s = specEnforce mapped s := by
  simp only [Username.enforce, specEnforce, bind, Res.bind, prepare_eq]
  cases specPrepare s with
  | ok w =>
    cases mapped
    · simp only [pure, normNfc_eq, nonEmpty_eq, dir_eq, Bool.false_eq_true, if_false]
      by_cases h : nfc w = [] <;> simp [h]
    · simp only [C10.case_rule_eq, normNfc_eq, nonEmpty_eq, dir_eq, if_true]
      by_cases h : nfc (Spec.specCase w) = [] <;> simp [h]
  | err e => rfl
  | panic => rfl

/-- every failure of prepare is also the result of enforce -/
theorem prepare_err_is_enforce_err (mapped : Bool) (s : List Nat) (e : Err)
    (h : Username.prepare s = .err e) : Username.enforce mapped s = .err e := by
  rw [enforce_eq]; rw [prepare_eq] at h; simp [specEnforce, h]

/-- on labels without an interior NSM the last step is the RFC 5893 rule itself (C09 layer 2) -/
theorem dirStep_is_rfc (s : List Nat) (h : Spec.interiorNsm (s.map Spec.bidi16) = false) :
    dirStep s = Spec.specDirectionality Spec.bidi16 s := by
  rw [← dir_eq]; exact C09.dir_rule_eq_rfc_partial s h

/-- prepare changes nothing but the wide/narrow characters -/
theorem prepare_ok_is_width (s w : List Nat) (h : Username.prepare s = .ok w) : w = Spec.specWidth s := by
  rw [prepare_eq] at h
  simp only [specPrepare] at h
  split at h
  · simp at h
  · cases hh : allows (derivedProp .identifier) (Spec.specWidth s) <;> simp [hh] at h
    exact h.symm

end Precis.C04
