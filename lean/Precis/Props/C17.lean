/-
C17 — The PRECIS registry CSV parser reads back exactly what a row says.
-/
import Precis.Model.Csv
import Precis.Spec.Csv
import Precis.Lemmas.CsvAux
namespace Precis.C17
open Precis Precis.Csv Precis.Spec.Csv Precis.CsvAux

/-- completeness: every well-formed row, rendered with any digit counts and any description
(commas included), parses to exactly that row -/
theorem parse_render (r : Row) (k1 k2 : Nat) (h : WF r k1 k2) :
    parseLine (render r k1 k2) = some r := by
  obtain ⟨cps, props, desc⟩ := r
  have hc : parseCodepoints (renderCps cps k1 k2) = some cps := parseCodepoints_render cps k1 k2 h
  have hcomma : ∀ c ∈ renderCps cps k1 k2, c ≠ 0x2C := by
    cases cps with
    | single n => exact hexFixed_ne_comma n k1
    | range a b =>
      intro c hc
      simp only [renderCps, List.mem_append, List.mem_singleton] at hc
      rcases hc with (hc | hc) | hc
      · exact hexFixed_ne_comma a k1 c hc
      · subst hc; decide
      · exact hexFixed_ne_comma b k2 c hc
  unfold parseLine render
  simp only []
  rw [splitn3_render _ _ _ hcomma (renderProps_ne_comma props)]
  simp only [hc, parseProps_render]

/-- a row with a missing field (fewer than two commas) is an error -/
theorem parse_missing_field (line : List Nat) (h : (line.filter (· == 0x2C)).length < 2) :
    parseLine line = none := by
  unfold parseLine
  cases hs : splitn3 line with
  | none => rfl
  | some t =>
    obtain ⟨f1, f2, f3⟩ := t
    obtain ⟨e, _, _⟩ := splitn3_some line f1 f2 f3 hs
    rw [e] at h
    simp only [List.filter_append, List.length_append] at h
    have : (List.filter (· == 0x2C) [(0x2C : Nat)]).length = 1 := by decide
    omega

/-- soundness of the property field: whatever is accepted is one of the seven names, or two of them
joined by white space, "or", white space (and containing " or ") — nothing else -/
theorem parseProps_sound (s : List Nat) (ps : Props) (h : parseProps s = some ps) :
    match ps with
    | .single p => s = propName p
    | .tuple p q => ∃ w1 w2, w1 ≠ [] ∧ w2 ≠ [] ∧ w1.all isWhite = true ∧ w2.all isWhite = true ∧
        s = propName p ++ w1 ++ [0x6F, 0x72] ++ w2 ++ propName q := by
  unfold parseProps at h
  split at h
  · split at h
    · cases h
    · rename_i a b hm
      split at h
      · rename_i p q hp hq
        injection h with h
        subst h
        obtain ⟨w1, w2, g1, g2, g3, g4, g5⟩ := matchTuple_some s a b hm
        have ea := parseProp_sound a p hp
        have eb := parseProp_sound b q hq
        subst ea; subst eb
        exact ⟨w1, w2, g1, g2, g3, g4, g5⟩
      · cases h
  · cases hp : parseProp s with
    | none => rw [hp] at h; cases h
    | some p =>
      rw [hp] at h
      injection h with h
      subst h
      exact parseProp_sound s p hp

/-- soundness of the code point field: a single code point is accepted only if the field is a
non-empty string of hexadecimal digits (no sign, no other character) whose value it is, at most U+10FFFF;
a range only if it is two such strings (upper-case) joined by '-' -/
theorem parseCodepoints_sound (s : List Nat) (c : Cps) (h : parseCodepoints s = some c) :
    match c with
    | .single n => s ≠ [] ∧ s.all isHexDigit = true ∧ hexValue s = some n ∧ n ≤ 0x10FFFF
    | .range a b => ∃ x y, s = x ++ [0x2D] ++ y ∧ x ≠ [] ∧ y ≠ [] ∧ x.all isHexDigit = true ∧
        y.all isHexDigit = true ∧ hexValue x = some a ∧ hexValue y = some b ∧ a ≤ 0x10FFFF ∧ b ≤ 0x10FFFF := by
  unfold parseCodepoints at h
  split at h
  · unfold parseRange at h
    split at h
    · cases h
    · rename_i x y hm
      obtain ⟨e, hx, hy, ax, ay⟩ := matchRange_some s x y hm
      split at h
      · rename_i a b ha hb
        injection h with h
        subst h
        have hhx : ∀ c r, x = c :: r → c ≠ 0x2B ∧ c ≠ 0x2D := by
          intro c r hc; exact isAZ09_ne c (ax c (by rw [hc]; simp))
        have hhy : ∀ c r, y = c :: r → c ≠ 0x2B ∧ c ≠ 0x2D := by
          intro c r hc; exact isAZ09_ne c (ay c (by rw [hc]; simp))
        obtain ⟨_, x2, x3, x4⟩ := parseCodepoint_sound x a hhx ha
        obtain ⟨_, y2, y3, y4⟩ := parseCodepoint_sound y b hhy hb
        exact ⟨x, y, e, hx, hy, x2, y2, x3, y3, x4, y4⟩
      · cases h
  · split at h
    · rename_i hall
      cases hp : parseCodepoint s with
      | none => rw [hp] at h; cases h
      | some n =>
        rw [hp] at h
        injection h with h
        subst h
        have hh : ∀ c r, s = c :: r → c ≠ 0x2B ∧ c ≠ 0x2D := by
          intro c r hc
          exact hexDigit_ne c (forall_of_all _ _ hall c (by rw [hc]; simp))
        exact parseCodepoint_sound s n hh hp
    · cases h

/-- soundness of the whole row: an accepted line is `field1,field2,description` with the description
returned verbatim (up to the end of the line, terminator included) -/
theorem parseLine_sound (line : List Nat) (r : Row) (h : parseLine line = some r) :
    ∃ f1 f2, line = f1 ++ [0x2C] ++ f2 ++ [0x2C] ++ r.desc ∧ (∀ c ∈ f1, c ≠ 0x2C) ∧ (∀ c ∈ f2, c ≠ 0x2C) ∧
      parseCodepoints f1 = some r.cps ∧ parseProps f2 = some r.props := by
  unfold parseLine at h
  split at h
  · cases h
  · rename_i f1 f2 f3 hs
    split at h
    · cases h
    · rename_i cps hc
      split at h
      · cases h
      · rename_i props hp
        injection h with h
        subst h
        obtain ⟨e, c1, c2⟩ := splitn3_some line f1 f2 f3 hs
        exact ⟨f1, f2, e, c1, c2, hc, hp⟩

/-- a malformed code point field is an error: a sign is not accepted -/
theorem plus_sign_rejected (s : List Nat) : parseCodepoints (0x2B :: s) = none := by
  unfold parseCodepoints
  split
  · unfold parseRange matchRange
    have : isAZ09 0x2B = false := by decide
    simp [this]
  · have : isHexDigit 0x2B = false := by decide
    simp [this]

/-- the header line is skipped; one item per data line, in file order; an error carries the 1-based
number of its line -/
theorem parseFile_items (content : List Nat) :
    (parseFile content).length = (lines content []).length - 1 ∧
    ∀ i (h : i < (parseFile content).length),
      ∃ l, (lines content [])[i + 1]? = some l ∧
        (parseFile content)[i] = (match parseLine l with | some r => Item.ok r | none => Item.err (i + 2)) := by
  unfold parseFile
  refine ⟨by simp, ?_⟩
  intro i h
  have hlen : i + 1 < (lines content []).length := by
    simp at h; omega
  refine ⟨(lines content [])[i + 1], by simp [hlen], ?_⟩
  simp only [List.getElem_mapIdx, List.getElem_drop, Nat.add_comm 1 i]
  rfl

/-- non-vacuity -/
example : parseLine (ofStr "0020,ID_DIS or FREE_PVAL,SPACE, with comma\n")
    = some ⟨.single 0x20, .tuple .idDis .freePval, ofStr "SPACE, with comma\n"⟩ := by decide

example : parseLine (ofStr "+0041,PVALID,x") = none := by decide

end Precis.C17
