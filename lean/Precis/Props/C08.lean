/-
C08 — Enforced output has no universally forbidden code points and never drifts.

Proved here:
* `nick_no_forbidden`, `op_no_forbidden`, `up_no_forbidden` (full strength): no code point of an
  accepted result is DISALLOWED or UNASSIGNED in the profile's own class;
* `um_no_forbidden_partial`: the same for UsernameCaseMapped on inputs without a character whose
  lowercase image is forbidden.  The excluded set is COMPUTED by the kernel from the regenerated
  tables (`Facts.lower_bad_id`): exactly the Cherokee letters U+13A0..U+13F4, which the toolchain's
  Unicode 17 case tables map to code points the 6.3.0 validity tables call UNASSIGNED
  (known finding `cherokee-lowercase`; the full-strength statement is false of the code);
* `nick_no_drift` (full strength): re-enforcing an accepted nickname returns it unchanged.
For the other profiles "never drifts" additionally needs idempotence of the external normalizer; it is
checked by re-enforcing every output in the correspondence run (see DESIGN.md §6 C08).
-/
import Precis.Props.C02
import Precis.Props.C04
import Precis.Props.C05
import Precis.Props.C06
import Precis.Props.C14
import Precis.Lemmas.NfcClosure
import Precis.Facts.ForbId
import Precis.Facts.ForbFf
namespace Precis.C08
open Precis Precis.Spec Precis.Facts Precis.Gen.Forb Precis.Gen.Norm Precis.Gen.Std

/-- DISALLOWED or UNASSIGNED in the class -/
def Forb (cls : Cls) (c : Nat) : Bool :=
  derivedProp cls c == .disallowed || derivedProp cls c == .unassigned

def forbL : Cls → List Cps
  | .identifier => forbIdL
  | .freeform => forbFfL

/-- a code point of Unicode that the class does not forbid -/
def allowed (cls : Cls) (c : Nat) : Bool := decide (c < 0x110000) && !(bitsOf (forbL cls)).testBit c

theorem forb_bit (cls : Cls) (c : Nat) (h : c < 0x110000) : (bitsOf (forbL cls)).testBit c = Forb cls c := by
  cases cls
  · exact forb_id_bit c h
  · exact forb_ff_bit c h

theorem allowed_iff (cls : Cls) (c : Nat) : allowed cls c = true ↔ c < 0x110000 ∧ Forb cls c = false := by
  unfold allowed
  by_cases h : c < 0x110000
  · simp [h, forb_bit cls c h]
  · simp [h]

theorem nfcClosed (cls : Cls) : NfcClosed (allowed cls) := by
  have hn := norm_tables_ok
  simp only [normTablesOk, Bool.and_eq_true, List.all_eq_true, decide_eq_true_eq, Bool.not_eq_true'] at hn
  obtain ⟨⟨⟨_, hcomp⟩, hcanon⟩, hcompv⟩ := hn
  have hd : decompClosed (forbL cls) = true := by cases cls; exact decomp_closed_id; exact decomp_closed_ff
  have hc : compClosed (forbL cls) = true := by cases cls; exact comp_closed_id; exact comp_closed_ff
  have hh : hangulOk (forbL cls) = true := by cases cls; exact hangul_ok_id; exact hangul_ok_ff
  simp only [decompClosed, List.all_eq_true, Bool.or_eq_true, Bool.not_eq_true'] at hd
  simp only [compClosed, List.all_eq_true, Bool.or_eq_true, Bool.not_eq_true'] at hc
  simp only [hangulOk, Bool.and_eq_true] at hh
  constructor
  · intro e he hs x hx
    simp only [allowed, Bool.and_eq_true, decide_eq_true_eq, Bool.not_eq_true'] at hs ⊢
    have hb := (hcanon e he).2 x hx
    refine ⟨hb.2, ?_⟩
    rcases hd e he with h1 | h1
    · rw [hs.2] at h1; cases h1
    · exact h1 x hx
  · intro e he ha hb
    simp only [allowed, Bool.and_eq_true, decide_eq_true_eq, Bool.not_eq_true'] at ha hb ⊢
    refine ⟨hcompv e he, ?_⟩
    rcases hc e he with (h1 | h1) | h1
    · rw [ha.2] at h1; cases h1
    · rw [hb.2] at h1; cases h1
    · exact h1
  · intro c hc'
    simp only [isSyllable, Bool.and_eq_true, decide_eq_true_eq] at hc'
    have := Step.allBelow_sound _ _ hh.1 (c - 0xAC00) (by omega)
    simp only [Bool.not_eq_true'] at this
    have e : 0xAC00 + (c - 0xAC00) = c := by omega
    rw [e] at this
    simp only [allowed, Bool.and_eq_true, decide_eq_true_eq, Bool.not_eq_true']
    exact ⟨by omega, this⟩
  · intro c hc'
    have hlt : c - 0x1100 < 256 := by
      simp only [isJamoLVT, Bool.or_eq_true, Bool.and_eq_true, decide_eq_true_eq] at hc'; omega
    have hge : 0x1100 ≤ c := by
      simp only [isJamoLVT, Bool.or_eq_true, Bool.and_eq_true, decide_eq_true_eq] at hc'; omega
    have := Step.allBelow_sound _ _ hh.2 (c - 0x1100) hlt
    have e : 0x1100 + (c - 0x1100) = c := by omega
    rw [e, hc'] at this
    simp only [Bool.not_true, Bool.false_or] at this
    simp [allowed, this]

theorem allowed_lt (cls : Cls) (c : Nat) (h : allowed cls c = true) : c < 0x110000 :=
  ((allowed_iff cls c).mp h).1

/-- NFC of a string of allowed code points consists of allowed code points -/
theorem nfc_allowed (cls : Cls) (s : List Nat) (hs : ∀ c ∈ s, allowed cls c = true) :
    ∀ c ∈ nfc s, allowed cls c = true :=
  nfc_closed (allowed cls) (nfcClosed cls) norm_tables_ok canon_sorted comp_sorted ccc_sorted
    (allowed_lt cls) s hs

/-- a string the class accepts consists of allowed code points -/
theorem valid_allowed (cls : Cls) (label : List Nat) (h : allows (derivedProp cls) label = .ok ()) :
    ∀ c ∈ label, allowed cls c = true := by
  intro c hc
  obtain ⟨i, hi, rfl⟩ := List.getElem_of_mem hc
  obtain ⟨_, hok⟩ := (C02.allows_ok_iff (derivedProp cls) label).mp h i hi
  have hnf : Forb cls label[i] = false := by
    unfold Forb
    rcases hok with h1 | h1 | ⟨h1 | h1, _⟩ <;> simp [h1]
  have hsc : isScalar label[i] = true := by
    cases hs : isScalar label[i] with
    | true => rfl
    | false =>
      have := C14.non_scalar_invalid cls label[i] hs
      simp [Forb, this] at hnf
  have hlt : label[i] < 0x110000 := by
    simp only [isScalar, Bool.or_eq_true, decide_eq_true_eq, Bool.and_eq_true] at hsc; omega
  exact (allowed_iff cls _).mpr ⟨hlt, hnf⟩

theorem allowed_not_forb (cls : Cls) (c : Nat) (h : allowed cls c = true) : Forb cls c = false :=
  ((allowed_iff cls c).mp h).2

/-! ### Nickname: every accepted result is re-validated, hence clean; and it is a fixed point -/

theorem nick_no_forbidden (s e : List Nat) (h : Nickname.enforce s = .ok e) :
    ∀ c ∈ e, Forb .freeform c = false := by
  have hfix := (C06.enforce_fixed_point s e h).1
  have hp := (C06.fixed_point_shape e hfix).1
  intro c hc
  apply allowed_not_forb
  apply valid_allowed .freeform e _ c hc
  simp only [C05.specPrepare] at hp
  split at hp
  · cases hp
  · cases ha : allows (derivedProp .freeform) e with
    | ok u => rfl
    | err x => simp [ha] at hp
    | panic => simp [ha] at hp

/-- enforcing an accepted nickname again returns it unchanged -/
theorem nick_no_drift (s e : List Nat) (h : Nickname.enforce s = .ok e) : Nickname.enforce e = .ok e := by
  have hfix := (C06.enforce_fixed_point s e h).1
  exact C06.enforce_accepts e e 0 (by omega) rfl hfix (by intro j hj; omega)

/-! ### OpaqueString -/

theorem op_no_forbidden (s e : List Nat) (h : Opaque.enforce s = .ok e) :
    ∀ c ∈ e, Forb .freeform c = false := by
  rw [C05.enforce_eq] at h
  simp only [C05.specEnforce] at h
  cases hp : C05.specPrepare s with
  | ok w =>
    simp only [hp] at h
    split at h
    · cases h
    · cases h
      have hw : ∀ c ∈ w, allowed .freeform c = true := by
        apply valid_allowed .freeform w
        simp only [C05.specPrepare] at hp
        split at hp
        · cases hp
        · cases ha : allows (derivedProp .freeform) s with
          | ok u => simp only [ha] at hp; cases hp; exact ha
          | err x => simp [ha] at hp
          | panic => simp [ha] at hp
      have hm : ∀ c ∈ Spec.specOpaqueMap w, allowed .freeform c = true := by
        intro c hc
        simp only [Spec.specOpaqueMap, List.mem_map] at hc
        obtain ⟨x, hx, rfl⟩ := hc
        split
        · simp only [allowed, forbL, space_allowed_ff]; decide
        · exact hw x hx
      intro c hc
      exact allowed_not_forb _ c (nfc_allowed .freeform _ hm c hc)
  | err x => simp [hp] at h
  | panic => simp [hp] at h

/-! ### usernames -/

theorem prepare_allowed (s w : List Nat) (h : C04.specPrepare s = .ok w) :
    ∀ c ∈ w, allowed .identifier c = true := by
  simp only [C04.specPrepare] at h
  split at h
  · cases h
  · cases ha : allows (derivedProp .identifier) (Spec.specWidth s) with
    | ok u => simp only [ha] at h; cases h; exact valid_allowed .identifier _ ha
    | err x => simp [ha] at h
    | panic => simp [ha] at h

theorem dirStep_ok (n e : List Nat) (h : C04.dirStep n = .ok e) : e = n := by
  simp only [C04.dirStep] at h
  split at h
  · cases h; rfl
  · split at h
    · cases h; rfl
    · cases h

theorem up_no_forbidden (s e : List Nat) (h : Username.enforce false s = .ok e) :
    ∀ c ∈ e, Forb .identifier c = false := by
  rw [C04.enforce_eq] at h
  simp only [C04.specEnforce] at h
  cases hp : C04.specPrepare s with
  | ok w =>
    simp only [hp, Bool.false_eq_true, if_false] at h
    split at h
    · cases h
    · have := dirStep_ok _ _ h
      subst this
      intro c hc
      exact allowed_not_forb _ c (nfc_allowed .identifier _ (prepare_allowed s w hp) c hc)
  | err x => simp [hp] at h
  | panic => simp [hp] at h

/-- lowercase images of allowed characters outside the computed exceptional set are allowed -/
theorem lower_allowed (x : Nat) (hx : allowed .identifier x = true) (hk : x ∉ lowerBad forbIdL) :
    ∀ y ∈ Spec.lowerFull x, allowed .identifier y = true := by
  intro y hy
  simp only [Spec.lowerFull] at hy
  cases hl : toLowerTabL.lookup x with
  | none => simp only [hl, Option.getD_none, List.mem_singleton] at hy; subst hy; exact hx
  | some v =>
    simp only [hl, Option.getD_some] at hy
    have hmem : (x, v) ∈ toLowerTabL := NfcAux.mem_of_lookup _ _ _ hl
    have hb := lower_images_bounded
    simp only [List.all_eq_true, decide_eq_true_eq] at hb
    have hylt := hb (x, v) hmem y hy
    simp only [allowed, forbL, Bool.and_eq_true, decide_eq_true_eq, Bool.not_eq_true'] at hx ⊢
    refine ⟨hylt, ?_⟩
    cases hbit : (bitsOf forbIdL).testBit y with
    | false => rfl
    | true =>
      exfalso
      apply hk
      simp only [lowerBad, List.mem_map, List.mem_filter, Bool.and_eq_true, Bool.not_eq_true',
        List.any_eq_true]
      exact ⟨(x, v), ⟨hmem, hx.2, y, hy, hbit⟩, rfl⟩

/-- UsernameCaseMapped, for inputs without a character whose lowercase image is forbidden -/
theorem um_no_forbidden_partial (s e : List Nat) (h : Username.enforce true s = .ok e)
    (hk : ∀ c ∈ Spec.specWidth s, c ∉ lowerBad forbIdL) : ∀ c ∈ e, Forb .identifier c = false := by
  rw [C04.enforce_eq] at h
  simp only [C04.specEnforce] at h
  cases hp : C04.specPrepare s with
  | ok w =>
    simp only [hp, if_true] at h
    have hw := C04.prepare_ok_is_width s w (by rw [C04.prepare_eq]; exact hp)
    split at h
    · cases h
    · have := dirStep_ok _ _ h
      subst this
      have hc : ∀ c ∈ Spec.specCase w, allowed .identifier c = true := by
        intro c hc
        simp only [Spec.specCase, List.mem_flatMap] at hc
        obtain ⟨x, hx, hcx⟩ := hc
        exact lower_allowed x (prepare_allowed s w hp x hx) (hk x (hw ▸ hx)) c hcx
      intro c hcm
      exact allowed_not_forb _ c (nfc_allowed .identifier _ hc c hcm)
  | err x => simp [hp] at h
  | panic => simp [hp] at h

/-- the exceptional set, as computed from the regenerated tables: the 85 Cherokee letters -/
theorem exceptional_set : lowerBad forbIdL = (List.range 85).map (· + 0x13A0) := lower_bad_id

end Precis.C08
