/-
C05, second file — the remaining clauses of the statement spelled out as theorems about the model:
the space mapping is length- and position-preserving, writes U+0020 exactly at the non-ASCII spaces and
leaves none behind; an accepted enforce implies an accepted prepare of the same string; the result of
enforce is never empty; prepare and enforce reject the empty string.
-/
import Precis.Props.C05
namespace Precis.C05
open Precis Precis.Spec

/-- the space mapping replaces characters one for one: no character is inserted or dropped -/
theorem opaque_map_length (s : List Nat) : (Spec.specOpaqueMap s).length = s.length := by
  simp [Spec.specOpaqueMap]

/-- every non-ASCII space, in every position, becomes U+0020 -/
theorem opaque_map_space (s : List Nat) (i : Nat) (h : i < s.length)
    (hz : Spec.zs16 s[i] = true ∧ s[i] ≠ 0x20) :
    (Spec.specOpaqueMap s)[i]'(by rw [opaque_map_length]; exact h) = 0x20 := by
  simp [Spec.specOpaqueMap, hz.1, hz.2]

/-- pointwise description of the mapping, both cases at once -/
theorem opaque_map_getElem (s : List Nat) (i : Nat) (h : i < s.length) :
    (Spec.specOpaqueMap s)[i]'(by rw [opaque_map_length]; exact h) =
      if Spec.zs16 s[i] = true ∧ s[i] ≠ 0x20 then 0x20 else s[i] := by
  by_cases hz : Spec.zs16 s[i] = true ∧ s[i] ≠ 0x20
  · rw [if_pos hz]; exact opaque_map_space s i h hz
  · rw [if_neg hz]
    obtain ⟨_, h2⟩ := enforce_only_maps_spaces s i h hz
    exact h2

/-- U+0020 is a space separator of the pinned data (so the mapping's image of a space is a space) -/
theorem zs16_space : Spec.zs16 0x20 = true := by decide +kernel

/-- after the mapping no non-ASCII space is left, whatever the input -/
theorem opaque_map_no_nonascii_space (s : List Nat) :
    ∀ c ∈ Spec.specOpaqueMap s, ¬ (Spec.zs16 c = true ∧ c ≠ 0x20) := by
  intro c hc
  simp only [Spec.specOpaqueMap, List.mem_map] at hc
  obtain ⟨a, _, rfl⟩ := hc
  by_cases hz : (Spec.zs16 a && a != 0x20) = true
  · simp [hz]
  · have hz' : (Spec.zs16 a && a != 0x20) = false := by simpa using hz
    rw [hz']
    intro h
    apply hz
    simp only [Bool.false_eq_true, if_false] at h
    simp [h.1, h.2]

/-- the number of spaces never decreases: ASCII spaces are kept, other Zs are added to them -/
theorem opaque_map_keeps_ascii_space (s : List Nat) (i : Nat) (h : i < s.length) (hs : s[i] = 0x20) :
    (Spec.specOpaqueMap s)[i]'(by rw [opaque_map_length]; exact h) = 0x20 := by
  rw [opaque_map_getElem s i h, hs]; simp

/-- the empty string is rejected by prepare and by enforce -/
theorem prepare_empty : Opaque.prepare [] = .err .invalid := by
  rw [prepare_eq]; simp [specPrepare]

theorem enforce_empty : Opaque.enforce [] = .err .invalid :=
  prepare_err_is_enforce_err [] .invalid prepare_empty

/-- an accepted enforce means prepare accepted the same string, unchanged -/
theorem enforce_ok_prepare_ok (s e : List Nat) (h : Opaque.enforce s = .ok e) : Opaque.prepare s = .ok s := by
  rw [enforce_eq] at h
  rw [prepare_eq]
  simp only [specEnforce] at h
  cases hp : specPrepare s with
  | ok w =>
    have : w = s := prepare_ok_unchanged s w (by rw [prepare_eq]; exact hp)
    rw [this]
  | err x => simp [hp] at h
  | panic => simp [hp] at h

/-- the accepted result is exactly NFC of the space-mapped input, and it is never empty -/
theorem enforce_ok_shape (s e : List Nat) (h : Opaque.enforce s = .ok e) :
    e = nfc (Spec.specOpaqueMap s) ∧ e ≠ [] := by
  have hp := enforce_ok_prepare_ok s e h
  rw [enforce_eq] at h
  rw [prepare_eq] at hp
  simp only [specEnforce, hp] at h
  split at h
  · cases h
  · rename_i hne
    cases h
    exact ⟨rfl, hne⟩

/-- two inputs that differ only in which space separator they use are enforced to the same password -/
theorem enforce_space_spelling (s t e : List Nat) (hm : Spec.specOpaqueMap s = Spec.specOpaqueMap t)
    (hs : Opaque.enforce s = .ok e) (ht : ∃ e', Opaque.enforce t = .ok e') : Opaque.enforce t = .ok e := by
  obtain ⟨e', ht⟩ := ht
  rw [(enforce_ok_shape t e' ht).1, ← hm, ← (enforce_ok_shape s e hs).1] at ht
  exact ht

/-- every error of enforce is prepare's own error or the empty-result rejection -/
theorem enforce_err_cases (s : List Nat) (x : Err) (h : Opaque.enforce s = .err x) :
    Opaque.prepare s = .err x ∨ (Opaque.prepare s = .ok s ∧ nfc (Spec.specOpaqueMap s) = [] ∧ x = .invalid) := by
  rw [enforce_eq] at h
  simp only [specEnforce] at h
  cases hp : specPrepare s with
  | ok w =>
    have hw : w = s := prepare_ok_unchanged s w (by rw [prepare_eq]; exact hp)
    subst hw
    simp only [hp] at h
    split at h
    · rename_i he
      cases h
      exact Or.inr ⟨by rw [prepare_eq]; exact hp, he, rfl⟩
    · cases h
  | err y =>
    simp only [hp] at h
    cases h
    exact Or.inl (by rw [prepare_eq]; exact hp)
  | panic => simp [hp] at h

end Precis.C05
