/-
C13 specification, written from the property statement over a finite function table:
states 0..n-1, `tab[i] = some j` (f maps state i to j), `none` with an error tag otherwise.
Expected outcome of stabilize(start, f): walk the iterates x₀ = start, xᵢ₊₁ = f(xᵢ); the first
application (i = 0) plus three re-applications (i ≤ 3) are permitted; accept xᵢ at the first i with
f(xᵢ) = xᵢ; report f's error at the first failing application; otherwise the invalid-label error.
-/
import Precis.Proto
namespace Precis.Spec.C13
open Precis.Proto

inductive Out where
  | ok (state : Nat) | ruleErr (tag : String) | invalid
  deriving DecidableEq

/-- (expected outcome, expected sequence of arguments f is called with) -/
def expected (tab : Array String) (start : Nat) : Out × List Nat := Id.run do
  let mut x := start
  let mut calls : List Nat := []
  for _ in [0:4] do
    calls := calls ++ [x]
    match tab[x]? with
    | some "E" => return (.ruleErr "err:ProfileNA", calls)
    | some "I" => return (.ruleErr "err:Invalid", calls)
    | some t =>
      let y := t.toNat!
      if y == x then return (.ok x, calls)
      x := y
    | none => return (.ruleErr "?", calls)
  return (.invalid, calls)

/-- iterates x₀ … x₇ of the table function as far as they are defined -/
def iterates (tab : Array String) (start : Nat) : List Nat := Id.run do
  let mut x := start
  let mut l : List Nat := [x]
  for _ in [0:7] do
    match tab[x]? with
    | some "E" => return l
    | some "I" => return l
    | some t => x := t.toNat!; l := l ++ [x]
    | none => return l
  return l

def verdict (start table impl : String) (family : String := "") : String :=
  let tab := ((table.splitOn " ").filter (· ≠ "")).toArray
  let (o, _) := expected tab start.toNat!
  let st (i : Nat) := fmtStr (stabState family i)
  let want := match o with
    | .ok x => "ok:" ++ st x
    | .ruleErr t => t
    | .invalid => "err:Invalid"
  match impl.splitOn ";calls=" with
  | [res, calls] =>
    let cl := (calls.splitOn ",").filter (· ≠ "")
    let its := (iterates tab start.toNat!).map st
    if res != want then "VIOLATED:expected " ++ want
    else if cl.length > 4 then "VIOLATED:rule applied more than four times"
    else if cl != its.take cl.length then "VIOLATED:calls are not the successive iterates"
    else "ok"
  | _ => "VIOLATED:unparsable result"

end Precis.Spec.C13
