/-
Specification of prepare / enforce / compare of the four profiles, written from RFC 8265 §3.3, §3.4,
§4.2 and RFC 8266 §2, as executable functions producing the set of results the properties permit.
NFC / NFKC are the executable model of the external normalizer (Model/Normalize, validated against the
crate by its own correspondence ops); everything else is Spec/.
-/
import Precis.Proto
import Precis.Spec.Rules
import Precis.Spec.Rfc5893
import Precis.Spec.Rfc5892
import Precis.Spec.Rfc8264
import Precis.Model.Normalize
namespace Precis.Spec
open Precis.Proto Precis

/-- derived property per the IANA registry (U+0000..U+10FFFF), DISALLOWED above -/
def dp63 (identifier : Bool) (cp : Nat) : DPV :=
  match Iana.expect identifier (iana63 cp) with
  | some v => v
  | none => .disallowed

/-- string-class validation: `none` = accepted, `some outs` = the error results the property permits
(the first offending code point's BadCodepoint, or additionally Undefined when its rule had to look
outside the label) -/
def validate (dp : Nat → DPV) (label : List Nat) : Option (List String) := Id.run do
  let mut i := 0
  for c in label do
    let v := dp c
    let info := s!"({hex4 c},{i},{v.name})"
    match v with
    | .pValid | .specClassPval => pure ()
    | .specClassDis | .disallowed | .unassigned => return some ["err:Bad" ++ info]
    | .contextJ | .contextO =>
      match ruleFor c with
      | none => return some ["err:Missing" ++ info]
      | some r =>
        if cond r label i then pure ()
        else if needsOutside r label i then return some ["err:Bad" ++ info, "err:Undefined"]
        else return some ["err:Bad" ++ info]
    i := i + 1
  return none

inductive Out where
  | ok (s : List Nat)
  | errs (allowed : List String)

def Out.str : Out → String
  | .ok s => "ok:" ++ fmtStr s
  | .errs l => " or ".intercalate l

def userPrepare (s : List Nat) : Out :=
  let w := specWidth s
  if w.isEmpty then .errs ["err:Invalid"]
  else match validate (dp63 true) w with
    | some e => .errs e
    | none => .ok w

def freePrepare (s : List Nat) : Out :=
  if s.isEmpty then .errs ["err:Invalid"]
  else match validate (dp63 false) s with
    | some e => .errs e
    | none => .ok s

/-- (expected, known-deviation flag): the RFC outcome of the username enforcement -/
def userEnforce (mapped : Bool) (s : List Nat) : Out × Bool :=
  match userPrepare s with
  | .errs e => (.errs e, false)
  | .ok w =>
    let c := if mapped then specCase w else w
    let n := nfc c
    if n.isEmpty then (.errs ["err:Invalid"], false)
    else match specDirectionality bidi16 n with
      | .ok t => (.ok t, interiorNsm (n.map bidi16) && (n.map bidi16).any isRtlTrigger)
      | _ => (.errs ["err:Invalid"], false)

def opaqueEnforce (s : List Nat) : Out :=
  match freePrepare s with
  | .errs e => .errs e
  | .ok w =>
    let n := nfc (specOpaqueMap w)
    if n.isEmpty then .errs ["err:Invalid"] else .ok n

def nickRound (s : List Nat) : Out :=
  match freePrepare s with
  | .errs e => .errs e
  | .ok w =>
    let n := nfkc (specSpaces w)
    if n.isEmpty then .errs ["err:Invalid"] else .ok n

def nickCompareRound (s : List Nat) : Out :=
  match freePrepare s with
  | .errs e => .errs e
  | .ok w => .ok (nfkc (specCase (specSpaces w)))

/-- apply until stable: first application + three re-applications (RFC 8264 §7) -/
def untilStable (f : List Nat → Out) (s : List Nat) : Out := Id.run do
  let mut c := s
  for _ in [0:4] do
    match f c with
    | .errs e => return .errs e
    | .ok t => if t == c then return .ok c else c := t
  return .errs ["err:Invalid"]

def canonical (prof : String) (s : List Nat) : Out × Bool :=
  match prof with
  | "um" => userEnforce true s
  | "up" => userEnforce false s
  | "op" => (opaqueEnforce s, false)
  | _ => (untilStable nickCompareRound s, false)

def expectOut (impl : String) (o : Out) (knownDev : Bool) : String :=
  match o with
  | .ok t =>
    if impl == "ok:" ++ fmtStr t then "ok"
    else if knownDev && impl == "err:Invalid" then
      "VIOLATED-KNOWN:bidi-interior-nsm:RFC 5893 accepts the enforced label (an NSM is followed by a non-NSM character)"
    else "VIOLATED:expected ok:" ++ fmtStr t
  | .errs l => if l.contains impl then "ok" else "VIOLATED:expected " ++ " or ".intercalate l

def profVerdict (prof op : String) (a b : List Nat) (impl : String) : String :=
  match op with
  | "prepare" =>
    (match prof with
     | "um" | "up" => expectOut impl (userPrepare a) false
     | _ => expectOut impl (freePrepare a) false)
  | "enforce" =>
    (match prof with
     | "um" => let (o, k) := userEnforce true a; expectOut impl o k
     | "up" => let (o, k) := userEnforce false a; expectOut impl o k
     | "op" => expectOut impl (opaqueEnforce a) false
     | _ => expectOut impl (untilStable nickRound a) false)
  | "compare" =>
    let (oa, ka) := canonical prof a
    (match oa with
     | .errs l => if l.contains impl then "ok" else "VIOLATED:first operand rejected, expected " ++ " or ".intercalate l
     | .ok x =>
       if ka && impl == "err:Invalid" then
         "VIOLATED-KNOWN:bidi-interior-nsm:RFC 5893 accepts the first operand (an NSM is followed by a non-NSM character)"
       else
       let (ob, kb) := canonical prof b
       match ob with
       | .errs l => if l.contains impl then "ok" else "VIOLATED:second operand rejected, expected " ++ " or ".intercalate l
       | .ok y =>
         let want := "ok:" ++ toString (x == y)
         if impl == want then "ok"
         else if (ka || kb) && impl == "err:Invalid" then
           "VIOLATED-KNOWN:bidi-interior-nsm:RFC 5893 accepts both operands"
         else "VIOLATED:expected " ++ want)
  | _ => "n/a"

/-- C08 on an enforce result: no code point of an accepted result is DISALLOWED / UNASSIGNED in the
profile's own class -/
def forbiddenIn (prof : String) (e : List Nat) : Option Nat :=
  let ident := prof == "um" || prof == "up"
  e.find? (fun c => dp63 ident c == .disallowed || dp63 ident c == .unassigned)

end Precis.Spec
