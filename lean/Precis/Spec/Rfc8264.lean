/-
RFC 8264 §8 (derived property algorithm) and §9 (code point categories), written from the RFC over
the Unicode 6.3.0 character data parsed independently from the UCD files (Gen/Ucd63).
`HasCompat` (§9.17, toNFKC(cp) ≠ cp) needs normalization data that the repository does not ship for
6.3.0; it is a parameter here.  The IANA registry (Gen/Ucd63.ianaStep) is the independent authority for
the complete result.
-/
import Precis.Lemmas.Step
import Precis.Spec.UcdTypes
import Precis.Gen.Ucd63
namespace Precis.Spec
open Precis

def gc63 (c : Nat) : Gc := Step.eval .Cn Gen.Ucd63.gcStep c
def joinControl63 (c : Nat) : Bool := Step.eval false Gen.Ucd63.joinControlStep c
def nonchar63 (c : Nat) : Bool := Step.eval false Gen.Ucd63.noncharStep c
def defaultIgnorable63 (c : Nat) : Bool := Step.eval false Gen.Ucd63.defaultIgnorableStep c
def hst63 (c : Nat) : Hst := Step.eval .NA Gen.Ucd63.hstStep c
def iana63 (c : Nat) : Iana := Step.eval .notListed Gen.Ucd63.ianaStep c

/-- §9.6 Exceptions (F), the list of RFC 5892 §2.6, as breakpoints `(first code point, value)`:
PVALID: 00DF 03C2 06FD 06FE 0F0B 3007; CONTEXTO: 00B7 0375 05F3 05F4 30FB 0660..0669 06F0..06F9;
DISALLOWED: 0640 07FA 302E 302F 3031..3035 303B -/
def exceptionSteps : List (Nat × Option DPV) := [
  (0x00B7, some .contextO), (0x00B8, none), (0x00DF, some .pValid), (0x00E0, none),
  (0x0375, some .contextO), (0x0376, none), (0x03C2, some .pValid), (0x03C3, none),
  (0x05F3, some .contextO), (0x05F5, none), (0x0640, some .disallowed), (0x0641, none),
  (0x0660, some .contextO), (0x066A, none), (0x06F0, some .contextO), (0x06FA, none),
  (0x06FD, some .pValid), (0x06FF, none), (0x07FA, some .disallowed), (0x07FB, none),
  (0x0F0B, some .pValid), (0x0F0C, none), (0x3007, some .pValid), (0x3008, none),
  (0x302E, some .disallowed), (0x3030, none), (0x3031, some .disallowed), (0x3036, none),
  (0x303B, some .disallowed), (0x303C, none), (0x30FB, some .contextO), (0x30FC, none)]

def exceptions (c : Nat) : Option DPV := Step.eval none exceptionSteps c

/-- §9.7 BackwardCompatible (G): empty -/
def backwardCompatible (_c : Nat) : Option DPV := none

def isLetterDigitGc : Gc → Bool
  | .Ll | .Lu | .Lo | .Nd | .Lm | .Mn | .Mc => true
  | _ => false
def isOtherLetterDigitGc : Gc → Bool
  | .Lt | .Nl | .No | .Me => true
  | _ => false
def isSymbolGc : Gc → Bool
  | .Sm | .Sc | .Sk | .So => true
  | _ => false
def isPunctuationGc : Gc → Bool
  | .Pc | .Pd | .Ps | .Pe | .Pi | .Pf | .Po => true
  | _ => false
def isOldHangulJamoHst : Hst → Bool
  | .L | .V | .T => true
  | _ => false

/-- ID_DIS / FREE_PVAL as the two classes see it -/
def classValue (identifier : Bool) : DPV := if identifier then .specClassDis else .specClassPval

/-- RFC 8264 §8, in its fixed order -/
def derived (hasCompat : Nat → Bool) (identifier : Bool) (cp : Nat) : DPV :=
  match exceptions cp with
  | some v => v
  | none =>
    match backwardCompatible cp with
    | some v => v
    | none =>
      if gc63 cp == .Cn && !nonchar63 cp then .unassigned                       -- Unassigned (J)
      else if 0x21 ≤ cp && cp ≤ 0x7E then .pValid                               -- ASCII7 (K)
      else if joinControl63 cp then .contextJ                                    -- JoinControl (H)
      else if isOldHangulJamoHst (hst63 cp) then .disallowed                     -- OldHangulJamo (I)
      else if defaultIgnorable63 cp || nonchar63 cp then .disallowed             -- PrecisIgnorableProperties (M)
      else if gc63 cp == .Cc then .disallowed                                    -- Controls (L)
      else if hasCompat cp then classValue identifier                            -- HasCompat (Q)
      else if isLetterDigitGc (gc63 cp) then .pValid                             -- LetterDigits (A)
      else if isOtherLetterDigitGc (gc63 cp) then classValue identifier          -- OtherLetterDigits (R)
      else if gc63 cp == .Zs then classValue identifier                          -- Spaces (N)
      else if isSymbolGc (gc63 cp) then classValue identifier                    -- Symbols (O)
      else if isPunctuationGc (gc63 cp) then classValue identifier               -- Punctuation (P)
      else .disallowed

/-- what the IANA registry row says the two classes must answer -/
def Iana.expect (identifier : Bool) : Iana → Option DPV
  | .pvalid => some .pValid
  | .contextJ => some .contextJ
  | .contextO => some .contextO
  | .disallowed => some .disallowed
  | .unassigned => some .unassigned
  | .idDisOrFreePval => some (classValue identifier)
  | .idDis => if identifier then some .specClassDis else none
  | .freePval => if identifier then none else some .specClassPval
  | .notListed => none

end Precis.Spec
