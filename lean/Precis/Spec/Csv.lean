/-
C17 specification: what a PRECIS registry row says, and how it is written.
A row: a code point or inclusive range in (upper-case) hexadecimal, one derived-property name or two
joined by "or", a free-text description (which may contain commas).
-/
import Precis.Model.Csv
namespace Precis.Spec.Csv
open Precis Precis.Csv

def propName : Prop7 → List Nat
  | .pvalid => ofStr "PVALID" | .freePval => ofStr "FREE_PVAL" | .contextJ => ofStr "CONTEXTJ"
  | .contextO => ofStr "CONTEXTO" | .disallowed => ofStr "DISALLOWED" | .idDis => ofStr "ID_DIS"
  | .unassigned => ofStr "UNASSIGNED"

def hexChar (d : Nat) : Nat := if d < 10 then 0x30 + d else 0x41 + (d - 10)

/-- exactly `k` upper-case hexadecimal digits of `n` (most significant first) -/
def hexFixed (n : Nat) : Nat → List Nat
  | 0 => []
  | k + 1 => hexFixed (n / 16) k ++ [hexChar (n % 16)]

/-- numeric value of a string of hexadecimal digits (either case); `none` if some character is not one -/
def hexValue : List Nat → Option Nat
  | [] => some 0
  | s => s.foldl (fun acc c => match acc, hexVal c with | some a, some v => some (a * 16 + v) | _, _ => none) (some 0)

/-- rendering of the code point field with `k1` (and `k2`) digits -/
def renderCps (c : Cps) (k1 k2 : Nat) : List Nat :=
  match c with
  | .single n => hexFixed n k1
  | .range a b => hexFixed a k1 ++ [0x2D] ++ hexFixed b k2

/-- rendering of the property field; a pair is joined by "or" with single spaces -/
def renderProps : Props → List Nat
  | .single p => propName p
  | .tuple p q => propName p ++ ofStr " or " ++ propName q

def render (r : Row) (k1 k2 : Nat) : List Nat :=
  renderCps r.cps k1 k2 ++ [0x2C] ++ renderProps r.props ++ [0x2C] ++ r.desc

/-- the digit counts fit the values (1 to 8 digits) and the values are code points -/
def WF (r : Row) (k1 k2 : Nat) : Prop :=
  match r.cps with
  | .single n => 1 ≤ k1 ∧ k1 ≤ 8 ∧ n < 16 ^ k1 ∧ n ≤ 0x10FFFF
  | .range a b => 1 ≤ k1 ∧ k1 ≤ 8 ∧ a < 16 ^ k1 ∧ a ≤ 0x10FFFF ∧ 1 ≤ k2 ∧ k2 ≤ 8 ∧ b < 16 ^ k2 ∧ b ≤ 0x10FFFF

end Precis.Spec.Csv
