/-
RFC 5893 §2, "The Bidi Rule", written from the RFC text over sequences of bidirectional classes.
-/
import Precis.Model.Types
namespace Precis.Spec
open Precis BidiClass

/-- "An RTL label is a label that contains at least one character of type R, AL, or AN." -/
def isRtlTrigger : BidiClass → Bool
  | .R | .AL | .AN => true
  | _ => false

/-- condition 2: allowed in an RTL label -/
def rtlAllowed : BidiClass → Bool
  | .R | .AL | .AN | .EN | .ES | .CS | .ET | .ON | .BN | .NSM => true
  | _ => false

/-- condition 5: allowed in an LTR label -/
def ltrAllowed : BidiClass → Bool
  | .L | .EN | .ES | .CS | .ET | .ON | .BN | .NSM => true
  | _ => false

/-- the last character, ignoring trailing NSM -/
def lastNonNsm (cs : List BidiClass) : Option BidiClass :=
  (cs.reverse.dropWhile (· == .NSM)).head?

/-- conditions 1–6 -/
def bidiRule (cs : List BidiClass) : Bool :=
  match cs with
  | [] => true          -- no first character: never reached (an empty label has no R/AL/AN)
  | first :: _ =>
    if first == .R || first == .AL then
      -- RTL label: conditions 2, 3, 4
      cs.all rtlAllowed
        && (match lastNonNsm cs with
            | some c => c == .R || c == .AL || c == .EN || c == .AN
            | none => false)
        && !(cs.contains .EN && cs.contains .AN)
    else if first == .L then
      -- LTR label: conditions 5, 6
      cs.all ltrAllowed
        && (match lastNonNsm cs with
            | some c => c == .L || c == .EN
            | none => false)
    else false          -- condition 1

/-- some NSM is followed (anywhere later) by a character that is not NSM -/
def interiorNsm (cs : List BidiClass) : Bool :=
  (cs.dropWhile (· != .NSM)).any (· != .NSM)

/-- directionality rule as the property states it -/
def specDirectionality (bidi : Nat → BidiClass) (s : List Nat) : Res (List Nat) :=
  let cs := s.map bidi
  if !cs.any isRtlTrigger then .ok s
  else if bidiRule cs then .ok s else .err .invalid

end Precis.Spec
