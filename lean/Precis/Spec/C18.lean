/-
C18 specification: what the seventeen comparison operators must answer for an entry [lo, hi]
(lo ≤ hi) and a code point, written from the property statement: exactly one of
less / contains / greater; le = lt ∨ eq; ge = gt ∨ eq; ne = ¬eq; mirrored operators swapped.
-/
import Precis.Proto
namespace Precis.Spec.C18

def b (x : Bool) : Char := if x then '1' else '0'

def expected (lo hi cp : Nat) : String :=
  let lt := decide (hi < cp)
  let gt := decide (cp < lo)
  let eq := !lt && !gt
  let o := if lt then 'L' else if gt then 'G' else 'E'
  let o' := if lt then 'G' else if gt then 'L' else 'E'
  String.ofList [o, b lt, b (lt || eq), b gt, b (gt || eq), b eq, b (!eq), '/',
    o', b gt, b (gt || eq), b lt, b (lt || eq), b eq, b (!eq)]

def verdict (entry cp impl : String) : String :=
  let cpn := cp.toNat!
  match entry.splitOn " " with
  | ["S", c] => if impl == expected c.toNat! c.toNat! cpn then "ok" else "VIOLATED:expected " ++ expected c.toNat! c.toNat! cpn
  | ["R", a, b'] =>
    let lo := a.toNat!; let hi := b'.toNat!
    if lo ≤ hi then (if impl == expected lo hi cpn then "ok" else "VIOLATED:expected " ++ expected lo hi cpn)
    else "n/a"
  | _ => "n/a"

end Precis.Spec.C18
