/-
RFC 5892 Appendix A contextual rules, written from the RFC text, evaluated with the Unicode 6.3.0
virama / joining-type / script assignments parsed independently from the UCD files (Gen/Ucd63).
`cond r l i` is the RFC's condition for the code point at position `i` of label `l`.
-/
import Precis.Lemmas.Step
import Precis.Spec.UcdTypes
import Precis.Gen.Ucd63
namespace Precis.Spec
open Precis

def virama63 (c : Nat) : Bool := Step.eval false Gen.Ucd63.viramaStep c
def jt63 (c : Nat) : Jt := Step.eval .U Gen.Ucd63.jtStep c
def script63 (c : Nat) : Script := Step.eval .other Gen.Ucd63.scriptStep c

inductive Rule where
  | zwnj | zwj | middleDot | keraia | hebrew | katakana | arabic | extArabic
  deriving DecidableEq, Repr, Inhabited

/-- the code points each rule is defined for (RFC 5892 Appendix A.1–A.9) -/
def Rule.own : Rule → Nat → Bool
  | .zwnj, c => c == 0x200C
  | .zwj, c => c == 0x200D
  | .middleDot, c => c == 0x00B7
  | .keraia, c => c == 0x0375
  | .hebrew, c => c == 0x05F3 || c == 0x05F4
  | .katakana, c => c == 0x30FB
  | .arabic, c => 0x0660 ≤ c && c ≤ 0x0669
  | .extArabic, c => 0x06F0 ≤ c && c ≤ 0x06F9

def isT (c : Nat) : Bool := jt63 c == .T

/-- first character before position `i` that is not Transparent (scanning backwards) -/
def prevNonT (l : List Nat) (i : Nat) : Option Nat := ((l.take i).reverse.dropWhile isT).head?
/-- first character after position `i` that is not Transparent -/
def nextNonT (l : List Nat) (i : Nat) : Option Nat := ((l.drop (i + 1)).dropWhile isT).head?

/-- A.1: `If Canonical_Combining_Class(Before(cp)) .eq. Virama Then True;
If RegExpMatch((Joining_Type:{L,D})(Joining_Type:T)*‌(Joining_Type:T)*(Joining_Type:{R,D})) Then True;` -/
def condZwnj (l : List Nat) (i : Nat) : Bool :=
  (match (if i = 0 then none else l[i - 1]?) with | some p => virama63 p | none => false)
  || ((match prevNonT l i with | some a => jt63 a == .L || jt63 a == .D | none => false)
      && (match nextNonT l i with | some b => jt63 b == .R || jt63 b == .D | none => false))

def cond (r : Rule) (l : List Nat) (i : Nat) : Bool :=
  let before : Option Nat := if i = 0 then none else l[i - 1]?
  let after : Option Nat := l[i + 1]?
  match r with
  | .zwnj => condZwnj l i
  | .zwj => (match before with | some p => virama63 p | none => false)
  | .middleDot => before == some 0x006C && after == some 0x006C
  | .keraia => (match after with | some a => script63 a == .greek | none => false)
  | .hebrew => (match before with | some p => script63 p == .hebrew | none => false)
  | .katakana => l.any (fun c => script63 c == .hiragana || script63 c == .katakana || script63 c == .han)
  | .arabic => !l.any (fun c => 0x06F0 ≤ c && c ≤ 0x06F9)
  | .extArabic => !l.any (fun c => 0x0660 ≤ c && c ≤ 0x0669)

/-- a position the rule has to inspect lies outside the label -/
def needsOutside (r : Rule) (l : List Nat) (i : Nat) : Bool :=
  match r with
  | .zwnj => (l.take i).all isT || (l.drop (i + 1)).all isT
  | .zwj => i == 0
  | .middleDot => i == 0 || i + 1 ≥ l.length
  | .keraia => i + 1 ≥ l.length
  | .hebrew => i == 0
  | _ => false

/-- which rule the registry must hold for a code point: exactly the contextual code points -/
def ruleFor (c : Nat) : Option Rule :=
  [Rule.zwnj, .zwj, .middleDot, .keraia, .hebrew, .katakana, .arabic, .extArabic].find? (fun r => r.own c)

/-- outcome classes allowed by the property for a rule call `(r, l, i)` given as a string verdict:
    true ⇔ own ∧ cond ; not-applicable ⇔ in range ∧ ¬own ; undefined ⇒ out of range ∨ needsOutside -/
def ruleVerdict (r : Rule) (l : List Nat) (i : Nat) (impl : String) : String :=
  match l[i]? with
  | none => if impl == "err:Undefined" then "ok" else "VIOLATED:position outside the label must be Undefined"
  | some c =>
    if !r.own c then (if impl == "err:NotApplicable" then "ok" else "VIOLATED:expected NotApplicable")
    else if impl == "err:NotApplicable" then "VIOLATED:rule applies to its own code point"
    else if cond r l i then (if impl == "ok:true" then "ok" else "VIOLATED:RFC 5892 condition holds, expected true")
    else if impl == "ok:false" then "ok"
    else if impl == "err:Undefined" then
      (if needsOutside r l i then "ok" else "VIOLATED:Undefined although no inspected position lies outside the label")
    else "VIOLATED:RFC 5892 condition does not hold, expected false"

end Precis.Spec
