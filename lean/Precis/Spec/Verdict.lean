/-
Specification verdicts on concrete implementation results: for a protocol case and the result the
real code produced, does the property's statement hold?  Uses only Spec/ definitions (never Model/).
Answers: "ok", "n/a" (the property says nothing about this case), "VIOLATED:<reason>", or
"VIOLATED-KNOWN:<finding id>:<reason>" for a deviation inside an exactly characterised known family.
-/
import Precis.Proto
import Precis.Spec.C18
import Precis.Spec.C13
import Precis.Spec.Rules
import Precis.Spec.Rfc5893
import Precis.Spec.Rfc5892
import Precis.Spec.Rfc8264
import Precis.Spec.Profiles
namespace Precis.Spec
open Precis.Proto Precis

def want (impl expected : String) : String :=
  if impl == expected then "ok" else "VIOLATED:expected " ++ expected

def ruleOfName (n : String) : Option Rule :=
  match n with
  | "zwnj" => some .zwnj | "zwj" => some .zwj | "middledot" => some .middleDot
  | "keraia" => some .keraia | "hebrew" => some .hebrew | "katakana" => some .katakana
  | "arabic" => some .arabic | "extarabic" => some .extArabic | _ => none

def Rule.name : Rule → String
  | .zwnj => "zwnj" | .zwj => "zwj" | .middleDot => "middledot" | .keraia => "keraia"
  | .hebrew => "hebrew" | .katakana => "katakana" | .arabic => "arabic" | .extArabic => "extarabic"

def parseDpv (s : String) : DPV :=
  match s with
  | "PValid" => .pValid | "SpecClassPval" => .specClassPval | "SpecClassDis" => .specClassDis
  | "ContextJ" => .contextJ | "ContextO" => .contextO | "Disallowed" => .disallowed
  | _ => .unassigned

/-- C02: the outcomes the property permits for `allows` on `label` under the assignment `dp` -/
def allowsVerdict (dp : Nat → DPV) (label : List Nat) (impl : String) : String := Id.run do
  let mut i := 0
  for c in label do
    let v := dp c
    let info := s!"({hex4 c},{i},{v.name})"
    match v with
    | .pValid | .specClassPval => pure ()
    | .specClassDis | .disallowed | .unassigned => return want impl ("err:Bad" ++ info)
    | .contextJ | .contextO =>
      match ruleFor c with
      | none => return want impl ("err:Missing" ++ info)
      | some r =>
        if cond r label i then pure ()
        else if impl == "err:Bad" ++ info then return "ok"
        else if impl == "err:Undefined" && needsOutside r label i then return "ok"
        else return "VIOLATED:first offending code point is the contextual " ++ info
    i := i + 1
  return want impl "ok"

def dirVerdict (s : List Nat) (impl : String) : String :=
  let cs := s.map bidi16
  let expected := match specDirectionality bidi16 s with
    | .ok t => "ok:" ++ fmtStr t
    | _ => "err:Invalid"
  if impl == expected then "ok"
  else if impl == "err:Invalid" && interiorNsm cs then
    "VIOLATED-KNOWN:bidi-interior-nsm:RFC 5893 accepts this label (an NSM is followed by a non-NSM character)"
  else "VIOLATED:expected " ++ expected

def rulesVerdict (prof rule : String) (s : List Nat) (impl : String) : String :=
  match prof, rule with
  | "um", "width" | "up", "width" => want impl ("ok:" ++ fmtStr (specWidth s))
  | "um", "case" | "nick", "case" => want impl ("ok:" ++ fmtStr (specCase s))
  | "op", "addmap" => want impl ("ok:" ++ fmtStr (specOpaqueMap s))
  | "nick", "addmap" => want impl ("ok:" ++ fmtStr (specSpaces s))
  | "um", "dir" | "up", "dir" => dirVerdict s impl
  | _, _ => "n/a"

def verdict (case impl : String) : String :=
  let f := (case.splitOn "|").toArray
  let arg (i : Nat) : String := f.getD i ""
  match arg 0 with
  | "cmp" => C18.verdict (arg 1) (arg 2) impl
  | "stabilize" => C13.verdict (arg 1) (arg 2) impl (arg 3)
  | "rules" => rulesVerdict (arg 1) (arg 2) (parseStr (arg 3)) impl
  | "rule" =>
    match ruleOfName (arg 1) with
    | some r => ruleVerdict r (parseStr (arg 2)) (parseUsize (arg 3)) impl
    | none => "n/a"
  | "regrule" =>
    let l := parseStr (arg 1)
    let i := parseUsize (arg 2)
    match l[i]? with
    | none => want impl "none"
    | some c =>
      match ruleFor c with
      | none => want impl "none"
      | some r => ruleVerdict r l i impl
  | "ctxrule" => want impl (match ruleFor (parseHex (arg 1)) with | some r => r.name | none => "none")
  | "allows.id" => allowsVerdict (dp63 true) (parseStr (arg 1)) impl
  | "allows.ff" => allowsVerdict (dp63 false) (parseStr (arg 1)) impl
  | "allows.custom" =>
    let dflt := parseDpv (arg 1)
    let m : List (Nat × DPV) := ((arg 2).splitOn " ").filterMap (fun kv =>
      match kv.splitOn "=" with
      | [k, v] => some (parseHex k, parseDpv v)
      | _ => none)
    allowsVerdict (fun c => (m.lookup c).getD dflt) (parseStr (arg 3)) impl
  | "prof" => profVerdict (arg 1) (arg 2) (parseStr (arg 5)) (parseStr (arg 6)) impl
  | "composed" =>
    (match arg 1, arg 2 with
     | "nick", "round" => expectOut impl (nickRound (parseStr (arg 3))) false
     | "nick", "cround" => expectOut impl (nickCompareRound (parseStr (arg 3))) false
     | p, op => profVerdict p op (parseStr (arg 3)) [] impl)
  | "forbidden" =>
    (match forbiddenIn (arg 1) (parseStr (arg 2)) with
     | none => "ok"
     | some c => "VIOLATED:enforced output contains " ++ hex4 c ++ " (" ++ (dp63 (arg 1 == "um" || arg 1 == "up") c).name ++ ")")
  | "csvrow" | "csvfile" =>
    -- the expectation is computed by the case generator from the structured row it rendered / corrupted
    let e := arg 3
    if e == "" || e == "any" then "n/a" else want impl e
  | "cls.id" => want impl (dp63 true (parseHex (arg 1))).name
  | "cls.ff" => want impl (dp63 false (parseHex (arg 1))).name
  | "hasrtl" => want impl (toString ((parseStr (arg 1)).any (fun c => isRtlTrigger (bidi16 c))))
  | _ => "n/a"

end Precis.Spec
