/-
Specification verdicts on concrete implementation results: for a protocol case and the result the
real code produced, does the property's statement hold?  Uses only Spec/ definitions (never Model/).
Answers: "ok", "n/a" (the property says nothing about this case) or "VIOLATED:<reason>".
-/
import Precis.Proto
import Precis.Spec.C18
import Precis.Spec.C13
namespace Precis.Spec
open Precis.Proto

def verdict (case impl : String) : String :=
  let f := (case.splitOn "|").toArray
  let arg (i : Nat) : String := f.getD i ""
  match arg 0 with
  | "cmp" => C18.verdict (arg 1) (arg 2) impl
  | "stabilize" => C13.verdict (arg 1) (arg 2) impl
  | _ => "n/a"

end Precis.Spec
