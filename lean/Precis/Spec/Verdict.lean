/-
Specification verdicts on concrete implementation results: for a protocol case and the result the
real code produced, does the property's statement hold?  Uses only Spec/ definitions (never Model/).
-/
import Precis.Model.Types
namespace Precis.Spec

def verdict (_case _impl : String) : String := "n/a"

end Precis.Spec
