/-
Specifications of the per-string profile rules, written from RFC 8265 / RFC 8266 and the property
statements, over the independently parsed Unicode 16.0.0 data (Gen/Ucd16) and the std case dump.
Nothing here refers to Model/.
-/
import Precis.Lemmas.Step
import Precis.Gen.Ucd16
import Precis.Gen.StdCase
namespace Precis.Spec
open Precis

/-- General_Category = Zs in Unicode 16.0.0 -/
def zs16 (c : Nat) : Bool := Step.eval false Gen.Ucd16.zsStep c

/-- the character's `<wide>`/`<narrow>` decomposition mapping, or itself -/
def widthMap16 (c : Nat) : Nat := (Step.eval none Gen.Ucd16.widthStep c).getD c

/-- Bidi_Class in Unicode 16.0.0; code points not listed in UnicodeData.txt default to L
(only assigned code points reach the rule through a profile) -/
def bidi16 (c : Nat) : BidiClass := (Step.eval none Gen.Ucd16.bidiStep c).getD .L

/-- C11: every wide/narrow character replaced by its mapping, everything else kept -/
def specWidth (s : List Nat) : List Nat := s.map widthMap16

/-- full (untailored, unconditional) lowercase mapping of one character -/
def lowerFull (c : Nat) : List Nat := (Gen.Std.toLowerTabL.lookup c).getD [c]

/-- C10: each character replaced by its full lowercase mapping, independent of context -/
def specCase (s : List Nat) : List Nat := s.flatMap lowerFull

/-- C05 / C12: OpaqueString additional mapping — non-ASCII Zs ↦ U+0020, nothing else changes -/
def specOpaqueMap (s : List Nat) : List Nat := s.map (fun c => if zs16 c && c != 0x20 then 0x20 else c)

/-- C12: Nickname additional mapping — (a) every Zs ↦ U+0020 -/
def mapSpaces (s : List Nat) : List Nat := s.map (fun c => if zs16 c then 0x20 else c)

/-- (b) remove leading and trailing U+0020 -/
def strip (s : List Nat) : List Nat :=
  ((s.dropWhile (· == 0x20)).reverse.dropWhile (· == 0x20)).reverse

/-- (c) interior runs of U+0020 become a single U+0020 -/
def collapse : List Nat → List Nat
  | [] => []
  | [c] => [c]
  | c :: d :: r => if c == 0x20 && d == 0x20 then collapse (d :: r) else c :: collapse (d :: r)

def specSpaces (s : List Nat) : List Nat := collapse (strip (mapSpaces s))

end Precis.Spec
