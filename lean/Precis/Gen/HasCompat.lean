import Precis.Model.Types
namespace Precis.Gen.Compat
open Precis
def hasCompatTabL : List Cps := []
def hasCompatTab : Array Cps := hasCompatTabL.toArray
end Precis.Gen.Compat
