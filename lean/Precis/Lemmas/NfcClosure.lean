/-
Closure of NFC under a set of code points: if a set `S` contains every Hangul syllable, no conjoining
jamo, is closed under the canonical decomposition table and under the composition table, then the
NFC form (model of the external normalizer, Model/Normalize.lean) of a string over `S` is a string over `S`.
-/
import Precis.Model.Normalize
import Precis.Facts.Closure
namespace Precis
open Precis.Gen.Norm Precis.Facts

structure NfcClosed (S : Nat → Bool) : Prop where
  /-- canonical decomposition table: parts of an allowed character are allowed -/
  decomp : ∀ e ∈ canonTabL, S e.1 = true → ∀ x ∈ e.2, S x = true
  /-- composition table: the composite of two allowed characters is allowed -/
  comp : ∀ e ∈ compTabL, S (e.1 / 2097152) = true → S (e.1 % 2097152) = true → S e.2 = true
  /-- every precomposed Hangul syllable is allowed -/
  syll : ∀ c, isSyllable c = true → S c = true
  /-- no conjoining jamo (L, V, T ranges) is allowed: the only jamo in a decomposed string over `S`
  come from decomposed syllables -/
  jamo : ∀ c, isJamoLVT c = true → S c = false

namespace NfcAux

/-! ### table look-ups -/

theorem mem_of_lookup {V} (k : Nat) (l : List (Nat × V)) (v : V) (h : l.lookup k = some v) :
    (k, v) ∈ l := by
  induction l with
  | nil => simp at h
  | cons x r ih =>
    obtain ⟨a, w⟩ := x
    rw [List.lookup_cons] at h
    cases hka : (k == a) with
    | true =>
      rw [hka] at h
      simp only [Option.some.injEq] at h
      have : k = a := by simpa using hka
      subst this; subst h
      exact List.mem_cons_self
    | false =>
      rw [hka] at h
      exact List.mem_cons_of_mem _ (ih h)

/-! ### conjoining jamo ranges -/

def JL (c : Nat) : Prop := 0x1100 ≤ c ∧ c < 0x1113
def JV (c : Nat) : Prop := 0x1161 ≤ c ∧ c < 0x1176
def JT (c : Nat) : Prop := 0x11A8 ≤ c ∧ c < 0x11C3
/-- precomposed syllable without trailing consonant -/
def SyLV (c : Nat) : Prop := 0xAC00 ≤ c ∧ c < 0xAC00 + 11172 ∧ (c - 0xAC00) % 28 = 0

theorem isJamoLVT_iff (c : Nat) : isJamoLVT c = true ↔ JL c ∨ JV c ∨ JT c := by
  simp only [isJamoLVT, JL, JV, JT, Bool.or_eq_true, Bool.and_eq_true, decide_eq_true_eq, or_assoc]

theorem isSyllable_iff (c : Nat) : isSyllable c = true ↔ 0xAC00 ≤ c ∧ c < 0xAC00 + 11172 := by
  simp only [isSyllable, Bool.and_eq_true, decide_eq_true_eq]

theorem jamo_JL {c} (h : JL c) : isJamoLVT c = true := (isJamoLVT_iff c).mpr (.inl h)
theorem jamo_JV {c} (h : JV c) : isJamoLVT c = true := (isJamoLVT_iff c).mpr (.inr (.inl h))
theorem jamo_JT {c} (h : JT c) : isJamoLVT c = true := (isJamoLVT_iff c).mpr (.inr (.inr h))

/-- the facts about the tables that the proof uses (consequences of `normTablesOk`) -/
structure TabOk : Prop where
  cccJ : ∀ e ∈ cccTabL, isJamoLVT e.1 = false
  compJ : ∀ e ∈ compTabL, isJamoLVT (e.1 % 2097152) = false

theorem tabOk_of (hn : normTablesOk = true) : TabOk := by
  simp only [normTablesOk, Bool.and_eq_true, List.all_eq_true, Bool.not_eq_true',
    decide_eq_true_eq] at hn
  obtain ⟨⟨⟨hc, hp⟩, _⟩, _⟩ := hn
  exact ⟨fun e he => (hc e he).1.1, fun e he => (hp e he).1.1.1.2⟩

theorem ccc_jamo (ht : TabOk) (h3 : sortedKeys cccTabL = true) (c : Nat)
    (hj : isJamoLVT c = true) : ccc c = 0 := by
  unfold ccc
  rw [kvFind_eq_lookup cccTab c h3]
  cases hl : cccTab.toList.lookup c with
  | none => rfl
  | some v =>
    have := ht.cccJ _ (mem_of_lookup _ _ _ hl)
    simp only at this
    rw [hj] at this
    cases this

/-! ### Hangul arithmetic -/

theorem composeHangul_syll (a b r : Nat) (h : composeHangul a b = some r) : isSyllable r = true := by
  rw [isSyllable_iff]
  unfold composeHangul at h
  simp only [Bool.and_eq_true, decide_eq_true_eq] at h
  unfold sBase lBase vBase tBase lCount vCount tCount nCount sCount at h
  split at h
  · injection h with h; omega
  · split at h
    · injection h with h; omega
    · cases h

theorem composeHangul_lv (l v : Nat) (hl : JL l) (hv : JV v) :
    ∃ r, composeHangul l v = some r ∧ SyLV r := by
  unfold JL at hl; unfold JV at hv
  refine ⟨0xAC00 + (l - 0x1100) * 588 + (v - 0x1161) * 28, ?_, ?_⟩
  · unfold composeHangul
    simp only [Bool.and_eq_true, decide_eq_true_eq]
    unfold sBase lBase vBase tBase lCount vCount tCount nCount sCount
    rw [if_pos (by omega)]
  · unfold SyLV; omega

theorem composeHangul_lvt (s t : Nat) (hs : SyLV s) (ht : JT t) :
    ∃ r, composeHangul s t = some r := by
  unfold SyLV at hs; unfold JT at ht
  refine ⟨s + (t - 0x11A7), ?_⟩
  unfold composeHangul
  simp only [Bool.and_eq_true, decide_eq_true_eq]
  unfold sBase lBase vBase tBase lCount vCount tCount nCount sCount
  rw [if_neg (by omega), if_pos (by omega)]

theorem composeHangul_none_L (s l : Nat) (hl : JL l) : composeHangul s l = none := by
  unfold JL at hl
  unfold composeHangul
  simp only [Bool.and_eq_true, decide_eq_true_eq]
  unfold sBase lBase vBase tBase lCount vCount tCount nCount sCount
  rw [if_neg (by omega), if_neg (by omega)]

theorem composePair_def (a b : Nat) : composePair a b =
    match composeHangul a b with
    | some c => some c
    | none => kvFind compTab (a * 2097152 + b) := rfl

theorem composePair_of_hangul (a b r : Nat) (h : composeHangul a b = some r) :
    composePair a b = some r := by
  rw [composePair_def, h]

theorem composePair_none_L (ht : TabOk) (h2 : sortedKeys compTabL = true) (s l : Nat) (hl : JL l) :
    composePair s l = none := by
  rw [composePair_def, composeHangul_none_L s l hl]
  simp only
  rw [kvFind_eq_lookup compTab _ h2]
  cases hk : compTab.toList.lookup (s * 2097152 + l) with
  | none => rfl
  | some v =>
    have := ht.compJ _ (mem_of_lookup _ _ _ hk)
    simp only at this
    have hm : (s * 2097152 + l) % 2097152 = l := by unfold JL at hl; omega
    rw [hm, jamo_JL hl] at this
    cases this

section
variable (S : Nat → Bool) (h : NfcClosed S) (hb : ∀ c, S c = true → c < 0x110000)
include h hb

theorem composePair_S (h2 : sortedKeys compTabL = true) (a b r : Nat) (ha : S a = true)
    (hbS : S b = true) (hr : composePair a b = some r) : S r = true := by
  rw [composePair_def] at hr
  cases hc : composeHangul a b with
  | some c =>
    rw [hc] at hr
    simp only [Option.some.injEq] at hr
    subst hr
    exact h.syll _ (composeHangul_syll a b c hc)
  | none =>
    rw [hc] at hr
    simp only at hr
    rw [kvFind_eq_lookup compTab _ h2] at hr
    have hm := mem_of_lookup _ _ _ hr
    have hlt := hb b hbS
    have := h.comp _ hm
    simp only at this
    have e1 : (a * 2097152 + b) / 2097152 = a := by omega
    have e2 : (a * 2097152 + b) % 2097152 = b := by omega
    rw [e1, e2] at this
    exact this ha hbS

end

/-! ### block structure of a decomposed string -/

inductive Blocks (S : Nat → Bool) : List Nat → Prop where
  | nil : Blocks S []
  | single (x : Nat) (r : List Nat) : S x = true → Blocks S r → Blocks S (x :: r)
  | lv (l v : Nat) (r : List Nat) : JL l → JV v → Blocks S r → Blocks S (l :: v :: r)
  | lvt (l v t : Nat) (r : List Nat) : JL l → JV v → JT t → Blocks S r → Blocks S (l :: v :: t :: r)

theorem blocks_of_all (S : Nat → Bool) (l : List Nat) (hl : ∀ x ∈ l, S x = true) : Blocks S l := by
  induction l with
  | nil => exact .nil
  | cons x r ih =>
    exact .single x r (hl x List.mem_cons_self) (ih fun y hy => hl y (List.mem_cons_of_mem _ hy))

theorem blocks_append (S : Nat → Bool) (a b : List Nat) (ha : Blocks S a) (hb : Blocks S b) :
    Blocks S (a ++ b) := by
  induction ha with
  | nil => exact hb
  | single x r hx _ ih => exact .single x _ hx ih
  | lv l v r hl hv _ ih => exact .lv l v _ hl hv ih
  | lvt l v t r hl hv ht _ ih => exact .lvt l v t _ hl hv ht ih

theorem hangulDecomp_blocks (S : Nat → Bool) (c : Nat) (hc : isHangulSyllable c = true) :
    Blocks S (hangulDecomp c) := by
  simp only [isHangulSyllable, Bool.and_eq_true, decide_eq_true_eq] at hc
  unfold sBase sCount at hc
  unfold hangulDecomp
  simp only []
  unfold sBase lBase vBase tBase nCount tCount
  split
  · refine .lv _ _ _ ?_ ?_ .nil
    · unfold JL; omega
    · unfold JV; omega
  · refine .lvt _ _ _ _ ?_ ?_ ?_ .nil
    · unfold JL; omega
    · unfold JV; omega
    · unfold JT; omega

theorem decompChar_blocks (S : Nat → Bool) (h : NfcClosed S) (h1 : sortedKeys canonTabL = true)
    (c : Nat) (hc : S c = true) : Blocks S (decompChar false c) := by
  unfold decompChar
  simp only [Bool.false_eq_true, if_false]
  split
  · rename_i hs; exact hangulDecomp_blocks S c hs
  · rw [kvFind_eq_lookup canonTab c h1]
    cases hl : canonTab.toList.lookup c with
    | none => exact .single c [] hc .nil
    | some d =>
      have := h.decomp _ (mem_of_lookup _ _ _ hl) hc
      exact blocks_of_all S d this

theorem flatMap_blocks (S : Nat → Bool) (h : NfcClosed S) (h1 : sortedKeys canonTabL = true)
    (s : List Nat) (hs : ∀ c ∈ s, S c = true) : Blocks S (s.flatMap (decompChar false)) := by
  induction s with
  | nil => exact .nil
  | cons c r ih =>
    rw [List.flatMap_cons]
    exact blocks_append S _ _ (decompChar_blocks S h h1 c (hs c List.mem_cons_self))
      (ih fun y hy => hs y (List.mem_cons_of_mem _ hy))

/-! ### canonical reordering -/

theorem mem_insertMark (c k : Nat) (run : List (Nat × Nat)) (p : Nat × Nat)
    (hp : p ∈ insertMark c k run) : p = (c, k) ∨ p ∈ run := by
  induction run with
  | nil => simp only [insertMark, List.mem_singleton] at hp; exact .inl hp
  | cons q r ih =>
    obtain ⟨d, j⟩ := q
    simp only [insertMark] at hp
    split at hp
    · rcases List.mem_cons.mp hp with rfl | hp
      · exact .inr List.mem_cons_self
      · rcases ih hp with h | h
        · exact .inl h
        · exact .inr (List.mem_cons_of_mem _ h)
    · rcases List.mem_cons.mp hp with rfl | hp
      · exact .inl rfl
      · exact .inr hp

theorem reorder_nil (run : List (Nat × Nat)) : reorder [] run = run.map (·.1) := rfl
theorem reorder_cons (c : Nat) (r : List Nat) (run : List (Nat × Nat)) : reorder (c :: r) run =
    if ccc c = 0 then run.map (·.1) ++ c :: reorder r [] else reorder r (insertMark c (ccc c) run) :=
  rfl

theorem reorder_starter (c : Nat) (r : List Nat) (run : List (Nat × Nat)) (hc : ccc c = 0) :
    reorder (c :: r) run = run.map (·.1) ++ c :: reorder r [] := by
  rw [reorder_cons, if_pos hc]

theorem blocks_run (S : Nat → Bool) (run : List (Nat × Nat)) (hrun : ∀ p ∈ run, S p.1 = true) :
    Blocks S (run.map (·.1)) := by
  apply blocks_of_all
  intro x hx
  obtain ⟨p, hp, rfl⟩ := List.mem_map.mp hx
  exact hrun p hp

theorem blocks_reorder (S : Nat → Bool) (hccc : ∀ c, isJamoLVT c = true → ccc c = 0)
    (d : List Nat) (hd : Blocks S d) :
    ∀ run : List (Nat × Nat), (∀ p ∈ run, S p.1 = true) → Blocks S (reorder d run) := by
  induction hd with
  | nil => intro run hrun; rw [reorder_nil]; exact blocks_run S run hrun
  | single x r hx _ ih =>
    intro run hrun
    rw [reorder_cons]
    split
    · exact blocks_append S _ _ (blocks_run S run hrun) (.single x _ hx (ih [] (by simp)))
    · apply ih
      intro p hp
      rcases mem_insertMark _ _ _ _ hp with rfl | hp
      · exact hx
      · exact hrun p hp
  | lv l v r hl hv _ ih =>
    intro run hrun
    rw [reorder_starter _ _ _ (hccc l (jamo_JL hl)), reorder_starter _ _ _ (hccc v (jamo_JV hv))]
    exact blocks_append S _ _ (blocks_run S run hrun) (.lv l v _ hl hv (ih [] (by simp)))
  | lvt l v t r hl hv ht _ ih =>
    intro run hrun
    rw [reorder_starter _ _ _ (hccc l (jamo_JL hl)), reorder_starter _ _ _ (hccc v (jamo_JV hv)),
      reorder_starter _ _ _ (hccc t (jamo_JT ht))]
    exact blocks_append S _ _ (blocks_run S run hrun) (.lvt l v t _ hl hv ht (ih [] (by simp)))

/-! ### recomposition -/

def Inv (S : Nat → Bool) (st : Recomp) : Prop :=
  (∀ x ∈ st.out, S x = true) ∧ (∀ x, st.composee = some x → S x = true) ∧
  (∀ x ∈ st.buffer, S x = true) ∧ (st.composee = none → st.lastCcc = none)

theorem recompStep_def (st : Recomp) (ch : Nat) : recompStep st ch =
  match st.composee with
  | none => if ccc ch != 0 then { st with out := st.out ++ [ch] } else { st with composee := some ch }
  | some s =>
    match st.lastCcc with
    | none =>
      match composePair s ch with
      | some r => { st with composee := some r }
      | none =>
        if ccc ch == 0 then { st with out := st.out ++ [s], composee := some ch }
        else { st with buffer := st.buffer ++ [ch], lastCcc := some (ccc ch) }
    | some l =>
      if l ≥ ccc ch then
        if ccc ch == 0 then
          { out := st.out ++ [s] ++ st.buffer, composee := some ch, buffer := [], lastCcc := none }
        else { st with buffer := st.buffer ++ [ch], lastCcc := some (ccc ch) }
      else
        match composePair s ch with
        | some r => { st with composee := some r }
        | none => { st with buffer := st.buffer ++ [ch], lastCcc := some (ccc ch) } := rfl

theorem mem_snoc_S (S : Nat → Bool) (l : List Nat) (x : Nat) (hl : ∀ y ∈ l, S y = true)
    (hx : S x = true) : ∀ y ∈ l ++ [x], S y = true := by
  intro y hy
  rcases List.mem_append.mp hy with hy | hy
  · exact hl y hy
  · rw [List.mem_singleton.mp hy]; exact hx

theorem mem_app_S (S : Nat → Bool) (l m : List Nat) (hl : ∀ y ∈ l, S y = true)
    (hm : ∀ y ∈ m, S y = true) : ∀ y ∈ l ++ m, S y = true := by
  intro y hy
  rcases List.mem_append.mp hy with hy | hy
  · exact hl y hy
  · exact hm y hy

theorem inv_single (S : Nat → Bool)
    (hcp : ∀ a b r, S a = true → S b = true → composePair a b = some r → S r = true)
    (st : Recomp) (hi : Inv S st) (x : Nat) (hx : S x = true) : Inv S (recompStep st x) := by
  obtain ⟨out, composee, buffer, lastCcc⟩ := st
  obtain ⟨h1, h2, h3, h4⟩ := hi
  simp only at h1 h2 h3 h4
  rw [recompStep_def]
  cases composee with
  | none =>
    simp only
    split
    · exact ⟨mem_snoc_S S _ _ h1 hx, h2, h3, h4⟩
    · refine ⟨h1, ?_, h3, ?_⟩
      · intro y hy; simp only [Option.some.injEq] at hy; rw [← hy]; exact hx
      · intro hy; cases hy
  | some s =>
    have hs : S s = true := h2 s rfl
    have hsome : ∀ r, S r = true → ∀ y, some r = some y → S y = true := by
      intro r hr y hy; simp only [Option.some.injEq] at hy; rw [← hy]; exact hr
    have hne : ∀ (r : Nat) (o : Option Nat), some r = none → o = none := by
      intro r o hy; cases hy
    cases lastCcc with
    | none =>
      simp only
      cases hc : composePair s x with
      | some r =>
        simp only
        exact ⟨h1, hsome r (hcp s x r hs hx hc), h3, hne _ _⟩
      | none =>
        simp only
        split
        · exact ⟨mem_snoc_S S _ _ h1 hs, hsome x hx, h3, hne _ _⟩
        · exact ⟨h1, hsome s hs, mem_snoc_S S _ _ h3 hx, hne _ _⟩
    | some l =>
      simp only
      split
      · split
        · exact ⟨mem_app_S S _ _ (mem_snoc_S S _ _ h1 hs) h3, hsome x hx, by simp, hne _ _⟩
        · exact ⟨h1, hsome s hs, mem_snoc_S S _ _ h3 hx, hne _ _⟩
      · cases hc : composePair s x with
        | some r =>
          simp only
          exact ⟨h1, hsome r (hcp s x r hs hx hc), h3, hne _ _⟩
        | none =>
          simp only
          exact ⟨h1, hsome s hs, mem_snoc_S S _ _ h3 hx, hne _ _⟩

theorem step_L (S : Nat → Bool) (st : Recomp) (hi : Inv S st) (l : Nat) (hk : ccc l = 0)
    (hcp : ∀ s, composePair s l = none) :
    ∃ out buffer, recompStep st l = ⟨out, some l, buffer, none⟩ ∧ (∀ y ∈ out, S y = true) ∧
      (∀ y ∈ buffer, S y = true) := by
  obtain ⟨out, composee, buffer, lastCcc⟩ := st
  obtain ⟨h1, h2, h3, h4⟩ := hi
  simp only at h1 h2 h3 h4
  rw [recompStep_def, hk]
  cases composee with
  | none =>
    have := h4 rfl
    subst this
    exact ⟨out, buffer, rfl, h1, h3⟩
  | some s =>
    have hs : S s = true := h2 s rfl
    cases lastCcc with
    | none =>
      simp only [hcp s]
      exact ⟨_, _, rfl, mem_snoc_S S _ _ h1 hs, h3⟩
    | some k =>
      simp only
      exact ⟨_, _, rfl, mem_app_S S _ _ (mem_snoc_S S _ _ h1 hs) h3, by simp⟩

theorem step_compose (out buffer : List Nat) (a b r : Nat) (hc : composePair a b = some r) :
    recompStep ⟨out, some a, buffer, none⟩ b = ⟨out, some r, buffer, none⟩ := by
  rw [recompStep_def]
  simp only [hc]

theorem inv_fold (S : Nat → Bool) (h : NfcClosed S)
    (hcp : ∀ a b r, S a = true → S b = true → composePair a b = some r → S r = true)
    (hccc : ∀ c, isJamoLVT c = true → ccc c = 0)
    (hnl : ∀ s l, JL l → composePair s l = none)
    (d : List Nat) (hd : Blocks S d) :
    ∀ st, Inv S st → Inv S (d.foldl recompStep st) := by
  induction hd with
  | nil => intro st hi; exact hi
  | single x r hx _ ih =>
    intro st hi
    rw [List.foldl_cons]
    exact ih _ (inv_single S hcp st hi x hx)
  | lv l v r hl hv _ ih =>
    intro st hi
    obtain ⟨out, buffer, e1, ho, hbf⟩ := step_L S st hi l (hccc l (jamo_JL hl)) (fun s => hnl s l hl)
    obtain ⟨lv, e2, hlv⟩ := composeHangul_lv l v hl hv
    rw [List.foldl_cons, List.foldl_cons, e1, step_compose _ _ _ _ _ (composePair_of_hangul _ _ _ e2)]
    apply ih
    refine ⟨ho, ?_, hbf, ?_⟩
    · intro y hy
      simp only [Option.some.injEq] at hy
      rw [← hy]
      exact h.syll _ (composeHangul_syll _ _ _ e2)
    · intro hy; cases hy
  | lvt l v t r hl hv ht _ ih =>
    intro st hi
    obtain ⟨out, buffer, e1, ho, hbf⟩ := step_L S st hi l (hccc l (jamo_JL hl)) (fun s => hnl s l hl)
    obtain ⟨lv, e2, hlv⟩ := composeHangul_lv l v hl hv
    obtain ⟨lvt, e3⟩ := composeHangul_lvt lv t hlv ht
    rw [List.foldl_cons, List.foldl_cons, List.foldl_cons, e1,
      step_compose _ _ _ _ _ (composePair_of_hangul _ _ _ e2),
      step_compose _ _ _ _ _ (composePair_of_hangul _ _ _ e3)]
    apply ih
    refine ⟨ho, ?_, hbf, ?_⟩
    · intro y hy
      simp only [Option.some.injEq] at hy
      rw [← hy]
      exact h.syll _ (composeHangul_syll _ _ _ e3)
    · intro hy; cases hy

end NfcAux

open NfcAux in
/-- NFC maps strings over `S` to strings over `S`.  `hn`, `h1`–`h3` are the kernel-checked table facts
`Facts.norm_tables_ok`, `Facts.canon_sorted`, `Facts.comp_sorted`, `Facts.ccc_sorted`; `hb`: the
members of `S` are code points (without it a value `≥ 2^21` would alias another pair in the packed
key `a * 2^21 + b` of the composition table). -/
theorem nfc_closed (S : Nat → Bool) (h : NfcClosed S) (hn : normTablesOk = true)
    (h1 : sortedKeys canonTabL = true) (h2 : sortedKeys compTabL = true) (h3 : sortedKeys cccTabL = true)
    (hb : ∀ c, S c = true → c < 0x110000)
    (s : List Nat) (hs : ∀ c ∈ s, S c = true) : ∀ c ∈ nfc s, S c = true := by
  have ht := tabOk_of hn
  have hccc := ccc_jamo ht h3
  have hd : Blocks S (decompose false s) :=
    blocks_reorder S hccc _ (flatMap_blocks S h h1 s hs) [] (by simp)
  have hinv := inv_fold S h (composePair_S S h hb h2) hccc (composePair_none_L ht h2) _ hd {}
    ⟨by simp, by simp, by simp, by simp⟩
  obtain ⟨i1, i2, i3, _⟩ := hinv
  intro c hc
  unfold nfc recompose at hc
  simp only [List.mem_append, Option.mem_toList] at hc
  rcases hc with (hc | hc) | hc
  · exact i1 c hc
  · exact i2 c hc
  · exact i3 c hc

end Precis
