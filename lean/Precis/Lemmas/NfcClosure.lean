/-
Closure of NFC under a set of code points: if a set `S` contains every Hangul syllable, no conjoining
jamo, is closed under the canonical decomposition table and under the composition table, then the
NFC form (model of the external normalizer, Model/Normalize.lean) of a string over `S` is a string over `S`.
-/
import Precis.Model.Normalize
import Precis.Facts.Closure
namespace Precis
open Precis.Gen.Norm Precis.Facts

structure NfcClosed (S : Nat → Bool) : Prop where
  /-- canonical decomposition table: parts of an allowed character are allowed -/
  decomp : ∀ e ∈ canonTabL, S e.1 = true → ∀ x ∈ e.2, S x = true
  /-- composition table: the composite of two allowed characters is allowed -/
  comp : ∀ e ∈ compTabL, S (e.1 / 2097152) = true → S (e.1 % 2097152) = true → S e.2 = true
  /-- every precomposed Hangul syllable is allowed -/
  syll : ∀ c, isSyllable c = true → S c = true
  /-- no conjoining jamo (L, V, T ranges) is allowed: the only jamo in a decomposed string over `S`
  come from decomposed syllables -/
  jamo : ∀ c, isJamoLVT c = true → S c = false

/-- NFC maps strings over `S` to strings over `S`.  `hn`, `h1`–`h3` are the kernel-checked table facts
`Facts.norm_tables_ok`, `Facts.canon_sorted`, `Facts.comp_sorted`, `Facts.ccc_sorted`. -/
theorem nfc_closed (S : Nat → Bool) (h : NfcClosed S) (hn : normTablesOk = true)
    (h1 : sortedKeys canonTabL = true) (h2 : sortedKeys compTabL = true) (h3 : sortedKeys cccTabL = true)
    (s : List Nat) (hs : ∀ c ∈ s, S c = true) : ∀ c ∈ nfc s, S c = true := by
  sorry

end Precis
