/-
Idempotence of the normalizer model: `nfc (nfc s) = nfc s` (and, if reachable, `nfkc (nfkc s) = nfkc s`)
for every string of code points below 0x110000, over the tables in `Gen/Norm.lean` as they are generated
today.  All table-dependent facts must be Bool conditions checked by `decide +kernel` (no native_decide).

THE STATEMENTS OF `nfc_idem` (AND `nfkc_idem`) MUST NOT BE CHANGED.  `tablesOk` may be ANY Bool-valued
closed term over the generated tables, provided `tables_ok` is proved by `decide +kernel`.

Proof (generic part in `Lemmas/NfcIdemAux.lean`): `D = decompose k` produces strings `x` whose characters
are fixed by `decompChar k` and which are canonically ordered; on such `x`, `D (recompose x) = x`, by an
invariant of the `recompStep` fold: the canonical reordering of the full decomposition of
`out ++ composee ++ buffer` is the consumed prefix of `x`.  The only table facts needed are: the values
of the decomposition table are not keys, not Hangul syllables and are code points; jamo are not keys;
and for every entry `(a, b) ↦ r` of the composition table the full decomposition of `r` is literally
that of `a` followed by `b`.  The last fact needs two look-ups per entry; they go through a balanced
search tree that the kernel builds from the (sorted) table and checks to flatten back to the table.
-/
import Precis.Model.Normalize
import Precis.Lemmas.NfcClosure
import Precis.Lemmas.NfcIdemAux
namespace Precis.NfcIdem
open Precis Precis.Gen.Norm Precis.Facts Precis.NfcAux

set_option maxRecDepth 1000000

/-! ### a search tree the kernel can walk in logarithmically many steps -/

inductive KT where
  | leaf
  | node (l : KT) (k : Nat) (v : List Nat) (r : KT)

namespace KT

/-- in-order flattening onto an accumulator -/
def toL : KT → List (Nat × List Nat) → List (Nat × List Nat)
  | leaf, acc => acc
  | node l k v r, acc => toL l ((k, v) :: toL r acc)

def find (c : Nat) : KT → Option (List Nat)
  | leaf => none
  | node l k v r => bif c.blt k then find c l else bif k.blt c then find c r else some v

/-- hands the continuation a fully evaluated copy of the tree (the identity, see `force_eq`) -/
def force : KT → (KT → Bool) → Bool
  | leaf, f => f leaf
  | node l k v r, f => force l (fun l' => force r (fun r' => f (node l' k v r')))

/-- balanced tree of the first `n` entries of a list, and the remaining entries -/
def build : Nat → Nat → List (Nat × List Nat) → KT × List (Nat × List Nat)
  | 0, _, l => (.leaf, l)
  | fuel+1, n, l =>
    bif n == 0 then (.leaf, l) else
    match build fuel (n / 2) l with
    | (lt, []) => (lt, [])
    | (lt, (k, v) :: l2) =>
      match build fuel (n - n / 2 - 1) l2 with
      | (rt, l3) => (.node lt k v rt, l3)

theorem toL_eq (t : KT) : ∀ acc, toL t acc = toL t [] ++ acc := by
  induction t with
  | leaf => intro acc; rfl
  | node l k v r ihl ihr =>
    intro acc
    simp only [toL]
    rw [ihl, ihr acc, ihl ((k, v) :: toL r [])]
    simp

theorem toL_node (l : KT) (k : Nat) (v : List Nat) (r : KT) :
    toL (node l k v r) [] = toL l [] ++ (k, v) :: toL r [] := by
  simp only [toL]
  rw [toL_eq]

theorem force_eq (t : KT) : ∀ f, force t f = f t := by
  induction t with
  | leaf => intro f; rfl
  | node l k v r ihl ihr => intro f; simp only [force, ihl, ihr]

theorem lookup_cons_ne {V} (c k : Nat) (v : V) (es : List (Nat × V)) (h : k ≠ c) :
    ((k, v) :: es).lookup c = es.lookup c := by
  have : (c == k) = false := by simp; omega
  simp only [List.lookup, this]

theorem lookup_cons_self {V} (k : Nat) (v : V) (es : List (Nat × V)) :
    ((k, v) :: es).lookup k = some v := by
  simp [List.lookup]

theorem lookup_append_left_ne (c : Nat) (l1 l2 : List (Nat × List Nat)) (h : ∀ x ∈ l1, x.1 ≠ c) :
    (l1 ++ l2).lookup c = l2.lookup c := by
  induction l1 with
  | nil => rfl
  | cons x r ih =>
    obtain ⟨k, v⟩ := x
    rw [List.cons_append, lookup_cons_ne c k v _ (h (k, v) List.mem_cons_self)]
    exact ih (fun y hy => h y (List.mem_cons_of_mem _ hy))

theorem lookup_append_right_ne (c : Nat) (l1 l2 : List (Nat × List Nat)) (h : ∀ x ∈ l2, x.1 ≠ c) :
    (l1 ++ l2).lookup c = l1.lookup c := by
  induction l1 with
  | nil => rw [List.nil_append, lookup_eq_none' c l2 h]; rfl
  | cons x r ih =>
    obtain ⟨k, v⟩ := x
    rw [List.cons_append]
    by_cases hk : k = c
    · subst hk; rw [lookup_cons_self, lookup_cons_self]
    · rw [lookup_cons_ne c k v _ hk, lookup_cons_ne c k v _ hk, ih]

/-- the tree search is the declarative look-up in the flattened tree, when that is sorted -/
theorem find_eq_lookup (c : Nat) (t : KT) :
    (toL t []).Pairwise (fun a b => a.1 < b.1) → find c t = (toL t []).lookup c := by
  induction t with
  | leaf => intro _; rfl
  | node l k v r ihl ihr =>
    intro hp
    rw [toL_node] at hp ⊢
    obtain ⟨hl, hr, hlr⟩ := List.pairwise_append.mp hp
    have hr' := List.pairwise_cons.mp hr
    simp only [find]
    cases h1 : c.blt k with
    | true =>
      have h1' : c < k := by simpa [Nat.blt_eq] using h1
      simp only [cond_true]
      rw [ihl hl, lookup_append_right_ne]
      intro x hx
      rcases List.mem_cons.mp hx with rfl | hx
      · simp only; omega
      · have := hr'.1 x hx; simp only at this; omega
    | false =>
      have h1' : ¬ c < k := by
        intro hc; have : c.blt k = true := by simpa [Nat.blt_eq] using hc
        rw [h1] at this; cases this
      simp only [cond_false]
      have hleft : ∀ x ∈ toL l [], x.1 ≠ c := by
        intro x hx
        have := hlr x hx (k, v) List.mem_cons_self
        simp only at this; omega
      rw [lookup_append_left_ne c _ _ hleft]
      cases h2 : k.blt c with
      | true =>
        have h2' : k < c := by simpa [Nat.blt_eq] using h2
        simp only [cond_true]
        rw [ihr hr'.2, lookup_cons_ne c k v _ (by omega)]
      | false =>
        have h2' : ¬ k < c := by
          intro hc; have : k.blt c = true := by simpa [Nat.blt_eq] using hc
          rw [h2] at this; cases this
        simp only [cond_false]
        have : k = c := by omega
        subst this
        rw [lookup_cons_self]

end KT

/-! ### the table facts -/

/-- bitmap of the keys of a table -/
def keyBits {V} : List (Nat × V) → Nat
  | [] => 0
  | e :: r => (1 <<< e.1) ||| keyBits r

theorem lookup_none_of_keyBits {V} (c : Nat) (l : List (Nat × V)) (h : (keyBits l).testBit c = false) :
    l.lookup c = none := by
  induction l with
  | nil => rfl
  | cons e r ih =>
    obtain ⟨k, v⟩ := e
    simp only [keyBits, Nat.testBit_or, Bool.or_eq_false_iff, Nat.one_shiftLeft,
      Nat.testBit_two_pow, decide_eq_false_iff_not] at h
    rw [KT.lookup_cons_ne c k v r h.1]
    exact ih h.2

/-- decomposition table: keys are neither jamo nor syllables; the characters of a value are not keys
(the table holds full decompositions), not syllables, and are code points -/
def decompOk (tab : List (Nat × List Nat)) : Bool :=
  let b := keyBits tab
  tab.all (fun e => !isJamoLVT e.1 && !isSyllable e.1 &&
    e.2.all (fun x => !b.testBit x && !isSyllable x && decide (x < 0x110000)))

def dcT (t : KT) (c : Nat) : List Nat := (t.find c).getD [c]

/-- composition table against a decomposition table: the full decomposition of a primary composite
is that of its first part followed by its second part -/
def compOk (tab : List (Nat × List Nat)) : Bool :=
  (KT.build 24 tab.length tab).1.force (fun t =>
    decide (t.toL [] = tab) &&
    compTabL.all (fun e => decide (dcT t e.2 = dcT t (e.1 / 2097152) ++ [e.1 % 2097152])))

/-- decidable conditions on the generated normalization tables that the proof needs -/
def tablesOk : Bool :=
  normTablesOk && sortedKeys canonTabL && sortedKeys compatTabL && sortedKeys compTabL &&
  decompOk canonTabL && decompOk compatTabL && compOk canonTabL && compOk compatTabL

theorem tables_ok : tablesOk = true := by decide +kernel

/-! ### from the Bool facts to the hypotheses of the generic proof -/

def tabOf (k : Bool) : List (Nat × List Nat) := if k then compatTabL else canonTabL

structure TOk (k : Bool) : Prop where
  sorted : sortedKeys (tabOf k) = true
  compSorted : sortedKeys compTabL = true
  keyJ : ∀ e ∈ tabOf k, isJamoLVT e.1 = false
  vals : ∀ e ∈ tabOf k, ∀ x ∈ e.2, (tabOf k).lookup x = none ∧ isSyllable x = false ∧ x < 0x110000
  compS : ∀ e ∈ compTabL, isSyllable (e.1 / 2097152) = false ∧ isSyllable e.2 = false
  comp : ∀ e ∈ compTabL, ((tabOf k).lookup e.2).getD [e.2] =
    ((tabOf k).lookup (e.1 / 2097152)).getD [e.1 / 2097152] ++ [e.1 % 2097152]

theorem decompOk_keyJ (tab : List (Nat × List Nat)) (h : decompOk tab = true) :
    ∀ e ∈ tab, isJamoLVT e.1 = false := by
  simp only [decompOk, List.all_eq_true, Bool.and_eq_true, Bool.not_eq_true', decide_eq_true_eq] at h
  intro e he
  exact (h e he).1.1

theorem decompOk_vals (tab : List (Nat × List Nat)) (h : decompOk tab = true) :
    ∀ e ∈ tab, ∀ x ∈ e.2, tab.lookup x = none ∧ isSyllable x = false ∧ x < 0x110000 := by
  simp only [decompOk, List.all_eq_true, Bool.and_eq_true, Bool.not_eq_true', decide_eq_true_eq] at h
  intro e he x hx
  obtain ⟨⟨hb, hs⟩, hlt⟩ := (h e he).2 x hx
  exact ⟨lookup_none_of_keyBits x tab hb, hs, hlt⟩

theorem compOk_comp (tab : List (Nat × List Nat)) (hs : sortedKeys tab = true) (h : compOk tab = true) :
    ∀ e ∈ compTabL, (tab.lookup e.2).getD [e.2] =
      (tab.lookup (e.1 / 2097152)).getD [e.1 / 2097152] ++ [e.1 % 2097152] := by
  unfold compOk at h
  rw [KT.force_eq] at h
  simp only [Bool.and_eq_true, decide_eq_true_eq, List.all_eq_true] at h
  obtain ⟨ht, hc⟩ := h
  have hp := sortedKeys_pairwise tab hs
  rw [← ht] at hp
  intro e he
  have := hc e he
  simp only [dcT, KT.find_eq_lookup _ _ hp, ht] at this
  exact this

theorem tOk (k : Bool) : TOk k := by
  have h := tables_ok
  simp only [tablesOk, Bool.and_eq_true] at h
  obtain ⟨⟨⟨⟨⟨⟨⟨hn, s1⟩, s2⟩, s3⟩, d1⟩, d2⟩, c1⟩, c2⟩ := h
  have hcs : ∀ e ∈ compTabL, isSyllable (e.1 / 2097152) = false ∧ isSyllable e.2 = false := by
    simp only [normTablesOk, Bool.and_eq_true, List.all_eq_true, Bool.not_eq_true',
      decide_eq_true_eq] at hn
    obtain ⟨⟨⟨_, hp⟩, _⟩, _⟩ := hn
    intro e he
    exact ⟨(hp e he).1.1.2, (hp e he).1.2⟩
  cases k with
  | false =>
    exact ⟨s1, s3, decompOk_keyJ _ d1, decompOk_vals _ d1, hcs, compOk_comp _ s1 c1⟩
  | true =>
    exact ⟨s2, s3, decompOk_keyJ _ d2, decompOk_vals _ d2, hcs, compOk_comp _ s2 c2⟩


/-! ### the hypotheses of the generic proof -/

theorem tab_toList (k : Bool) : (if k = true then compatTab else canonTab).toList = tabOf k := by
  cases k <;> rfl

theorem isHangulSyllable_eq (c : Nat) : isHangulSyllable c = isSyllable c := rfl

theorem dc_syll (k : Bool) (c : Nat) (h : isSyllable c = true) : decompChar k c = hangulDecomp c := by
  unfold decompChar
  rw [isHangulSyllable_eq, if_pos h]

theorem dc_nonsyll (k : Bool) (ht : TOk k) (c : Nat) (h : isSyllable c = false) :
    decompChar k c = ((tabOf k).lookup c).getD [c] := by
  unfold decompChar
  rw [isHangulSyllable_eq, h, if_neg (by simp),
    kvFind_eq_lookup _ c (by rw [tab_toList]; exact ht.sorted), tab_toList]
  cases (tabOf k).lookup c <;> rfl

theorem dc_plain (k : Bool) (ht : TOk k) (c : Nat) (h : isSyllable c = false)
    (hl : (tabOf k).lookup c = none) : decompChar k c = [c] := by
  rw [dc_nonsyll k ht c h, hl]; rfl

theorem jamo_not_syll (c : Nat) (h : isJamoLVT c = true) : isSyllable c = false := by
  rw [isJamoLVT_iff] at h
  unfold JL JV JT at h
  cases hs : isSyllable c with
  | false => rfl
  | true => rw [isSyllable_iff] at hs; omega

theorem dc_jamo (k : Bool) (ht : TOk k) (c : Nat) (h : isJamoLVT c = true) : decompChar k c = [c] := by
  apply dc_plain k ht c (jamo_not_syll c h)
  cases hl : (tabOf k).lookup c with
  | none => rfl
  | some d =>
    have := ht.keyJ _ (mem_of_lookup _ _ _ hl)
    simp only at this
    rw [h] at this
    cases this

theorem hangul_mem (c : Nat) (hc : isSyllable c = true) : ∀ x ∈ hangulDecomp c, isJamoLVT x = true := by
  rw [isSyllable_iff] at hc
  intro x hx
  rw [isJamoLVT_iff]
  unfold JL JV JT
  unfold hangulDecomp at hx
  simp only [] at hx
  unfold sBase lBase vBase tBase nCount tCount at hx
  split at hx
  · simp only [List.mem_cons, List.not_mem_nil, or_false] at hx
    omega
  · simp only [List.mem_cons, List.not_mem_nil, or_false] at hx
    omega

theorem jamo_lt (c : Nat) (h : isJamoLVT c = true) : c < 0x110000 := by
  rw [isJamoLVT_iff] at h
  unfold JL JV JT at h
  omega

theorem dOk (k : Bool) : DOk k := by
  have ht := tOk k
  refine ⟨?_, ?_⟩
  · intro c hc x hx
    cases hs : isSyllable c with
    | true =>
      rw [dc_syll k c hs] at hx
      have hj := hangul_mem c hs x hx
      exact ⟨jamo_lt x hj, dc_jamo k ht x hj⟩
    | false =>
      rw [dc_nonsyll k ht c hs] at hx
      cases hl : (tabOf k).lookup c with
      | none =>
        rw [hl] at hx
        have : x = c := by simpa using hx
        subst this
        exact ⟨hc, dc_plain k ht x hs hl⟩
      | some d =>
        rw [hl] at hx
        have hx' : x ∈ d := hx
        obtain ⟨h1, h2, h3⟩ := ht.vals _ (mem_of_lookup _ _ _ hl) x hx'
        exact ⟨h3, dc_plain k ht x h2 h1⟩
  · intro a b r hb hr
    rw [composePair_def] at hr
    cases hc : composeHangul a b with
    | some c =>
      rw [hc] at hr
      simp only [Option.some.injEq] at hr
      subst hr
      unfold composeHangul at hc
      simp only [Bool.and_eq_true, decide_eq_true_eq] at hc
      unfold sBase lBase vBase tBase lCount vCount tCount nCount sCount at hc
      split at hc
      · rename_i h1
        injection hc with hc
        have ha : isJamoLVT a = true := by
          rw [isJamoLVT_iff]; unfold JL; omega
        have hcs : isSyllable c = true := by rw [isSyllable_iff]; omega
        rw [dc_syll k c hcs, dc_jamo k ht a ha]
        unfold hangulDecomp
        simp only []
        unfold sBase lBase vBase tBase nCount tCount
        rw [if_pos (by omega)]
        have e1 : 4352 + (c - 44032) / 588 = a := by omega
        have e2 : 4449 + (c - 44032) % 588 / 28 = b := by omega
        rw [e1, e2]
        rfl
      · split at hc
        · rename_i h1 h2
          injection hc with hc
          have has : isSyllable a = true := by rw [isSyllable_iff]; omega
          have hcs : isSyllable c = true := by rw [isSyllable_iff]; omega
          rw [dc_syll k c hcs, dc_syll k a has]
          unfold hangulDecomp
          simp only []
          unfold sBase lBase vBase tBase nCount tCount
          have hn : ¬ (c - 44032) % 28 = 0 := by omega
          have hp : (a - 44032) % 28 = 0 := h2.2
          rw [if_neg hn, if_pos hp]
          have e1 : 4352 + (c - 44032) / 588 = 4352 + (a - 44032) / 588 := by omega
          have e2 : 4449 + (c - 44032) % 588 / 28 = 4449 + (a - 44032) % 588 / 28 := by omega
          have e3 : 4519 + (c - 44032) % 28 = b := by omega
          rw [e1, e2, e3]
          rfl
        · cases hc
    | none =>
      rw [hc] at hr
      simp only at hr
      rw [kvFind_eq_lookup compTab _ ht.compSorted] at hr
      have hm := mem_of_lookup _ _ _ hr
      have e1 : (a * 2097152 + b) / 2097152 = a := by omega
      have e2 : (a * 2097152 + b) % 2097152 = b := by omega
      have hcomp := ht.comp _ hm
      have hsyl := ht.compS _ hm
      simp only [e1, e2] at hcomp hsyl
      rw [dc_nonsyll k ht r hsyl.2, dc_nonsyll k ht a hsyl.1]
      exact hcomp

/-- NFC is idempotent -/
theorem nfc_idem (s : List Nat) (hs : ∀ c ∈ s, c < 0x110000) : nfc (nfc s) = nfc s :=
  idem_of false (dOk false) s hs

/-- NFKC is idempotent (second priority) -/
theorem nfkc_idem (s : List Nat) (hs : ∀ c ∈ s, c < 0x110000) : nfkc (nfkc s) = nfkc s :=
  idem_of true (dOk true) s hs

end Precis.NfcIdem
