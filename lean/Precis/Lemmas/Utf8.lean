/-
Find/slice lemmas: a byte offset returned by `str::find` is always a character boundary, and slicing
there splits the string into the longest prefix without a match and the rest.
-/
import Precis.Model.Utf8
namespace Precis

theorem utf8Len_pos (c : Nat) : 0 < utf8Len c := by
  unfold utf8Len; repeat' split
  all_goals omega

theorem findByte_none_iff (p : Nat → Bool) (s : List Nat) :
    findByte p s = none ↔ ∀ c ∈ s, p c = false := by
  sorry

/-- the offset found is the byte length of the longest prefix without a match -/
theorem findByte_some (p : Nat → Bool) (s : List Nat) (pos : Nat) (h : findByte p s = some pos) :
    pos = byteLen (s.takeWhile (fun c => !p c)) ∧ ∃ c r, s.dropWhile (fun c => !p c) = c :: r ∧ p c = true := by
  sorry

theorem sliceTo_byteLen (pre suf : List Nat) : sliceTo (pre ++ suf) (byteLen pre) = some pre := by
  sorry

theorem sliceFrom_byteLen (pre suf : List Nat) : sliceFrom (pre ++ suf) (byteLen pre) = some suf := by
  sorry

/-- slicing at a `find` result never panics and splits at the first match -/
theorem slice_at_find (p : Nat → Bool) (s : List Nat) (pos : Nat) (h : findByte p s = some pos) :
    sliceTo s pos = some (s.takeWhile (fun c => !p c)) ∧
    sliceFrom s pos = some (s.dropWhile (fun c => !p c)) := by
  sorry

/-- a slice position strictly inside a multi-byte character is rejected (= Rust panic) -/
theorem sliceTo_inside (pre suf : List Nat) (c k : Nat) (hk : 0 < k) (hk' : k < utf8Len c) :
    sliceTo (pre ++ c :: suf) (byteLen pre + k) = none := by
  sorry

end Precis
