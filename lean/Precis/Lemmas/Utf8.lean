/-
Find/slice lemmas: a byte offset returned by `str::find` is always a character boundary, and slicing
there splits the string into the longest prefix without a match and the rest.
-/
import Precis.Model.Utf8
namespace Precis

theorem utf8Len_pos (c : Nat) : 0 < utf8Len c := by
  unfold utf8Len; repeat' split
  all_goals omega

theorem findByte_none_iff (p : Nat → Bool) (s : List Nat) :
    findByte p s = none ↔ ∀ c ∈ s, p c = false := by
  induction s with
  | nil => simp [findByte]
  | cons c r ih =>
    simp only [findByte, List.mem_cons, forall_eq_or_imp]
    by_cases hc : p c = true
    · simp [hc]
    · have hc' : p c = false := by simpa using hc
      simp only [hc', Bool.false_eq_true, if_false, Option.map_eq_none_iff, true_and]
      exact ih

/-- the offset found is the byte length of the longest prefix without a match -/
theorem findByte_some (p : Nat → Bool) (s : List Nat) (pos : Nat) (h : findByte p s = some pos) :
    pos = byteLen (s.takeWhile (fun c => !p c)) ∧ ∃ c r, s.dropWhile (fun c => !p c) = c :: r ∧ p c = true := by
  induction s generalizing pos with
  | nil => simp [findByte] at h
  | cons c r ih =>
    simp only [findByte] at h
    by_cases hc : p c = true
    · simp only [hc, if_true, Option.some.injEq] at h
      subst h
      refine ⟨?_, c, r, ?_, hc⟩
      · simp [hc, byteLen]
      · simp [hc]
    · have hc' : p c = false := by simpa using hc
      simp only [hc', Bool.false_eq_true, if_false, Option.map_eq_some_iff] at h
      obtain ⟨q, hq, rfl⟩ := h
      obtain ⟨h1, c', r', h2, h3⟩ := ih q hq
      refine ⟨?_, c', r', ?_, h3⟩
      · simp only [List.takeWhile_cons, hc', Bool.not_false, if_true, byteLen]
        omega
      · simp only [List.dropWhile_cons, hc', Bool.not_false, if_true]
        exact h2

theorem sliceTo_zero (s : List Nat) : sliceTo s 0 = some [] := by
  cases s <;> rfl

theorem sliceFrom_zero (s : List Nat) : sliceFrom s 0 = some s := by
  cases s <;> rfl

theorem sliceTo_cons_pos (c : Nat) (r : List Nat) (pos : Nat) (h : 0 < pos) :
    sliceTo (c :: r) pos =
      if pos < utf8Len c then none else (sliceTo r (pos - utf8Len c)).map (c :: ·) := by
  cases pos with
  | zero => omega
  | succ n => rfl

theorem sliceFrom_cons_pos (c : Nat) (r : List Nat) (pos : Nat) (h : 0 < pos) :
    sliceFrom (c :: r) pos =
      if pos < utf8Len c then none else sliceFrom r (pos - utf8Len c) := by
  cases pos with
  | zero => omega
  | succ n => rfl

theorem sliceTo_byteLen (pre suf : List Nat) : sliceTo (pre ++ suf) (byteLen pre) = some pre := by
  induction pre with
  | nil => exact sliceTo_zero _
  | cons c pre ih =>
    have hp := utf8Len_pos c
    simp only [List.cons_append, byteLen]
    rw [sliceTo_cons_pos _ _ _ (by omega)]
    have h1 : ¬ (utf8Len c + byteLen pre < utf8Len c) := by omega
    have h2 : utf8Len c + byteLen pre - utf8Len c = byteLen pre := by omega
    simp only [h1, if_false, h2, ih, Option.map_some]

theorem sliceFrom_byteLen (pre suf : List Nat) : sliceFrom (pre ++ suf) (byteLen pre) = some suf := by
  induction pre with
  | nil => exact sliceFrom_zero _
  | cons c pre ih =>
    have hp := utf8Len_pos c
    simp only [List.cons_append, byteLen]
    rw [sliceFrom_cons_pos _ _ _ (by omega)]
    have h1 : ¬ (utf8Len c + byteLen pre < utf8Len c) := by omega
    have h2 : utf8Len c + byteLen pre - utf8Len c = byteLen pre := by omega
    simp only [h1, if_false, h2, ih]

/-- slicing at a `find` result never panics and splits at the first match -/
theorem slice_at_find (p : Nat → Bool) (s : List Nat) (pos : Nat) (h : findByte p s = some pos) :
    sliceTo s pos = some (s.takeWhile (fun c => !p c)) ∧
    sliceFrom s pos = some (s.dropWhile (fun c => !p c)) := by
  obtain ⟨hpos, _⟩ := findByte_some p s pos h
  have hs : s = s.takeWhile (fun c => !p c) ++ s.dropWhile (fun c => !p c) :=
    (List.takeWhile_append_dropWhile).symm
  subst hpos
  constructor
  · conv => lhs; arg 1; rw [hs]
    exact sliceTo_byteLen _ _
  · conv => lhs; arg 1; rw [hs]
    exact sliceFrom_byteLen _ _

/-- a slice position strictly inside a multi-byte character is rejected (= Rust panic) -/
theorem sliceTo_inside (pre suf : List Nat) (c k : Nat) (hk : 0 < k) (hk' : k < utf8Len c) :
    sliceTo (pre ++ c :: suf) (byteLen pre + k) = none := by
  induction pre with
  | nil =>
    simp only [List.nil_append, byteLen, Nat.zero_add]
    rw [sliceTo_cons_pos _ _ _ hk]
    simp [hk']
  | cons d pre ih =>
    have hp := utf8Len_pos d
    simp only [List.cons_append, byteLen]
    rw [sliceTo_cons_pos _ _ _ (by omega)]
    have h1 : ¬ (utf8Len d + byteLen pre + k < utf8Len d) := by omega
    have h2 : utf8Len d + byteLen pre + k - utf8Len d = byteLen pre + k := by omega
    simp only [h1, if_false, h2, ih, Option.map_none]

end Precis
