/-
Code-point sets as big-number bitmaps: `Nat.testBit` on literals is evaluated by the kernel's GMP
primitives, so thousands of membership queries against a table cost milliseconds instead of a
linear walk each.
-/
import Precis.Model.Codepoints
namespace Precis

/-- bitmap with exactly the bits `lo .. hi` of each entry set -/
def bitsOf : List Cps → Nat
  | [] => 0
  | e :: r => (((1 <<< (e.hi + 1 - e.lo)) - 1) <<< e.lo) ||| bitsOf r

theorem testBit_mask (lo hi cp : Nat) :
    (((1 <<< (hi + 1 - lo)) - 1) <<< lo).testBit cp = (decide (lo ≤ cp) && decide (cp ≤ hi)) := by
  rw [Nat.testBit_shiftLeft, Nat.one_shiftLeft, Nat.testBit_two_pow_sub_one, Bool.eq_iff_iff]
  simp only [Bool.and_eq_true, decide_eq_true_eq]
  omega

theorem eqCp_eq_decide_bits (e : Cps) (cp : Nat) :
    e.eqCp cp = (decide (e.lo ≤ cp) && decide (cp ≤ e.hi)) := by
  cases e with
  | single c =>
    show (c == cp) = (decide (c ≤ cp) && decide (cp ≤ c))
    rw [Bool.eq_iff_iff]
    simp only [Bool.and_eq_true, decide_eq_true_eq, beq_iff_eq]
    omega
  | range a b => rfl

theorem testBit_bitsOf (l : List Cps) (cp : Nat) : (bitsOf l).testBit cp = memL cp l := by
  induction l with
  | nil => simp [bitsOf, memL]
  | cons e r ih =>
    have hr : memL cp (e :: r) = (e.eqCp cp || memL cp r) := by simp [memL]
    rw [hr, bitsOf, Nat.testBit_or, ih, testBit_mask, eqCp_eq_decide_bits]

end Precis
