/-
Code-point sets as big-number bitmaps: `Nat.testBit` on literals is evaluated by the kernel's GMP
primitives, so thousands of membership queries against a table cost milliseconds instead of a
linear walk each.
-/
import Precis.Model.Codepoints
namespace Precis

/-- bitmap with exactly the bits `lo .. hi` of each entry set -/
def bitsOf : List Cps → Nat
  | [] => 0
  | e :: r => (((1 <<< (e.hi + 1 - e.lo)) - 1) <<< e.lo) ||| bitsOf r

theorem testBit_bitsOf (l : List Cps) (cp : Nat) : (bitsOf l).testBit cp = memL cp l := by
  sorry

end Precis
