/-
Helper lemmas for C15: the stateful table generators (`unassignedTable`, `bidiTable`) on ascending rows.
-/
import Precis.Model.Generators
import Precis.Model.Codepoints
namespace Precis.GenRunAux
open Precis Precis.Gen'

/-! ### general lemmas: `sortedTable`, `memL`, `lookupL` and append -/

theorem sortedTable_append_one (vec : List Cps) (e : Cps)
    (hs : sortedTable vec = true) (he : e.lo ≤ e.hi + 1) (hlt : ∀ x ∈ vec, x.hi < e.lo) :
    sortedTable (vec ++ [e]) = true := by
  induction vec with
  | nil => simp [sortedTable, he]
  | cons a r ih =>
    cases r with
    | nil =>
      simp [sortedTable] at hs ⊢
      exact ⟨⟨hs, hlt a (by simp)⟩, he⟩
    | cons b r' =>
      simp only [List.cons_append, sortedTable, Bool.and_eq_true, decide_eq_true_eq] at hs ⊢
      refine ⟨hs.1, ?_⟩
      apply ih hs.2
      intro x hx
      exact hlt x (List.mem_cons_of_mem _ hx)

theorem eqCp_iff (e : Cps) (cp : Nat) (h : e.lo ≤ e.hi) :
    e.eqCp cp = true ↔ (e.lo ≤ cp ∧ cp ≤ e.hi) := by
  cases e with
  | single c => simp [Cps.eqCp, Cps.lo, Cps.hi]; omega
  | range a b => simp [Cps.eqCp, Cps.lo, Cps.hi]

/-- ascending rows above a lower bound, all below U+10FFFE -/
def Asc : Nat → List URow → Prop
  | _, [] => True
  | lb, r :: rest => lb ≤ r.cps.lo ∧ r.cps.lo ≤ r.cps.hi ∧ r.cps.hi ≤ 0x10FFFD ∧ Asc (r.cps.hi + 1) rest

/-- any predicate that unfolds like `C15.WF` gives `Asc` -/
theorem asc_of_wf (W : List URow → Prop)
    (h1 : ∀ r, W [r] → r.cps.lo ≤ r.cps.hi ∧ r.cps.hi ≤ 0x10FFFD)
    (h2 : ∀ r r' rest, W (r :: r' :: rest) → r.cps.lo ≤ r.cps.hi ∧ r.cps.hi < r'.cps.lo ∧ W (r' :: rest)) :
    ∀ (rows : List URow) (lb : Nat), W rows → (∀ r ∈ rows.head?, lb ≤ r.cps.lo) → Asc lb rows := by
  intro rows
  induction rows with
  | nil => intro lb _ _; trivial
  | cons r rest ih =>
    intro lb hw hlb
    have hlb' : lb ≤ r.cps.lo := hlb r (by simp)
    cases rest with
    | nil =>
      have := h1 r hw
      exact ⟨hlb', this.1, this.2, trivial⟩
    | cons r' rest' =>
      have h := h2 r r' rest' hw
      have ha : Asc (r.cps.hi + 1) (r' :: rest') := by
        apply ih _ h.2.2
        intro x hx
        simp at hx; subst hx; omega
      have := ha.2.1
      have := ha.2.2.1
      have := h.2.1
      exact ⟨hlb', h.1, by omega, ha⟩

/-- some row contains `cp` -/
def asg (rows : List URow) (cp : Nat) : Bool := rows.any (fun r => true && r.cps.eqCp cp)

theorem asg_cons (r : URow) (rest : List URow) (cp : Nat) :
    asg (r :: rest) cp = (r.cps.eqCp cp || asg rest cp) := by
  simp [asg]

theorem asg_below : ∀ (rows : List URow) (lb cp : Nat), Asc lb rows → cp < lb → asg rows cp = false := by
  intro rows
  induction rows with
  | nil => intro _ _ _ _; rfl
  | cons r rest ih =>
    intro lb cp ha hcp
    rw [asg_cons]
    have h1 : r.cps.eqCp cp = false := by
      cases h : r.cps.eqCp cp with
      | false => rfl
      | true =>
        have := (eqCp_iff _ _ ha.2.1).1 h
        have := ha.1
        omega
    have h2 := ih (r.cps.hi + 1) cp ha.2.2.2 (by have := ha.1; have := ha.2.1; omega)
    simp [h1, h2]

/-! ### the unassigned-gap generator -/

theorem gap_ok (rs re x : Nat) (vec : List Cps) (hre : re ≤ rs) (hx : rs ≤ x)
    (hs : sortedTable vec = true) (hlt : ∀ y ∈ vec, y.hi < rs) :
    ∃ v, (x - re = 0 → v = vec) ∧ (x - re ≠ 0 → x ≠ 0 ∧ v = addCodepoints rs (x - 1) vec) ∧
      sortedTable v = true ∧ (∀ y ∈ v, y.hi < x) ∧
      ∀ cp, memL cp v = (memL cp vec || (decide (rs ≤ cp) && decide (cp < x))) := by
  by_cases h : x - re = 0
  · refine ⟨vec, fun _ => rfl, fun h' => absurd h h', hs, ?_, ?_⟩
    · intro y hy; have := hlt y hy; omega
    · intro cp
      have : (decide (rs ≤ cp) && decide (cp < x)) = false := by
        simp; omega
      simp [this]
  · have hx0 : x ≠ 0 := by omega
    refine ⟨addCodepoints rs (x - 1) vec, fun h' => absurd h' h, fun _ => ⟨hx0, rfl⟩, ?_, ?_, ?_⟩
    · unfold addCodepoints
      split
      · apply sortedTable_append_one _ _ hs
        · simp [Cps.lo, Cps.hi]
        · intro y hy; simpa [Cps.lo] using hlt y hy
      · apply sortedTable_append_one _ _ hs
        · simp [Cps.lo, Cps.hi]; omega
        · intro y hy; simpa [Cps.lo] using hlt y hy
    · intro y hy
      unfold addCodepoints at hy
      split at hy
      · simp at hy
        rcases hy with hy | hy
        · have := hlt y hy; omega
        · subst hy; simp [Cps.hi]; omega
      · simp at hy
        rcases hy with hy | hy
        · have := hlt y hy; omega
        · subst hy; simp [Cps.hi]; omega
    · intro cp
      unfold addCodepoints
      split
      · rename_i e
        simp only [memL, List.any_append, List.any_cons, List.any_nil, Bool.or_false, Cps.eqCp]
        congr 1
        rw [Bool.eq_iff_iff]; simp; omega
      · simp only [memL, List.any_append, List.any_cons, List.any_nil, Bool.or_false, Cps.eqCp]
        congr 1
        rw [Bool.eq_iff_iff]; simp; omega

theorem unassignedStep_ok (rs re : Nat) (vec : List Cps) (row : URow)
    (hre : re ≤ rs) (hlo : rs ≤ row.cps.lo) (hlh : row.cps.lo ≤ row.cps.hi) (hhi : row.cps.hi ≤ 0x10FFFD)
    (hs : sortedTable vec = true) (hlt : ∀ x ∈ vec, x.hi < rs) :
    ∃ re1 vec1, unassignedStep ((rs, re), vec) row = some ((row.cps.hi + 1, re1), vec1) ∧
      re1 ≤ row.cps.hi + 1 ∧ sortedTable vec1 = true ∧ (∀ x ∈ vec1, x.hi < row.cps.hi + 1) ∧
      ∀ cp, memL cp vec1 = (memL cp vec || (decide (rs ≤ cp) && decide (cp < row.cps.lo))) := by
  obtain ⟨v, hv1, hv2, hsv, hltv, hmem⟩ := gap_ok rs re row.cps.lo vec hre hlo hs hlt
  unfold unassignedStep
  cases hc : row.cps with
  | single c =>
    rw [hc] at hv1 hv2 hlo hlh hhi hltv hmem
    simp only [Cps.lo, Cps.hi] at hv1 hv2 hlo hlh hhi hltv hmem ⊢
    have h1 : ¬ (c + 1 > 0x10FFFF) := by omega
    have h2 : ¬ (c < re) := by omega
    refine ⟨c + 1, v, ?_, Nat.le_refl _, hsv, fun x hx => by have := hltv x hx; omega, hmem⟩
    by_cases h : c - re = 0
    · simp [h1, h2, h, hv1 h]
    · obtain ⟨h0, hv⟩ := hv2 h
      simp [h1, h2, h, h0, hv]
  | range a b =>
    rw [hc] at hv1 hv2 hlo hlh hhi hltv hmem
    simp only [Cps.lo, Cps.hi] at hv1 hv2 hlo hlh hhi hltv hmem ⊢
    have h1 : ¬ (b + 1 > 0x10FFFF) := by omega
    have h2 : ¬ (a < re) := by omega
    refine ⟨a, v, ?_, by omega, hsv, fun x hx => by have := hltv x hx; omega, hmem⟩
    by_cases h : a - re = 0
    · simp [h1, h2, h, hv1 h]
    · obtain ⟨h0, hv⟩ := hv2 h
      have hp : a - re > 0 := by omega
      simp [h1, h2, hp, h0, hv]

theorem unassignedLoop_ok : ∀ (rest : List URow) (rs re : Nat) (vec : List Cps),
    Asc rs rest → re ≤ rs → rs ≤ 0x10FFFE → sortedTable vec = true → (∀ x ∈ vec, x.hi < rs) →
    ∃ rs' re' vec', unassignedLoop rest ((rs, re), vec) = some ((rs', re'), vec') ∧
      rs ≤ rs' ∧ rs' ≤ 0x10FFFE ∧ sortedTable vec' = true ∧ (∀ x ∈ vec', x.hi < rs') ∧
      (∀ cp, rs' ≤ cp → asg rest cp = false) ∧
      ∀ cp, memL cp vec' = (memL cp vec || (decide (rs ≤ cp) && decide (cp < rs') && !asg rest cp)) := by
  intro rest
  induction rest with
  | nil =>
    intro rs re vec _ _ hrs hs hlt
    refine ⟨rs, re, vec, rfl, Nat.le_refl _, hrs, hs, hlt, fun _ _ => rfl, ?_⟩
    intro cp
    have : (decide (rs ≤ cp) && decide (cp < rs)) = false := by simp
    simp [this]
  | cons row rest ih =>
    intro rs re vec ha hre hrs hs hlt
    obtain ⟨hlo, hlh, hhi, ha'⟩ := ha
    obtain ⟨re1, vec1, hstep, hre1, hs1, hlt1, hmem1⟩ :=
      unassignedStep_ok rs re vec row hre hlo hlh hhi hs hlt
    obtain ⟨rs', re', vec', hloop, hle, hrs', hs', hlt', habove, hmem'⟩ :=
      ih (row.cps.hi + 1) re1 vec1 ha' hre1 (by omega) hs1 hlt1
    refine ⟨rs', re', vec', ?_, by omega, hrs', hs', hlt', ?_, ?_⟩
    · simp only [unassignedLoop, hstep, hloop]
    · intro cp hcp
      rw [asg_cons, habove cp hcp]
      cases h : row.cps.eqCp cp with
      | false => rfl
      | true => have := (eqCp_iff _ _ hlh).1 h; omega
    · intro cp
      rw [hmem', hmem1, asg_cons]
      have hb : cp < row.cps.hi + 1 → asg rest cp = false := asg_below rest _ cp ha'
      have he := eqCp_iff row.cps cp hlh
      rw [Bool.eq_iff_iff]
      cases hm : memL cp vec <;> cases hasg : asg rest cp <;> cases hcpe : row.cps.eqCp cp <;>
        simp [hcpe] at he ⊢ <;> (try simp [hasg] at hb) <;> omega

theorem addCodepoints_sorted (a b : Nat) (vec : List Cps) (h : a ≤ b + 1)
    (hs : sortedTable vec = true) (hlt : ∀ x ∈ vec, x.hi < a) :
    sortedTable (addCodepoints a b vec) = true := by
  unfold addCodepoints
  split
  · apply sortedTable_append_one _ _ hs
    · simp [Cps.lo, Cps.hi]
    · intro y hy; simpa [Cps.lo] using hlt y hy
  · apply sortedTable_append_one _ _ hs
    · simpa [Cps.lo, Cps.hi] using h
    · intro y hy; simpa [Cps.lo] using hlt y hy

theorem addCodepoints_mem (a b : Nat) (vec : List Cps) (cp : Nat) (h : a ≤ b) :
    memL cp (addCodepoints a b vec) = (memL cp vec || (decide (a ≤ cp) && decide (cp ≤ b))) := by
  unfold addCodepoints
  split
  · rename_i e; subst e
    simp only [memL, List.any_append, List.any_cons, List.any_nil, Bool.or_false, Cps.eqCp]
    congr 1
    rw [Bool.eq_iff_iff]; simp; omega
  · simp [memL, List.any_append, Cps.eqCp]

/-- C15 `unassigned_exact`, for any `W` that unfolds like `C15.WF` -/
theorem unassigned_exact (W : List URow → Prop)
    (h1 : ∀ r, W [r] → r.cps.lo ≤ r.cps.hi ∧ r.cps.hi ≤ 0x10FFFD)
    (h2 : ∀ r r' rest, W (r :: r' :: rest) → r.cps.lo ≤ r.cps.hi ∧ r.cps.hi < r'.cps.lo ∧ W (r' :: rest))
    (rows : List URow) (h : W rows) :
    ∃ t, unassignedTable rows = some t ∧ sortedTable t = true ∧
      ∀ cp, memL cp t = (decide (cp ≤ 0x10FFFF) && !rows.any (fun r => true && r.cps.eqCp cp)) := by
  have ha : Asc 0 rows := asc_of_wf W h1 h2 rows 0 h (fun _ _ => Nat.zero_le _)
  obtain ⟨rs', re', vec', hloop, _, hrs', hs', hlt', habove, hmem'⟩ :=
    unassignedLoop_ok rows 0 0 [] ha (Nat.le_refl _) (by omega) rfl (by simp)
  have hle : rs' ≤ 0x10FFFF := by omega
  refine ⟨addCodepoints rs' 0x10FFFF vec', ?_, ?_, ?_⟩
  · simp only [unassignedTable, hloop, hle, if_true]
  · exact addCodepoints_sorted _ _ _ (by omega) hs' hlt'
  · intro cp
    rw [addCodepoints_mem _ _ _ _ hle, hmem']
    have hb := habove cp
    change _ = (decide (cp ≤ 0x10FFFF) && !asg rows cp)
    rw [Bool.eq_iff_iff]
    cases hasg : asg rows cp <;> simp [memL] <;> (try simp [hasg] at hb) <;> omega

/-! ### the bidi-class generator -/

theorem lookupL_append {V} (cp : Nat) (l m : List (Cps × V)) :
    lookupL cp (l ++ m) = (lookupL cp l).or (lookupL cp m) := by
  induction l with
  | nil => simp [lookupL]
  | cons x r ih =>
    obtain ⟨e, v⟩ := x
    simp only [List.cons_append, lookupL]
    split
    · simp
    · exact ih

theorem lookupL_tail_congr {V} (l m m' : List (Cps × V)) (h : ∀ cp, lookupL cp m = lookupL cp m') :
    ∀ cp, lookupL cp (l ++ m) = lookupL cp (l ++ m') := by
  intro cp; rw [lookupL_append, lookupL_append, h]

theorem lookupL_head_congr {V} (l l' m : List (Cps × V)) (h : ∀ cp, lookupL cp l = lookupL cp l') :
    ∀ cp, lookupL cp (l ++ m) = lookupL cp (l' ++ m) := by
  intro cp; rw [lookupL_append, lookupL_append, h]

def keys (l : List (Cps × String)) : List Cps := l.map (·.1)

theorem keys_append (l m : List (Cps × String)) : keys (l ++ m) = keys l ++ keys m := by
  simp [keys]

/-- entries ascending above a lower bound -/
def AscE : Nat → List (Cps × String) → Prop
  | _, [] => True
  | lb, e :: rest => lb ≤ e.1.lo ∧ e.1.lo ≤ e.1.hi ∧ AscE (e.1.hi + 1) rest

theorem ascE_of_asc : ∀ (rows : List URow) (lb : Nat), Asc lb rows →
    AscE lb (rows.map (fun r => (r.cps, r.bidi))) := by
  intro rows
  induction rows with
  | nil => intro _ _; trivial
  | cons r rest ih =>
    intro lb h
    exact ⟨h.1, h.2.1, ih _ h.2.2.2⟩

theorem find_eq_lookupL (rows : List URow) (cp : Nat) :
    (rows.find? (fun r => r.cps.eqCp cp)).map (·.bidi) = lookupL cp (rows.map (fun r => (r.cps, r.bidi))) := by
  induction rows with
  | nil => rfl
  | cons r rest ih =>
    simp only [List.find?_cons, List.map_cons, lookupL]
    cases h : r.cps.eqCp cp with
    | true => simp
    | false => simpa using ih

/-- first half of `bidiStep`: flush the pending run on a class change -/
def flush (st : BidiSt) (bidi : String) : BidiSt :=
  let val := match st.val with | none => some bidi | v => v
  if val != some bidi then
    match st.range with
    | some r => { out := addRangeB r (val.getD "") st.out, range := none, val := some bidi }
    | none => { out := st.out, range := none, val := some bidi }
  else { st with val := val }

/-- second half of `bidiStep`: extend / start / emit -/
def pushCp (st1 : BidiSt) (cp : Cps) (bidi : String) : Option BidiSt :=
  match cp with
  | .single c =>
    match st1.range with
    | some (a, b) =>
      if c < b then none
      else if c - b = 1 then some { st1 with range := some (a, c) }
      else some { st1 with out := addRangeB (a, b) bidi st1.out, range := some (c, c) }
    | none => some { st1 with range := some (c, c) }
  | .range s e' =>
    match st1.range with
    | some (a, b) =>
      if s < b then none
      else if s - b = 1 then some { st1 with range := some (a, e') }
      else some { st1 with out := st1.out ++ [(.range a b, bidi), (.range s e', bidi)], range := none }
    | none => some { st1 with range := some (s, e') }

theorem bidiStep_eq (st : BidiSt) (cp : Cps) (bidi : String) :
    bidiStep st (cp, bidi) = pushCp (flush st bidi) cp bidi := rfl

/-- state invariant; `lb` is one past the last processed code point -/
def Inv (lb : Nat) : BidiSt → Prop
  | ⟨out, some (a, b), val⟩ =>
    sortedTable (keys out) = true ∧ a ≤ b ∧ b + 1 ≤ lb ∧ (∀ x ∈ keys out, x.hi < a) ∧ val ≠ none
  | ⟨out, none, _⟩ => sortedTable (keys out) = true ∧ ∀ x ∈ keys out, x.hi < lb

/-- the table the state denotes: emitted entries followed by the pending run -/
def den : BidiSt → List (Cps × String)
  | ⟨out, some (a, b), val⟩ => out ++ [(.range a b, val.getD "")]
  | ⟨out, none, _⟩ => out

theorem addRangeB_spec (a b : Nat) (v : String) (out : List (Cps × String)) :
    ∃ k, addRangeB (a, b) v out = out ++ [(k, v)] ∧ k.lo = a ∧ k.hi = b ∧
      ∀ cp, k.eqCp cp = (Cps.range a b).eqCp cp := by
  unfold addRangeB
  by_cases h : a = b
  · subst h
    refine ⟨.single a, by simp, rfl, rfl, ?_⟩
    intro cp
    rw [Bool.eq_iff_iff]; simp [Cps.eqCp]; omega
  · exact ⟨.range a b, by simp [h], rfl, rfl, fun _ => rfl⟩

theorem sorted_keys_snoc (out : List (Cps × String)) (k : Cps) (v : String)
    (hs : sortedTable (keys out) = true) (hk : k.lo ≤ k.hi + 1) (hlt : ∀ x ∈ keys out, x.hi < k.lo) :
    sortedTable (keys (out ++ [(k, v)])) = true := by
  rw [keys_append]
  exact sortedTable_append_one _ _ hs hk hlt

theorem mem_keys_snoc (out : List (Cps × String)) (k : Cps) (v : String) (x : Cps)
    (h : x ∈ keys (out ++ [(k, v)])) : x ∈ keys out ∨ x = k := by
  rw [keys_append] at h
  simpa [keys] using h

theorem lookupL_one_congr (k k' : Cps) (v : String) (h : ∀ cp, k.eqCp cp = k'.eqCp cp) :
    ∀ cp, lookupL cp [(k, v)] = lookupL cp [(k', v)] := by
  intro cp; simp [lookupL, h]

theorem flush_ok (lb : Nat) (st : BidiSt) (bidi : String) (hinv : Inv lb st) :
    Inv lb (flush st bidi) ∧ (flush st bidi).val = some bidi ∧
      ∀ cp, lookupL cp (den (flush st bidi)) = lookupL cp (den st) := by
  obtain ⟨out, range, val⟩ := st
  cases val with
  | none =>
    cases range with
    | none =>
      have : flush ⟨out, none, none⟩ bidi = ⟨out, none, some bidi⟩ := by simp [flush]
      rw [this]
      exact ⟨hinv, rfl, fun _ => rfl⟩
    | some r =>
      obtain ⟨a, b⟩ := r
      exact absurd rfl hinv.2.2.2.2
  | some v =>
    by_cases hv : v = bidi
    · subst hv
      have : flush ⟨out, range, some v⟩ v = ⟨out, range, some v⟩ := by simp [flush]
      rw [this]
      exact ⟨hinv, rfl, fun _ => rfl⟩
    · cases range with
      | none =>
        have : flush ⟨out, none, some v⟩ bidi = ⟨out, none, some bidi⟩ := by simp [flush, hv]
        rw [this]
        exact ⟨hinv, rfl, fun _ => rfl⟩
      | some r =>
        obtain ⟨a, b⟩ := r
        obtain ⟨k, hk, hklo, hkhi, hkeq⟩ := addRangeB_spec a b v out
        have : flush ⟨out, some (a, b), some v⟩ bidi = ⟨out ++ [(k, v)], none, some bidi⟩ := by
          simp [flush, hv, hk]
        rw [this]
        obtain ⟨hs, hab, hb, hlt, _⟩ := hinv
        refine ⟨⟨?_, ?_⟩, rfl, ?_⟩
        · exact sorted_keys_snoc _ _ _ hs (by omega) (by rw [hklo]; exact hlt)
        · intro x hx
          rcases mem_keys_snoc _ _ _ _ hx with hx | hx
          · have := hlt x hx; omega
          · subst hx; omega
        · exact lookupL_tail_congr out _ _ (lookupL_one_congr _ _ _ hkeq)

theorem lo_single (c : Nat) : (Cps.single c).lo = c := rfl
theorem hi_single (c : Nat) : (Cps.single c).hi = c := rfl
theorem lo_range (a b : Nat) : (Cps.range a b).lo = a := rfl
theorem hi_range (a b : Nat) : (Cps.range a b).hi = b := rfl

theorem lookupL_merge (a b : Nat) (k : Cps) (v : String) (hab : a ≤ b) (hk : k.lo = b + 1)
    (hkk : k.lo ≤ k.hi) :
    ∀ cp, lookupL cp [(.range a k.hi, v)] = lookupL cp [(.range a b, v), (k, v)] := by
  intro cp
  have h1 := eqCp_iff (.range a k.hi) cp (by simp only [lo_range, hi_range]; omega)
  have h2 := eqCp_iff (.range a b) cp (by simpa only [lo_range, hi_range] using hab)
  have h3 := eqCp_iff k cp hkk
  simp only [lo_range, hi_range] at h1 h2
  simp only [lookupL]
  cases e1 : (Cps.range a k.hi).eqCp cp <;> cases e2 : (Cps.range a b).eqCp cp <;>
    cases e3 : k.eqCp cp <;> simp [e1, e2, e3] at h1 h2 h3 ⊢ <;> omega

theorem pushCp_ok (lb : Nat) (st1 : BidiSt) (c : Cps) (bidi : String) (hinv : Inv lb st1)
    (hval : st1.val = some bidi) (hlb : lb ≤ c.lo) (hc : c.lo ≤ c.hi) :
    ∃ st2, pushCp st1 c bidi = some st2 ∧ Inv (c.hi + 1) st2 ∧
      ∀ cp, lookupL cp (den st2) = lookupL cp (den st1 ++ [(c, bidi)]) := by
  obtain ⟨out, range, val⟩ := st1
  simp only at hval
  subst hval
  cases range with
  | none =>
    obtain ⟨hs, hlt⟩ := hinv
    cases c with
    | single c =>
      simp only [Cps.lo, Cps.hi] at hlb hc ⊢
      refine ⟨⟨out, some (c, c), some bidi⟩, rfl, ⟨hs, Nat.le_refl _, Nat.le_refl _, ?_, by simp⟩, ?_⟩
      · intro x hx; have := hlt x hx; omega
      · apply lookupL_tail_congr
        apply lookupL_one_congr
        intro cp; rw [Bool.eq_iff_iff]; simp [Cps.eqCp]; omega
    | range s e =>
      simp only [Cps.lo, Cps.hi] at hlb hc ⊢
      refine ⟨⟨out, some (s, e), some bidi⟩, rfl, ⟨hs, hc, Nat.le_refl _, ?_, by simp⟩, fun _ => rfl⟩
      intro x hx; have := hlt x hx; omega
  | some r =>
    obtain ⟨a, b⟩ := r
    obtain ⟨hs, hab, hb, hlt, _⟩ := hinv
    cases c with
    | single c =>
      simp only [Cps.lo, Cps.hi] at hlb hc ⊢
      have h1 : ¬ c < b := by omega
      by_cases h2 : c - b = 1
      · refine ⟨⟨out, some (a, c), some bidi⟩, by simp [pushCp, h1, h2],
          ⟨hs, by omega, Nat.le_refl _, hlt, by simp⟩, ?_⟩
        intro cp
        show lookupL cp (out ++ [(Cps.range a c, bidi)]) =
          lookupL cp ((out ++ [(Cps.range a b, bidi)]) ++ [(Cps.single c, bidi)])
        rw [List.append_assoc]
        exact lookupL_tail_congr out _ _
          (lookupL_merge a b (.single c) bidi hab (by simp only [Cps.lo]; omega) (Nat.le_refl _)) cp
      · obtain ⟨k, hk, hklo, hkhi, hkeq⟩ := addRangeB_spec a b bidi out
        refine ⟨⟨out ++ [(k, bidi)], some (c, c), some bidi⟩, by simp [pushCp, h1, h2, hk],
          ⟨?_, Nat.le_refl _, Nat.le_refl _, ?_, by simp⟩, ?_⟩
        · exact sorted_keys_snoc _ _ _ hs (by omega) (by rw [hklo]; exact hlt)
        · intro x hx
          rcases mem_keys_snoc _ _ _ _ hx with hx | hx
          · have := hlt x hx; omega
          · subst hx; omega
        · intro cp
          show lookupL cp ((out ++ [(k, bidi)]) ++ [(Cps.range c c, bidi)]) =
            lookupL cp ((out ++ [(Cps.range a b, bidi)]) ++ [(Cps.single c, bidi)])
          rw [lookupL_append _ (out ++ [(k, bidi)]), lookupL_append _ (out ++ [(Cps.range a b, bidi)])]
          congr 1
          · exact lookupL_tail_congr out _ _ (lookupL_one_congr _ _ _ hkeq) cp
          · apply lookupL_one_congr
            intro cp; rw [Bool.eq_iff_iff]; simp [Cps.eqCp]; omega
    | range s e =>
      simp only [Cps.lo, Cps.hi] at hlb hc ⊢
      have h1 : ¬ s < b := by omega
      by_cases h2 : s - b = 1
      · refine ⟨⟨out, some (a, e), some bidi⟩, by simp [pushCp, h1, h2],
          ⟨hs, by omega, Nat.le_refl _, hlt, by simp⟩, ?_⟩
        intro cp
        show lookupL cp (out ++ [(Cps.range a e, bidi)]) =
          lookupL cp ((out ++ [(Cps.range a b, bidi)]) ++ [(Cps.range s e, bidi)])
        rw [List.append_assoc]
        exact lookupL_tail_congr out _ _
          (lookupL_merge a b (.range s e) bidi hab (by simp only [Cps.lo]; omega) hc) cp
      · refine ⟨⟨out ++ [(Cps.range a b, bidi), (Cps.range s e, bidi)], none, some bidi⟩,
          by simp [pushCp, h1, h2], ⟨?_, ?_⟩, ?_⟩
        · have : out ++ [(Cps.range a b, bidi), (Cps.range s e, bidi)] =
              (out ++ [(Cps.range a b, bidi)]) ++ [(Cps.range s e, bidi)] := by simp
          rw [this]
          apply sorted_keys_snoc
          · exact sorted_keys_snoc _ _ _ hs (by simp only [Cps.lo, Cps.hi]; omega) hlt
          · simp only [Cps.lo, Cps.hi]; omega
          · intro x hx
            simp only [Cps.lo]
            rcases mem_keys_snoc _ _ _ _ hx with hx | hx
            · have := hlt x hx; omega
            · subst hx; simp only [Cps.hi]; omega
        · intro x hx
          have : out ++ [(Cps.range a b, bidi), (Cps.range s e, bidi)] =
              (out ++ [(Cps.range a b, bidi)]) ++ [(Cps.range s e, bidi)] := by simp
          rw [this] at hx
          rcases mem_keys_snoc _ _ _ _ hx with hx | hx
          · rcases mem_keys_snoc _ _ _ _ hx with hx | hx
            · have := hlt x hx; omega
            · subst hx; simp only [Cps.hi]; omega
          · subst hx; simp only [Cps.hi]; omega
        · intro cp
          show lookupL cp (out ++ [(Cps.range a b, bidi), (Cps.range s e, bidi)]) =
            lookupL cp ((out ++ [(Cps.range a b, bidi)]) ++ [(Cps.range s e, bidi)])
          simp

theorem bidiStep_ok (lb : Nat) (st : BidiSt) (e : Cps × String) (hinv : Inv lb st)
    (hlb : lb ≤ e.1.lo) (hc : e.1.lo ≤ e.1.hi) :
    ∃ st2, bidiStep st e = some st2 ∧ Inv (e.1.hi + 1) st2 ∧
      ∀ cp, lookupL cp (den st2) = lookupL cp (den st ++ [e]) := by
  obtain ⟨c, bidi⟩ := e
  obtain ⟨hinv1, hval1, hden1⟩ := flush_ok lb st bidi hinv
  obtain ⟨st2, hpush, hinv2, hden2⟩ := pushCp_ok lb (flush st bidi) c bidi hinv1 hval1 hlb hc
  refine ⟨st2, by rw [bidiStep_eq]; exact hpush, hinv2, ?_⟩
  intro cp
  rw [hden2 cp]
  exact lookupL_head_congr _ _ _ hden1 cp

theorem bidiLoop_ok : ∀ (es : List (Cps × String)) (lb : Nat) (st : BidiSt), AscE lb es → Inv lb st →
    ∃ st' lb', bidiLoop es st = some st' ∧ Inv lb' st' ∧
      ∀ cp, lookupL cp (den st') = lookupL cp (den st ++ es) := by
  intro es
  induction es with
  | nil =>
    intro lb st _ hinv
    exact ⟨st, lb, rfl, hinv, fun cp => by rw [List.append_nil]⟩
  | cons e es ih =>
    intro lb st ha hinv
    obtain ⟨st2, hstep, hinv2, hden2⟩ := bidiStep_ok lb st e hinv ha.1 ha.2.1
    obtain ⟨st', lb', hloop, hinv', hden'⟩ := ih _ st2 ha.2.2 hinv2
    refine ⟨st', lb', by simp only [bidiLoop, hstep, hloop], hinv', ?_⟩
    intro cp
    rw [hden' cp, lookupL_head_congr _ _ es hden2 cp, List.append_assoc]
    rfl

/-- C15 `bidi_exact`, for any `W` that unfolds like `C15.WF` -/
theorem bidi_exact (W : List URow → Prop)
    (h1 : ∀ r, W [r] → r.cps.lo ≤ r.cps.hi ∧ r.cps.hi ≤ 0x10FFFD)
    (h2 : ∀ r r' rest, W (r :: r' :: rest) → r.cps.lo ≤ r.cps.hi ∧ r.cps.hi < r'.cps.lo ∧ W (r' :: rest))
    (rows : List URow) (h : W rows) :
    ∃ t, bidiTable rows = some t ∧ sortedTable (t.map (·.1)) = true ∧
      ∀ cp, lookupL cp t = (rows.find? (fun r => r.cps.eqCp cp)).map (·.bidi) := by
  have ha : Asc 0 rows := asc_of_wf W h1 h2 rows 0 h (fun _ _ => Nat.zero_le _)
  have hinv0 : Inv 0 ({} : BidiSt) := ⟨rfl, by simp [keys]⟩
  obtain ⟨st', lb', hloop, hinv', hden'⟩ := bidiLoop_ok _ 0 {} (ascE_of_asc rows 0 ha) hinv0
  have hden0 : ∀ cp, lookupL cp (den st') = (rows.find? (fun r => r.cps.eqCp cp)).map (·.bidi) := by
    intro cp
    rw [hden' cp, find_eq_lookupL]
    rfl
  obtain ⟨out, range, val⟩ := st'
  cases range with
  | none =>
    refine ⟨out, by simp only [bidiTable, hloop], hinv'.1, hden0⟩
  | some r =>
    obtain ⟨a, b⟩ := r
    obtain ⟨k, hk, hklo, hkhi, hkeq⟩ := addRangeB_spec a b (val.getD "") out
    obtain ⟨hs, hab, _, hlt, _⟩ := hinv'
    refine ⟨out ++ [(k, val.getD "")], by simp only [bidiTable, hloop, hk], ?_, ?_⟩
    · exact sorted_keys_snoc _ _ _ hs (by omega) (by rw [hklo]; exact hlt)
    · intro cp
      rw [← hden0 cp]
      exact lookupL_tail_congr out _ _ (lookupL_one_congr _ _ _ hkeq) cp

end Precis.GenRunAux
