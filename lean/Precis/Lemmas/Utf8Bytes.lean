/-
Grounding of the model's byte-offset functions (Model/Utf8.lean: `utf8Len`, `byteLen`, `findByte`, `sliceTo`,
`sliceFrom`) in REAL UTF-8: the encoding of a string of scalar values as bytes, Rust's `str::is_char_boundary`, and
`&s[..pos]` / `&s[pos..]` as operations on the byte sequence.  The model says "slice = none" exactly where Rust panics
("byte index is not a char boundary" / out of range), and where it is `some`, the bytes are the bytes Rust would return.

THE STATEMENTS BELOW MUST NOT BE CHANGED (definitions `encodeChar`, `encode`, `isCharBoundary` may be restated in an
equivalent executable form only if every theorem statement still reads the same).
-/
import Precis.Model.Utf8
import Precis.Lemmas.Utf8
namespace Precis.Utf8Bytes
open Precis

/-- UTF-8 encoding of one scalar value (bytes as naturals < 256) -/
def encodeChar (c : Nat) : List Nat :=
  if c < 0x80 then [c]
  else if c < 0x800 then [0xC0 + c / 64, 0x80 + c % 64]
  else if c < 0x10000 then [0xE0 + c / 4096, 0x80 + (c / 64) % 64, 0x80 + c % 64]
  else [0xF0 + c / 262144, 0x80 + (c / 4096) % 64, 0x80 + (c / 64) % 64, 0x80 + c % 64]

/-- the bytes of a `&str` -/
def encode (s : List Nat) : List Nat := s.flatMap encodeChar

/-- a UTF-8 continuation byte `10xxxxxx` -/
def isCont (b : Nat) : Bool := 0x80 ≤ b && b < 0xC0

/-- `str::is_char_boundary`: 0, the length, or an index whose byte is not a continuation byte -/
def isCharBoundary (bs : List Nat) (pos : Nat) : Bool :=
  pos == 0 || pos == bs.length || (match bs[pos]? with | some b => !isCont b | none => false)

/-- decoder of well-formed UTF-8 (what `chars()` yields); `none` on malformed input -/
def decode : List Nat → Option (List Nat)
  | [] => some []
  | b0 :: r =>
    if b0 < 0x80 then (decode r).map (b0 :: ·)
    else if 0xC0 ≤ b0 && b0 < 0xE0 then
      match r with
      | b1 :: r' => if isCont b1 then (decode r').map (((b0 - 0xC0) * 64 + (b1 - 0x80)) :: ·) else none
      | _ => none
    else if 0xE0 ≤ b0 && b0 < 0xF0 then
      match r with
      | b1 :: b2 :: r' =>
        if isCont b1 && isCont b2 then (decode r').map (((b0 - 0xE0) * 4096 + (b1 - 0x80) * 64 + (b2 - 0x80)) :: ·) else none
      | _ => none
    else if 0xF0 ≤ b0 && b0 < 0xF8 then
      match r with
      | b1 :: b2 :: b3 :: r' =>
        if isCont b1 && isCont b2 && isCont b3 then
          (decode r').map (((b0 - 0xF0) * 262144 + (b1 - 0x80) * 4096 + (b2 - 0x80) * 64 + (b3 - 0x80)) :: ·) else none
      | _ => none
    else none

theorem encode_nil : encode [] = [] := rfl

theorem encode_cons (c : Nat) (r : List Nat) : encode (c :: r) = encodeChar c ++ encode r := by
  simp [encode]

/-- every byte is a byte, the encoded length of a character is the model's `utf8Len` -/
theorem encodeChar_length (c : Nat) (h : c < 0x110000) : (encodeChar c).length = utf8Len c := by
  have _ := h
  unfold encodeChar utf8Len
  repeat' split
  all_goals first | rfl | omega
theorem encodeChar_bytes (c : Nat) (h : c < 0x110000) : ∀ b ∈ encodeChar c, b < 256 := by
  unfold encodeChar
  repeat' split
  all_goals
    intro b hb
    simp only [List.mem_cons, List.not_mem_nil, or_false] at hb
    omega

/-- the first byte of a character is not a continuation byte -/
theorem encodeChar_head (c : Nat) (h : c < 0x110000) :
    ∃ b t, encodeChar c = b :: t ∧ isCont b = false := by
  unfold encodeChar
  repeat' split
  all_goals
    refine ⟨_, _, rfl, ?_⟩
    simp only [isCont, Bool.and_eq_false_iff, decide_eq_false_iff_not]
    omega

/-- all later bytes are -/
theorem encodeChar_cont (c : Nat) (h : c < 0x110000) (k : Nat) (hk : 0 < k) (hk' : k < utf8Len c) :
    ∃ b, (encodeChar c)[k]? = some b ∧ isCont b = true := by
  unfold utf8Len at hk'
  unfold encodeChar
  have hk3 : k = 1 ∨ k = 2 ∨ k = 3 := by
    repeat' split at hk'
    all_goals omega
  repeat' split
  all_goals
    rcases hk3 with rfl | rfl | rfl
    all_goals first
      | (exfalso; repeat' split at hk'
         all_goals omega)
      | (refine ⟨_, rfl, ?_⟩
         simp only [isCont, Bool.and_eq_true, decide_eq_true_eq]
         omega)

/-- `s.len()` -/
theorem encode_length (s : List Nat) (h : ∀ c ∈ s, c < 0x110000) : (encode s).length = byteLen s := by
  induction s with
  | nil => rfl
  | cons c r ih =>
    rw [encode_cons, List.length_append, byteLen, encodeChar_length c (h c (by simp)),
      ih (fun d hd => h d (by simp [hd]))]

/-- round trip: the characters of the encoded string are the code points of the model string -/
theorem decode_encode (s : List Nat) (h : ∀ c ∈ s, c < 0x110000) : decode (encode s) = some s := by
  induction s with
  | nil => rfl
  | cons c r ih =>
    have hc := h c (by simp)
    have ih' := ih (fun d hd => h d (by simp [hd]))
    rw [encode_cons]
    unfold encodeChar
    split
    · simp only [List.cons_append, List.nil_append]
      conv => lhs; unfold decode
      simp only [↓reduceIte, Option.map_some, *]
    split
    · simp only [List.cons_append, List.nil_append]
      conv => lhs; unfold decode
      simp only [Nat.le_add_right, decide_true, Bool.true_and, decide_eq_true_eq, isCont, Nat.add_sub_cancel_left,
        Option.map_some, Bool.and_eq_true, ih']
      rw [if_neg (by omega), if_pos (by omega), if_pos (by omega)]
      have e : c / 64 * 64 + c % 64 = c := by omega
      rw [e]
    split
    · simp only [List.cons_append, List.nil_append]
      conv => lhs; unfold decode
      simp only [Bool.and_eq_true, decide_eq_true_eq, isCont, Nat.le_add_right, decide_true, Bool.true_and,
        Nat.add_sub_cancel_left, Option.map_some, ih']
      rw [if_neg (by omega), if_neg (by omega), if_pos (by omega), if_pos (by omega)]
      have e : c / 4096 * 4096 + c / 64 % 64 * 64 + c % 64 = c := by omega
      rw [e]
    · simp only [List.cons_append, List.nil_append]
      conv => lhs; unfold decode
      simp only [Bool.and_eq_true, decide_eq_true_eq, isCont, Nat.le_add_right, decide_true, Bool.true_and,
        Nat.add_sub_cancel_left, Option.map_some, ih']
      rw [if_neg (by omega), if_neg (by omega), if_neg (by omega), if_pos (by omega), if_pos (by omega)]
      have e : c / 262144 * 262144 + c / 4096 % 64 * 4096 + c / 64 % 64 * 64 + c % 64 = c := by omega
      rw [e]

theorem boundary_inside (c : Nat) (r : List Nat) (h : c < 0x110000) (pos : Nat) (h0 : 0 < pos)
    (h1 : pos < utf8Len c) : isCharBoundary (encodeChar c ++ encode r) pos = false := by
  obtain ⟨b, hb, hc⟩ := encodeChar_cont c h pos h0 h1
  have hl := encodeChar_length c h
  unfold isCharBoundary
  rw [List.getElem?_append_left (by omega), hb]
  have e1 : (pos == 0) = false := by simp; omega
  have e2 : (pos == (encodeChar c ++ encode r).length) = false := by
    simp only [List.length_append, beq_eq_false_iff_ne, ne_eq]; omega
  rw [e1, e2]
  simp [hc]

theorem boundary_shift (a r : List Nat) (hr : ∀ c ∈ r, c < 0x110000) (pos : Nat) (ha : 0 < a.length)
    (hp : a.length ≤ pos) :
    isCharBoundary (a ++ encode r) pos = isCharBoundary (encode r) (pos - a.length) := by
  by_cases hpe : pos = a.length
  · subst hpe
    have e2 : isCharBoundary (encode r) (a.length - a.length) = true := by
      simp [isCharBoundary]
    rw [e2]
    cases r with
    | nil => simp [isCharBoundary, encode_nil]
    | cons d r' =>
      obtain ⟨b, t, hbt, hb⟩ := encodeChar_head d (hr d (by simp))
      rw [encode_cons, hbt]
      unfold isCharBoundary
      rw [List.getElem?_append_right (Nat.le_refl _)]
      simp [hb]
  · unfold isCharBoundary
    rw [List.getElem?_append_right hp]
    have e1 : (pos == 0) = false := by simp; omega
    have e1' : (pos - a.length == 0) = false := by simp; omega
    have e2 : (pos == (a ++ encode r).length) = (pos - a.length == (encode r).length) := by
      rw [List.length_append, Bool.eq_iff_iff]; simp only [beq_iff_eq]; omega
    rw [e1, e1', e2]

/-- `&s[..pos]` succeeds in the model exactly when Rust does not panic: `pos <= len` and `pos` is a char boundary -/
theorem sliceTo_isSome_iff (s : List Nat) (h : ∀ c ∈ s, c < 0x110000) (pos : Nat) :
    (sliceTo s pos).isSome = (decide (pos ≤ (encode s).length) && isCharBoundary (encode s) pos) := by
  induction s generalizing pos with
  | nil =>
    cases pos with
    | zero => simp [sliceTo, isCharBoundary]
    | succ n => simp [sliceTo, encode_nil]
  | cons c r ih =>
    have hc := h c (by simp)
    have hr : ∀ d ∈ r, d < 0x110000 := fun d hd => h d (by simp [hd])
    have hl := encodeChar_length c hc
    have hp := utf8Len_pos c
    by_cases h0 : pos = 0
    · subst h0; simp [sliceTo_zero, isCharBoundary]
    · rw [sliceTo_cons_pos _ _ _ (by omega), encode_cons]
      by_cases h1 : pos < utf8Len c
      · rw [if_pos h1, boundary_inside c r hc pos (by omega) h1]; simp
      · rw [if_neg h1, Option.isSome_map, ih hr, boundary_shift _ r hr pos (by omega) (by omega), hl,
          List.length_append, hl]
        congr 1
        rw [Bool.eq_iff_iff]; simp only [decide_eq_true_eq]; omega

/-- and then it is the prefix of the bytes -/
theorem sliceTo_bytes (s pre : List Nat) (h : ∀ c ∈ s, c < 0x110000) (pos : Nat) (hs : sliceTo s pos = some pre) :
    encode pre = (encode s).take pos := by
  induction s generalizing pos pre with
  | nil =>
    cases pos with
    | zero => simp [sliceTo] at hs; subst hs; simp [encode_nil]
    | succ n => simp [sliceTo] at hs
  | cons c r ih =>
    have hc := h c (by simp)
    have hr : ∀ d ∈ r, d < 0x110000 := fun d hd => h d (by simp [hd])
    have hl := encodeChar_length c hc
    by_cases h0 : pos = 0
    · subst h0; rw [sliceTo_zero] at hs; cases hs; simp [encode_nil]
    · rw [sliceTo_cons_pos _ _ _ (by omega)] at hs
      by_cases h1 : pos < utf8Len c
      · rw [if_pos h1] at hs; cases hs
      · rw [if_neg h1, Option.map_eq_some_iff] at hs
        obtain ⟨pre', hp', rfl⟩ := hs
        have e := ih pre' hr _ hp'
        have e2 : (encodeChar c).take pos = encodeChar c := List.take_of_length_le (by omega)
        rw [encode_cons, encode_cons, e, List.take_append, hl, e2]

/-- `&s[pos..]` likewise -/
theorem sliceFrom_isSome_iff (s : List Nat) (h : ∀ c ∈ s, c < 0x110000) (pos : Nat) :
    (sliceFrom s pos).isSome = (decide (pos ≤ (encode s).length) && isCharBoundary (encode s) pos) := by
  induction s generalizing pos with
  | nil =>
    cases pos with
    | zero => simp [sliceFrom, isCharBoundary]
    | succ n => simp [sliceFrom, encode_nil]
  | cons c r ih =>
    have hc := h c (by simp)
    have hr : ∀ d ∈ r, d < 0x110000 := fun d hd => h d (by simp [hd])
    have hl := encodeChar_length c hc
    have hp := utf8Len_pos c
    by_cases h0 : pos = 0
    · subst h0; simp [sliceFrom_zero, isCharBoundary]
    · rw [sliceFrom_cons_pos _ _ _ (by omega), encode_cons]
      by_cases h1 : pos < utf8Len c
      · rw [if_pos h1, boundary_inside c r hc pos (by omega) h1]; simp
      · rw [if_neg h1, ih hr, boundary_shift _ r hr pos (by omega) (by omega), hl,
          List.length_append, hl]
        congr 1
        rw [Bool.eq_iff_iff]; simp only [decide_eq_true_eq]; omega

theorem sliceFrom_bytes (s suf : List Nat) (h : ∀ c ∈ s, c < 0x110000) (pos : Nat) (hs : sliceFrom s pos = some suf) :
    encode suf = (encode s).drop pos := by
  induction s generalizing pos suf with
  | nil =>
    cases pos with
    | zero => simp [sliceFrom] at hs; subst hs; simp
    | succ n => simp [sliceFrom] at hs
  | cons c r ih =>
    have hc := h c (by simp)
    have hr : ∀ d ∈ r, d < 0x110000 := fun d hd => h d (by simp [hd])
    have hl := encodeChar_length c hc
    by_cases h0 : pos = 0
    · subst h0; rw [sliceFrom_zero] at hs; cases hs; simp
    · rw [sliceFrom_cons_pos _ _ _ (by omega)] at hs
      by_cases h1 : pos < utf8Len c
      · rw [if_pos h1] at hs; cases hs
      · rw [if_neg h1] at hs
        have e := ih suf hr _ hs
        have e2 : (encodeChar c).drop pos = [] := List.drop_of_length_le (by omega)
        rw [encode_cons, e, List.drop_append, hl, e2, List.nil_append]

/-- `str::find(pred)` returns the byte offset of the first matching character: the bytes before it are the encoding of
the characters before it -/
theorem findByte_bytes (p : Nat → Bool) (s : List Nat) (h : ∀ c ∈ s, c < 0x110000) (pos : Nat)
    (hf : findByte p s = some pos) :
    pos = (encode (s.takeWhile (fun c => !p c))).length ∧ isCharBoundary (encode s) pos = true := by
  obtain ⟨hpos, _⟩ := findByte_some p s pos hf
  obtain ⟨hto, _⟩ := slice_at_find p s pos hf
  constructor
  · rw [encode_length _ (fun c hc => h c ((List.takeWhile_sublist _).subset hc))]
    exact hpos
  · have := sliceTo_isSome_iff s h pos
    rw [hto] at this
    simp only [Option.isSome_some] at this
    have := this.symm
    rw [Bool.and_eq_true] at this
    exact this.2

/-- non-vacuity: "é " sliced at byte 1 is inside the two-byte character -/
example : isCharBoundary (encode [0xE9, 0x20]) 1 = false ∧ sliceTo [0xE9, 0x20] 1 = none := by decide

end Precis.Utf8Bytes
