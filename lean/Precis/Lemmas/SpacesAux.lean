/-
Helpers for C12 (space rules): a single-pass reference function `ref`, the proof that the Rust-shaped
`trimSpaces` (find offset / slice / rebuild loop / pop) computes `popSpace (ref …)`, and the proof that
this is `collapse ∘ strip ∘ mapSpaces`.  Also the list facts about `strip` / `collapse` used by the
shape / idempotence statements.
-/
import Precis.Model.Rules
import Precis.Spec.Rules
import Precis.Facts.Prof
import Precis.Lemmas.Utf8
import Precis.Lemmas.TableStep
namespace Precis.SpacesAux
open Precis Precis.Step

/-! ### the table -/

theorem isSpaceSeparator_eq (c : Nat) : isSpaceSeparator c = Spec.zs16 c := by
  unfold isSpaceSeparator Spec.zs16
  rw [isInTable_eq_eval Gen.Prof.spaceSeparator Facts.sorted_profSpaceSeparator c]
  exact agree_eval 100 _ _ _ _ (by decide +kernel) Facts.zs_agree c

theorem zs16_space : Spec.zs16 0x20 = true := by decide +kernel

theorem isSpaceSeparator_space : isSpaceSeparator 0x20 = true := by
  rw [isSpaceSeparator_eq]; exact zs16_space

theorem isSpaceSeparator_fun : isSpaceSeparator = Spec.zs16 := funext isSpaceSeparator_eq

/-! ### byte lengths -/

theorem byteLen_append (a b : List Nat) : byteLen (a ++ b) = byteLen a + byteLen b := by
  induction a with
  | nil => simp [byteLen]
  | cons c r ih => simp [byteLen, ih]; omega

theorem byteLen_beq_zero (a : List Nat) : (byteLen a == 0) = a.isEmpty := by
  cases a with
  | nil => rfl
  | cons c r =>
    have := utf8Len_pos c
    simp [byteLen]; omega

/-! ### popSpace -/

theorem popSpace_eq (res : List Nat) (h : res.getLast? = some 0x20) : popSpace res = res.dropLast := by
  unfold popSpace; rw [h]; rfl

theorem popSpace_ne (res : List Nat) (h : res.getLast? ≠ some 0x20) : popSpace res = res := by
  unfold popSpace; split
  · contradiction
  · rfl

/-! ### single-pass reference -/

/-- single pass: `b` = nothing emitted yet, `p` = the last emitted character is U+0020 -/
def ref (z : Nat → Bool) : List Nat → Bool → Bool → List Nat
  | [], _, _ => []
  | c :: r, b, p =>
    if !z c then c :: ref z r false false
    else if b then ref z r b p
    else if p then ref z r b true
    else 0x20 :: ref z r b true

theorem trimLoop_eq (suf res : List Nat) (b p : Bool) :
    trimLoop suf res b p = res ++ ref isSpaceSeparator suf b p := by
  induction suf generalizing res b p with
  | nil => simp [trimLoop, ref]
  | cons c r ih =>
    simp only [trimLoop, ref]
    split
    · rw [ih]; simp
    · split
      · rw [ih]
      · rw [ih]; cases p <;> simp

/-- what `trim_spaces` does after `find_disallowed_space` -/
def finish (s : List Nat) : Option Nat → Res (List Nat)
  | none => .ok s
  | some pos =>
    match sliceTo s pos, sliceFrom s pos with
    | some pre, some suf =>
      .ok (popSpace (trimLoop suf pre (pos == 0) (pre.getLast? == some 0x20)))
    | _, _ => .panic

theorem trimSpaces_eq_finish (s : List Nat) : trimSpaces s = finish s (findDisallowedSpace s) := by
  unfold trimSpaces finish
  cases findDisallowedSpace s <;> rfl

/-- the answer when the scan stops after the prefix `pre` -/
def G (pre r : List Nat) : List Nat :=
  popSpace (pre ++ ref isSpaceSeparator r pre.isEmpty (pre.getLast? == some 0x20))

theorem finish_byteLen (pre r : List Nat) : finish (pre ++ r) (some (byteLen pre)) = .ok (G pre r) := by
  simp only [finish, sliceTo_byteLen, sliceFrom_byteLen, trimLoop_eq, G, byteLen_beq_zero]

theorem isEmpty_snoc (pre : List Nat) (c : Nat) : (pre ++ [c]).isEmpty = false := by
  cases pre <;> rfl

theorem G_cons_nonspace (pre r : List Nat) (c : Nat) (hc : isSpaceSeparator c = false) :
    G (pre ++ [c]) r = G pre (c :: r) := by
  have hne : c ≠ 0x20 := by
    intro h; rw [h, isSpaceSeparator_space] at hc; cases hc
  have hb : (c == 0x20) = false := by simpa using hne
  simp [G, ref, hc, hb, isEmpty_snoc]

theorem G_cons_space (pre r : List Nat) (hne : pre ≠ [])
    (hl : pre.getLast? ≠ some 0x20) : G (pre ++ [0x20]) r = G pre (0x20 :: r) := by
  have h1 : pre.isEmpty = false := by cases pre <;> simp_all
  have h2 : (pre.getLast? == some 0x20) = false := by simpa using hl
  simp [G, ref, isSpaceSeparator_space, h1, h2, isEmpty_snoc]

/-- the scan invariant: `pre` is the part already scanned and accepted -/
theorem fds_inv (r pre : List Nat)
    (hinv : pre.getLast? = some 0x20 → pre.dropLast ≠ [] ∧ pre.dropLast.getLast? ≠ some 0x20) :
    finish (pre ++ r) (fdsLoop r (byteLen pre) pre.isEmpty (pre.getLast? == some 0x20)
      pre.getLast? (byteLen pre.dropLast)) = .ok (G pre r) := by
  induction r generalizing pre with
  | nil =>
    unfold fdsLoop
    by_cases hl : pre.getLast? = some 0x20
    · obtain ⟨q, rfl⟩ := List.getLast?_eq_some_iff.mp hl
      have ⟨hq, hql⟩ := hinv hl
      simp only [List.dropLast_concat] at hq hql ⊢
      rw [if_pos (by simp), List.append_nil, finish_byteLen q [0x20], G_cons_space q [] hq hql]
    · rw [if_neg (by simpa using hl)]
      simp only [finish, G, ref, List.append_nil]
      rw [popSpace_ne pre hl]
  | cons c r ih =>
    unfold fdsLoop
    by_cases hc : isSpaceSeparator c = true
    · simp only [hc, Bool.not_true, Bool.false_eq_true, if_false]
      by_cases hb : pre.isEmpty = true
      · rw [if_pos hb]; exact finish_byteLen pre (c :: r)
      · rw [if_neg hb]
        by_cases hp : (pre.getLast? == some 0x20) = true
        · rw [if_pos hp]; exact finish_byteLen pre (c :: r)
        · rw [if_neg hp]
          by_cases h20 : (c == 0x20) = true
          · rw [if_pos h20]
            have hc20 : c = 0x20 := by simpa using h20
            subst hc20
            have hne : pre ≠ [] := by intro h; simp [h] at hb
            have hl : pre.getLast? ≠ some 0x20 := by simpa using hp
            have := ih (pre ++ [0x20]) (by simp [hne, hl])
            rw [G_cons_space pre r hne hl] at this
            simpa [byteLen_append, byteLen, hb, hp, isEmpty_snoc] using this
          · rw [if_neg h20]; exact finish_byteLen pre (c :: r)
    · have hc' : isSpaceSeparator c = false := by simpa using hc
      simp only [hc', Bool.not_false, if_true]
      have hne : c ≠ 0x20 := by
        intro h; rw [h, isSpaceSeparator_space] at hc'; cases hc'
      have hbeq : (c == 0x20) = false := by simpa using hne
      have := ih (pre ++ [c]) (by simp [hne])
      rw [G_cons_nonspace pre r c hc'] at this
      simpa [byteLen_append, byteLen, hbeq, isEmpty_snoc] using this

theorem trimSpaces_eq_ref (s : List Nat) :
    trimSpaces s = .ok (popSpace (ref isSpaceSeparator s true false)) := by
  rw [trimSpaces_eq_finish]
  have := fds_inv s [] (by simp)
  simpa [G, findDisallowedSpace, byteLen] using this

/-! ### the reference function is `collapse ∘ strip ∘ mapSpaces` -/
open Precis.Spec

theorem ref_mapSpaces (z : Nat → Bool) (hz : z 0x20 = true) (s : List Nat) (b p : Bool) :
    ref z s b p = ref (· == 0x20) (s.map (fun c => if z c then 0x20 else c)) b p := by
  induction s generalizing b p with
  | nil => rfl
  | cons c r ih =>
    simp only [List.map_cons, ref]
    by_cases hc : z c = true
    · simp only [hc, if_true, Bool.not_true, Bool.false_eq_true, if_false, beq_self_eq_true, ih]
    · have hc' : z c = false := by simpa using hc
      have hne : (c == 0x20) = false := by
        apply beq_false_of_ne; intro h; rw [h, hz] at hc'; cases hc'
      simp only [hc', Bool.false_eq_true, if_false, Bool.not_false, if_true, hne, ih]

theorem ref_dropWhile (m : List Nat) (p : Bool) :
    ref (· == 0x20) m true p = ref (· == 0x20) (m.dropWhile (· == 0x20)) true p := by
  induction m with
  | nil => rfl
  | cons c r ih =>
    by_cases hc : (c == 0x20) = true
    · rw [List.dropWhile_cons, if_pos hc, ← ih]; simp [ref, hc]
    · rw [List.dropWhile_cons, if_neg hc]

theorem collapse_cons (c : Nat) (r : List Nat) :
    collapse (c :: r) = c :: ref (· == 0x20) r false (c == 0x20) := by
  induction r generalizing c with
  | nil => rfl
  | cons d r ih =>
    simp only [collapse, ref]
    rw [ih d]
    by_cases hd : (d == 0x20) = true
    · by_cases hc : (c == 0x20) = true
      · simp [hd, hc]; rw [eq_of_beq hd, eq_of_beq hc]
      · have hc' : (c == 0x20) = false := by simpa using hc
        simp [hd, hc']; exact eq_of_beq hd
    · have hd' : (d == 0x20) = false := by simpa using hd
      simp [hd']

theorem collapse_ne_nil (c : Nat) (r : List Nat) : collapse (c :: r) ≠ [] := by
  rw [collapse_cons]; simp

/-- remove trailing U+0020 -/
def rstrip (t : List Nat) : List Nat := (t.reverse.dropWhile (· == 0x20)).reverse

theorem strip_eq (m : List Nat) : strip m = rstrip (m.dropWhile (· == 0x20)) := rfl

theorem rstrip_cons (c : Nat) (r : List Nat) :
    rstrip (c :: r) = if (rstrip r).isEmpty && c == 0x20 then [] else c :: rstrip r := by
  unfold rstrip
  rw [List.reverse_cons, List.dropWhile_append]
  by_cases h : (r.reverse.dropWhile (· == 0x20)).isEmpty = true
  · have : r.reverse.dropWhile (· == 0x20) = [] := List.isEmpty_iff.mp h
    rw [this]; by_cases hc : (c == 0x20) = true <;> simp [hc]
  · simp [h]

theorem popSpace_cons (c : Nat) (x : List Nat) (hx : x ≠ []) : popSpace (c :: x) = c :: popSpace x := by
  cases x with
  | nil => contradiction
  | cons d y =>
    have hl : (c :: d :: y).getLast? = (d :: y).getLast? := by simp [List.getLast?_cons_cons]
    by_cases h : (d :: y).getLast? = some 0x20
    · rw [popSpace_eq _ (hl.trans h), popSpace_eq _ h]; rfl
    · rw [popSpace_ne _ (by rw [hl]; exact h), popSpace_ne _ h]

theorem popSpace_collapse_cons (r : List Nat) (c : Nat) :
    popSpace (collapse (c :: r)) = collapse (rstrip (c :: r)) := by
  induction r generalizing c with
  | nil =>
    by_cases hc : (c == 0x20) = true
    · have : c = 0x20 := by simpa using hc
      subst this; rfl
    · have hne : c ≠ 0x20 := by simpa using hc
      rw [rstrip_cons]; simp [hc, collapse, rstrip]
      exact popSpace_ne _ (by simp [hne])
  | cons d r ih =>
    have ihd := ih d
    rw [rstrip_cons c (d :: r)]
    rw [rstrip_cons d r] at ihd ⊢
    by_cases hA : ((rstrip r).isEmpty && d == 0x20) = true
    · have hd : (d == 0x20) = true := by simp at hA; simp [hA.2]
      rw [if_pos hA] at ihd ⊢
      by_cases hc : (c == 0x20) = true
      · simp only [collapse, hc, hd, Bool.and_self, if_true, List.isEmpty_nil] at ihd ⊢
        exact ihd
      · have hc' : (c == 0x20) = false := by simpa using hc
        simp only [collapse, hc', Bool.false_and, Bool.and_false, Bool.false_eq_true, if_false,
          List.isEmpty_nil] at ihd ⊢
        rw [popSpace_cons _ _ (collapse_ne_nil d r), ihd]
    · rw [if_neg hA] at ihd ⊢
      simp only [List.isEmpty_cons, Bool.false_and, Bool.false_eq_true, if_false]
      by_cases hcd : (c == 0x20 && d == 0x20) = true
      · simp only [collapse, hcd, if_true]
        exact ihd
      · simp only [collapse, hcd, Bool.false_eq_true, if_false]
        rw [popSpace_cons _ _ (collapse_ne_nil d r), ihd]

theorem popSpace_collapse (t : List Nat) : popSpace (collapse t) = collapse (rstrip t) := by
  cases t with
  | nil => rfl
  | cons c r => exact popSpace_collapse_cons r c

theorem popSpace_ref_eq (m : List Nat) :
    popSpace (ref (· == 0x20) m true false) = collapse (strip m) := by
  rw [ref_dropWhile, strip_eq]
  have hh := List.head?_dropWhile_not (· == 0x20) m
  cases ht : m.dropWhile (· == 0x20) with
  | nil => rfl
  | cons c r =>
    rw [ht] at hh
    have hc : (c == 0x20) = false := by simpa using hh
    rw [← popSpace_collapse, collapse_cons]
    simp [ref, hc]

theorem ref_eq_specSpaces (s : List Nat) :
    popSpace (ref zs16 s true false) = specSpaces s := by
  rw [ref_mapSpaces _ zs16_space]; exact popSpace_ref_eq _

theorem trimSpaces_eq (s : List Nat) : trimSpaces s = .ok (specSpaces s) := by
  rw [trimSpaces_eq_ref, isSpaceSeparator_fun, ref_eq_specSpaces]

/-! ### shape of `collapse` / `strip` results -/

/-- no two adjacent U+0020 -/
def noAdj : List Nat → Bool
  | [] => true
  | [_] => true
  | c :: d :: r => !(c == 0x20 && d == 0x20) && noAdj (d :: r)

theorem noAdj_collapse_cons (r : List Nat) (c : Nat) : noAdj (collapse (c :: r)) = true := by
  induction r generalizing c with
  | nil => rfl
  | cons d r ih =>
    have := ih d
    simp only [collapse]
    split
    · exact this
    · rename_i h
      rw [collapse_cons] at this ⊢
      simp only [noAdj, this, Bool.and_true]
      exact (Bool.not_eq_true' _).mpr (Bool.eq_false_iff.mpr h)

theorem noAdj_collapse (x : List Nat) : noAdj (collapse x) = true := by
  cases x with
  | nil => rfl
  | cons c r => exact noAdj_collapse_cons r c

theorem noAdj_getElem (l : List Nat) (hl : noAdj l = true) (i : Nat) (h : i + 1 < l.length) :
    ¬ (l[i] = 0x20 ∧ l[i + 1] = 0x20) := by
  induction l generalizing i with
  | nil => simp at h
  | cons c r ih =>
    cases r with
    | nil => simp at h
    | cons d r =>
      simp only [noAdj, Bool.and_eq_true] at hl
      cases i with
      | zero =>
        intro ⟨h1, h2⟩
        simp at h1 h2
        simp [h1, h2] at hl
      | succ j =>
        have := ih hl.2 j (by simpa using h)
        simpa using this

theorem collapse_of_noAdj (x : List Nat) (h : noAdj x = true) : collapse x = x := by
  induction x with
  | nil => rfl
  | cons c r ih =>
    cases r with
    | nil => rfl
    | cons d r =>
      simp only [noAdj, Bool.and_eq_true] at h
      simp only [collapse]
      rw [if_neg (Bool.eq_false_iff.mp ((Bool.not_eq_true' _).mp h.1)), ih h.2]

theorem head?_collapse (x : List Nat) : (collapse x).head? = x.head? := by
  cases x with
  | nil => rfl
  | cons c r => rw [collapse_cons]; rfl

theorem getLast?_collapse_cons (r : List Nat) (c : Nat) :
    (collapse (c :: r)).getLast? = (c :: r).getLast? := by
  induction r generalizing c with
  | nil => rfl
  | cons d r ih =>
    have := ih d
    simp only [collapse]
    split
    · rw [this]; simp [List.getLast?_cons_cons]
    · rw [collapse_cons] at this ⊢
      simp only [List.getLast?_cons_cons] at this ⊢
      exact this

theorem getLast?_collapse (x : List Nat) : (collapse x).getLast? = x.getLast? := by
  cases x with
  | nil => rfl
  | cons c r => exact getLast?_collapse_cons r c

theorem mem_collapse_cons (a : Nat) (r : List Nat) (c : Nat) (h : a ∈ collapse (c :: r)) :
    a ∈ c :: r := by
  induction r generalizing c with
  | nil => exact h
  | cons d r ih =>
    simp only [collapse] at h
    split at h
    · exact List.mem_cons_of_mem _ (ih d h)
    · rcases List.mem_cons.mp h with h | h
      · rw [h]; exact List.mem_cons_self
      · exact List.mem_cons_of_mem _ (ih d h)

theorem mem_collapse (a : Nat) (x : List Nat) (h : a ∈ collapse x) : a ∈ x := by
  cases x with
  | nil => exact h
  | cons c r => exact mem_collapse_cons a r c h

theorem filter_collapse_cons (q : Nat → Bool) (hq : q 0x20 = false) (r : List Nat) (c : Nat) :
    (collapse (c :: r)).filter q = (c :: r).filter q := by
  induction r generalizing c with
  | nil => rfl
  | cons d r ih =>
    simp only [collapse]
    split
    · rename_i h
      have hc : c = 0x20 := by simp at h; exact h.1
      rw [ih d, List.filter_cons (x := c), hc, hq]; simp
    · rw [List.filter_cons, ih d, List.filter_cons (x := c)]

theorem filter_collapse (q : Nat → Bool) (hq : q 0x20 = false) (x : List Nat) :
    (collapse x).filter q = x.filter q := by
  cases x with
  | nil => rfl
  | cons c r => exact filter_collapse_cons q hq r c

theorem mem_strip (a : Nat) (m : List Nat) (h : a ∈ strip m) : a ∈ m := by
  unfold strip at h
  rw [List.mem_reverse] at h
  have h := (List.dropWhile_sublist _).subset h
  rw [List.mem_reverse] at h
  exact (List.dropWhile_sublist _).subset h

theorem filter_dropWhile (q : Nat → Bool) (hq : q 0x20 = false) (m : List Nat) :
    (m.dropWhile (· == 0x20)).filter q = m.filter q := by
  induction m with
  | nil => rfl
  | cons c r ih =>
    rw [List.dropWhile_cons]
    split
    · rename_i h
      have hc : c = 0x20 := by simpa using h
      rw [ih, List.filter_cons, hc, hq]; simp
    · rfl

theorem filter_strip (q : Nat → Bool) (hq : q 0x20 = false) (m : List Nat) :
    (strip m).filter q = m.filter q := by
  unfold strip
  rw [List.filter_reverse, filter_dropWhile q hq, List.filter_reverse, List.reverse_reverse,
    filter_dropWhile q hq]

theorem head?_strip (m : List Nat) : (strip m).head? ≠ some 0x20 := by
  rw [strip_eq]
  have hh := List.head?_dropWhile_not (· == 0x20) m
  cases ht : m.dropWhile (· == 0x20) with
  | nil => simp [rstrip]
  | cons c r =>
    rw [ht] at hh
    have hc : c ≠ 0x20 := by simpa using hh
    rw [rstrip_cons]
    split
    · simp
    · simpa using hc

theorem getLast?_strip (m : List Nat) : (strip m).getLast? ≠ some 0x20 := by
  unfold strip
  rw [List.getLast?_reverse]
  have hh := List.head?_dropWhile_not (· == 0x20) (m.dropWhile (· == 0x20)).reverse
  intro h
  rw [h] at hh
  simp at hh

theorem dropWhile_of_head (l : List Nat) (h : l.head? ≠ some 0x20) : l.dropWhile (· == 0x20) = l := by
  cases l with
  | nil => rfl
  | cons c r =>
    have hc : c ≠ 0x20 := by simpa using h
    rw [List.dropWhile_cons, if_neg (by simpa using hc)]

theorem strip_of_ends (y : List Nat) (h1 : y.head? ≠ some 0x20) (h2 : y.getLast? ≠ some 0x20) :
    strip y = y := by
  unfold strip
  rw [dropWhile_of_head y h1, dropWhile_of_head y.reverse (by rw [List.head?_reverse]; exact h2),
    List.reverse_reverse]

theorem mapSpaces_of_only (y : List Nat) (h : ∀ c ∈ y, zs16 c = true → c = 0x20) : mapSpaces y = y := by
  unfold mapSpaces
  induction y with
  | nil => rfl
  | cons c r ih =>
    rw [List.map_cons, ih (fun a ha => h a (List.mem_cons_of_mem _ ha))]
    by_cases hc : zs16 c = true
    · rw [if_pos hc, h c List.mem_cons_self hc]
    · rw [if_neg hc]

theorem filter_mapSpaces (s : List Nat) :
    (mapSpaces s).filter (fun c => !zs16 c) = s.filter (fun c => !zs16 c) := by
  unfold mapSpaces
  induction s with
  | nil => rfl
  | cons c r ih =>
    rw [List.map_cons, List.filter_cons, List.filter_cons, ih]
    by_cases hc : zs16 c = true
    · simp [hc, zs16_space]
    · simp [hc]

theorem mem_mapSpaces (s : List Nat) (a : Nat) (h : a ∈ mapSpaces s) (hz : zs16 a = true) : a = 0x20 := by
  unfold mapSpaces at h
  obtain ⟨c, _, hc⟩ := List.mem_map.mp h
  by_cases hzc : zs16 c = true
  · rw [if_pos hzc] at hc; exact hc.symm
  · rw [if_neg hzc] at hc; rw [← hc] at hz; exact absurd hz hzc

/-- the four shape facts, in the form used for idempotence -/
theorem specSpaces_shape (s : List Nat) :
    (specSpaces s).head? ≠ some 0x20 ∧ (specSpaces s).getLast? ≠ some 0x20 ∧
    noAdj (specSpaces s) = true ∧ (∀ c ∈ specSpaces s, zs16 c = true → c = 0x20) := by
  unfold specSpaces
  refine ⟨?_, ?_, noAdj_collapse _, ?_⟩
  · rw [head?_collapse]; exact head?_strip _
  · rw [getLast?_collapse]; exact getLast?_strip _
  · intro c hc hz
    exact mem_mapSpaces s c (mem_strip _ _ (mem_collapse _ _ hc)) hz

theorem specSpaces_fixed (y : List Nat) (h1 : y.head? ≠ some 0x20) (h2 : y.getLast? ≠ some 0x20)
    (h3 : noAdj y = true) (h4 : ∀ c ∈ y, zs16 c = true → c = 0x20) : specSpaces y = y := by
  unfold specSpaces
  rw [mapSpaces_of_only y h4, strip_of_ends y h1 h2, collapse_of_noAdj y h3]

/-! ### OpaqueString mapping -/

/-- the per-character map of the specification -/
def opaqueF (c : Nat) : Nat := if zs16 c && c != 0x20 then 0x20 else c

theorem specOpaqueMap_eq (s : List Nat) : specOpaqueMap s = s.map opaqueF := rfl

theorem isNonAsciiSpace_eq (c : Nat) : isNonAsciiSpace c = (zs16 c && c != 0x20) := by
  unfold isNonAsciiSpace; rw [isSpaceSeparator_eq, Bool.and_comm]

theorem map_opaqueF_of_none (s : List Nat) (h : ∀ c ∈ s, (zs16 c && c != 0x20) = false) :
    s.map opaqueF = s := by
  induction s with
  | nil => rfl
  | cons c r ih =>
    rw [List.map_cons, ih (fun a ha => h a (List.mem_cons_of_mem _ ha))]
    simp only [opaqueF, h c List.mem_cons_self, Bool.false_eq_true, if_false]

end Precis.SpacesAux
