/-
Helper lemmas for C15 (`set_table_exact`, `width_exact`): the set-table generator
(HashSet insert, sort, run compression) and the width-mapping table on well-formed rows.
-/
import Precis.Model.Generators
import Precis.Model.Codepoints
namespace Precis.GenSetAux
open Precis Precis.Gen'

/-! ### well-formed rows: chain form (copy of `C15.WF`) and pairwise form -/

/-- same recursion as `Precis.C15.WF` (which lives downstream of this file) -/
def WFc : List URow → Prop
  | [] => True
  | [r] => r.cps.lo ≤ r.cps.hi ∧ r.cps.hi ≤ 0x10FFFD
  | r :: r' :: rest => r.cps.lo ≤ r.cps.hi ∧ r.cps.hi < r'.cps.lo ∧ WFc (r' :: rest)

theorem WFc_head {r : URow} {rest : List URow} (h : WFc (r :: rest)) : r.cps.lo ≤ r.cps.hi := by
  cases rest with
  | nil => exact h.1
  | cons r' rest => exact h.1

theorem WFc_tail {r : URow} {rest : List URow} (h : WFc (r :: rest)) : WFc rest := by
  cases rest with
  | nil => trivial
  | cons r' rest => exact h.2.2

theorem WFc_head_lt : ∀ (rest : List URow) (r : URow), WFc (r :: rest) →
    ∀ x ∈ rest, r.cps.hi < x.cps.lo
  | [], _, _, x, hx => by cases hx
  | r' :: rest, r, h, x, hx => by
    have h1 : r.cps.hi < r'.cps.lo := h.2.1
    have h2 : WFc (r' :: rest) := h.2.2
    rcases List.mem_cons.1 hx with rfl | hx
    · exact h1
    · have := WFc_head_lt rest r' h2 x hx
      have := WFc_head h2
      omega

theorem WFc_le : ∀ (rows : List URow), WFc rows → ∀ r ∈ rows, r.cps.lo ≤ r.cps.hi
  | [], _, r, hr => by cases hr
  | r0 :: rest, h, r, hr => by
    rcases List.mem_cons.1 hr with rfl | hr
    · exact WFc_head h
    · exact WFc_le rest (WFc_tail h) r hr

theorem WFc_pairwise : ∀ (rows : List URow), WFc rows →
    rows.Pairwise (fun r r' => r.cps.hi < r'.cps.lo)
  | [], _ => List.Pairwise.nil
  | r :: rest, h =>
    List.pairwise_cons.2 ⟨WFc_head_lt rest r h, WFc_pairwise rest (WFc_tail h)⟩

/-! ### `eqCp`, `expand` -/

theorem eqCp_iff (e : Cps) (c : Nat) : e.eqCp c = true ↔ e.lo ≤ c ∧ c ≤ e.hi := by
  cases e with
  | single a => simp [Cps.eqCp, Cps.lo, Cps.hi]; omega
  | range a b => simp [Cps.eqCp, Cps.lo, Cps.hi]

theorem mem_expand (e : Cps) (c : Nat) : c ∈ expand e ↔ e.eqCp c = true := by
  rw [eqCp_iff]
  cases e with
  | single a => simp [expand, Cps.lo, Cps.hi]; omega
  | range a b =>
    simp only [expand, Cps.lo, Cps.hi, List.mem_map, List.mem_range]
    constructor
    · rintro ⟨x, hx, rfl⟩; omega
    · intro h; exact ⟨c - a, by omega, by omega⟩

theorem nodup_expand (e : Cps) : (expand e).Nodup := by
  cases e with
  | single a => simp [expand]
  | range a b =>
    unfold expand List.Nodup
    rw [List.pairwise_map]
    exact List.pairwise_lt_range.imp (fun h => by omega)

/-! ### `insertAll`, `collect` -/

theorem insertAll_spec : ∀ (l set : List Nat), l.Nodup → set.Nodup → (∀ c ∈ l, c ∉ set) →
    ∃ set', insertAll l set = some set' ∧ set'.Nodup ∧ ∀ c, c ∈ set' ↔ c ∈ l ∨ c ∈ set
  | [], set, _, hs, _ => ⟨set, rfl, hs, by simp⟩
  | c :: r, set, hl, hs, hd => by
    have hc : c ∉ set := hd c (List.mem_cons_self ..)
    have hl' := List.nodup_cons.1 hl
    have : set.contains c = false := by
      cases h : set.contains c with
      | false => rfl
      | true => exact absurd (List.contains_iff_mem.1 h) hc
    simp only [insertAll, this, Bool.false_eq_true, if_false]
    obtain ⟨set', h1, h2, h3⟩ := insertAll_spec r (c :: set) hl'.2 (List.nodup_cons.2 ⟨hc, hs⟩)
      (by
        intro x hx hxs
        rcases List.mem_cons.1 hxs with rfl | hxs
        · exact hl'.1 hx
        · exact hd x (List.mem_cons_of_mem _ hx) hxs)
    refine ⟨set', h1, h2, ?_⟩
    intro x
    rw [h3 x]
    simp only [List.mem_cons]
    constructor
    · rintro (h | h | h)
      · exact Or.inl (Or.inr h)
      · exact Or.inl (Or.inl h)
      · exact Or.inr h
    · rintro ((h | h) | h)
      · exact Or.inr (Or.inl h)
      · exact Or.inl h
      · exact Or.inr (Or.inr h)

theorem collect_spec (p : URow → Bool) : ∀ (rows : List URow) (acc : List Nat),
    rows.Pairwise (fun r r' => r.cps.hi < r'.cps.lo ∨ r'.cps.hi < r.cps.lo) →
    (∀ r ∈ rows, r.cps.lo ≤ r.cps.hi) → acc.Nodup →
    (∀ c ∈ acc, ∀ r ∈ rows, r.cps.eqCp c ≠ true) →
    ∃ set, collect p rows acc = some set ∧ set.Nodup ∧
      ∀ c, c ∈ set ↔ c ∈ acc ∨ rows.any (fun r => p r && r.cps.eqCp c) = true
  | [], acc, _, _, ha, _ => ⟨acc, rfl, ha, by simp⟩
  | row :: rest, acc, hp, hle, ha, hd => by
    have hp' := List.pairwise_cons.1 hp
    have hle' : ∀ r ∈ rest, r.cps.lo ≤ r.cps.hi := fun r hr => hle r (List.mem_cons_of_mem _ hr)
    have hd' : ∀ c ∈ acc, ∀ r ∈ rest, r.cps.eqCp c ≠ true :=
      fun c hc r hr => hd c hc r (List.mem_cons_of_mem _ hr)
    cases hrow : p row with
    | false =>
      obtain ⟨set, h1, h2, h3⟩ := collect_spec p rest acc hp'.2 hle' ha hd'
      refine ⟨set, ?_, h2, ?_⟩
      · simp [collect, hrow, h1]
      · intro c; rw [h3 c]; simp [hrow]
    | true =>
      obtain ⟨set', i1, i2, i3⟩ := insertAll_spec (expand row.cps) acc (nodup_expand _) ha
        (by
          intro c hc hca
          exact hd c hca row (List.mem_cons_self ..) ((mem_expand _ _).1 hc))
      obtain ⟨set, h1, h2, h3⟩ := collect_spec p rest set' hp'.2 hle' i2
        (by
          intro c hc r hr hrc
          rcases (i3 c).1 hc with hc | hc
          · have h1 := (eqCp_iff _ _).1 ((mem_expand _ _).1 hc)
            have h2 := (eqCp_iff _ _).1 hrc
            have := hp'.1 r hr
            omega
          · exact hd' c hc r hr hrc)
      refine ⟨set, ?_, h2, ?_⟩
      · simp [collect, hrow, i1, h1]
      · intro c
        rw [h3 c, i3 c, mem_expand]
        simp only [List.any_cons, hrow, Bool.true_and, Bool.or_eq_true]
        constructor
        · rintro ((h | h) | h)
          · exact Or.inr (Or.inl h)
          · exact Or.inl h
          · exact Or.inr (Or.inr h)
        · rintro (h | h | h)
          · exact Or.inl (Or.inr h)
          · exact Or.inl (Or.inl h)
          · exact Or.inr h

/-! ### sorted tables in pairwise form -/

/-- non-empty entries, pairwise ascending and disjoint -/
def SortedP (t : List Cps) : Prop :=
  (∀ e ∈ t, e.lo ≤ e.hi) ∧ t.Pairwise (fun e e' => e.hi < e'.lo)

theorem sortedTable_of_SortedP : ∀ (t : List Cps), SortedP t → sortedTable t = true
  | [], _ => rfl
  | [e], h => by
    have := h.1 e (List.mem_cons_self ..)
    simp [sortedTable]; omega
  | e :: e' :: r, h => by
    have h1 := h.1 e (List.mem_cons_self ..)
    have hp := List.pairwise_cons.1 h.2
    have h2 := hp.1 e' (List.mem_cons_self ..)
    have ih := sortedTable_of_SortedP (e' :: r)
      ⟨fun x hx => h.1 x (List.mem_cons_of_mem _ hx), hp.2⟩
    simp only [sortedTable, ih, Bool.and_true, Bool.and_eq_true, decide_eq_true_eq]
    omega

theorem SortedP_nil : SortedP [] := ⟨by simp, List.Pairwise.nil⟩

theorem SortedP_snoc {out : List Cps} {e : Cps} (ho : SortedP out) (he : e.lo ≤ e.hi)
    (hlt : ∀ x ∈ out, x.hi < e.lo) : SortedP (out ++ [e]) := by
  refine ⟨?_, ?_⟩
  · intro x hx
    rcases List.mem_append.1 hx with hx | hx
    · exact ho.1 x hx
    · rw [List.mem_singleton.1 hx]; exact he
  · rw [List.pairwise_append]
    refine ⟨ho.2, List.pairwise_singleton _ _, ?_⟩
    intro a ha b hb
    rw [List.mem_singleton.1 hb]; exact hlt a ha

theorem memL_iff (cp : Nat) (t : List Cps) : memL cp t = true ↔ ∃ e ∈ t, e.eqCp cp = true := by
  simp [memL]

/-! ### `addRange`, `compress` -/

theorem addRange_spec (a b : Nat) (out : List Cps) (hab : a ≤ b) (ho : SortedP out)
    (hlt : ∀ e ∈ out, e.hi < a) :
    SortedP (addRange (some (a, b)) out) ∧ (∀ e ∈ addRange (some (a, b)) out, e.hi ≤ b) ∧
      ∀ cp, memL cp (addRange (some (a, b)) out) = true ↔ memL cp out = true ∨ (a ≤ cp ∧ cp ≤ b) := by
  have key : ∀ e : Cps, e.lo = a → e.hi = b →
      SortedP (out ++ [e]) ∧ (∀ x ∈ out ++ [e], x.hi ≤ b) ∧
      ∀ cp, memL cp (out ++ [e]) = true ↔ memL cp out = true ∨ (a ≤ cp ∧ cp ≤ b) := by
    intro e hlo hhi
    refine ⟨SortedP_snoc ho (by omega) (by rw [hlo]; exact hlt), ?_, ?_⟩
    · intro x hx
      rcases List.mem_append.1 hx with hx | hx
      · have := hlt x hx; omega
      · rw [List.mem_singleton.1 hx]; omega
    · intro cp
      simp only [memL, List.any_append, List.any_cons, List.any_nil, Bool.or_false,
        Bool.or_eq_true, eqCp_iff, hlo, hhi]
  have hdef : addRange (some (a, b)) out
      = if a = b then out ++ [.single a] else out ++ [.range a b] := rfl
  rw [hdef]
  by_cases hab' : a = b
  · rw [if_pos hab']
    exact key (.single a) rfl hab'
  · rw [if_neg hab']
    exact key (.range a b) rfl rfl

theorem compress_some : ∀ (l : List Nat) (a b : Nat) (out : List Cps),
    l.Pairwise (· < ·) → a ≤ b → (∀ c ∈ l, b < c) → SortedP out → (∀ e ∈ out, e.hi < a) →
    SortedP (compress l (some (a, b)) out) ∧
      ∀ x, memL x (compress l (some (a, b)) out) = true ↔
        memL x out = true ∨ (a ≤ x ∧ x ≤ b) ∨ x ∈ l
  | [], a, b, out, _, hab, _, ho, hlt => by
    obtain ⟨h1, _, h3⟩ := addRange_spec a b out hab ho hlt
    refine ⟨h1, ?_⟩
    intro x
    simp only [compress, h3 x, List.not_mem_nil, or_false]
  | cp :: r, a, b, out, hl, hab, hb, ho, hlt => by
    have hl' := List.pairwise_cons.1 hl
    have hbcp : b < cp := hb cp (List.mem_cons_self ..)
    by_cases hstep : cp - b = 1
    · obtain ⟨h1, h2⟩ := compress_some r a cp out hl'.2 (by omega) hl'.1 ho hlt
      simp only [compress, hstep, if_true]
      refine ⟨h1, ?_⟩
      intro x
      rw [h2 x]
      simp only [List.mem_cons]
      constructor
      · rintro (h | h | h)
        · exact Or.inl h
        · by_cases hx : x = cp
          · exact Or.inr (Or.inr (Or.inl hx))
          · exact Or.inr (Or.inl (by omega))
        · exact Or.inr (Or.inr (Or.inr h))
      · rintro (h | h | h | h)
        · exact Or.inl h
        · exact Or.inr (Or.inl (by omega))
        · exact Or.inr (Or.inl (by omega))
        · exact Or.inr (Or.inr h)
    · obtain ⟨a1, a2, a3⟩ := addRange_spec a b out hab ho hlt
      obtain ⟨h1, h2⟩ := compress_some r cp cp (addRange (some (a, b)) out) hl'.2 (Nat.le_refl _)
        hl'.1 a1 (fun e he => by have := a2 e he; omega)
      simp only [compress, hstep, if_false]
      refine ⟨h1, ?_⟩
      intro x
      rw [h2 x, a3 x]
      simp only [List.mem_cons]
      constructor
      · rintro ((h | h) | h | h)
        · exact Or.inl h
        · exact Or.inr (Or.inl h)
        · exact Or.inr (Or.inr (Or.inl (by omega)))
        · exact Or.inr (Or.inr (Or.inr h))
      · rintro (h | h | h | h)
        · exact Or.inl (Or.inl h)
        · exact Or.inl (Or.inr h)
        · exact Or.inr (Or.inl (by omega))
        · exact Or.inr (Or.inr h)

theorem compress_none (l : List Nat) (hl : l.Pairwise (· < ·)) :
    SortedP (compress l none []) ∧ ∀ x, memL x (compress l none []) = true ↔ x ∈ l := by
  cases l with
  | nil => exact ⟨SortedP_nil, by intro x; simp [compress, addRange, memL]⟩
  | cons cp r =>
    have hl' := List.pairwise_cons.1 hl
    obtain ⟨h1, h2⟩ := compress_some r cp cp [] hl'.2 (Nat.le_refl _) hl'.1 SortedP_nil (by simp)
    refine ⟨h1, ?_⟩
    intro x
    simp only [compress]
    rw [h2 x]
    simp only [memL, List.any_nil, Bool.false_eq_true, false_or, List.mem_cons]
    constructor
    · rintro (h | h)
      · exact Or.inl (by omega)
      · exact Or.inr h
    · rintro (h | h)
      · exact Or.inl (by omega)
      · exact Or.inr h

/-! ### sorting -/

theorem sort_spec (set : List Nat) (hs : set.Nodup) :
    (set.mergeSort (· ≤ ·)).Pairwise (· < ·) ∧ ∀ x, x ∈ set.mergeSort (· ≤ ·) ↔ x ∈ set := by
  have hperm := List.mergeSort_perm set (fun a b => decide (a ≤ b))
  refine ⟨?_, fun x => hperm.mem_iff⟩
  have h1 : (set.mergeSort (fun a b => decide (a ≤ b))).Pairwise
      (fun a b => decide (a ≤ b) = true) :=
    List.pairwise_mergeSort (le := fun a b => decide (a ≤ b))
      (by intro a b c; simp only [decide_eq_true_eq]; omega)
      (by intro a b; simp only [Bool.or_eq_true, decide_eq_true_eq]; omega) set
  have h2 : (set.mergeSort (fun a b => decide (a ≤ b))).Nodup := hperm.nodup_iff.2 hs
  exact (h1.and h2).imp (fun ⟨h, h'⟩ => by
    simp only [decide_eq_true_eq] at h
    omega)

theorem codepointsVector_spec (set : List Nat) (hs : set.Nodup) :
    SortedP (codepointsVector set) ∧ ∀ x, memL x (codepointsVector set) = true ↔ x ∈ set := by
  obtain ⟨s1, s2⟩ := sort_spec set hs
  obtain ⟨c1, c2⟩ := compress_none _ s1
  exact ⟨c1, fun x => (c2 x).trans (s2 x)⟩

/-! ### main statements -/

theorem set_table_exact (p : URow → Bool) (rows : List URow) (h : WFc rows) :
    ∃ t, setTable p rows = some t ∧ sortedTable t = true ∧
      ∀ cp, memL cp t = rows.any (fun r => p r && r.cps.eqCp cp) := by
  obtain ⟨set, h1, h2, h3⟩ := collect_spec p rows [] ((WFc_pairwise rows h).imp Or.inl) (WFc_le rows h)
    List.nodup_nil (by intro c hc; cases hc)
  obtain ⟨c1, c2⟩ := codepointsVector_spec set h2
  refine ⟨codepointsVector set, by simp [setTable, h1], sortedTable_of_SortedP _ c1, ?_⟩
  intro cp
  rw [Bool.eq_iff_iff, c2 cp, h3 cp]
  simp

/-- property files (Scripts, DerivedJoiningType, PropList, …): the lines may come in ANY order (UAX #44 gives line
order no meaning); it suffices that they are pairwise disjoint and non-empty.  The HashSet + sort + run compression
still yields a searchable table denoting exactly the selected lines. -/
theorem set_table_exact_unordered (p : URow → Bool) (rows : List URow)
    (hd : rows.Pairwise (fun r r' => r.cps.hi < r'.cps.lo ∨ r'.cps.hi < r.cps.lo))
    (hle : ∀ r ∈ rows, r.cps.lo ≤ r.cps.hi) :
    ∃ t, setTable p rows = some t ∧ sortedTable t = true ∧
      ∀ cp, memL cp t = rows.any (fun r => p r && r.cps.eqCp cp) := by
  obtain ⟨set, h1, h2, h3⟩ := collect_spec p rows [] hd hle List.nodup_nil (by intro c hc; cases hc)
  obtain ⟨c1, c2⟩ := codepointsVector_spec set h2
  refine ⟨codepointsVector set, by simp [setTable, h1], sortedTable_of_SortedP _ c1, ?_⟩
  intro cp
  rw [Bool.eq_iff_iff, c2 cp, h3 cp]
  simp

theorem widthTable_cons (r : URow) (rest : List URow) :
    widthTable (r :: rest) =
      match r.width with
      | none => widthTable rest
      | some m => (r.cps, m) :: widthTable rest := by
  unfold widthTable
  cases h : r.width <;> simp [h]

theorem width_sorted (rows : List URow)
    (hp : rows.Pairwise (fun r r' => r.cps.hi < r'.cps.lo))
    (hle : ∀ r ∈ rows, r.cps.lo ≤ r.cps.hi) :
    SortedP ((widthTable rows).map (·.1)) := by
  have hmem : ∀ e ∈ (widthTable rows).map (·.1), ∃ r ∈ rows, r.cps = e := by
    intro e he
    simp only [widthTable, List.mem_map, List.mem_filterMap, Option.map_eq_some_iff] at he
    obtain ⟨⟨e', m⟩, ⟨r, hr, m', _, hm⟩, rfl⟩ := he
    exact ⟨r, hr, by cases hm; rfl⟩
  refine ⟨?_, ?_⟩
  · intro e he
    obtain ⟨r, hr, rfl⟩ := hmem e he
    exact hle r hr
  · rw [List.pairwise_map]
    unfold widthTable
    refine List.Pairwise.filterMap _ ?_ hp
    intro a a' haa b hb b' hb'
    simp only [Option.map_eq_some_iff] at hb hb'
    obtain ⟨_, _, rfl⟩ := hb
    obtain ⟨_, _, rfl⟩ := hb'
    exact haa

theorem width_lookup : ∀ (rows : List URow) (cp : Nat),
    rows.Pairwise (fun r r' => r.cps.hi < r'.cps.lo) →
    (∀ r ∈ rows, r.cps.lo ≤ r.cps.hi) →
    lookupL cp (widthTable rows) = ((rows.find? (fun r => r.cps.eqCp cp)).bind (·.width))
  | [], _, _, _ => rfl
  | r :: rest, cp, hp, hle => by
    have hp' := List.pairwise_cons.1 hp
    have ih := width_lookup rest cp hp'.2 (fun x hx => hle x (List.mem_cons_of_mem _ hx))
    rw [widthTable_cons]
    cases hr : r.cps.eqCp cp with
    | false =>
      simp only [List.find?_cons, hr]
      cases hw : r.width with
      | none => exact ih
      | some m => simp only [lookupL, hr, Bool.false_eq_true, if_false]; exact ih
    | true =>
      simp only [List.find?_cons, hr, Option.bind_some]
      cases hw : r.width with
      | none =>
        simp only
        rw [ih]
        have : rest.find? (fun r => r.cps.eqCp cp) = none := by
          rw [List.find?_eq_none]
          intro x hx hxc
          have h1 := (eqCp_iff _ _).1 hr
          have h2 := (eqCp_iff _ _).1 hxc
          have := hp'.1 x hx
          omega
        rw [this]; rfl
      | some m => simp [lookupL, hr]

theorem width_exact (rows : List URow) (h : WFc rows) :
    sortedTable ((widthTable rows).map (·.1)) = true ∧
      ∀ cp, lookupL cp (widthTable rows) = ((rows.find? (fun r => r.cps.eqCp cp)).bind (·.width)) :=
  ⟨sortedTable_of_SortedP _ (width_sorted rows (WFc_pairwise rows h) (WFc_le rows h)),
   fun cp => width_lookup rows cp (WFc_pairwise rows h) (WFc_le rows h)⟩

end Precis.GenSetAux
