/-
Helper lemmas for C09: the one-pass Bidi scan of the model (`validRtl` / `validLtr`) characterised,
for every loop state, by the RFC 5893 predicates of `Spec/Rfc5893.lean` on the remaining suffix.
-/
import Precis.Model.Rules
import Precis.Spec.Rfc5893
namespace Precis.BidiAux
open Precis Precis.Spec BidiClass

/-- `lastNonNsm` read left to right -/
theorem lastNonNsm_cons (c : BidiClass) (r : List BidiClass) :
    lastNonNsm (c :: r) = (lastNonNsm r).or (if c == .NSM then none else some c) := by
  unfold lastNonNsm
  rw [List.reverse_cons, List.dropWhile_append]
  cases h : List.dropWhile (fun x => x == BidiClass.NSM) r.reverse with
  | nil =>
    simp only [List.isEmpty_nil, if_true, List.head?_nil, Option.none_or]
    by_cases hc : (c == BidiClass.NSM) = true
    · simp [hc]
    · simp [hc]
  | cons x xs => simp

theorem lastNonNsm_nil : lastNonNsm [] = none := rfl

theorem lastNonNsm_getD_cons (c prev : BidiClass) (r : List BidiClass) (hc : c ≠ .NSM) :
    (lastNonNsm (c :: r)).getD prev = (lastNonNsm r).getD c := by
  rw [lastNonNsm_cons]
  have : (c == BidiClass.NSM) = false := by simpa using hc
  simp only [this]
  cases lastNonNsm r <;> simp

theorem lastNonNsm_cons_ne (c : BidiClass) (r : List BidiClass) (hc : c ≠ .NSM) :
    lastNonNsm (c :: r) = some ((lastNonNsm r).getD c) := by
  rw [lastNonNsm_cons]
  have : (c == BidiClass.NSM) = false := by simpa using hc
  simp only [this]
  cases lastNonNsm r <;> simp

theorem lastNonNsm_allNsm (r : List BidiClass) (h : r.all (· == .NSM) = true) :
    lastNonNsm r = none := by
  induction r with
  | nil => rfl
  | cons c r ih =>
    simp only [List.all_cons, Bool.and_eq_true] at h
    rw [lastNonNsm_cons, ih h.2, h.1]; rfl

theorem any_ne_eq_not_all (r : List BidiClass) :
    r.any (· != BidiClass.NSM) = !r.all (· == BidiClass.NSM) := by
  induction r with
  | nil => rfl
  | cons c r ih => rw [List.any_cons, List.all_cons, ih, Bool.not_and]; rfl

theorem interiorNsm_cons_nsm (r : List BidiClass) :
    interiorNsm (.NSM :: r) = !r.all (· == .NSM) := by
  rw [← any_ne_eq_not_all]
  simp [interiorNsm]

theorem interiorNsm_cons_ne (c : BidiClass) (r : List BidiClass) (hc : c ≠ .NSM) :
    interiorNsm (c :: r) = interiorNsm r := by
  simp [interiorNsm, hc]

/-- the EN/AN exclusion (condition 4) relative to the flags already set -/
def enan (en an : Bool) (r : List BidiClass) : Bool :=
  !(en && r.contains .AN) && !(an && r.contains .EN) && !(r.contains .EN && r.contains .AN)

/-- the right-hand side of the RTL characterisation -/
def rtlSpec (r : List BidiClass) (prev : BidiClass) (nsm en an : Bool) : Bool :=
  r.all rtlAllowed && endsRtl ((lastNonNsm r).getD prev) && enan en an r
    && (if nsm then r.all (· == .NSM) else !interiorNsm r)

theorem rtlSpec_nil (prev : BidiClass) (nsm en an : Bool) :
    rtlSpec [] prev nsm en an = endsRtl prev := by
  cases nsm <;> simp [rtlSpec, enan, lastNonNsm_nil, interiorNsm]

/-- a non-NSM class that neither is EN nor AN -/
theorem rtlSpec_cons_plain (c : BidiClass) (r : List BidiClass) (prev : BidiClass) (nsm en an : Bool)
    (hn : c ≠ .NSM) (he : c ≠ .EN) (ha : c ≠ .AN) (hal : rtlAllowed c = true) :
    rtlSpec (c :: r) prev nsm en an = (if nsm then false else rtlSpec r c false en an) := by
  have h1 : (c == BidiClass.NSM) = false := by simpa using hn
  have h2 : ¬ BidiClass.EN = c := fun h => he h.symm
  have h3 : ¬ BidiClass.AN = c := fun h => ha h.symm
  cases nsm
  · simp [rtlSpec, enan, lastNonNsm_getD_cons _ _ _ hn,
      interiorNsm_cons_ne _ _ hn, hal, h2, h3]
  · simp [rtlSpec, h1]

theorem rtlSpec_cons_an (r : List BidiClass) (prev : BidiClass) (nsm en an : Bool) :
    rtlSpec (.AN :: r) prev nsm en an =
      (if en then false else if nsm then false else rtlSpec r .AN false en true) := by
  have hn : BidiClass.AN ≠ .NSM := by decide
  cases nsm <;> cases en <;> cases an <;>
    by_cases h1 : BidiClass.EN ∈ r <;> by_cases h2 : BidiClass.AN ∈ r <;>
    simp [rtlSpec, enan, lastNonNsm_getD_cons _ _ _ hn,
      interiorNsm_cons_ne _ _ hn, rtlAllowed, h1, h2]

theorem rtlSpec_cons_en (r : List BidiClass) (prev : BidiClass) (nsm en an : Bool) :
    rtlSpec (.EN :: r) prev nsm en an =
      (if an then false else if nsm then false else rtlSpec r .EN false true an) := by
  have hn : BidiClass.EN ≠ .NSM := by decide
  cases nsm <;> cases en <;> cases an <;>
    by_cases h1 : BidiClass.EN ∈ r <;> by_cases h2 : BidiClass.AN ∈ r <;>
    simp [rtlSpec, enan, lastNonNsm_getD_cons _ _ _ hn,
      interiorNsm_cons_ne _ _ hn, rtlAllowed, h1, h2]

theorem rtlSpec_cons_nsm (r : List BidiClass) (prev : BidiClass) (nsm en an : Bool) :
    rtlSpec (.NSM :: r) prev nsm en an =
      (if !endsRtl prev then false else rtlSpec r prev true en an) := by
  cases hall : r.all (· == .NSM)
  · cases nsm <;> simp [rtlSpec, interiorNsm_cons_nsm, hall]
  · have hl : lastNonNsm r = none := lastNonNsm_allNsm r hall
    have hl' : lastNonNsm (.NSM :: r) = none := by rw [lastNonNsm_cons, hl]; rfl
    cases hp : endsRtl prev <;> cases nsm <;>
      simp [rtlSpec, enan, interiorNsm_cons_nsm, hall, hl, hl', hp, rtlAllowed]

theorem rtlSpec_cons_bad (c : BidiClass) (r : List BidiClass) (prev : BidiClass) (nsm en an : Bool)
    (hal : rtlAllowed c = false) : rtlSpec (c :: r) prev nsm en an = false := by
  simp [rtlSpec, hal]

/-- the RTL loop, from any state satisfying the loop invariant `nsm → endsRtl prev` -/
theorem validRtl_eq (r : List BidiClass) (prev : BidiClass) (nsm en an : Bool)
    (hinv : nsm = true → endsRtl prev = true) :
    validRtl r prev nsm en an = rtlSpec r prev nsm en an := by
  induction r generalizing prev nsm en an with
  | nil =>
    rw [rtlSpec_nil, validRtl]
    cases nsm
    · simp
    · simp [hinv rfl]
  | cons c r ih =>
    cases c
    case AN =>
      rw [rtlSpec_cons_an, validRtl]
      cases en <;> cases nsm <;> simp [ih]
    case EN =>
      rw [rtlSpec_cons_en, validRtl]
      cases an <;> cases nsm <;> simp [ih]
    case NSM =>
      rw [rtlSpec_cons_nsm, validRtl]
      cases hp : endsRtl prev
      · simp
      · simp [ih prev true en an (fun _ => hp)]
    case R | AL | ES | CS | ET | ON | BN =>
      rw [rtlSpec_cons_plain _ _ _ _ _ _ (by decide) (by decide) (by decide) (by decide), validRtl]
      cases nsm <;> simp [ih]
    all_goals
      rw [rtlSpec_cons_bad _ _ _ _ _ _ (by decide)]; simp [validRtl]

/-- the right-hand side of the LTR characterisation -/
def ltrSpec (r : List BidiClass) (prev : BidiClass) (nsm : Bool) : Bool :=
  r.all ltrAllowed && endsLtr ((lastNonNsm r).getD prev)
    && (if nsm then r.all (· == .NSM) else !interiorNsm r)

theorem ltrSpec_nil (prev : BidiClass) (nsm : Bool) : ltrSpec [] prev nsm = endsLtr prev := by
  cases nsm <;> simp [ltrSpec, lastNonNsm_nil, interiorNsm]

theorem ltrSpec_cons_plain (c : BidiClass) (r : List BidiClass) (prev : BidiClass) (nsm : Bool)
    (hn : c ≠ .NSM) (hal : ltrAllowed c = true) :
    ltrSpec (c :: r) prev nsm = (if nsm then false else ltrSpec r c false) := by
  have h1 : (c == BidiClass.NSM) = false := by simpa using hn
  cases nsm
  · simp [ltrSpec, lastNonNsm_getD_cons _ _ _ hn, interiorNsm_cons_ne _ _ hn, hal]
  · simp [ltrSpec, h1]

theorem ltrSpec_cons_nsm (r : List BidiClass) (prev : BidiClass) (nsm : Bool) :
    ltrSpec (.NSM :: r) prev nsm = (if !endsLtr prev then false else ltrSpec r prev true) := by
  cases hall : r.all (· == .NSM)
  · cases nsm <;> simp [ltrSpec, interiorNsm_cons_nsm, hall]
  · have hl : lastNonNsm r = none := lastNonNsm_allNsm r hall
    have hl' : lastNonNsm (.NSM :: r) = none := by rw [lastNonNsm_cons, hl]; rfl
    cases hp : endsLtr prev <;> cases nsm <;>
      simp [ltrSpec, interiorNsm_cons_nsm, hall, hl, hl', hp, ltrAllowed]

theorem ltrSpec_cons_bad (c : BidiClass) (r : List BidiClass) (prev : BidiClass) (nsm : Bool)
    (hal : ltrAllowed c = false) : ltrSpec (c :: r) prev nsm = false := by
  simp [ltrSpec, hal]

/-- the LTR loop, from any state satisfying the loop invariant `nsm → endsLtr prev` -/
theorem validLtr_eq (r : List BidiClass) (prev : BidiClass) (nsm : Bool)
    (hinv : nsm = true → endsLtr prev = true) :
    validLtr r prev nsm = ltrSpec r prev nsm := by
  induction r generalizing prev nsm with
  | nil =>
    rw [ltrSpec_nil, validLtr]
    cases nsm
    · simp
    · simp [hinv rfl]
  | cons c r ih =>
    cases c
    case NSM =>
      rw [ltrSpec_cons_nsm, validLtr]
      cases hp : endsLtr prev
      · simp
      · simp [ih prev true (fun _ => hp)]
    case L | EN | ES | CS | ET | ON | BN =>
      rw [ltrSpec_cons_plain _ _ _ _ (by decide) (by decide), validLtr]
      cases nsm <;> simp [ih]
    all_goals
      rw [ltrSpec_cons_bad _ _ _ _ (by decide)]; simp [validLtr]

/-- RTL label: the spec conditions 2–4 plus "no interior NSM", in scan form -/
theorem rtl_label (first : BidiClass) (r : List BidiClass) (hf : first = .R ∨ first = .AL) :
    rtlSpec r first false false false =
      (((first :: r).all rtlAllowed
        && (match lastNonNsm (first :: r) with
            | some c => c == .R || c == .AL || c == .EN || c == .AN
            | none => false)
        && !((first :: r).contains .EN && (first :: r).contains .AN))
        && !interiorNsm (first :: r)) := by
  have hn : first ≠ .NSM := by rcases hf with h | h <;> subst h <;> decide
  have hal : rtlAllowed first = true := by rcases hf with h | h <;> subst h <;> rfl
  have h2 : ¬ BidiClass.EN = first := by rcases hf with h | h <;> subst h <;> decide
  have h3 : ¬ BidiClass.AN = first := by rcases hf with h | h <;> subst h <;> decide
  have he : ∀ c, endsRtl c = (c == .R || c == .AL || c == .EN || c == .AN) := by
    intro c; cases c <;> rfl
  rw [lastNonNsm_cons_ne _ _ hn, interiorNsm_cons_ne _ _ hn]
  simp [rtlSpec, enan, hal, h2, h3, he]

theorem ltr_label (r : List BidiClass) :
    ltrSpec r .L false =
      (((BidiClass.L :: r).all ltrAllowed
        && (match lastNonNsm (BidiClass.L :: r) with
            | some c => c == .L || c == .EN
            | none => false))
        && !interiorNsm (BidiClass.L :: r)) := by
  have hn : BidiClass.L ≠ .NSM := by decide
  have he : ∀ c, endsLtr c = (c == .L || c == .EN) := by
    intro c; cases c <;> rfl
  rw [lastNonNsm_cons_ne _ _ hn, interiorNsm_cons_ne _ _ hn]
  simp [ltrSpec, ltrAllowed, he]

end Precis.BidiAux
