/-
Auxiliary lemmas for C17 (the PRECIS registry CSV row parser).
-/
import Precis.Model.Csv
import Precis.Spec.Csv
namespace Precis.CsvAux
open Precis Precis.Csv Precis.Spec.Csv

/-! ### generic list lemmas -/

theorem dropWhile_eq_cons {α : Type} (p : α → Bool) :
    ∀ (l : List α) (x : α) (r : List α),
      l.dropWhile p = x :: r → l = l.takeWhile p ++ x :: r ∧ p x = false := by
  intro l
  induction l with
  | nil => intro x r h; simp at h
  | cons a l ih =>
    intro x r h
    cases hp : p a with
    | true =>
      rw [List.dropWhile_cons, if_pos hp] at h
      obtain ⟨h1, h2⟩ := ih x r h
      refine ⟨?_, h2⟩
      rw [List.takeWhile_cons, if_pos hp, List.cons_append, ← h1]
    | false =>
      rw [List.dropWhile_cons, if_neg (by simp [hp])] at h
      injection h with h1 h2
      subst h1; subst h2
      refine ⟨?_, hp⟩
      rw [List.takeWhile_cons, if_neg (by simp [hp])]; rfl

theorem mem_takeWhile {α : Type} (p : α → Bool) :
    ∀ (l : List α) (c : α), c ∈ l.takeWhile p → p c = true := by
  intro l
  induction l with
  | nil => intro c h; simp at h
  | cons a l ih =>
    intro c h
    cases hp : p a with
    | true =>
      rw [List.takeWhile_cons, if_pos hp] at h
      cases h with
      | head => exact hp
      | tail _ h => exact ih c h
    | false =>
      rw [List.takeWhile_cons, if_neg (by simp [hp])] at h
      simp at h

theorem takeWhile_append_cons {α : Type} (p : α → Bool) (a : List α) (x : α) (r : List α)
    (ha : ∀ c ∈ a, p c = true) (hx : p x = false) : (a ++ x :: r).takeWhile p = a := by
  induction a with
  | nil => rw [List.nil_append, List.takeWhile_cons, if_neg (by simp [hx])]
  | cons c a ih =>
    have hc := ha c (by simp)
    rw [List.cons_append, List.takeWhile_cons, if_pos hc, ih (fun d hd => ha d (by simp [hd]))]

theorem dropWhile_append_cons {α : Type} (p : α → Bool) (a : List α) (x : α) (r : List α)
    (ha : ∀ c ∈ a, p c = true) (hx : p x = false) : (a ++ x :: r).dropWhile p = x :: r := by
  induction a with
  | nil => rw [List.nil_append, List.dropWhile_cons, if_neg (by simp [hx])]
  | cons c a ih =>
    have hc := ha c (by simp)
    rw [List.cons_append, List.dropWhile_cons, if_pos hc, ih (fun d hd => ha d (by simp [hd]))]

theorem all_of_forall {α : Type} (p : α → Bool) (l : List α) (h : ∀ c ∈ l, p c = true) :
    l.all p = true := by
  simpa using h

theorem forall_of_all {α : Type} (p : α → Bool) (l : List α) (h : l.all p = true) :
    ∀ c ∈ l, p c = true := by
  simpa using h

/-! ### hexadecimal digits -/

theorem hexChar_facts : ∀ d, d < 16 →
    hexVal (hexChar d) = some d ∧ isAZ09 (hexChar d) = true ∧ isHexDigit (hexChar d) = true ∧
    hexChar d ≠ 0x2C ∧ hexChar d ≠ 0x2D ∧ hexChar d ≠ 0x2B := by
  decide

theorem mem_hexFixed : ∀ (k n c : Nat), c ∈ hexFixed n k → ∃ d, d < 16 ∧ c = hexChar d := by
  intro k
  induction k with
  | zero => intro n c h; simp [hexFixed] at h
  | succ k ih =>
    intro n c h
    rw [hexFixed, List.mem_append] at h
    cases h with
    | inl h => exact ih _ _ h
    | inr h =>
      refine ⟨n % 16, Nat.mod_lt _ (by decide), ?_⟩
      simpa using h

theorem length_hexFixed : ∀ (k n : Nat), (hexFixed n k).length = k := by
  intro k
  induction k with
  | zero => intro n; rfl
  | succ k ih => intro n; rw [hexFixed, List.length_append, ih]; rfl

theorem hexFixed_isHex (n k c : Nat) (h : c ∈ hexFixed n k) : isHexDigit c = true := by
  obtain ⟨d, hd, rfl⟩ := mem_hexFixed k n c h
  exact (hexChar_facts d hd).2.2.1

theorem hexFixed_isAZ09 (n k c : Nat) (h : c ∈ hexFixed n k) : isAZ09 c = true := by
  obtain ⟨d, hd, rfl⟩ := mem_hexFixed k n c h
  exact (hexChar_facts d hd).2.1

theorem hexFixed_ne_comma (n k c : Nat) (h : c ∈ hexFixed n k) : c ≠ 0x2C := by
  obtain ⟨d, hd, rfl⟩ := mem_hexFixed k n c h
  exact (hexChar_facts d hd).2.2.2.1

theorem hexFixed_ne_dash (n k c : Nat) (h : c ∈ hexFixed n k) : c ≠ 0x2D := by
  obtain ⟨d, hd, rfl⟩ := mem_hexFixed k n c h
  exact (hexChar_facts d hd).2.2.2.2.1

theorem hexFixed_ne_plus (n k c : Nat) (h : c ∈ hexFixed n k) : c ≠ 0x2B := by
  obtain ⟨d, hd, rfl⟩ := mem_hexFixed k n c h
  exact (hexChar_facts d hd).2.2.2.2.2

theorem hexFixed_ne_nil (n k : Nat) (hk : 1 ≤ k) : hexFixed n k ≠ [] := by
  intro h
  have := length_hexFixed k n
  rw [h] at this
  simp at this
  omega

theorem hexDigits_append : ∀ (a b : List Nat) (acc : Nat),
    hexDigits (a ++ b) acc = (hexDigits a acc).bind (hexDigits b) := by
  intro a
  induction a with
  | nil => intro b acc; simp [hexDigits]
  | cons c a ih =>
    intro b acc
    rw [List.cons_append, hexDigits, hexDigits]
    cases hexVal c with
    | none => rfl
    | some v =>
      simp only
      split
      · exact ih b _
      · rfl

theorem hexDigits_hexFixed : ∀ (k n : Nat), n < 16 ^ k → n < 2 ^ 32 →
    hexDigits (hexFixed n k) 0 = some n := by
  intro k
  induction k with
  | zero =>
    intro n h _
    have : n = 0 := by simpa using h
    subst this; rfl
  | succ k ih =>
    intro n h h32
    have h1 : n / 16 < 16 ^ k := by
      rw [Nat.pow_succ] at h
      omega
    have h2 : n / 16 < 2 ^ 32 := by omega
    rw [hexFixed, hexDigits_append, ih _ h1 h2]
    simp only [Option.bind, hexDigits, (hexChar_facts (n % 16) (Nat.mod_lt _ (by decide))).1]
    have h3 : n / 16 * 16 + n % 16 = n := by omega
    rw [h3, if_pos h32]

theorem fromStrRadix16_of_head (c : Nat) (r : List Nat) (h1 : c ≠ 0x2B) (h2 : c ≠ 0x2D) :
    fromStrRadix16 (c :: r) = hexDigits (c :: r) 0 := by
  unfold fromStrRadix16
  split <;> simp_all

theorem parseCodepoint_hexFixed (n k : Nat) (hk1 : 1 ≤ k) (_hk8 : k ≤ 8) (hn : n < 16 ^ k)
    (hmax : n ≤ 0x10FFFF) : parseCodepoint (hexFixed n k) = some n := by
  have h32 : n < 2 ^ 32 := by omega
  have hd := hexDigits_hexFixed k n hn h32
  have hne := hexFixed_ne_nil n k hk1
  cases hs : hexFixed n k with
  | nil => exact absurd hs hne
  | cons c r =>
    have hc : c ∈ hexFixed n k := by rw [hs]; simp
    rw [hs] at hd
    unfold parseCodepoint
    rw [fromStrRadix16_of_head c r (hexFixed_ne_plus n k c hc) (hexFixed_ne_dash n k c hc), hd]
    simp [hmax]

theorem contains_false_of_forall (s : List Nat) (x : Nat) (h : ∀ c ∈ s, c ≠ x) :
    s.contains x = false := by
  cases hc : s.contains x with
  | false => rfl
  | true =>
    rw [List.contains_iff_mem] at hc
    exact absurd rfl (h x hc)

/-! ### `parseCodepoints` on a rendered field -/

theorem parseCodepoints_render (c : Cps) (k1 k2 : Nat)
    (h : match c with
      | .single n => 1 ≤ k1 ∧ k1 ≤ 8 ∧ n < 16 ^ k1 ∧ n ≤ 0x10FFFF
      | .range a b => 1 ≤ k1 ∧ k1 ≤ 8 ∧ a < 16 ^ k1 ∧ a ≤ 0x10FFFF ∧ 1 ≤ k2 ∧ k2 ≤ 8 ∧ b < 16 ^ k2 ∧ b ≤ 0x10FFFF) :
    parseCodepoints (renderCps c k1 k2) = some c := by
  cases c with
  | single n =>
    obtain ⟨h1, h2, h3, h4⟩ := h
    simp only [renderCps]
    unfold parseCodepoints
    rw [if_neg, if_pos, parseCodepoint_hexFixed n k1 h1 h2 h3 h4]
    · rfl
    · exact all_of_forall _ _ (hexFixed_isHex n k1)
    · rw [contains_false_of_forall _ _ (hexFixed_ne_dash n k1)]; simp
  | range a b =>
    obtain ⟨h1, h2, h3, h4, g1, g2, g3, g4⟩ := h
    simp only [renderCps]
    unfold parseCodepoints
    have hcont : (hexFixed a k1 ++ [0x2D] ++ hexFixed b k2).contains 0x2D = true := by
      rw [List.contains_iff_mem]; simp
    rw [if_pos hcont]
    have hdash : isAZ09 0x2D = false := by decide
    have hm : matchRange (hexFixed a k1 ++ [0x2D] ++ hexFixed b k2)
        = some (hexFixed a k1, hexFixed b k2) := by
      unfold matchRange
      rw [List.append_assoc, List.singleton_append]
      simp only []
      rw [takeWhile_append_cons _ _ _ _ (hexFixed_isAZ09 a k1) hdash,
        dropWhile_append_cons _ _ _ _ (hexFixed_isAZ09 a k1) hdash]
      simp only []
      have e1 : (hexFixed a k1).isEmpty = false := by
        have := hexFixed_ne_nil a k1 h1
        cases h : hexFixed a k1 with
        | nil => exact absurd h this
        | cons _ _ => rfl
      have e2 : (hexFixed b k2).isEmpty = false := by
        have := hexFixed_ne_nil b k2 g1
        cases h : hexFixed b k2 with
        | nil => exact absurd h this
        | cons _ _ => rfl
      rw [e1, e2, all_of_forall _ _ (hexFixed_isAZ09 b k2)]
      rfl
    unfold parseRange
    rw [hm]
    simp only [parseCodepoint_hexFixed a k1 h1 h2 h3 h4, parseCodepoint_hexFixed b k2 g1 g2 g3 g4]

/-! ### the property field -/

theorem parseProps_render (ps : Props) : parseProps (renderProps ps) = some ps := by
  cases ps with
  | single p => cases p <;> decide
  | tuple p q => cases p <;> cases q <;> decide

theorem renderProps_ne_comma (ps : Props) : ∀ c ∈ renderProps ps, c ≠ 0x2C := by
  cases ps with
  | single p => cases p <;> decide
  | tuple p q => cases p <;> cases q <;> decide

theorem parseProp_sound (s : List Nat) (p : Prop7) (h : parseProp s = some p) : s = propName p := by
  unfold parseProp at h
  repeat' (split at h)
  all_goals first
    | (cases h; exact ‹s = _›)
    | cases h

theorem matchTuple_some (s a b : List Nat) (h : matchTuple s = some (a, b)) :
    ∃ w1 w2, w1 ≠ [] ∧ w2 ≠ [] ∧ w1.all isWhite = true ∧ w2.all isWhite = true ∧
      s = a ++ w1 ++ [0x6F, 0x72] ++ w2 ++ b := by
  unfold matchTuple at h
  simp only [] at h
  split at h
  · rename_i r2 heq
    split at h
    · rename_i hc
      injection h with h
      injection h with ha hb
      simp only [Bool.and_eq_true, Bool.not_eq_true', List.isEmpty_eq_false_iff] at hc
      obtain ⟨⟨⟨⟨_, hw1⟩, hw2⟩, _⟩, _⟩ := hc
      refine ⟨(s.dropWhile isAZus).takeWhile isWhite, r2.takeWhile isWhite, hw1, hw2,
        all_of_forall _ _ (mem_takeWhile _ _), all_of_forall _ _ (mem_takeWhile _ _), ?_⟩
      have e1 := (dropWhile_eq_cons isWhite _ _ _ heq).1
      have e0 : s = s.takeWhile isAZus ++ s.dropWhile isAZus := (List.takeWhile_append_dropWhile).symm
      have e2 : r2 = r2.takeWhile isWhite ++ r2.dropWhile isWhite := (List.takeWhile_append_dropWhile).symm
      subst ha; subst hb
      conv => lhs; rw [e0, e1, e2]
      simp [List.append_assoc]
    · cases h
  · cases h

/-! ### the code point field -/

abbrev foldStep : Option Nat → Nat → Option Nat :=
  fun acc c => match acc, hexVal c with | some a, some v => some (a * 16 + v) | _, _ => none

theorem hexValue_eq_foldl (s : List Nat) : hexValue s = s.foldl foldStep (some 0) := by
  cases s <;> rfl

theorem hexDigits_sound : ∀ (s : List Nat) (acc n : Nat), hexDigits s acc = some n →
    s.all isHexDigit = true ∧ s.foldl foldStep (some acc) = some n := by
  intro s
  induction s with
  | nil => intro acc n h; simp [hexDigits] at h; simp [h]
  | cons c s ih =>
    intro acc n h
    rw [hexDigits] at h
    cases hv : hexVal c with
    | none => rw [hv] at h; cases h
    | some v =>
      rw [hv] at h
      simp only at h
      split at h
      · obtain ⟨h1, h2⟩ := ih _ _ h
        refine ⟨?_, ?_⟩
        · rw [List.all_cons, h1]; simp [isHexDigit, hv]
        · rw [List.foldl_cons]; simp only [foldStep, hv]; exact h2
      · cases h

theorem hexDigit_ne (c : Nat) (h : isHexDigit c = true) : c ≠ 0x2B ∧ c ≠ 0x2D := by
  constructor <;> (intro hc; subst hc; revert h; decide)

theorem isAZ09_ne (c : Nat) (h : isAZ09 c = true) : c ≠ 0x2B ∧ c ≠ 0x2D := by
  constructor <;> (intro hc; subst hc; revert h; decide)

theorem parseCodepoint_some (s : List Nat) (n : Nat) (h : parseCodepoint s = some n) :
    fromStrRadix16 s = some n ∧ n ≤ 0x10FFFF := by
  unfold parseCodepoint at h
  split at h
  · rename_i m hm
    split at h
    · injection h with h; subst h; exact ⟨hm, ‹_›⟩
    · cases h
  · cases h

/-- a string whose first character is neither '+' nor '-' and which `parseCodepoint` accepts -/
theorem parseCodepoint_sound (s : List Nat) (n : Nat)
    (hhead : ∀ c r, s = c :: r → c ≠ 0x2B ∧ c ≠ 0x2D) (h : parseCodepoint s = some n) :
    s ≠ [] ∧ s.all isHexDigit = true ∧ hexValue s = some n ∧ n ≤ 0x10FFFF := by
  obtain ⟨h1, h2⟩ := parseCodepoint_some s n h
  cases s with
  | nil => simp [fromStrRadix16] at h1
  | cons c r =>
    obtain ⟨hp, hm⟩ := hhead c r rfl
    rw [fromStrRadix16_of_head c r hp hm] at h1
    obtain ⟨g1, g2⟩ := hexDigits_sound _ _ _ h1
    exact ⟨by simp, g1, by rw [hexValue_eq_foldl]; exact g2, h2⟩

theorem matchRange_some (s x y : List Nat) (h : matchRange s = some (x, y)) :
    s = x ++ [0x2D] ++ y ∧ x ≠ [] ∧ y ≠ [] ∧ (∀ c ∈ x, isAZ09 c = true) ∧ (∀ c ∈ y, isAZ09 c = true) := by
  unfold matchRange at h
  simp only [] at h
  split at h
  · rename_i b heq
    split at h
    · rename_i hc
      injection h with h
      injection h with ha hb
      simp only [Bool.and_eq_true, Bool.not_eq_true', List.isEmpty_eq_false_iff] at hc
      obtain ⟨⟨hx, hy⟩, hall⟩ := hc
      have e1 := (dropWhile_eq_cons isAZ09 _ _ _ heq).1
      subst ha; subst hb
      refine ⟨?_, hx, hy, mem_takeWhile _ _, forall_of_all _ _ hall⟩
      conv => lhs; rw [e1]
      simp
    · cases h
  · cases h

/-! ### `splitn3` -/

theorem splitn3_some (s f1 f2 f3 : List Nat) (h : splitn3 s = some (f1, f2, f3)) :
    s = f1 ++ [0x2C] ++ f2 ++ [0x2C] ++ f3 ∧ (∀ c ∈ f1, c ≠ 0x2C) ∧ (∀ c ∈ f2, c ≠ 0x2C) := by
  unfold splitn3 at h
  split at h
  · rename_i x r1 heq1
    split at h
    · rename_i y r2 heq2
      injection h with h
      injection h with ha h
      injection h with hb hc
      obtain ⟨e1, p1⟩ := dropWhile_eq_cons _ _ _ _ heq1
      obtain ⟨e2, p2⟩ := dropWhile_eq_cons _ _ _ _ heq2
      have hx : x = 0x2C := by simpa using p1
      have hy : y = 0x2C := by simpa using p2
      subst hx; subst hy; subst ha; subst hb; subst hc
      refine ⟨?_, ?_, ?_⟩
      · conv => lhs; rw [e1, e2]
        simp
      · intro c hc
        have := mem_takeWhile _ _ c hc
        simpa using this
      · intro c hc
        have := mem_takeWhile _ _ c hc
        simpa using this
    · cases h
  · cases h

theorem splitn3_render (f1 f2 d : List Nat) (h1 : ∀ c ∈ f1, c ≠ 0x2C) (h2 : ∀ c ∈ f2, c ≠ 0x2C) :
    splitn3 (f1 ++ [0x2C] ++ f2 ++ [0x2C] ++ d) = some (f1, f2, d) := by
  have e : f1 ++ [0x2C] ++ f2 ++ [0x2C] ++ d = f1 ++ 0x2C :: (f2 ++ 0x2C :: d) := by simp
  have p1 : ∀ c ∈ f1, (c != 0x2C) = true := by intro c hc; simpa using h1 c hc
  have p2 : ∀ c ∈ f2, (c != 0x2C) = true := by intro c hc; simpa using h2 c hc
  have px : ((0x2C : Nat) != 0x2C) = false := by decide
  rw [e]
  unfold splitn3
  rw [dropWhile_append_cons _ f1 _ _ p1 px]
  simp only []
  rw [dropWhile_append_cons _ f2 _ _ p2 px]
  simp only []
  rw [takeWhile_append_cons _ f1 _ _ p1 px, takeWhile_append_cons _ f2 _ _ p2 px]

end Precis.CsvAux
