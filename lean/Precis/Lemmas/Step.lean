/-
Step functions over code points: the reflection machinery behind every "for all code points" fact.

A step function is a default value together with a list of breakpoints `(start, value)`:
`eval d [(s₁,v₁),(s₂,v₂),…] cp` walks the list and returns the value of the last breakpoint that is
`≤ cp` (or `d`).  `zipW` merges two step functions pointwise in one linear pass; its correctness
theorem `eval_zipW` is unconditional (no sortedness needed), so a kernel evaluation of a handful of
merges over the generated tables proves a statement about every `cp : Nat`.
-/
import Precis.Model.Types
namespace Precis.Step

/-- value of the step function at `cp` -/
def eval {α} : α → List (Nat × α) → Nat → α
  | d, [], _ => d
  | d, (s, v) :: r, cp => if cp < s then d else eval v r cp

/-- pointwise combination of two step functions (fuel = an upper bound on the number of breakpoints) -/
def zipW {α β γ} (f : α → β → γ) : Nat → α → List (Nat × α) → β → List (Nat × β) → List (Nat × γ)
  | 0, _, _, _, _ => []
  | _ + 1, _, [], _, [] => []
  | n + 1, _, (s, v) :: r, b, [] => (s, f v b) :: zipW f n v r b []
  | n + 1, a, [], _, (t, w) :: q => (t, f a w) :: zipW f n a [] w q
  | n + 1, a, (s, v) :: r, b, (t, w) :: q =>
    -- `Nat.blt` on literals is a single kernel (GMP) step; `if s < t` would unfold a `Decidable` instance
    bif Nat.blt s t then (s, f v b) :: zipW f n v r b ((t, w) :: q)
    else bif Nat.blt t s then (t, f a w) :: zipW f n a ((s, v) :: r) w q
    else (s, f v w) :: zipW f n v r w q

theorem eval_zipW {α β γ} (f : α → β → γ) (n : Nat) (a : α) (r : List (Nat × α)) (b : β)
    (q : List (Nat × β)) (cp : Nat) (h : r.length + q.length ≤ n) :
    eval (f a b) (zipW f n a r b q) cp = f (eval a r cp) (eval b q cp) := by
  induction n generalizing a r b q with
  | zero =>
    have hr : r = [] := List.length_eq_zero_iff.mp (by omega)
    have hq : q = [] := List.length_eq_zero_iff.mp (by omega)
    subst hr; subst hq; simp [zipW, eval]
  | succ n ih =>
    match r, q with
    | [], [] => simp [zipW, eval]
    | (s, v) :: r, [] =>
      simp only [zipW, eval]
      split
      · rfl
      · rw [ih]; · simp [eval]
        · simp at h ⊢; omega
    | [], (t, w) :: q =>
      simp only [zipW, eval]
      split
      · rfl
      · rw [ih]; · simp [eval]
        · simp at h ⊢; omega
    | (s, v) :: r, (t, w) :: q =>
      simp only [zipW, Bool.cond_eq_ite, Nat.blt_eq]
      by_cases hst : s < t
      · simp only [hst, if_true, eval]
        by_cases hc : cp < s
        · have : cp < t := by omega
          simp [hc, this]
        · simp only [hc, if_false]
          rw [ih]; · simp [eval]
          · simp at h ⊢; omega
      · simp only [hst, if_false]
        by_cases hts : t < s
        · simp only [hts, if_true, eval]
          by_cases hc : cp < t
          · have : cp < s := by omega
            simp [hc, this]
          · simp only [hc, if_false]
            rw [ih]; · simp [eval]
            · simp at h ⊢; omega
        · have : s = t := by omega
          subst this
          simp only [hts, if_false, eval]
          by_cases hc : cp < s
          · simp [hc]
          · simp only [hc, if_false]
            rw [ih]
            simp at h ⊢; omega

/-- beyond the last breakpoint the value is the last one -/
theorem eval_of_all_le {α} (d : α) (l : List (Nat × α)) (cp : Nat)
    (h : l.all (fun x => decide (x.1 ≤ cp)) = true) : eval d l cp = ((l.getLast?).map (·.2)).getD d := by
  induction l generalizing d with
  | nil => rfl
  | cons x r ih =>
    obtain ⟨s, v⟩ := x
    simp only [List.all_cons, Bool.and_eq_true, decide_eq_true_eq] at h
    have : ¬ cp < s := by omega
    simp only [eval, this, if_false]
    rw [ih v h.2]
    cases r with
    | nil => rfl
    | cons y r' =>
      simp only [List.getLast?_cons_cons]
      have : ((y :: r').getLast?).isSome = true := by simp
      cases hg : (y :: r').getLast? with
      | none => simp [hg] at this
      | some z => rfl

/-- bounded universal check with shallow kernel recursion -/
def allBelow (f : Nat → Bool) : Nat → Bool
  | 0 => true
  | n + 1 => f n && allBelow f n

theorem allBelow_sound (f : Nat → Bool) (n : Nat) (h : allBelow f n = true) (k : Nat) (hk : k < n) :
    f k = true := by
  induction n with
  | zero => omega
  | succ n ih =>
    simp only [allBelow, Bool.and_eq_true] at h
    by_cases e : k = n
    · subst e; exact h.1
    · exact ih h.2 (by omega)

/-- map over the values of a step function -/
def mapV {α β} (g : α → β) : List (Nat × α) → List (Nat × β)
  | [] => []
  | (s, v) :: r => (s, g v) :: mapV g r

theorem eval_mapV {α β} (g : α → β) (d : α) (l : List (Nat × α)) (cp : Nat) :
    eval (g d) (mapV g l) cp = g (eval d l cp) := by
  induction l generalizing d with
  | nil => rfl
  | cons x r ih =>
    obtain ⟨s, v⟩ := x
    simp only [mapV, eval]
    split
    · rfl
    · exact ih v

/-- the default value is never used when the first breakpoint starts at 0 -/
def defaultUnused {α} : List (Nat × α) → Bool
  | (0, _) :: _ => true
  | _ => false

/-- every value (the default too, unless it is never used) satisfies `p` -/
def allV {α} (p : α → Bool) (d : α) (l : List (Nat × α)) : Bool :=
  (defaultUnused l || p d) && l.all (fun x => p x.2)

theorem allV_eval_aux {α} (p : α → Bool) (d : α) (l : List (Nat × α))
    (hd : p d = true) (h : l.all (fun x => p x.2) = true) (cp : Nat) : p (eval d l cp) = true := by
  induction l generalizing d with
  | nil => simpa [eval] using hd
  | cons x r ih =>
    obtain ⟨s, v⟩ := x
    simp only [List.all_cons, Bool.and_eq_true] at h
    simp only [eval]
    split
    · exact hd
    · exact ih v h.1 h.2

theorem allV_eval {α} (p : α → Bool) (d : α) (l : List (Nat × α)) (h : allV p d l = true) (cp : Nat) :
    p (eval d l cp) = true := by
  simp only [allV, Bool.and_eq_true, Bool.or_eq_true] at h
  rcases h.1 with hu | hd
  · match l, hu, h.2 with
    | (0, v) :: r, _, h2 =>
      simp only [List.all_cons, Bool.and_eq_true] at h2
      simp only [eval, Nat.not_lt_zero, if_false]
      exact allV_eval_aux p v r h2.1 h2.2 cp
  · exact allV_eval_aux p d l hd h.2 cp

/-- drop a breakpoint that is immediately overridden by one with the same start
(adjacent table entries produce such pairs) -/
def dedup {α} : List (Nat × α) → List (Nat × α)
  | [] => []
  | [x] => [x]
  | (s, v) :: (t, w) :: r => if s = t then dedup ((t, w) :: r) else (s, v) :: dedup ((t, w) :: r)

theorem eval_dedup {α} (d : α) (l : List (Nat × α)) (cp : Nat) : eval d (dedup l) cp = eval d l cp := by
  induction l using dedup.induct generalizing d with
  | case1 => rfl
  | case2 x => rfl
  | case3 s v w r ih =>
    simp only [dedup, if_true, eval]
    rw [ih]
    simp only [eval]
    split <;> rfl
  | case4 s v t w r h ih =>
    simp only [dedup, h, if_false, eval]
    split
    · rfl
    · rw [ih]; simp only [eval]

/-- every effective value satisfies `p` -/
def allVD {α} (p : α → Bool) (d : α) (l : List (Nat × α)) : Bool := allV p d (dedup l)

theorem allVD_eval {α} (p : α → Bool) (d : α) (l : List (Nat × α)) (h : allVD p d l = true) (cp : Nat) :
    p (eval d l cp) = true := by
  have := allV_eval p d (dedup l) h cp
  rwa [eval_dedup] at this

/-- two step functions agree everywhere -/
def agree {α} [DecidableEq α] (n : Nat) (a : α) (r : List (Nat × α)) (b : α) (q : List (Nat × α)) : Bool :=
  allVD id (decide (a = b)) (zipW (fun x y => decide (x = y)) n a r b q)

theorem agree_eval {α} [DecidableEq α] (n : Nat) (a : α) (r : List (Nat × α)) (b : α)
    (q : List (Nat × α)) (hn : r.length + q.length ≤ n) (h : agree n a r b q = true) (cp : Nat) :
    eval a r cp = eval b q cp := by
  have h1 := allVD_eval id _ _ h cp
  have e := eval_zipW (fun x y : α => decide (x = y)) n a r b q cp hn
  rw [id, e] at h1
  simpa using h1

/-- first code point at which the two step functions differ (counter-example search for a failed `agree`) -/
def firstDiff {α} [DecidableEq α] (n : Nat) (a : α) (r : List (Nat × α)) (b : α) (q : List (Nat × α)) : Option Nat :=
  let z := dedup (zipW (fun x y => decide (x = y)) n a r b q)
  if decide (a = b) = false then some 0 else (z.find? (fun x => !x.2)).map (·.1)

end Precis.Step

/-! ### fuel-free combinators (the fuel is computed from the operands) -/
namespace Precis.Step

/-- pointwise combination; unconditional correctness -/
def zipA {α β γ} (f : α → β → γ) (a : α) (r : List (Nat × α)) (b : β) (q : List (Nat × β)) :
    List (Nat × γ) := zipW f (r.length + q.length) a r b q

theorem eval_zipA {α β γ} (f : α → β → γ) (a : α) (r : List (Nat × α)) (b : β)
    (q : List (Nat × β)) (cp : Nat) :
    eval (f a b) (zipA f a r b q) cp = f (eval a r cp) (eval b q cp) :=
  eval_zipW f _ a r b q cp (Nat.le_refl _)

/-- a step function with its default value -/
structure SF (α : Type) where
  d : α
  bps : List (Nat × α)

def SF.at {α} (s : SF α) (cp : Nat) : α := eval s.d s.bps cp

def SF.zip {α β γ} (f : α → β → γ) (x : SF α) (y : SF β) : SF γ :=
  ⟨f x.d y.d, zipA f x.d x.bps y.d y.bps⟩

@[simp] theorem SF.zip_at {α β γ} (f : α → β → γ) (x : SF α) (y : SF β) (cp : Nat) :
    (SF.zip f x y).at cp = f (x.at cp) (y.at cp) := eval_zipA f x.d x.bps y.d y.bps cp

def SF.map {α β} (g : α → β) (x : SF α) : SF β := ⟨g x.d, mapV g x.bps⟩

@[simp] theorem SF.map_at {α β} (g : α → β) (x : SF α) (cp : Nat) : (SF.map g x).at cp = g (x.at cp) :=
  eval_mapV g x.d x.bps cp

def SF.const {α} (v : α) : SF α := ⟨v, []⟩
@[simp] theorem SF.const_at {α} (v : α) (cp : Nat) : (SF.const v).at cp = v := rfl

def SF.or (x y : SF Bool) : SF Bool := SF.zip (· || ·) x y
def SF.and (x y : SF Bool) : SF Bool := SF.zip (· && ·) x y
def SF.not (x : SF Bool) : SF Bool := SF.map (!·) x
/-- `if c then v else e` -/
def SF.cond {α} (c : SF Bool) (v : α) (e : SF α) : SF α := SF.zip (fun b x => if b then v else x) c e
/-- `o.getD e` -/
def SF.orElse {α} (o : SF (Option α)) (e : SF α) : SF α := SF.zip (fun o x => o.getD x) o e

@[simp] theorem SF.or_at (x y : SF Bool) (cp : Nat) : (x.or y).at cp = (x.at cp || y.at cp) := SF.zip_at _ x y cp
@[simp] theorem SF.and_at (x y : SF Bool) (cp : Nat) : (x.and y).at cp = (x.at cp && y.at cp) := SF.zip_at _ x y cp
@[simp] theorem SF.not_at (x : SF Bool) (cp : Nat) : x.not.at cp = !x.at cp := SF.map_at _ x cp
@[simp] theorem SF.cond_at {α} (c : SF Bool) (v : α) (e : SF α) (cp : Nat) :
    (SF.cond c v e).at cp = if c.at cp then v else e.at cp := SF.zip_at _ c e cp
@[simp] theorem SF.orElse_at {α} (o : SF (Option α)) (e : SF α) (cp : Nat) :
    (SF.orElse o e).at cp = (o.at cp).getD (e.at cp) := SF.zip_at _ o e cp

/-- all effective values satisfy `p` -/
def SF.all {α} (p : α → Bool) (x : SF α) : Bool := allVD p x.d x.bps

theorem SF.all_at {α} (p : α → Bool) (x : SF α) (h : x.all p = true) (cp : Nat) : p (x.at cp) = true :=
  allVD_eval p x.d x.bps h cp

/-- a pointwise Boolean relation between two step functions, checked on the merge, holds everywhere.
(Stated generically so that uses of a kernel-checked fact never make the kernel unfold the tables.) -/
theorem SF.all_zip_at {α β} (f : α → β → Bool) (x : SF α) (y : SF β)
    (h : (SF.zip f x y).all id = true) (cp : Nat) : f (x.at cp) (y.at cp) = true := by
  have := SF.all_at id _ h cp
  rw [SF.zip_at] at this
  exact this

/-- the two step functions are equal everywhere -/
def SF.same {α} [DecidableEq α] (x y : SF α) : Bool := (SF.zip (fun a b => decide (a = b)) x y).all id

theorem SF.same_at {α} [DecidableEq α] (x y : SF α) (h : x.same y = true) (cp : Nat) : x.at cp = y.at cp := by
  have := SF.all_at id _ h cp
  simpa using this

/-- first code point where the predicate fails (counter-example search when a fact no longer checks) -/
def SF.firstBad {α} (p : α → Bool) (x : SF α) : Option Nat :=
  if !(defaultUnused (dedup x.bps) || p x.d) then some 0 else ((dedup x.bps).find? (fun e => !p e.2)).map (·.1)

end Precis.Step
