/-
Step functions over code points: the reflection machinery behind every "for all code points" fact.

A step function is a default value together with a list of breakpoints `(start, value)`:
`eval d [(s₁,v₁),(s₂,v₂),…] cp` walks the list and returns the value of the last breakpoint that is
`≤ cp` (or `d`).  `zipW` merges two step functions pointwise in one linear pass; its correctness
theorem `eval_zipW` is unconditional (no sortedness needed), so a kernel evaluation of a handful of
merges over the generated tables proves a statement about every `cp : Nat`.
-/
import Precis.Model.Types
namespace Precis.Step

/-- value of the step function at `cp` -/
def eval {α} : α → List (Nat × α) → Nat → α
  | d, [], _ => d
  | d, (s, v) :: r, cp => if cp < s then d else eval v r cp

/-- pointwise combination of two step functions (fuel = an upper bound on the number of breakpoints) -/
def zipW {α β γ} (f : α → β → γ) : Nat → α → List (Nat × α) → β → List (Nat × β) → List (Nat × γ)
  | 0, _, _, _, _ => []
  | _ + 1, _, [], _, [] => []
  | n + 1, _, (s, v) :: r, b, [] => (s, f v b) :: zipW f n v r b []
  | n + 1, a, [], _, (t, w) :: q => (t, f a w) :: zipW f n a [] w q
  | n + 1, a, (s, v) :: r, b, (t, w) :: q =>
    if s < t then (s, f v b) :: zipW f n v r b ((t, w) :: q)
    else if t < s then (t, f a w) :: zipW f n a ((s, v) :: r) w q
    else (s, f v w) :: zipW f n v r w q

theorem eval_zipW {α β γ} (f : α → β → γ) (n : Nat) (a : α) (r : List (Nat × α)) (b : β)
    (q : List (Nat × β)) (cp : Nat) (h : r.length + q.length ≤ n) :
    eval (f a b) (zipW f n a r b q) cp = f (eval a r cp) (eval b q cp) := by
  induction n generalizing a r b q with
  | zero =>
    have hr : r = [] := List.length_eq_zero_iff.mp (by omega)
    have hq : q = [] := List.length_eq_zero_iff.mp (by omega)
    subst hr; subst hq; simp [zipW, eval]
  | succ n ih =>
    match r, q with
    | [], [] => simp [zipW, eval]
    | (s, v) :: r, [] =>
      simp only [zipW, eval]
      split
      · rfl
      · rw [ih]; · simp [eval]
        · simp at h ⊢; omega
    | [], (t, w) :: q =>
      simp only [zipW, eval]
      split
      · rfl
      · rw [ih]; · simp [eval]
        · simp at h ⊢; omega
    | (s, v) :: r, (t, w) :: q =>
      simp only [zipW]
      by_cases hst : s < t
      · simp only [hst, if_true, eval]
        by_cases hc : cp < s
        · have : cp < t := by omega
          simp [hc, this]
        · simp only [hc, if_false]
          rw [ih]; · simp [eval]
          · simp at h ⊢; omega
      · simp only [hst, if_false]
        by_cases hts : t < s
        · simp only [hts, if_true, eval]
          by_cases hc : cp < t
          · have : cp < s := by omega
            simp [hc, this]
          · simp only [hc, if_false]
            rw [ih]; · simp [eval]
            · simp at h ⊢; omega
        · have : s = t := by omega
          subst this
          simp only [hts, if_false, eval]
          by_cases hc : cp < s
          · simp [hc]
          · simp only [hc, if_false]
            rw [ih]
            simp at h ⊢; omega

/-- map over the values of a step function -/
def mapV {α β} (g : α → β) : List (Nat × α) → List (Nat × β)
  | [] => []
  | (s, v) :: r => (s, g v) :: mapV g r

theorem eval_mapV {α β} (g : α → β) (d : α) (l : List (Nat × α)) (cp : Nat) :
    eval (g d) (mapV g l) cp = g (eval d l cp) := by
  induction l generalizing d with
  | nil => rfl
  | cons x r ih =>
    obtain ⟨s, v⟩ := x
    simp only [mapV, eval]
    split
    · rfl
    · exact ih v

/-- every value (default included) satisfies `p` -/
def allV {α} (p : α → Bool) (d : α) (l : List (Nat × α)) : Bool :=
  p d && l.all (fun x => p x.2)

theorem allV_eval {α} (p : α → Bool) (d : α) (l : List (Nat × α)) (h : allV p d l = true) (cp : Nat) :
    p (eval d l cp) = true := by
  induction l generalizing d with
  | nil => simp [allV] at h; simpa [eval] using h
  | cons x r ih =>
    obtain ⟨s, v⟩ := x
    simp only [allV, List.all_cons, Bool.and_eq_true] at h
    simp only [eval]
    split
    · exact h.1
    · apply ih; simp [allV, h.2.1, h.2.2]

/-- drop a breakpoint that is immediately overridden by one with the same start
(adjacent table entries produce such pairs) -/
def dedup {α} : List (Nat × α) → List (Nat × α)
  | [] => []
  | [x] => [x]
  | (s, v) :: (t, w) :: r => if s = t then dedup ((t, w) :: r) else (s, v) :: dedup ((t, w) :: r)

theorem eval_dedup {α} (d : α) (l : List (Nat × α)) (cp : Nat) : eval d (dedup l) cp = eval d l cp := by
  induction l using dedup.induct generalizing d with
  | case1 => rfl
  | case2 x => rfl
  | case3 s v w r ih =>
    simp only [dedup, if_true, eval]
    rw [ih]
    simp only [eval]
    split <;> rfl
  | case4 s v t w r h ih =>
    simp only [dedup, h, if_false, eval]
    split
    · rfl
    · rw [ih]; simp only [eval]

/-- every effective value satisfies `p` -/
def allVD {α} (p : α → Bool) (d : α) (l : List (Nat × α)) : Bool := allV p d (dedup l)

theorem allVD_eval {α} (p : α → Bool) (d : α) (l : List (Nat × α)) (h : allVD p d l = true) (cp : Nat) :
    p (eval d l cp) = true := by
  have := allV_eval p d (dedup l) h cp
  rwa [eval_dedup] at this

/-- two step functions agree everywhere -/
def agree {α} [DecidableEq α] (n : Nat) (a : α) (r : List (Nat × α)) (b : α) (q : List (Nat × α)) : Bool :=
  allVD id (decide (a = b)) (zipW (fun x y => decide (x = y)) n a r b q)

theorem agree_eval {α} [DecidableEq α] (n : Nat) (a : α) (r : List (Nat × α)) (b : α)
    (q : List (Nat × α)) (hn : r.length + q.length ≤ n) (h : agree n a r b q = true) (cp : Nat) :
    eval a r cp = eval b q cp := by
  have h1 := allVD_eval id _ _ h cp
  have e := eval_zipW (fun x y : α => decide (x = y)) n a r b q cp hn
  rw [id, e] at h1
  simpa using h1

/-- first code point at which the two step functions differ (counter-example search for a failed `agree`) -/
def firstDiff {α} [DecidableEq α] (n : Nat) (a : α) (r : List (Nat × α)) (b : α) (q : List (Nat × α)) : Option Nat :=
  let z := dedup (zipW (fun x y => decide (x = y)) n a r b q)
  if decide (a = b) = false then some 0 else (z.find? (fun x => !x.2)).map (·.1)

end Precis.Step
