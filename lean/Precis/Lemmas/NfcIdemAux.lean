/-
Generic part of the idempotence proof of the normalizer model (no table literal is unfolded here):
canonical reordering as an insertion sort over plain lists, its prefix/suffix behaviour, and the
invariant of the `recompStep` fold on a fully decomposed, canonically ordered input.
-/
import Precis.Model.Normalize
import Precis.Lemmas.NfcClosure
namespace Precis.NfcIdem
open Precis Precis.Gen.Norm Precis.NfcAux

attribute [local irreducible] ccc decompChar composePair

/-! ### canonical reordering over plain lists -/

/-- stable insertion of `c` into a run sorted by combining class -/
def ins (c : Nat) : List Nat → List Nat
  | [] => [c]
  | d :: r => if ccc d ≤ ccc c then d :: ins c r else c :: d :: r

/-- `reorder` with the pending run kept as a plain list -/
def ro : List Nat → List Nat → List Nat
  | [], run => run
  | c :: r, run => if ccc c = 0 then run ++ c :: ro r [] else ro r (ins c run)

/-- the pending run after reading `y` -/
def tr : List Nat → List Nat → List Nat
  | [], run => run
  | c :: r, run => if ccc c = 0 then tr r [] else tr r (ins c run)

/-- what has been emitted after reading `y` -/
def em : List Nat → List Nat → List Nat
  | [], _ => []
  | c :: r, run => if ccc c = 0 then run ++ c :: em r [] else em r (ins c run)

theorem insertMark_map (c : Nat) (run : List (Nat × Nat)) (h : ∀ p ∈ run, p.2 = ccc p.1) :
    (insertMark c (ccc c) run).map (·.1) = ins c (run.map (·.1)) := by
  induction run with
  | nil => rfl
  | cons p r ih =>
    obtain ⟨d, j⟩ := p
    have hj : j = ccc d := h (d, j) List.mem_cons_self
    subst hj
    have ih' := ih (fun q hq => h q (List.mem_cons_of_mem _ hq))
    simp only [insertMark, List.map_cons, ins]
    split
    · simp only [List.map_cons, ih']
    · simp only [List.map_cons]

theorem reorder_eq_ro (x : List Nat) : ∀ run : List (Nat × Nat), (∀ p ∈ run, p.2 = ccc p.1) →
    reorder x run = ro x (run.map (·.1)) := by
  induction x with
  | nil => intro run _; rfl
  | cons c r ih =>
    intro run h
    rw [reorder_cons]
    simp only [ro]
    split
    · rw [ih [] (by simp)]; rfl
    · rw [ih _ ?_, insertMark_map c run h]
      intro p hp
      rcases mem_insertMark _ _ _ _ hp with rfl | hp
      · rfl
      · exact h p hp

theorem decompose_eq (k : Bool) (s : List Nat) : decompose k s = ro (s.flatMap (decompChar k)) [] := by
  unfold decompose
  rw [reorder_eq_ro _ [] (by simp)]
  rfl

theorem ro_eq (y : List Nat) : ∀ run, ro y run = em y run ++ tr y run := by
  induction y with
  | nil => intro run; simp [ro, em, tr]
  | cons c r ih =>
    intro run
    simp only [ro, em, tr]
    split
    · rw [ih []]; simp
    · rw [ih]

theorem tr_append (y z : List Nat) : ∀ run, tr (y ++ z) run = tr z (tr y run) := by
  induction y with
  | nil => intro run; rfl
  | cons c r ih =>
    intro run
    simp only [List.cons_append, tr]
    split
    · rw [ih]
    · rw [ih]

theorem ro_append (y z : List Nat) : ∀ run, ro (y ++ z) run = em y run ++ ro z (tr y run) := by
  induction y with
  | nil => intro run; rfl
  | cons c r ih =>
    intro run
    simp only [List.cons_append, ro, em, tr]
    split
    · rw [ih]; simp
    · rw [ih]

theorem mem_ins (c : Nat) (run : List Nat) (x : Nat) : x ∈ ins c run ↔ x = c ∨ x ∈ run := by
  induction run with
  | nil => simp [ins]
  | cons d r ih =>
    simp only [ins]
    split
    · simp only [List.mem_cons, ih]
      constructor
      · rintro (h | h | h)
        · exact .inr (.inl h)
        · exact .inl h
        · exact .inr (.inr h)
      · rintro (h | h | h)
        · exact .inr (.inl h)
        · exact .inl h
        · exact .inr (.inr h)
    · simp only [List.mem_cons]

/-- all members are non-starters -/
def NS (l : List Nat) : Prop := ∀ d ∈ l, ccc d ≠ 0

theorem ns_nil : NS [] := by intro d hd; cases hd

theorem ns_ins (c : Nat) (run : List Nat) (hc : ccc c ≠ 0) (h : NS run) : NS (ins c run) := by
  intro d hd
  rcases (mem_ins c run d).mp hd with rfl | hd
  · exact hc
  · exact h d hd

theorem ns_tr (y : List Nat) : ∀ run, NS run → NS (tr y run) := by
  induction y with
  | nil => intro run h; exact h
  | cons c r ih =>
    intro run h
    simp only [tr]
    split
    · exact ih [] ns_nil
    · rename_i hc
      exact ih _ (ns_ins c run hc h)

theorem mem_tr_ns (b : List Nat) (hb : NS b) : ∀ run x, (x ∈ run ∨ x ∈ b) → x ∈ tr b run := by
  induction b with
  | nil =>
    intro run x h
    rcases h with h | h
    · exact h
    · cases h
  | cons c r ih =>
    intro run x h
    have hc : ccc c ≠ 0 := hb c List.mem_cons_self
    simp only [tr, if_neg hc]
    apply ih (fun d hd => hb d (List.mem_cons_of_mem _ hd))
    rcases h with h | h
    · exact .inl ((mem_ins c run x).mpr (.inr h))
    · rcases List.mem_cons.mp h with rfl | h
      · exact .inl ((mem_ins x run x).mpr (.inl rfl))
      · exact .inr h

theorem em_ns (b : List Nat) (hb : NS b) : ∀ run, em b run = [] := by
  induction b with
  | nil => intro run; rfl
  | cons c r ih =>
    intro run
    have hc : ccc c ≠ 0 := hb c List.mem_cons_self
    simp only [em, if_neg hc]
    exact ih (fun d hd => hb d (List.mem_cons_of_mem _ hd)) _

theorem ro_ns (b : List Nat) (hb : NS b) (run : List Nat) : ro b run = tr b run := by
  rw [ro_eq, em_ns b hb]; rfl

theorem ins_end (c : Nat) (run : List Nat) (h : ∀ d ∈ run, ccc d ≤ ccc c) : ins c run = run ++ [c] := by
  induction run with
  | nil => rfl
  | cons d r ih =>
    simp only [ins, if_pos (h d List.mem_cons_self), List.cons_append]
    rw [ih (fun x hx => h x (List.mem_cons_of_mem _ hx))]

theorem ins_comm (b c : Nat) (hbc : ccc b < ccc c) (run : List Nat) :
    ins b (ins c run) = ins c (ins b run) := by
  induction run with
  | nil =>
    simp only [ins]
    rw [if_neg (by omega), if_pos (by omega)]
  | cons d r ih =>
    by_cases h1 : ccc d ≤ ccc b
    · have h2 : ccc d ≤ ccc c := by omega
      simp only [ins, if_pos h1, if_pos h2, ih]
    · by_cases h2 : ccc d ≤ ccc c
      · simp only [ins, if_pos h2, if_neg h1, if_pos (Nat.le_of_lt hbc)]
      · simp only [ins, if_neg h2, if_neg h1, if_pos (Nat.le_of_lt hbc), if_neg (Nat.not_le_of_gt hbc)]

/-- a mark of a class above everything pending commutes with later marks of lower classes -/
theorem tr_ins_end (c : Nat) (b : List Nat) (hb : ∀ d ∈ b, ccc d ≠ 0 ∧ ccc d < ccc c) :
    ∀ run, (∀ d ∈ run, ccc d ≤ ccc c) → tr b (ins c run) = tr b run ++ [c] := by
  induction b with
  | nil => intro run h; exact ins_end c run h
  | cons d r ih =>
    intro run h
    obtain ⟨hd0, hdc⟩ := hb d List.mem_cons_self
    simp only [tr, if_neg hd0]
    rw [ins_comm d c hdc run]
    apply ih (fun x hx => hb x (List.mem_cons_of_mem _ hx))
    intro x hx
    rcases (mem_ins d run x).mp hx with rfl | hx
    · omega
    · exact h x hx

/-! ### canonical order -/

/-- canonically ordered, the class of the preceding character being `m` -/
def OrdF (m : Nat) : List Nat → Prop
  | [] => True
  | c :: r => (ccc c = 0 ∨ m ≤ ccc c) ∧ OrdF (ccc c) r

theorem ordF_append_left (a b : List Nat) : ∀ m, OrdF m (a ++ b) → OrdF m a := by
  induction a with
  | nil => intro m _; trivial
  | cons c r ih => intro m h; exact ⟨h.1, ih _ h.2⟩

theorem ordF_append_right (a b : List Nat) : ∀ m, OrdF m (a ++ b) → ∃ m', OrdF m' b := by
  induction a with
  | nil => intro m h; exact ⟨m, h⟩
  | cons c r ih => intro m h; exact ih _ h.2

theorem ordF_append_any (a b : List Nat) (hb : ∀ m', OrdF m' b) : ∀ m, OrdF m a → OrdF m (a ++ b) := by
  induction a with
  | nil => intro m _; exact hb m
  | cons c r ih => intro m h; exact ⟨h.1, ih _ h.2⟩

theorem ordF_sorted (run : List Nat) : ∀ m, run.Pairwise (fun a b => ccc a ≤ ccc b) →
    (∀ d ∈ run, m ≤ ccc d) → OrdF m run := by
  induction run with
  | nil => intro m _ _; trivial
  | cons d r ih =>
    intro m hp hm
    have hp' := List.pairwise_cons.mp hp
    exact ⟨.inr (hm d List.mem_cons_self), ih _ hp'.2 hp'.1⟩

theorem srt_ins (c : Nat) (run : List Nat) (h : run.Pairwise (fun a b => ccc a ≤ ccc b)) :
    (ins c run).Pairwise (fun a b => ccc a ≤ ccc b) := by
  induction run with
  | nil => simp [ins]
  | cons d r ih =>
    have hp := List.pairwise_cons.mp h
    simp only [ins]
    split
    · rename_i hdc
      refine List.pairwise_cons.mpr ⟨?_, ih hp.2⟩
      intro x hx
      rcases (mem_ins c r x).mp hx with rfl | hx
      · exact hdc
      · exact hp.1 x hx
    · rename_i hdc
      refine List.pairwise_cons.mpr ⟨?_, h⟩
      intro x hx
      rcases List.mem_cons.mp hx with rfl | hx
      · omega
      · have := hp.1 x hx; omega

/-- the output of canonical reordering is canonically ordered -/
theorem ord_ro (y : List Nat) : ∀ run, run.Pairwise (fun a b => ccc a ≤ ccc b) → OrdF 0 (ro y run) := by
  induction y with
  | nil => intro run h; exact ordF_sorted run 0 h (fun _ _ => Nat.zero_le _)
  | cons c r ih =>
    intro run h
    simp only [ro]
    split
    · rename_i hc
      apply ordF_append_any _ _ _ _ (ordF_sorted run 0 h (fun _ _ => Nat.zero_le _))
      intro m'
      refine ⟨.inl hc, ?_⟩
      rw [hc]
      exact ih [] List.Pairwise.nil
    · exact ih _ (srt_ins c run h)

theorem mem_ro (y : List Nat) : ∀ run x, x ∈ ro y run → x ∈ y ∨ x ∈ run := by
  induction y with
  | nil => intro run x h; exact .inr h
  | cons c r ih =>
    intro run x h
    simp only [ro] at h
    split at h
    · rcases List.mem_append.mp h with h | h
      · exact .inr h
      · rcases List.mem_cons.mp h with rfl | h
        · exact .inl List.mem_cons_self
        · rcases ih [] x h with h | h
          · exact .inl (List.mem_cons_of_mem _ h)
          · cases h
    · rcases ih _ x h with h | h
      · exact .inl (List.mem_cons_of_mem _ h)
      · rcases (mem_ins c run x).mp h with rfl | h
        · exact .inl List.mem_cons_self
        · exact .inr h

/-- in a canonically ordered list, a mark bounds every non-starter of the run it ends -/
theorem ordF_ns_le (l : List Nat) (ch : Nat) (hch : ccc ch ≠ 0) (hl : NS l) :
    ∀ m, OrdF m (l ++ [ch]) → m ≤ ccc ch ∧ ∀ d ∈ l, ccc d ≤ ccc ch := by
  induction l with
  | nil =>
    intro m h
    rcases h.1 with h | h
    · exact absurd h hch
    · exact ⟨h, fun d hd => by cases hd⟩
  | cons d r ih =>
    intro m h
    have hd : ccc d ≠ 0 := hl d List.mem_cons_self
    obtain ⟨h1, h2⟩ := ih (fun x hx => hl x (List.mem_cons_of_mem _ hx)) _ h.2
    have hmd : m ≤ ccc d := by
      rcases h.1 with h | h
      · exact absurd h hd
      · exact h
    refine ⟨by omega, ?_⟩
    intro x hx
    rcases List.mem_cons.mp hx with rfl | hx
    · exact h1
    · exact h2 x hx

/-- the pending run of `v` is bounded by a mark that may canonically follow `ro v []` -/
theorem tail_le (v : List Nat) (ch : Nat) (hch : ccc ch ≠ 0) (h : OrdF 0 (ro v [] ++ [ch])) :
    ∀ d ∈ tr v [], ccc d ≤ ccc ch := by
  rw [ro_eq, List.append_assoc] at h
  obtain ⟨m', h⟩ := ordF_append_right _ _ _ h
  exact (ordF_ns_le _ ch hch (ns_tr v [] ns_nil) m' h).2

/-- appending a character that may canonically follow -/
theorem ro_snoc (w : List Nat) (ch : Nat) (h : OrdF 0 (ro w [] ++ [ch])) :
    ro (w ++ [ch]) [] = ro w [] ++ [ch] := by
  rw [ro_append, ro_eq w []]
  simp only [ro]
  split
  · simp
  · rename_i hch
    rw [ins_end ch _ (tail_le w ch hch h)]
    simp

/-- inserting a mark before a tail of marks of lower classes -/
theorem ro_insert (y b : List Nat) (ch : Nat) (hch : ccc ch ≠ 0)
    (hb : ∀ d ∈ b, ccc d ≠ 0 ∧ ccc d < ccc ch) (h : OrdF 0 (ro (y ++ b) [] ++ [ch])) :
    ro (y ++ ch :: b) [] = ro (y ++ b) [] ++ [ch] := by
  have hns : NS b := fun d hd => (hb d hd).1
  have hle := tail_le (y ++ b) ch hch h
  rw [tr_append] at hle
  rw [ro_append, ro_append]
  simp only [ro, if_neg hch]
  rw [ro_ns b hns, ro_ns b hns, tr_ins_end ch b hb]
  · simp
  · intro d hd
    exact hle d (mem_tr_ns b hns _ d (.inl hd))

/-! ### the recomposition fold -/

/-- full decomposition of the pending output of a recomposition state -/
def W (k : Bool) (st : Recomp) : List Nat :=
  (st.out ++ st.composee.toList ++ st.buffer).flatMap (decompChar k)

structure Inv (k : Bool) (st : Recomp) (xc : List Nat) : Prop where
  w : ro (W k st) [] = xc
  none : st.composee = Option.none → st.buffer = []
  lastNone : st.lastCcc = Option.none → st.buffer = []
  lastSome : ∀ l, st.lastCcc = some l → ∀ b ∈ st.buffer, ccc b ≤ l
  buf : ∀ b ∈ st.buffer, ccc b ≠ 0 ∧ decompChar k b = [b]

theorem flatMap_self {f : Nat → List Nat} (l : List Nat) (h : ∀ b ∈ l, f b = [b]) : l.flatMap f = l := by
  induction l with
  | nil => rfl
  | cons c r ih =>
    rw [List.flatMap_cons, h c List.mem_cons_self, ih (fun b hb => h b (List.mem_cons_of_mem _ hb))]
    rfl


theorem W_mk (k : Bool) (out : List Nat) (c : Option Nat) (buf : List Nat) (l : Option Nat) :
    W k ⟨out, c, buf, l⟩ = out.flatMap (decompChar k) ++ c.toList.flatMap (decompChar k) ++
      buf.flatMap (decompChar k) := by
  simp only [W, List.flatMap_append]

theorem flatMap_one (k : Bool) (c : Nat) : [c].flatMap (decompChar k) = decompChar k c := by
  simp only [List.flatMap_cons, List.flatMap_nil, List.append_nil]

theorem inv_w_snoc (k : Bool) (st st' : Recomp) (xc : List Nat) (ch : Nat) (hw : ro (W k st) [] = xc)
    (ho : OrdF 0 (xc ++ [ch])) (e : W k st' = W k st ++ [ch]) : ro (W k st') [] = xc ++ [ch] := by
  rw [e, ro_snoc _ _ (by rw [hw]; exact ho), hw]

theorem inv_of_w (k : Bool) (out : List Nat) (c l : Option Nat) (xc : List Nat)
    (hw : ro (W k ⟨out, c, [], l⟩) [] = xc) : Inv k ⟨out, c, [], l⟩ xc :=
  ⟨hw, fun _ => rfl, fun _ => rfl, fun _ _ b hb => (by cases hb), fun b hb => (by cases hb)⟩

theorem buffer_le (k : Bool) (out : List Nat) (s : Nat) (buf : List Nat) (l : Option Nat)
    (xc : List Nat) (ch : Nat) (hw : ro (W k ⟨out, some s, buf, l⟩) [] = xc)
    (hbuf : ∀ b ∈ buf, ccc b ≠ 0 ∧ decompChar k b = [b]) (hch : ccc ch ≠ 0)
    (ho : OrdF 0 (xc ++ [ch])) : ∀ b ∈ buf, ccc b ≤ ccc ch := by
  rw [W_mk, flatMap_self buf (fun b hb => (hbuf b hb).2)] at hw
  rw [← hw] at ho
  have := tail_le _ ch hch ho
  rw [tr_append] at this
  intro b hb
  exact this b (mem_tr_ns buf (fun d hd => (hbuf d hd).1) _ b (.inr hb))

theorem inv_step (k : Bool)
    (hcp : ∀ a b r, b < 0x110000 → composePair a b = some r → decompChar k r = decompChar k a ++ [b])
    (st : Recomp) (xc : List Nat) (hi : Inv k st xc) (ch : Nat) (hlt : ch < 0x110000)
    (hd : decompChar k ch = [ch]) (ho : OrdF 0 (xc ++ [ch])) :
    Inv k (recompStep st ch) (xc ++ [ch]) := by
  obtain ⟨out, composee, buffer, lastCcc⟩ := st
  obtain ⟨hw, hnone, hln, hls, hbuf⟩ := hi
  simp only at hnone hln hls hbuf
  rw [recompStep_def]
  have push : ∀ s, composee = some s → ccc ch ≠ 0 →
      Inv k ⟨out, some s, buffer ++ [ch], some (ccc ch)⟩ (xc ++ [ch]) := by
    intro s hs hch
    subst hs
    refine ⟨?_, ?_, ?_, ?_, ?_⟩
    · apply inv_w_snoc k _ _ xc ch hw ho
      simp only [W_mk, List.flatMap_append, flatMap_one, hd, List.append_assoc]
    · intro h; cases h
    · intro h; cases h
    · intro l hl b hb
      simp only [Option.some.injEq] at hl
      subst hl
      rcases List.mem_append.mp hb with hb | hb
      · exact buffer_le k out s buffer lastCcc xc ch hw hbuf hch ho b hb
      · rw [List.mem_singleton.mp hb]; exact Nat.le_refl _
    · intro b hb
      rcases List.mem_append.mp hb with hb | hb
      · exact hbuf b hb
      · rw [List.mem_singleton.mp hb]; exact ⟨hch, hd⟩
  cases composee with
  | none =>
    have hb := hnone rfl
    subst hb
    simp only
    split
    · apply inv_of_w
      apply inv_w_snoc k _ _ xc ch hw ho
      simp only [W_mk, List.flatMap_append, flatMap_one, hd, Option.toList, List.flatMap_nil,
        List.append_nil]
    · apply inv_of_w
      apply inv_w_snoc k _ _ xc ch hw ho
      simp only [W_mk, flatMap_one, hd, Option.toList, List.flatMap_nil,
        List.append_nil]
  | some s =>
    cases lastCcc with
    | none =>
      have hb := hln rfl
      subst hb
      simp only
      cases hc : composePair s ch with
      | some r =>
        simp only
        apply inv_of_w
        apply inv_w_snoc k _ _ xc ch hw ho
        simp only [W_mk, Option.toList, flatMap_one, hcp s ch r hlt hc, List.flatMap_nil,
          List.append_nil, List.append_assoc]
      | none =>
        simp only
        split
        · apply inv_of_w
          apply inv_w_snoc k _ _ xc ch hw ho
          simp only [W_mk, List.flatMap_append, Option.toList, flatMap_one, hd, List.flatMap_nil,
            List.append_nil, List.append_assoc]
        · rename_i hk
          have hch : ccc ch ≠ 0 := by simpa using hk
          exact push s rfl hch
    | some l =>
      simp only
      split
      · split
        · apply inv_of_w
          apply inv_w_snoc k _ _ xc ch hw ho
          simp only [W_mk, List.flatMap_append, Option.toList, flatMap_one, hd, List.flatMap_nil,
            List.append_nil, List.append_assoc]
        · rename_i hk
          have hch : ccc ch ≠ 0 := by simpa using hk
          exact push s rfl hch
      · rename_i hlk
        have hch : ccc ch ≠ 0 := by omega
        cases hc : composePair s ch with
        | some r =>
          simp only
          refine ⟨?_, fun h => (by cases h), fun h => (by cases h), hls, hbuf⟩
          have hb' : ∀ d ∈ buffer, ccc d ≠ 0 ∧ ccc d < ccc ch := by
            intro d hd'
            have := hls l rfl d hd'
            exact ⟨(hbuf d hd').1, by omega⟩
          rw [W_mk, flatMap_self buffer (fun b hb => (hbuf b hb).2)] at hw
          rw [W_mk, flatMap_self buffer (fun b hb => (hbuf b hb).2)]
          simp only [Option.toList, flatMap_one] at hw ⊢
          rw [hcp s ch r hlt hc]
          have e : out.flatMap (decompChar k) ++ (decompChar k s ++ [ch]) ++ buffer =
              (out.flatMap (decompChar k) ++ decompChar k s) ++ ch :: buffer := by
            simp only [List.append_assoc, List.singleton_append]
          rw [e, ro_insert _ buffer ch hch hb' (by rw [hw]; exact ho), hw]
        | none =>
          simp only
          exact push s rfl hch

/-- the fold of `recompStep` over a fully decomposed, canonically ordered continuation -/
theorem inv_fold (k : Bool)
    (hcp : ∀ a b r, b < 0x110000 → composePair a b = some r → decompChar k r = decompChar k a ++ [b])
    (x : List Nat) : ∀ (st : Recomp) (xc : List Nat), Inv k st xc →
    (∀ c ∈ x, c < 0x110000 ∧ decompChar k c = [c]) → OrdF 0 (xc ++ x) →
    Inv k (x.foldl recompStep st) (xc ++ x) := by
  induction x with
  | nil => intro st xc hi _ _; rw [List.append_nil]; exact hi
  | cons c r ih =>
    intro st xc hi hx ho
    have hc := hx c List.mem_cons_self
    have e : xc ++ c :: r = (xc ++ [c]) ++ r := by simp
    rw [List.foldl_cons, e]
    rw [e] at ho
    exact ih _ _ (inv_step k hcp st xc hi c hc.1 hc.2 (ordF_append_left _ _ _ ho))
      (fun d hd => hx d (List.mem_cons_of_mem _ hd)) ho

/-- decomposition undoes recomposition on fully decomposed, canonically ordered strings -/
theorem decompose_recompose (k : Bool)
    (hcp : ∀ a b r, b < 0x110000 → composePair a b = some r → decompChar k r = decompChar k a ++ [b])
    (x : List Nat) (hx : ∀ c ∈ x, c < 0x110000 ∧ decompChar k c = [c]) (ho : OrdF 0 x) :
    decompose k (recompose x) = x := by
  have h0 : Inv k {} [] := inv_of_w k [] none none [] rfl
  have := (inv_fold k hcp x {} [] h0 hx (by simpa using ho)).w
  rw [decompose_eq]
  simpa [W, recompose] using this

/-- what the tables must provide for the decomposition `decompChar k` -/
structure DOk (k : Bool) : Prop where
  stable : ∀ c, c < 0x110000 → ∀ x ∈ decompChar k c, x < 0x110000 ∧ decompChar k x = [x]
  comp : ∀ a b r, b < 0x110000 → composePair a b = some r → decompChar k r = decompChar k a ++ [b]

theorem idem_of (k : Bool) (h : DOk k) (s : List Nat) (hs : ∀ c ∈ s, c < 0x110000) :
    recompose (decompose k (recompose (decompose k s))) = recompose (decompose k s) := by
  rw [decompose_recompose k h.comp]
  · intro c hc
    rw [decompose_eq] at hc
    rcases mem_ro _ _ _ hc with hc | hc
    · obtain ⟨a, ha, hca⟩ := List.mem_flatMap.mp hc
      exact h.stable a (hs a ha) c hca
    · cases hc
  · rw [decompose_eq]
    exact ord_ro _ [] List.Pairwise.nil

end Precis.NfcIdem
