/-
Range tables as step functions: connects the table look-ups of the model (binary search, proved equal
to the declarative `memL` / `lookupL` / `List.lookup` in Lemmas/Bsearch.lean) with `Step.eval`, so that
facts about every code point reduce to kernel evaluation of step-function merges.
-/
import Precis.Lemmas.Step
import Precis.Lemmas.Bsearch
namespace Precis
open Precis.Step

/-- set table → step function (default `false`) -/
def toStep : List Cps → List (Nat × Bool)
  | [] => []
  | e :: r => (e.lo, true) :: (e.hi + 1, false) :: toStep r

theorem eqCp_eq_bounds (e : Cps) (cp : Nat) :
    e.eqCp cp = (decide (e.lo ≤ cp) && decide (cp ≤ e.hi)) := by
  cases e with
  | single c =>
    show (c == cp) = (decide (c ≤ cp) && decide (cp ≤ c))
    by_cases hc : c = cp
    · subst hc; simp
    · have h1 : (c == cp) = false := by simp [hc]
      have h2 : (decide (c ≤ cp) && decide (cp ≤ c)) = false := by
        rw [Bool.and_eq_false_iff]; simp only [decide_eq_false_iff_not]; omega
      rw [h1, h2]
  | range a b => rfl

theorem sortedTable_tail (e : Cps) (r : List Cps) (h : sortedTable (e :: r) = true) :
    sortedTable r = true := by
  cases r with
  | nil => rfl
  | cons e' r =>
    simp only [sortedTable, Bool.and_eq_true] at h
    exact h.2

theorem sortedTable_head (e : Cps) (r : List Cps) (h : sortedTable (e :: r) = true) :
    e.lo ≤ e.hi + 1 ∧ ∀ x ∈ r, e.hi < x.lo := by
  obtain ⟨hp, hb⟩ := sortedTable_pairwise _ h
  exact ⟨hb e (by simp), (List.pairwise_cons.mp hp).1⟩

theorem memL_eq_false_of_lt (cp : Nat) (r : List Cps) (h : ∀ x ∈ r, cp < x.lo) :
    memL cp r = false := by
  unfold memL
  rw [List.any_eq_false]
  intro x hx
  have := h x hx
  rw [eqCp_eq_bounds]
  simp; omega

theorem eval_toStep (t : List Cps) (h : sortedTable t = true) (cp : Nat) :
    eval false (toStep t) cp = memL cp t := by
  induction t with
  | nil => rfl
  | cons e r ih =>
    obtain ⟨hb, hr⟩ := sortedTable_head e r h
    have ih := ih (sortedTable_tail e r h)
    have hm : memL cp (e :: r) = (e.eqCp cp || memL cp r) := by simp [memL]
    rw [hm, eqCp_eq_bounds]
    simp only [toStep, eval]
    by_cases h1 : cp < e.lo
    · have : memL cp r = false :=
        memL_eq_false_of_lt cp r (fun x hx => by have := hr x hx; omega)
      simp [h1, this]; omega
    · by_cases h2 : cp < e.hi + 1
      · simp [h1, h2]; omega
      · simp only [h1, h2, if_false, ih]
        have : decide (cp ≤ e.hi) = false := by simp; omega
        simp [this]

/-- valued table → step function (default `none`) -/
def toStepV {V} : List (Cps × V) → List (Nat × Option V)
  | [] => []
  | (e, v) :: r => (e.lo, some v) :: (e.hi + 1, none) :: toStepV r

theorem eval_toStepV {V} (t : List (Cps × V)) (h : sortedTable (t.map (·.1)) = true) (cp : Nat) :
    eval none (toStepV t) cp = lookupL cp t := by
  induction t with
  | nil => rfl
  | cons x r ih =>
    obtain ⟨e, v⟩ := x
    simp only [List.map_cons] at h
    obtain ⟨hb, hr⟩ := sortedTable_head e _ h
    have ih := ih (sortedTable_tail e _ h)
    simp only [toStepV, eval, lookupL]
    rw [eqCp_eq_bounds]
    by_cases h1 : cp < e.lo
    · have : lookupL cp r = none := by
        apply lookupL_eq_none
        intro y hy
        have := hr y.1 (List.mem_map.mpr ⟨y, hy, rfl⟩)
        rw [eqCp_eq_bounds]
        simp; omega
      have hd : decide (e.lo ≤ cp) = false := by simp; omega
      simp [h1, this, hd]
    · by_cases h2 : cp < e.hi + 1
      · have hd1 : decide (e.lo ≤ cp) = true := by simp; omega
        have hd2 : decide (cp ≤ e.hi) = true := by simp; omega
        simp [h1, h2, hd1, hd2]
      · have hd2 : decide (cp ≤ e.hi) = false := by simp; omega
        simp only [h1, h2, if_false, ih, hd2, Bool.and_false]
        simp

/-- `(lo, hi)` pair table → step function -/
def pairsToStep : List (Nat × Nat) → List (Nat × Bool)
  | [] => []
  | e :: r => (e.1, true) :: (e.2 + 1, false) :: pairsToStep r

theorem sortedPairs_tail (e : Nat × Nat) (r : List (Nat × Nat)) (h : sortedPairs (e :: r) = true) :
    sortedPairs r = true := by
  cases r with
  | nil => rfl
  | cons e' r =>
    simp only [sortedPairs, Bool.and_eq_true] at h
    exact h.2

theorem eval_pairsToStep (t : List (Nat × Nat)) (h : sortedPairs t = true) (cp : Nat) :
    eval false (pairsToStep t) cp = t.any (fun e => e.1 ≤ cp && cp ≤ e.2) := by
  induction t with
  | nil => rfl
  | cons e r ih =>
    obtain ⟨hp, hb⟩ := sortedPairs_pairwise _ h
    have hr := (List.pairwise_cons.mp hp).1
    have hbe := hb e (by simp)
    have ih := ih (sortedPairs_tail e r h)
    simp only [pairsToStep, eval, List.any_cons]
    by_cases h1 : cp < e.1
    · have : r.any (fun e => decide (e.1 ≤ cp) && decide (cp ≤ e.2)) = false := by
        rw [List.any_eq_false]
        intro x hx
        have := hr x hx
        simp; omega
      have hd : decide (e.1 ≤ cp) = false := by simp; omega
      simp [h1, this, hd]
    · by_cases h2 : cp < e.2 + 1
      · have hd1 : decide (e.1 ≤ cp) = true := by simp; omega
        have hd2 : decide (cp ≤ e.2) = true := by simp; omega
        simp [h1, h2, hd1, hd2]
      · have hd2 : decide (cp ≤ e.2) = false := by simp; omega
        simp only [h1, h2, if_false, ih, hd2, Bool.and_false, Bool.false_or]

/-- key → value table → step function -/
def kvToStep {V} : List (Nat × V) → List (Nat × Option V)
  | [] => []
  | (k, v) :: r => (k, some v) :: (k + 1, none) :: kvToStep r

theorem sortedKeys_tail {V} (e : Nat × V) (r : List (Nat × V)) (h : sortedKeys (e :: r) = true) :
    sortedKeys r = true := by
  cases r with
  | nil => rfl
  | cons e' r =>
    simp only [sortedKeys, Bool.and_eq_true] at h
    exact h.2

theorem eval_kvToStep {V} (t : List (Nat × V)) (h : sortedKeys t = true) (cp : Nat) :
    eval none (kvToStep t) cp = t.lookup cp := by
  induction t with
  | nil => rfl
  | cons x r ih =>
    obtain ⟨k, v⟩ := x
    have hp := sortedKeys_pairwise _ h
    have hr := (List.pairwise_cons.mp hp).1
    have ih := ih (sortedKeys_tail _ r h)
    simp only [kvToStep, eval, List.lookup_cons]
    by_cases h1 : cp < k
    · have : r.lookup cp = none := by
        apply lookup_eq_none'
        intro y hy
        have := hr y hy
        simp only at this
        omega
      have hd : (cp == k) = false := by simp; omega
      simp [h1, this, hd]
    · by_cases h2 : cp < k + 1
      · have hd : (cp == k) = true := by simp; omega
        simp [h1, h2, hd]
      · have hd : (cp == k) = false := by simp; omega
        simp only [h1, h2, if_false, ih, hd]

/-! the model's look-ups as step functions -/

theorem isInTable_eq_eval (t : Array Cps) (h : sortedTable t.toList = true) (cp : Nat) :
    isInTable cp t = eval false (toStep t.toList) cp := by
  rw [isInTable_eq_memL t cp h, eval_toStep t.toList h]

theorem lookupVal_eq_eval {V} [Inhabited V] (t : Array (Cps × V))
    (h : sortedTable (t.toList.map (·.1)) = true) (cp : Nat) :
    lookupVal cp t = eval none (toStepV t.toList) cp := by
  rw [lookupVal_eq_lookupL t cp h, eval_toStepV t.toList h]

theorem kvFind_eq_eval {V} [Inhabited V] (t : Array (Nat × V)) (h : sortedKeys t.toList = true)
    (k : Nat) : kvFind t k = eval none (kvToStep t.toList) k := by
  rw [kvFind_eq_lookup t k h, eval_kvToStep t.toList h]

theorem inPairs_eq_eval (t : Array (Nat × Nat)) (h : sortedPairs t.toList = true) (cp : Nat) :
    inPairs t cp = eval false (pairsToStep t.toList) cp := by
  rw [inPairs_eq_any t cp h, eval_pairsToStep t.toList h]

/-- OR of two Boolean step functions -/
def orS (n : Nat) (r q : List (Nat × Bool)) : List (Nat × Bool) := zipW (· || ·) n false r false q

theorem eval_orS (n : Nat) (r q : List (Nat × Bool)) (h : r.length + q.length ≤ n) (cp : Nat) :
    eval false (orS n r q) cp = (eval false r cp || eval false q cp) := by
  have := eval_zipW (· || ·) n false r false q cp h
  simpa [orS] using this

end Precis
