/-
Range tables as step functions: connects the table look-ups of the model (binary search, proved equal
to the declarative `memL` / `lookupL` / `List.lookup` in Lemmas/Bsearch.lean) with `Step.eval`, so that
facts about every code point reduce to kernel evaluation of step-function merges.
-/
import Precis.Lemmas.Step
import Precis.Lemmas.Bsearch
namespace Precis
open Precis.Step

/-- set table → step function (default `false`) -/
def toStep : List Cps → List (Nat × Bool)
  | [] => []
  | e :: r => (e.lo, true) :: (e.hi + 1, false) :: toStep r

theorem eval_toStep (t : List Cps) (h : sortedTable t = true) (cp : Nat) :
    eval false (toStep t) cp = memL cp t := by
  sorry

/-- valued table → step function (default `none`) -/
def toStepV {V} : List (Cps × V) → List (Nat × Option V)
  | [] => []
  | (e, v) :: r => (e.lo, some v) :: (e.hi + 1, none) :: toStepV r

theorem eval_toStepV {V} (t : List (Cps × V)) (h : sortedTable (t.map (·.1)) = true) (cp : Nat) :
    eval none (toStepV t) cp = lookupL cp t := by
  sorry

/-- `(lo, hi)` pair table → step function -/
def pairsToStep : List (Nat × Nat) → List (Nat × Bool)
  | [] => []
  | e :: r => (e.1, true) :: (e.2 + 1, false) :: pairsToStep r

theorem eval_pairsToStep (t : List (Nat × Nat)) (h : sortedPairs t = true) (cp : Nat) :
    eval false (pairsToStep t) cp = t.any (fun e => e.1 ≤ cp && cp ≤ e.2) := by
  sorry

/-- key → value table → step function -/
def kvToStep {V} : List (Nat × V) → List (Nat × Option V)
  | [] => []
  | (k, v) :: r => (k, some v) :: (k + 1, none) :: kvToStep r

theorem eval_kvToStep {V} (t : List (Nat × V)) (h : sortedKeys t = true) (cp : Nat) :
    eval none (kvToStep t) cp = t.lookup cp := by
  sorry

/-! the model's look-ups as step functions -/

theorem isInTable_eq_eval (t : Array Cps) (h : sortedTable t.toList = true) (cp : Nat) :
    isInTable cp t = eval false (toStep t.toList) cp := by
  rw [isInTable_eq_memL t cp h, eval_toStep t.toList h]

theorem lookupVal_eq_eval {V} [Inhabited V] (t : Array (Cps × V))
    (h : sortedTable (t.toList.map (·.1)) = true) (cp : Nat) :
    lookupVal cp t = eval none (toStepV t.toList) cp := by
  rw [lookupVal_eq_lookupL t cp h, eval_toStepV t.toList h]

theorem kvFind_eq_eval {V} [Inhabited V] (t : Array (Nat × V)) (h : sortedKeys t.toList = true)
    (k : Nat) : kvFind t k = eval none (kvToStep t.toList) k := by
  rw [kvFind_eq_lookup t k h, eval_kvToStep t.toList h]

theorem inPairs_eq_eval (t : Array (Nat × Nat)) (h : sortedPairs t.toList = true) (cp : Nat) :
    inPairs t cp = eval false (pairsToStep t.toList) cp := by
  rw [inPairs_eq_any t cp h, eval_pairsToStep t.toList h]

/-- OR of two Boolean step functions -/
def orS (n : Nat) (r q : List (Nat × Bool)) : List (Nat × Bool) := zipW (· || ·) n false r false q

theorem eval_orS (n : Nat) (r q : List (Nat × Bool)) (h : r.length + q.length ≤ n) (cp : Nat) :
    eval false (orS n r q) cp = (eval false r cp || eval false q cp) := by
  have := eval_zipW (· || ·) n false r false q cp h
  simpa [orS] using this

end Precis
