/-
Helpers for C03 (context rules): the two ZWNJ scans compute `prevNonT` / `nextNonT`, and per-rule
characterisations of the model functions against `Spec.cond` / `Spec.needsOutside`.
The correspondence of the generated tables with the UCD 6.3 assignments is a hypothesis here (`Tabs`);
it is discharged in Props/C03.lean.
-/
import Precis.Model.Context
import Precis.Spec.Rfc5892
namespace Precis.CtxAux
open Precis Precis.Spec

/-- the table facts the rules rely on -/
structure Tabs : Prop where
  virama : ∀ c, isVirama c = virama63 c
  greek : ∀ c, isGreek c = (script63 c == .greek)
  hebrew : ∀ c, isHebrew c = (script63 c == .hebrew)
  hiragana : ∀ c, isHiragana c = (script63 c == .hiragana)
  katakana : ∀ c, isKatakana c = (script63 c == .katakana)
  han : ∀ c, isHan c = (script63 c == .han)
  dual : ∀ c, isDualJoining c = (jt63 c == .D)
  left : ∀ c, isLeftJoining c = (jt63 c == .L)
  right : ∀ c, isRightJoining c = (jt63 c == .R)
  transparent : ∀ c, isTransparent c = Spec.isT c

/-! ### scans -/

theorem zwnjBack_zero (s : List Nat) (cp : Nat) :
    zwnjBack s cp 0 = if isTransparent cp then none else some cp := by
  rw [zwnjBack]

theorem zwnjBack_succ (s : List Nat) (cp i : Nat) :
    zwnjBack s cp (i + 1) =
      if isTransparent cp then
        match nth s i with
        | none => none
        | some p => zwnjBack s p i
      else some cp := by
  rfl

theorem zwnjFwd_zero (s : List Nat) (cp i : Nat) :
    zwnjFwd s 0 cp i = if isTransparent cp then .undefined else .found cp := by
  rw [zwnjFwd]

theorem zwnjFwd_succ (s : List Nat) (fuel cp i : Nat) :
    zwnjFwd s (fuel + 1) cp i =
      if isTransparent cp then
        match after s i with
        | none => .panic
        | some none => .undefined
        | some (some n) => if i + 1 > usizeMax then .panic else zwnjFwd s fuel n (i + 1)
      else .found cp := by
  rfl

theorem zwnjBack_eq (l : List Nat) (j : Nat) (hj : j < l.length) :
    zwnjBack l l[j] j = ((l.take (j + 1)).reverse.dropWhile isTransparent).head? := by
  induction j with
  | zero =>
    rw [zwnjBack_zero]
    cases l with
    | nil => simp at hj
    | cons a t =>
      simp only [List.take_succ_cons, List.take_zero, List.reverse_cons, List.reverse_nil,
        List.nil_append, List.getElem_cons_zero, List.dropWhile_cons, List.dropWhile_nil]
      split <;> simp
  | succ j ih =>
    have hj' : j < l.length := by omega
    rw [zwnjBack_succ]
    have e : nth l j = some l[j] := by simp [nth, hj']
    rw [e]
    simp only []
    rw [ih hj']
    have t : l.take (j + 1 + 1) = l.take (j + 1) ++ [l[j + 1]] := by
      rw [List.take_add_one]; simp [hj]
    rw [t, List.reverse_append]
    simp only [List.reverse_cons, List.reverse_nil, List.nil_append, List.singleton_append,
      List.dropWhile_cons]
    split <;> simp

/-- what the forward scan is meant to compute -/
def fwdSpec (l : List Nat) (j : Nat) : Scan :=
  match ((l.drop j).dropWhile isTransparent).head? with
  | some a => .found a
  | none => .undefined

theorem zwnjFwd_eq (l : List Nat) (fuel j : Nat) (hj : j < l.length) (hf : l.length ≤ fuel + j + 1) :
    (2 ^ 63 ≤ l.length ∧ zwnjFwd l fuel l[j] j = .panic) ∨ zwnjFwd l fuel l[j] j = fwdSpec l j := by
  induction fuel generalizing j with
  | zero =>
    right
    rw [zwnjFwd_zero, fwdSpec, List.drop_eq_getElem_cons hj]
    have : l.drop (j + 1) = [] := by simp; omega
    rw [this]
    simp only [List.dropWhile_cons, List.dropWhile_nil]
    split <;> simp
  | succ fuel ih =>
    rw [zwnjFwd_succ]
    by_cases hT : isTransparent l[j] = true
    · rw [if_pos hT]
      by_cases ho : j + 1 > usizeMax
      · left
        refine ⟨?_, ?_⟩
        · simp [usizeMax] at ho; omega
        · simp [after, ho]
      · have ea : after l j = some (l[j + 1]?) := by simp [after, nth, ho]
        rw [ea]
        by_cases hj1 : j + 1 < l.length
        · have : l[j + 1]? = some l[j + 1] := by simp [hj1]
          rw [this]
          simp only [if_neg ho]
          have e : fwdSpec l j = fwdSpec l (j + 1) := by
            rw [fwdSpec, fwdSpec, List.drop_eq_getElem_cons hj, List.dropWhile_cons, if_pos hT]
          rw [e]
          exact ih (j + 1) hj1 (by omega)
        · right
          have : l[j + 1]? = none := by simp; omega
          rw [this]
          simp only []
          rw [fwdSpec, List.drop_eq_getElem_cons hj]
          have : l.drop (j + 1) = [] := by simp; omega
          rw [this]
          simp [hT]
    · right
      rw [if_neg hT, fwdSpec, List.drop_eq_getElem_cons hj, List.dropWhile_cons, if_neg hT]
      simp [hj]


/-! ### ZWNJ -/

theorem isT_fun (T : Tabs) : isTransparent = Spec.isT := funext T.transparent

theorem back_prev (T : Tabs) (l : List Nat) (k : Nat) (hk : k < l.length) :
    zwnjBack l l[k] k = prevNonT l (k + 1) := by
  rw [zwnjBack_eq l k hk, isT_fun T]; rfl

theorem fwd_next (T : Tabs) (l : List Nat) (i : Nat) :
    fwdSpec l (i + 1) = match nextNonT l i with | some a => .found a | none => .undefined := by
  rw [fwdSpec, isT_fun T]; rfl

/-- the ZWNJ rule in terms of the specification's notions -/
def zwnjNF (l : List Nat) (i : Nat) : CtxRes :=
  match l[i]? with
  | none => .undefined
  | some c =>
    if c != 0x200c then .notApplicable else
    match (if i = 0 then none else l[i - 1]?) with
    | none => .undefined
    | some prev =>
      if virama63 prev then .ok true else
      match prevNonT l i with
      | none => .undefined
      | some a =>
        if !(jt63 a == .L || jt63 a == .D) then .ok false else
        match nextNonT l i with
        | none => .undefined
        | some b => .ok (jt63 b == .R || jt63 b == .D)

theorem zwnj_nf (T : Tabs) (l : List Nat) (i : Nat) :
    (2 ^ 63 ≤ l.length ∧ ruleZeroWidthNonjoiner l i = .panic) ∨
      ruleZeroWidthNonjoiner l i = zwnjNF l i := by
  unfold ruleZeroWidthNonjoiner zwnjNF
  simp only [nth]
  cases h : l[i]? with
  | none => right; rfl
  | some c =>
    simp only []
    have hi : i < l.length := by
      rcases Nat.lt_or_ge i l.length with h' | h'
      · exact h'
      · rw [List.getElem?_eq_none h'] at h; cases h
    by_cases hc : (c != 0x200c) = true
    · right; simp only [if_pos hc]
    · simp only [if_neg hc]
      cases i with
      | zero => right; simp [before]
      | succ k =>
        have hk : k < l.length := by omega
        have eb : before l (k + 1) = some l[k] := by simp [before, nth, hk]
        have eb' : (if k + 1 = 0 then none else l[k + 1 - 1]?) = some l[k] := by simp [hk]
        rw [eb, eb']
        simp only [T.virama, T.left, T.dual, T.right]
        by_cases hv : virama63 l[k] = true
        · right; simp only [if_pos hv]
        · simp only [if_neg hv, Nat.add_sub_cancel]
          rw [back_prev T l k hk]
          cases hp : prevNonT l (k + 1) with
          | none => right; rfl
          | some a =>
            simp only []
            by_cases hLD : (!(jt63 a == .L || jt63 a == .D)) = true
            · right; simp only [if_pos hLD]
            · simp only [if_neg hLD]
              by_cases ho : k + 1 + 1 > usizeMax
              · left
                refine ⟨?_, ?_⟩
                · simp [usizeMax] at ho; omega
                · simp [after, ho]
              · have ea : after l (k + 1) = some (l[k + 1 + 1]?) := by simp [after, nth, ho]
                rw [ea]
                cases hn : l[k + 1 + 1]? with
                | none =>
                  right
                  have : nextNonT l (k + 1) = none := by
                    have : l.drop (k + 1 + 1) = [] := by
                      rw [List.getElem?_eq_none_iff] at hn; simp; omega
                    simp [nextNonT, this]
                  rw [this]
                | some n =>
                  have hk2 : k + 1 + 1 < l.length := by
                    rcases Nat.lt_or_ge (k + 1 + 1) l.length with h' | h'
                    · exact h'
                    · rw [List.getElem?_eq_none h'] at hn; cases hn
                  have en : n = l[k + 1 + 1] := by
                    rw [List.getElem?_eq_getElem hk2] at hn; cases hn; rfl
                  subst en
                  simp only []
                  rcases zwnjFwd_eq l l.length (k + 1 + 1) hk2 (by omega) with ⟨h1, h2⟩ | h2
                  · left; exact ⟨h1, by rw [h2]⟩
                  · right; rw [h2, fwd_next T]; cases nextNonT l (k + 1) <;> rfl


theorem head_dropWhile_none (p : Nat → Bool) (xs : List Nat) :
    (xs.dropWhile p).head? = none ↔ xs.all p = true := by
  induction xs with
  | nil => simp
  | cons a t ih =>
    rw [List.dropWhile_cons]
    by_cases ha : p a = true
    · simp [ha, ih]
    · simp [ha]

theorem prevNonT_none (l : List Nat) (i : Nat) : prevNonT l i = none ↔ (l.take i).all isT = true := by
  rw [prevNonT, head_dropWhile_none, List.all_reverse]

theorem nextNonT_none (l : List Nat) (i : Nat) :
    nextNonT l i = none ↔ (l.drop (i + 1)).all isT = true := by
  rw [nextNonT, head_dropWhile_none]

theorem lt_of_getElem?_some {l : List Nat} {i c : Nat} (h : l[i]? = some c) : i < l.length := by
  rcases Nat.lt_or_ge i l.length with h' | h'
  · exact h'
  · rw [List.getElem?_eq_none h'] at h; cases h

theorem zwnj_true (T : Tabs) (l : List Nat) (i : Nat) (hl : l.length < 2 ^ 63) :
    ruleZeroWidthNonjoiner l i = .ok true ↔
      ∃ c, l[i]? = some c ∧ Rule.own .zwnj c = true ∧ Spec.cond .zwnj l i = true := by
  rcases zwnj_nf T l i with ⟨h1, _⟩ | h
  · omega
  · rw [h]
    simp only [zwnjNF, Spec.cond, condZwnj, Rule.own]
    cases hc : l[i]? with
    | none => simp
    | some c =>
      have hi := lt_of_getElem?_some hc
      by_cases hc : c = 0x200c
      · subst hc
        cases i with
        | zero => simp [prevNonT]
        | succ k =>
          have hk : k < l.length := by omega
          simp only [Nat.add_sub_cancel, List.getElem?_eq_getElem hk]
          by_cases hv : virama63 l[k] = true
          · simp [hv]
          · cases prevNonT l (k + 1) with
            | none => simp [hv]
            | some a =>
              by_cases h1 : jt63 a = .L <;> by_cases h2 : jt63 a = .D <;>
                cases nextNonT l (k + 1) <;> simp [hv, h1, h2]
      · simp [hc]


theorem zwnjNF_ne_panic (l : List Nat) (i : Nat) : zwnjNF l i ≠ .panic := by
  unfold zwnjNF
  repeat' split
  all_goals simp

theorem zwnjNF_notapp (l : List Nat) (i : Nat) (h : zwnjNF l i = .notApplicable) :
    ∃ c, l[i]? = some c ∧ Rule.own .zwnj c = false := by
  unfold zwnjNF at h
  cases hc : l[i]? with
  | none => rw [hc] at h; simp at h
  | some c =>
    rw [hc] at h
    refine ⟨c, rfl, ?_⟩
    by_cases hc' : c = 0x200c
    · exfalso
      simp only [hc'] at h
      revert h
      repeat' split
      all_goals simp_all
    · simp [Rule.own, hc']

theorem zwnj_notapp (T : Tabs) (l : List Nat) (i : Nat) :
    ruleZeroWidthNonjoiner l i = .notApplicable ↔ ∃ c, l[i]? = some c ∧ Rule.own .zwnj c = false := by
  constructor
  · intro h
    rcases zwnj_nf T l i with ⟨_, h2⟩ | h2
    · rw [h2] at h; cases h
    · rw [h2] at h; exact zwnjNF_notapp l i h
  · rintro ⟨c, hc, ho⟩
    have : c ≠ 0x200c := by simpa [Rule.own] using ho
    simp [ruleZeroWidthNonjoiner, nth, hc, this]

theorem zwnj_undef (T : Tabs) (l : List Nat) (i : Nat) (h : ruleZeroWidthNonjoiner l i = .undefined) :
    l[i]? = none ∨ needsOutside .zwnj l i = true := by
  rcases zwnj_nf T l i with ⟨_, h2⟩ | h2
  · rw [h2] at h; cases h
  · rw [h2] at h
    unfold zwnjNF at h
    cases hc : l[i]? with
    | none => left; rfl
    | some c =>
      right
      rw [hc] at h
      simp only [needsOutside, Bool.or_eq_true, ← prevNonT_none, ← nextNonT_none]
      cases i with
      | zero => left; simp [prevNonT]
      | succ k =>
        have hk : k < l.length := by have := lt_of_getElem?_some hc; omega
        simp only [Nat.add_sub_cancel, List.getElem?_eq_getElem hk] at h
        revert h
        cases prevNonT l (k + 1) with
        | none => simp
        | some a =>
          cases nextNonT l (k + 1) with
          | none => simp
          | some b =>
            simp only []
            repeat' split
            all_goals simp_all

theorem zwnj_outside (l : List Nat) (i : Nat) (h : l.length ≤ i) :
    ruleZeroWidthNonjoiner l i = .undefined := by
  simp [ruleZeroWidthNonjoiner, nth, List.getElem?_eq_none h]

theorem zwnj_no_panic (T : Tabs) (l : List Nat) (i : Nat) (hl : l.length < 2 ^ 63) :
    ruleZeroWidthNonjoiner l i ≠ .panic := by
  rcases zwnj_nf T l i with ⟨h1, _⟩ | h2
  · omega
  · rw [h2]; exact zwnjNF_ne_panic l i


/-! ### the seven local rules -/

set_option linter.unusedSimpArgs false
set_option linter.unusedVariables false

theorem after_eq (l : List Nat) (i : Nat) (hi : i < l.length) (hl : l.length < 2 ^ 63) :
    after l i = some (l[i + 1]?) := by
  have : ¬ (i + 1 > usizeMax) := by simp [usizeMax]; omega
  simp [after, nth, this]

theorem after_cases (l : List Nat) (i : Nat) : after l i = none ∨ after l i = some (l[i + 1]?) := by
  unfold after nth; split <;> simp

theorem before_zero (l : List Nat) : before l 0 = none := rfl
theorem before_succ (l : List Nat) (k : Nat) : before l (k + 1) = l[k]? := rfl


-- zwj
theorem zwj_true (T : Tabs) (l : List Nat) (i : Nat) (hl : l.length < 2 ^ 63) :
    ruleZeroWidthJoiner l i = .ok true ↔
      ∃ c, l[i]? = some c ∧ Rule.own .zwj c = true ∧ Spec.cond .zwj l i = true := by
  simp only [ruleZeroWidthJoiner, nth, Spec.cond, Rule.own, needsOutside, T.virama, T.greek, T.hebrew, T.hiragana, T.katakana, T.han]
  cases hc : l[i]? with
  | none => simp
  | some c =>
    have hi := lt_of_getElem?_some hc
    have ha := after_eq l i hi hl
    by_cases h0 : c = 0x200d
    all_goals
      cases i with
      | zero => simp [*, before_zero] <;> (try (repeat' split)) <;> (try simp_all) <;> (try omega)
      | succ k =>
        have hk : k < l.length := by omega
        simp [*, before_succ] <;> (try (repeat' split)) <;> (try simp_all) <;> (try omega)

theorem zwj_notapp (l : List Nat) (i : Nat) :
    ruleZeroWidthJoiner l i = .notApplicable ↔ ∃ c, l[i]? = some c ∧ Rule.own .zwj c = false := by
  simp only [ruleZeroWidthJoiner, nth, Rule.own]
  cases hc : l[i]? with
  | none => simp
  | some c =>
    have hi := lt_of_getElem?_some hc
    rcases after_cases l i with ha | ha
    by_cases h0 : c = 0x200d
    all_goals
      cases i with
      | zero => simp [*, before_zero] <;> (try (repeat' split)) <;> (try simp_all) <;> (try omega)
      | succ k =>
        have hk : k < l.length := by omega
        simp [*, before_succ] <;> (try (repeat' split)) <;> (try simp_all) <;> (try omega)

theorem zwj_undef (l : List Nat) (i : Nat) (h : ruleZeroWidthJoiner l i = .undefined) :
    l[i]? = none ∨ needsOutside .zwj l i = true := by
  revert h
  simp only [ruleZeroWidthJoiner, nth, needsOutside]
  cases hc : l[i]? with
  | none => simp
  | some c =>
    have hi := lt_of_getElem?_some hc
    rcases after_cases l i with ha | ha
    by_cases h0 : c = 0x200d
    all_goals
      cases i with
      | zero => simp [*, before_zero] <;> (try (repeat' split)) <;> (try simp_all) <;> (try omega)
      | succ k =>
        have hk : k < l.length := by omega
        simp [*, before_succ] <;> (try (repeat' split)) <;> (try simp_all) <;> (try omega)

theorem zwj_outside (l : List Nat) (i : Nat) (h : l.length ≤ i) :
    ruleZeroWidthJoiner l i = .undefined := by
  simp [ruleZeroWidthJoiner, nth, List.getElem?_eq_none h]

theorem zwj_no_panic (l : List Nat) (i : Nat) (hl : l.length < 2 ^ 63) :
    ruleZeroWidthJoiner l i ≠ .panic := by
  simp only [ruleZeroWidthJoiner, nth]
  cases hc : l[i]? with
  | none => simp
  | some c =>
    have hi := lt_of_getElem?_some hc
    have ha := after_eq l i hi hl
    by_cases h0 : c = 0x200d
    all_goals
      cases i with
      | zero => simp [*, before_zero] <;> (try (repeat' split)) <;> (try simp_all) <;> (try omega)
      | succ k =>
        have hk : k < l.length := by omega
        simp [*, before_succ] <;> (try (repeat' split)) <;> (try simp_all) <;> (try omega)

-- middleDot
theorem middleDot_true (T : Tabs) (l : List Nat) (i : Nat) (hl : l.length < 2 ^ 63) :
    ruleMiddleDot l i = .ok true ↔
      ∃ c, l[i]? = some c ∧ Rule.own .middleDot c = true ∧ Spec.cond .middleDot l i = true := by
  simp only [ruleMiddleDot, nth, Spec.cond, Rule.own, needsOutside, T.virama, T.greek, T.hebrew, T.hiragana, T.katakana, T.han]
  cases hc : l[i]? with
  | none => simp
  | some c =>
    have hi := lt_of_getElem?_some hc
    have ha := after_eq l i hi hl
    by_cases h0 : c = 0xb7
    all_goals
      cases i with
      | zero => simp [*, before_zero] <;> (try (repeat' split)) <;> (try simp_all) <;> (try omega)
      | succ k =>
        have hk : k < l.length := by omega
        simp [*, before_succ] <;> (try (repeat' split)) <;> (try simp_all) <;> (try omega)

theorem middleDot_notapp (l : List Nat) (i : Nat) :
    ruleMiddleDot l i = .notApplicable ↔ ∃ c, l[i]? = some c ∧ Rule.own .middleDot c = false := by
  simp only [ruleMiddleDot, nth, Rule.own]
  cases hc : l[i]? with
  | none => simp
  | some c =>
    have hi := lt_of_getElem?_some hc
    rcases after_cases l i with ha | ha
    by_cases h0 : c = 0xb7
    all_goals
      cases i with
      | zero => simp [*, before_zero] <;> (try (repeat' split)) <;> (try simp_all) <;> (try omega)
      | succ k =>
        have hk : k < l.length := by omega
        simp [*, before_succ] <;> (try (repeat' split)) <;> (try simp_all) <;> (try omega)

theorem middleDot_undef (l : List Nat) (i : Nat) (h : ruleMiddleDot l i = .undefined) :
    l[i]? = none ∨ needsOutside .middleDot l i = true := by
  revert h
  simp only [ruleMiddleDot, nth, needsOutside]
  cases hc : l[i]? with
  | none => simp
  | some c =>
    have hi := lt_of_getElem?_some hc
    rcases after_cases l i with ha | ha
    by_cases h0 : c = 0xb7
    all_goals
      cases i with
      | zero => simp [*, before_zero] <;> (try (repeat' split)) <;> (try simp_all) <;> (try omega)
      | succ k =>
        have hk : k < l.length := by omega
        simp [*, before_succ] <;> (try (repeat' split)) <;> (try simp_all) <;> (try omega)

theorem middleDot_outside (l : List Nat) (i : Nat) (h : l.length ≤ i) :
    ruleMiddleDot l i = .undefined := by
  simp [ruleMiddleDot, nth, List.getElem?_eq_none h]

theorem middleDot_no_panic (l : List Nat) (i : Nat) (hl : l.length < 2 ^ 63) :
    ruleMiddleDot l i ≠ .panic := by
  simp only [ruleMiddleDot, nth]
  cases hc : l[i]? with
  | none => simp
  | some c =>
    have hi := lt_of_getElem?_some hc
    have ha := after_eq l i hi hl
    by_cases h0 : c = 0xb7
    all_goals
      cases i with
      | zero => simp [*, before_zero] <;> (try (repeat' split)) <;> (try simp_all) <;> (try omega)
      | succ k =>
        have hk : k < l.length := by omega
        simp [*, before_succ] <;> (try (repeat' split)) <;> (try simp_all) <;> (try omega)

-- keraia
theorem keraia_true (T : Tabs) (l : List Nat) (i : Nat) (hl : l.length < 2 ^ 63) :
    ruleGreekKeraia l i = .ok true ↔
      ∃ c, l[i]? = some c ∧ Rule.own .keraia c = true ∧ Spec.cond .keraia l i = true := by
  simp only [ruleGreekKeraia, nth, Spec.cond, Rule.own, needsOutside, T.virama, T.greek, T.hebrew, T.hiragana, T.katakana, T.han]
  cases hc : l[i]? with
  | none => simp
  | some c =>
    have hi := lt_of_getElem?_some hc
    have ha := after_eq l i hi hl
    by_cases h0 : c = 0x375
    all_goals
      cases i with
      | zero => simp [*, before_zero] <;> (try (repeat' split)) <;> (try simp_all) <;> (try omega)
      | succ k =>
        have hk : k < l.length := by omega
        simp [*, before_succ] <;> (try (repeat' split)) <;> (try simp_all) <;> (try omega)

theorem keraia_notapp (l : List Nat) (i : Nat) :
    ruleGreekKeraia l i = .notApplicable ↔ ∃ c, l[i]? = some c ∧ Rule.own .keraia c = false := by
  simp only [ruleGreekKeraia, nth, Rule.own]
  cases hc : l[i]? with
  | none => simp
  | some c =>
    have hi := lt_of_getElem?_some hc
    rcases after_cases l i with ha | ha
    by_cases h0 : c = 0x375
    all_goals
      cases i with
      | zero => simp [*, before_zero] <;> (try (repeat' split)) <;> (try simp_all) <;> (try omega)
      | succ k =>
        have hk : k < l.length := by omega
        simp [*, before_succ] <;> (try (repeat' split)) <;> (try simp_all) <;> (try omega)

theorem keraia_undef (l : List Nat) (i : Nat) (h : ruleGreekKeraia l i = .undefined) :
    l[i]? = none ∨ needsOutside .keraia l i = true := by
  revert h
  simp only [ruleGreekKeraia, nth, needsOutside]
  cases hc : l[i]? with
  | none => simp
  | some c =>
    have hi := lt_of_getElem?_some hc
    rcases after_cases l i with ha | ha
    by_cases h0 : c = 0x375
    all_goals
      cases i with
      | zero => simp [*, before_zero] <;> (try (repeat' split)) <;> (try simp_all) <;> (try omega)
      | succ k =>
        have hk : k < l.length := by omega
        simp [*, before_succ] <;> (try (repeat' split)) <;> (try simp_all) <;> (try omega)

theorem keraia_outside (l : List Nat) (i : Nat) (h : l.length ≤ i) :
    ruleGreekKeraia l i = .undefined := by
  simp [ruleGreekKeraia, nth, List.getElem?_eq_none h]

theorem keraia_no_panic (l : List Nat) (i : Nat) (hl : l.length < 2 ^ 63) :
    ruleGreekKeraia l i ≠ .panic := by
  simp only [ruleGreekKeraia, nth]
  cases hc : l[i]? with
  | none => simp
  | some c =>
    have hi := lt_of_getElem?_some hc
    have ha := after_eq l i hi hl
    by_cases h0 : c = 0x375
    all_goals
      cases i with
      | zero => simp [*, before_zero] <;> (try (repeat' split)) <;> (try simp_all) <;> (try omega)
      | succ k =>
        have hk : k < l.length := by omega
        simp [*, before_succ] <;> (try (repeat' split)) <;> (try simp_all) <;> (try omega)

-- hebrew
theorem hebrew_true (T : Tabs) (l : List Nat) (i : Nat) (hl : l.length < 2 ^ 63) :
    ruleHebrewPunctuation l i = .ok true ↔
      ∃ c, l[i]? = some c ∧ Rule.own .hebrew c = true ∧ Spec.cond .hebrew l i = true := by
  simp only [ruleHebrewPunctuation, nth, Spec.cond, Rule.own, needsOutside, T.virama, T.greek, T.hebrew, T.hiragana, T.katakana, T.han]
  cases hc : l[i]? with
  | none => simp
  | some c =>
    have hi := lt_of_getElem?_some hc
    have ha := after_eq l i hi hl
    by_cases h0 : c = 0x5f3 <;> by_cases h1 : c = 0x5f4
    all_goals
      cases i with
      | zero => simp [*, before_zero] <;> (try (repeat' split)) <;> (try simp_all) <;> (try omega)
      | succ k =>
        have hk : k < l.length := by omega
        simp [*, before_succ] <;> (try (repeat' split)) <;> (try simp_all) <;> (try omega)

theorem hebrew_notapp (l : List Nat) (i : Nat) :
    ruleHebrewPunctuation l i = .notApplicable ↔ ∃ c, l[i]? = some c ∧ Rule.own .hebrew c = false := by
  simp only [ruleHebrewPunctuation, nth, Rule.own]
  cases hc : l[i]? with
  | none => simp
  | some c =>
    have hi := lt_of_getElem?_some hc
    rcases after_cases l i with ha | ha
    by_cases h0 : c = 0x5f3 <;> by_cases h1 : c = 0x5f4
    all_goals
      cases i with
      | zero => simp [*, before_zero] <;> (try (repeat' split)) <;> (try simp_all) <;> (try omega)
      | succ k =>
        have hk : k < l.length := by omega
        simp [*, before_succ] <;> (try (repeat' split)) <;> (try simp_all) <;> (try omega)

theorem hebrew_undef (l : List Nat) (i : Nat) (h : ruleHebrewPunctuation l i = .undefined) :
    l[i]? = none ∨ needsOutside .hebrew l i = true := by
  revert h
  simp only [ruleHebrewPunctuation, nth, needsOutside]
  cases hc : l[i]? with
  | none => simp
  | some c =>
    have hi := lt_of_getElem?_some hc
    rcases after_cases l i with ha | ha
    by_cases h0 : c = 0x5f3 <;> by_cases h1 : c = 0x5f4
    all_goals
      cases i with
      | zero => simp [*, before_zero] <;> (try (repeat' split)) <;> (try simp_all) <;> (try omega)
      | succ k =>
        have hk : k < l.length := by omega
        simp [*, before_succ] <;> (try (repeat' split)) <;> (try simp_all) <;> (try omega)

theorem hebrew_outside (l : List Nat) (i : Nat) (h : l.length ≤ i) :
    ruleHebrewPunctuation l i = .undefined := by
  simp [ruleHebrewPunctuation, nth, List.getElem?_eq_none h]

theorem hebrew_no_panic (l : List Nat) (i : Nat) (hl : l.length < 2 ^ 63) :
    ruleHebrewPunctuation l i ≠ .panic := by
  simp only [ruleHebrewPunctuation, nth]
  cases hc : l[i]? with
  | none => simp
  | some c =>
    have hi := lt_of_getElem?_some hc
    have ha := after_eq l i hi hl
    by_cases h0 : c = 0x5f3 <;> by_cases h1 : c = 0x5f4
    all_goals
      cases i with
      | zero => simp [*, before_zero] <;> (try (repeat' split)) <;> (try simp_all) <;> (try omega)
      | succ k =>
        have hk : k < l.length := by omega
        simp [*, before_succ] <;> (try (repeat' split)) <;> (try simp_all) <;> (try omega)

-- katakana
theorem katakana_true (T : Tabs) (l : List Nat) (i : Nat) (hl : l.length < 2 ^ 63) :
    ruleKatakanaMiddleDot l i = .ok true ↔
      ∃ c, l[i]? = some c ∧ Rule.own .katakana c = true ∧ Spec.cond .katakana l i = true := by
  simp only [ruleKatakanaMiddleDot, nth, Spec.cond, Rule.own, needsOutside, T.virama, T.greek, T.hebrew, T.hiragana, T.katakana, T.han]
  cases hc : l[i]? with
  | none => simp
  | some c =>
    have hi := lt_of_getElem?_some hc
    have ha := after_eq l i hi hl
    by_cases h0 : c = 0x30fb
    all_goals
      cases i with
      | zero => simp [*, before_zero] <;> (try (repeat' split)) <;> (try simp_all) <;> (try omega)
      | succ k =>
        have hk : k < l.length := by omega
        simp [*, before_succ] <;> (try (repeat' split)) <;> (try simp_all) <;> (try omega)

theorem katakana_notapp (l : List Nat) (i : Nat) :
    ruleKatakanaMiddleDot l i = .notApplicable ↔ ∃ c, l[i]? = some c ∧ Rule.own .katakana c = false := by
  simp only [ruleKatakanaMiddleDot, nth, Rule.own]
  cases hc : l[i]? with
  | none => simp
  | some c =>
    have hi := lt_of_getElem?_some hc
    rcases after_cases l i with ha | ha
    by_cases h0 : c = 0x30fb
    all_goals
      cases i with
      | zero => simp [*, before_zero] <;> (try (repeat' split)) <;> (try simp_all) <;> (try omega)
      | succ k =>
        have hk : k < l.length := by omega
        simp [*, before_succ] <;> (try (repeat' split)) <;> (try simp_all) <;> (try omega)

theorem katakana_undef (l : List Nat) (i : Nat) (h : ruleKatakanaMiddleDot l i = .undefined) :
    l[i]? = none ∨ needsOutside .katakana l i = true := by
  revert h
  simp only [ruleKatakanaMiddleDot, nth, needsOutside]
  cases hc : l[i]? with
  | none => simp
  | some c =>
    have hi := lt_of_getElem?_some hc
    rcases after_cases l i with ha | ha
    by_cases h0 : c = 0x30fb
    all_goals
      cases i with
      | zero => simp [*, before_zero] <;> (try (repeat' split)) <;> (try simp_all) <;> (try omega)
      | succ k =>
        have hk : k < l.length := by omega
        simp [*, before_succ] <;> (try (repeat' split)) <;> (try simp_all) <;> (try omega)

theorem katakana_outside (l : List Nat) (i : Nat) (h : l.length ≤ i) :
    ruleKatakanaMiddleDot l i = .undefined := by
  simp [ruleKatakanaMiddleDot, nth, List.getElem?_eq_none h]

theorem katakana_no_panic (l : List Nat) (i : Nat) (hl : l.length < 2 ^ 63) :
    ruleKatakanaMiddleDot l i ≠ .panic := by
  simp only [ruleKatakanaMiddleDot, nth]
  cases hc : l[i]? with
  | none => simp
  | some c =>
    have hi := lt_of_getElem?_some hc
    have ha := after_eq l i hi hl
    by_cases h0 : c = 0x30fb
    all_goals
      cases i with
      | zero => simp [*, before_zero] <;> (try (repeat' split)) <;> (try simp_all) <;> (try omega)
      | succ k =>
        have hk : k < l.length := by omega
        simp [*, before_succ] <;> (try (repeat' split)) <;> (try simp_all) <;> (try omega)

-- arabic
theorem arabic_true (T : Tabs) (l : List Nat) (i : Nat) (hl : l.length < 2 ^ 63) :
    ruleArabicIndicDigits l i = .ok true ↔
      ∃ c, l[i]? = some c ∧ Rule.own .arabic c = true ∧ Spec.cond .arabic l i = true := by
  simp only [ruleArabicIndicDigits, nth, Spec.cond, Rule.own, needsOutside, T.virama, T.greek, T.hebrew, T.hiragana, T.katakana, T.han]
  cases hc : l[i]? with
  | none => simp
  | some c =>
    have hi := lt_of_getElem?_some hc
    have ha := after_eq l i hi hl
    by_cases h0 : 0x660 ≤ c <;> by_cases h1 : c ≤ 0x669
    all_goals
      cases i with
      | zero => simp [*, before_zero] <;> (try (repeat' split)) <;> (try simp_all) <;> (try omega)
      | succ k =>
        have hk : k < l.length := by omega
        simp [*, before_succ] <;> (try (repeat' split)) <;> (try simp_all) <;> (try omega)

theorem arabic_notapp (l : List Nat) (i : Nat) :
    ruleArabicIndicDigits l i = .notApplicable ↔ ∃ c, l[i]? = some c ∧ Rule.own .arabic c = false := by
  simp only [ruleArabicIndicDigits, nth, Rule.own]
  cases hc : l[i]? with
  | none => simp
  | some c =>
    have hi := lt_of_getElem?_some hc
    rcases after_cases l i with ha | ha
    by_cases h0 : 0x660 ≤ c <;> by_cases h1 : c ≤ 0x669
    all_goals
      cases i with
      | zero => simp [*, before_zero] <;> (try (repeat' split)) <;> (try simp_all) <;> (try omega)
      | succ k =>
        have hk : k < l.length := by omega
        simp [*, before_succ] <;> (try (repeat' split)) <;> (try simp_all) <;> (try omega)

theorem arabic_undef (l : List Nat) (i : Nat) (h : ruleArabicIndicDigits l i = .undefined) :
    l[i]? = none ∨ needsOutside .arabic l i = true := by
  revert h
  simp only [ruleArabicIndicDigits, nth, needsOutside]
  cases hc : l[i]? with
  | none => simp
  | some c =>
    have hi := lt_of_getElem?_some hc
    rcases after_cases l i with ha | ha
    by_cases h0 : 0x660 ≤ c <;> by_cases h1 : c ≤ 0x669
    all_goals
      cases i with
      | zero => simp [*, before_zero] <;> (try (repeat' split)) <;> (try simp_all) <;> (try omega)
      | succ k =>
        have hk : k < l.length := by omega
        simp [*, before_succ] <;> (try (repeat' split)) <;> (try simp_all) <;> (try omega)

theorem arabic_outside (l : List Nat) (i : Nat) (h : l.length ≤ i) :
    ruleArabicIndicDigits l i = .undefined := by
  simp [ruleArabicIndicDigits, nth, List.getElem?_eq_none h]

theorem arabic_no_panic (l : List Nat) (i : Nat) (hl : l.length < 2 ^ 63) :
    ruleArabicIndicDigits l i ≠ .panic := by
  simp only [ruleArabicIndicDigits, nth]
  cases hc : l[i]? with
  | none => simp
  | some c =>
    have hi := lt_of_getElem?_some hc
    have ha := after_eq l i hi hl
    by_cases h0 : 0x660 ≤ c <;> by_cases h1 : c ≤ 0x669
    all_goals
      cases i with
      | zero => simp [*, before_zero] <;> (try (repeat' split)) <;> (try simp_all) <;> (try omega)
      | succ k =>
        have hk : k < l.length := by omega
        simp [*, before_succ] <;> (try (repeat' split)) <;> (try simp_all) <;> (try omega)

-- extArabic
theorem extArabic_true (T : Tabs) (l : List Nat) (i : Nat) (hl : l.length < 2 ^ 63) :
    ruleExtendedArabicIndicDigits l i = .ok true ↔
      ∃ c, l[i]? = some c ∧ Rule.own .extArabic c = true ∧ Spec.cond .extArabic l i = true := by
  simp only [ruleExtendedArabicIndicDigits, nth, Spec.cond, Rule.own, needsOutside, T.virama, T.greek, T.hebrew, T.hiragana, T.katakana, T.han]
  cases hc : l[i]? with
  | none => simp
  | some c =>
    have hi := lt_of_getElem?_some hc
    have ha := after_eq l i hi hl
    by_cases h0 : 0x6f0 ≤ c <;> by_cases h1 : c ≤ 0x6f9
    all_goals
      cases i with
      | zero => simp [*, before_zero] <;> (try (repeat' split)) <;> (try simp_all) <;> (try omega)
      | succ k =>
        have hk : k < l.length := by omega
        simp [*, before_succ] <;> (try (repeat' split)) <;> (try simp_all) <;> (try omega)

theorem extArabic_notapp (l : List Nat) (i : Nat) :
    ruleExtendedArabicIndicDigits l i = .notApplicable ↔ ∃ c, l[i]? = some c ∧ Rule.own .extArabic c = false := by
  simp only [ruleExtendedArabicIndicDigits, nth, Rule.own]
  cases hc : l[i]? with
  | none => simp
  | some c =>
    have hi := lt_of_getElem?_some hc
    rcases after_cases l i with ha | ha
    by_cases h0 : 0x6f0 ≤ c <;> by_cases h1 : c ≤ 0x6f9
    all_goals
      cases i with
      | zero => simp [*, before_zero] <;> (try (repeat' split)) <;> (try simp_all) <;> (try omega)
      | succ k =>
        have hk : k < l.length := by omega
        simp [*, before_succ] <;> (try (repeat' split)) <;> (try simp_all) <;> (try omega)

theorem extArabic_undef (l : List Nat) (i : Nat) (h : ruleExtendedArabicIndicDigits l i = .undefined) :
    l[i]? = none ∨ needsOutside .extArabic l i = true := by
  revert h
  simp only [ruleExtendedArabicIndicDigits, nth, needsOutside]
  cases hc : l[i]? with
  | none => simp
  | some c =>
    have hi := lt_of_getElem?_some hc
    rcases after_cases l i with ha | ha
    by_cases h0 : 0x6f0 ≤ c <;> by_cases h1 : c ≤ 0x6f9
    all_goals
      cases i with
      | zero => simp [*, before_zero] <;> (try (repeat' split)) <;> (try simp_all) <;> (try omega)
      | succ k =>
        have hk : k < l.length := by omega
        simp [*, before_succ] <;> (try (repeat' split)) <;> (try simp_all) <;> (try omega)

theorem extArabic_outside (l : List Nat) (i : Nat) (h : l.length ≤ i) :
    ruleExtendedArabicIndicDigits l i = .undefined := by
  simp [ruleExtendedArabicIndicDigits, nth, List.getElem?_eq_none h]

theorem extArabic_no_panic (l : List Nat) (i : Nat) (hl : l.length < 2 ^ 63) :
    ruleExtendedArabicIndicDigits l i ≠ .panic := by
  simp only [ruleExtendedArabicIndicDigits, nth]
  cases hc : l[i]? with
  | none => simp
  | some c =>
    have hi := lt_of_getElem?_some hc
    have ha := after_eq l i hi hl
    by_cases h0 : 0x6f0 ≤ c <;> by_cases h1 : c ≤ 0x6f9
    all_goals
      cases i with
      | zero => simp [*, before_zero] <;> (try (repeat' split)) <;> (try simp_all) <;> (try omega)
      | succ k =>
        have hk : k < l.length := by omega
        simp [*, before_succ] <;> (try (repeat' split)) <;> (try simp_all) <;> (try omega)

/-! ### assembly -/

def toSpec : RuleId → Spec.Rule
  | .zwnj => .zwnj | .zwj => .zwj | .middleDot => .middleDot | .keraia => .keraia
  | .hebrew => .hebrew | .katakana => .katakana | .arabic => .arabic | .extArabic => .extArabic

theorem find?_cons_if {α} (p : α → Bool) (a : α) (as : List α) :
    (a :: as).find? p = if p a = true then some a else as.find? p := by
  rw [List.find?_cons]; cases p a <;> rfl

theorem registry_applies (cp : Nat) (r : RuleId) (h : getContextRule cp = some r) :
    (toSpec r).own cp = true ∧ Spec.ruleFor cp = some (toSpec r) := by
  unfold getContextRule at h
  repeat' split at h
  all_goals first | cases h | skip
  all_goals
    try simp only [Bool.or_eq_true, Bool.and_eq_true, decide_eq_true_eq] at *
    refine ⟨by simp [toSpec, Rule.own] <;> omega, ?_⟩
    simp only [ruleFor, find?_cons_if, List.find?_nil, Rule.own, toSpec, beq_iff_eq,
      Bool.or_eq_true, Bool.and_eq_true, decide_eq_true_eq]
    repeat' split
    all_goals first | rfl | omega

theorem rule_true_iff (T : Tabs) (r : RuleId) (l : List Nat) (i : Nat) (hl : l.length < 2 ^ 63) :
    applyRule r l i = .ok true ↔
      ∃ c, l[i]? = some c ∧ (toSpec r).own c = true ∧ Spec.cond (toSpec r) l i = true := by
  cases r
  · exact zwnj_true T l i hl
  · exact zwj_true T l i hl
  · exact middleDot_true T l i hl
  · exact keraia_true T l i hl
  · exact hebrew_true T l i hl
  · exact katakana_true T l i hl
  · exact arabic_true T l i hl
  · exact extArabic_true T l i hl

theorem rule_notapp_iff (T : Tabs) (r : RuleId) (l : List Nat) (i : Nat) :
    applyRule r l i = .notApplicable ↔ ∃ c, l[i]? = some c ∧ (toSpec r).own c = false := by
  cases r
  · exact zwnj_notapp T l i
  · exact zwj_notapp l i
  · exact middleDot_notapp l i
  · exact keraia_notapp l i
  · exact hebrew_notapp l i
  · exact katakana_notapp l i
  · exact arabic_notapp l i
  · exact extArabic_notapp l i

theorem rule_undef_only (T : Tabs) (r : RuleId) (l : List Nat) (i : Nat)
    (h : applyRule r l i = .undefined) :
    l[i]? = none ∨ Spec.needsOutside (toSpec r) l i = true := by
  cases r
  · exact zwnj_undef T l i h
  · exact zwj_undef l i h
  · exact middleDot_undef l i h
  · exact keraia_undef l i h
  · exact hebrew_undef l i h
  · exact katakana_undef l i h
  · exact arabic_undef l i h
  · exact extArabic_undef l i h

theorem rule_outside (r : RuleId) (l : List Nat) (i : Nat) (h : l.length ≤ i) :
    applyRule r l i = .undefined := by
  cases r
  · exact zwnj_outside l i h
  · exact zwj_outside l i h
  · exact middleDot_outside l i h
  · exact keraia_outside l i h
  · exact hebrew_outside l i h
  · exact katakana_outside l i h
  · exact arabic_outside l i h
  · exact extArabic_outside l i h

theorem rule_no_panic (T : Tabs) (r : RuleId) (l : List Nat) (i : Nat) (hl : l.length < 2 ^ 63) :
    applyRule r l i ≠ .panic := by
  cases r
  · exact zwnj_no_panic T l i hl
  · exact zwj_no_panic l i hl
  · exact middleDot_no_panic l i hl
  · exact keraia_no_panic l i hl
  · exact hebrew_no_panic l i hl
  · exact katakana_no_panic l i hl
  · exact arabic_no_panic l i hl
  · exact extArabic_no_panic l i hl

end Precis.CtxAux
