/-
Correctness of the modelled `slice::binary_search_by` on keys that are monotone along the table,
and its consequences for the table look-ups of the model (`isInTable`, `lookupVal`, `kvFind`, `inPairs`).
-/
import Precis.Model.Codepoints
import Precis.Model.Normalize
import Precis.Model.Rules
namespace Precis

/-- The comparison results along the table have the shape `Less* Equal? Greater*`:
once an entry is not `Less`, every later entry is `Greater`. -/
def MonoKey {α} (f : α → Ordering) (l : List α) : Prop :=
  ∀ (i j : Nat) (hij : i < j) (hj : j < l.length), f (l[i]'(by omega)) ≠ .lt → f l[j] = .gt

theorem bsearchLoop_range {α} [Inhabited α] (t : Array α) (f : α → Ordering) (size base : Nat)
    (hs : 1 ≤ size) :
    base ≤ bsearchLoop t f size base ∧ bsearchLoop t f size base < base + size := by
  fun_induction bsearchLoop t f size base with
  | case1 size base h half mid cmp base' ih =>
    have := ih (by omega)
    by_cases hc : cmp = .gt
    · have hb' : base' = base := by simp [base', hc]
      rw [hb'] at this ⊢; omega
    · have hb' : base' = mid := by simp [base', hc]
      rw [hb'] at this ⊢; omega
  | case2 size base h => omega

/-- array form of `MonoKey` using `t[i]!` -/
def ArrMono {α} [Inhabited α] (f : α → Ordering) (t : Array α) : Prop :=
  ∀ i j, i < j → j < t.size → f t[i]! ≠ .lt → f t[j]! = .gt

theorem arrMono_of_monoKey {α} [Inhabited α] (f : α → Ordering) (t : Array α)
    (hm : MonoKey f t.toList) : ArrMono f t := by
  intro i j hij hj hne
  have hj' : j < t.toList.length := by simpa using hj
  have := hm i j hij hj'
  simp only [Array.getElem_toList] at this
  rw [getElem!_pos t i (by omega)] at hne
  rw [getElem!_pos t j hj]
  exact this hne

theorem bsearchLoop_inv {α} [Inhabited α] (t : Array α) (f : α → Ordering) (hm : ArrMono f t)
    (size base : Nat) (hs : 1 ≤ size) (hb : base + size ≤ t.size)
    (h1 : base = 0 ∨ f t[base]! ≠ .gt)
    (h2 : ∀ j, base + size ≤ j → j < t.size → f t[j]! = .gt) :
    (bsearchLoop t f size base = 0 ∨ f t[bsearchLoop t f size base]! ≠ .gt) ∧
    ∀ j, bsearchLoop t f size base + 1 ≤ j → j < t.size → f t[j]! = .gt := by
  fun_induction bsearchLoop t f size base with
  | case1 size base h half mid cmp base' ih =>
    by_cases hc : cmp = .gt
    · have hb' : base' = base := by simp [base', hc]
      rw [hb'] at ih ⊢
      apply ih (by omega) (by omega) h1
      intro j hj hjt
      by_cases hjm : j = mid
      · subst hjm; exact hc
      · exact hm mid j (by omega) hjt (by rw [show f t[mid]! = .gt from hc]; decide)
    · have hb' : base' = mid := by simp [base', hc]
      rw [hb'] at ih ⊢
      apply ih (by omega) (by omega) (Or.inr hc)
      intro j hj hjt
      exact h2 j (by omega) hjt
  | case2 size base h =>
    have : size = 1 := by omega
    subst this
    exact ⟨h1, h2⟩

theorem bsearchBy_ok {α} [Inhabited α] (t : Array α) (f : α → Ordering) (i : Nat)
    (h : bsearchBy t f = .ok i) : ∃ (hi : i < t.size), f t[i] = .eq := by
  unfold bsearchBy at h
  split at h
  · cases h
  · rename_i hne
    have hpos : 1 ≤ t.size := by
      have : t.size ≠ 0 := by simpa using hne
      omega
    have hr := bsearchLoop_range t f t.size 0 hpos
    simp only at h
    split at h
    · rename_i hc
      injection h with h
      subst h
      refine ⟨by omega, ?_⟩
      rw [getElem!_pos t _ (by omega)] at hc
      simpa using hc
    · cases h

theorem bsearchBy_error {α} [Inhabited α] (t : Array α) (f : α → Ordering)
    (hm : MonoKey f t.toList) (i : Nat) (h : bsearchBy t f = .error i) :
    ∀ x ∈ t.toList, f x ≠ .eq := by
  intro x hx
  rw [Array.mem_toList_iff, Array.mem_iff_getElem] at hx
  obtain ⟨k, hk, rfl⟩ := hx
  unfold bsearchBy at h
  split at h
  · rename_i h0
    have : t.size = 0 := by simpa using h0
    omega
  · simp only at h
    split at h
    · cases h
    · rename_i hc
      have ham := arrMono_of_monoKey f t hm
      have hr := bsearchLoop_range t f t.size 0 (by omega)
      have hinv := bsearchLoop_inv t f ham t.size 0 (by omega) (by omega) (Or.inl rfl)
        (by intro j hj hjt; omega)
      generalize bsearchLoop t f t.size 0 = r at *
      obtain ⟨h1, h2⟩ := hinv
      have hc' : f t[r]! ≠ .eq := by simpa using hc
      intro he
      rw [← getElem!_pos t k hk] at he
      by_cases hkr : k = r
      · subst hkr; exact hc' he
      · by_cases hlt : k < r
        · have := ham k r hlt (by omega) (by rw [he]; decide)
          rcases h1 with h1 | h1
          · omega
          · exact h1 this
        · have := h2 k (by omega) hk
          rw [he] at this; cases this

/-- with a monotone key at most one entry compares `Equal` -/
theorem monoKey_unique {α} (f : α → Ordering) (l : List α) (hm : MonoKey f l) (i j : Nat)
    (hi : i < l.length) (hj : j < l.length) (ei : f l[i] = .eq) (ej : f l[j] = .eq) : i = j := by
  by_cases h1 : i < j
  · have := hm i j h1 hj (by rw [ei]; decide)
    rw [ej] at this; cases this
  · by_cases h2 : j < i
    · have := hm j i h2 hi (by rw [ej]; decide)
      rw [ei] at this; cases this
    · omega

theorem monoKey_of_pairwise {α} (f : α → Ordering) (l : List α)
    (h : l.Pairwise (fun a b => f a ≠ .lt → f b = .gt)) : MonoKey f l := by
  intro i j hij hj
  exact (List.pairwise_iff_getElem.mp h) i j (by omega) hj hij

theorem sortedTable_pairwise (t : List Cps) (h : sortedTable t = true) :
    t.Pairwise (fun a b => a.hi < b.lo) ∧ ∀ e ∈ t, e.lo ≤ e.hi + 1 := by
  induction t with
  | nil => simp
  | cons e r ih =>
    cases r with
    | nil => simpa [sortedTable] using h
    | cons e' r =>
      simp only [sortedTable, Bool.and_eq_true, decide_eq_true_eq] at h
      obtain ⟨⟨h1, h2⟩, h3⟩ := h
      obtain ⟨ihp, ihb⟩ := ih h3
      refine ⟨List.pairwise_cons.mpr ⟨?_, ihp⟩, ?_⟩
      · intro x hx
        rcases List.mem_cons.mp hx with rfl | hx
        · exact h2
        · have := (List.pairwise_cons.mp ihp).1 x hx
          have := ihb e' (by simp)
          omega
      · intro x hx
        rcases List.mem_cons.mp hx with rfl | hx
        · exact h1
        · exact ihb x hx

theorem ite3 (p q : Prop) [Decidable p] [Decidable q] (o : Ordering) :
    ((if p then Ordering.lt else if q then Ordering.gt else Ordering.eq) = o) ↔
    (p ∧ o = .lt) ∨ (¬p ∧ q ∧ o = .gt) ∨ (¬p ∧ ¬q ∧ o = .eq) := by
  by_cases p <;> by_cases q <;> cases o <;> simp [*]
theorem cmpCp_eq_lt (a : Cps) (cp : Nat) : a.cmpCp cp = .lt ↔ a.hi < cp := by
  cases a <;> simp only [Cps.cmpCp, Cps.ltCp, Cps.gtCp, Cps.hi, decide_eq_true_eq] <;> rw [ite3] <;> simp
theorem cmpCp_ne_lt (a : Cps) (cp : Nat) : a.cmpCp cp ≠ .lt ↔ cp ≤ a.hi := by
  rw [Ne, cmpCp_eq_lt]; omega
theorem cmpCp_eq_gt (a : Cps) (cp : Nat) : a.cmpCp cp = .gt ↔ cp ≤ a.hi ∧ cp < a.lo := by
  cases a <;> simp [Cps.cmpCp, Cps.ltCp, Cps.gtCp, Cps.hi, Cps.lo, ite3] 
theorem cmpCp_eq_iff' (e : Cps) (cp : Nat) : e.cmpCp cp = .eq ↔ e.eqCp cp = true := by
  cases e <;> simp [Cps.cmpCp, Cps.ltCp, Cps.gtCp, Cps.eqCp, ite3] <;> omega

theorem cmpCp_mono (a b : Cps) (cp : Nat) (hab : a.hi < b.lo) (hb : b.lo ≤ b.hi + 1) :
    a.cmpCp cp ≠ .lt → b.cmpCp cp = .gt := by
  rw [cmpCp_ne_lt, cmpCp_eq_gt]; omega

theorem cmpCp_pairwise (t : List Cps) (cp : Nat) (h : sortedTable t = true) :
    t.Pairwise (fun a b => a.cmpCp cp ≠ .lt → b.cmpCp cp = .gt) := by
  obtain ⟨hp, hb⟩ := sortedTable_pairwise t h
  exact hp.imp_of_mem (fun _ hbm hab => cmpCp_mono _ _ cp hab (hb _ hbm))

theorem monoKey_of_sorted (t : List Cps) (cp : Nat) (h : sortedTable t = true) :
    MonoKey (fun e => e.cmpCp cp) t :=
  monoKey_of_pairwise _ _ (cmpCp_pairwise t cp h)

theorem cmpCp_eq_iff (e : Cps) (cp : Nat) (h : e.lo ≤ e.hi + 1) : e.cmpCp cp = .eq ↔ e.eqCp cp = true := by
  have _ := h
  exact cmpCp_eq_iff' e cp

theorem isInTable_eq_memL (t : Array Cps) (cp : Nat) (h : sortedTable t.toList = true) :
    isInTable cp t = memL cp t.toList := by
  unfold isInTable memL
  split
  · rename_i i hi
    obtain ⟨hlt, he⟩ := bsearchBy_ok _ _ _ hi
    symm
    rw [List.any_eq_true]
    exact ⟨t[i], by simp, (cmpCp_eq_iff' _ _).mp he⟩
  · rename_i i hi
    have := bsearchBy_error _ _ (monoKey_of_sorted t.toList cp h) _ hi
    symm
    rw [List.any_eq_false]
    intro x hx
    have := this x hx
    rw [Ne, cmpCp_eq_iff'] at this
    exact this

theorem eqCp_bounds (e : Cps) (cp : Nat) (h : e.eqCp cp = true) : e.lo ≤ cp ∧ cp ≤ e.hi := by
  cases e <;> simp [Cps.eqCp, Cps.lo, Cps.hi] at * <;> omega

theorem lookupL_eq_none {V} (cp : Nat) (l : List (Cps × V))
    (h : ∀ x ∈ l, x.1.eqCp cp = false) : lookupL cp l = none := by
  induction l with
  | nil => rfl
  | cons x r ih =>
    obtain ⟨e, v⟩ := x
    have h0 : e.eqCp cp = false := h (e, v) (by simp)
    simp only [lookupL, h0]
    exact ih (fun x hx => h x (by simp [hx]))

theorem lookupL_eq_some {V} (cp : Nat) (l : List (Cps × V))
    (hp : l.Pairwise (fun a b => a.1.hi < b.1.lo)) (i : Nat) (hi : i < l.length)
    (he : l[i].1.eqCp cp = true) : lookupL cp l = some l[i].2 := by
  induction l generalizing i with
  | nil => simp at hi
  | cons x r ih =>
    obtain ⟨e, v⟩ := x
    cases i with
    | zero =>
      simp only [List.getElem_cons_zero] at he
      simp [lookupL, he]
    | succ k =>
      simp only [List.getElem_cons_succ] at he ⊢
      have hk : k < r.length := by simpa using hi
      have h1 := (List.pairwise_cons.mp hp).1 r[k] (by simp)
      have h2 := eqCp_bounds _ _ he
      have h0 : e.eqCp cp = false := by
        cases hh : e.eqCp cp
        · rfl
        · have := eqCp_bounds _ _ hh
          simp only at h1
          omega
      simp only [lookupL, h0]
      exact ih (List.pairwise_cons.mp hp).2 k hk he

theorem lookupVal_eq_lookupL {V} [Inhabited V] (t : Array (Cps × V)) (cp : Nat)
    (h : sortedTable (t.toList.map (·.1)) = true) : lookupVal cp t = lookupL cp t.toList := by
  unfold lookupVal
  split
  · rename_i i hi
    obtain ⟨hlt, he⟩ := bsearchBy_ok _ _ _ hi
    have hp := (sortedTable_pairwise _ h).1
    rw [List.pairwise_map] at hp
    have := lookupL_eq_some cp t.toList hp i (by simpa using hlt)
      (by simpa using (cmpCp_eq_iff' _ _).mp he)
    rw [this, getElem!_pos t i hlt]
    simp
  · rename_i i hi
    have hm : MonoKey (fun e : Cps × V => e.1.cmpCp cp) t.toList := by
      apply monoKey_of_pairwise
      have := cmpCp_pairwise _ cp h
      rw [List.pairwise_map] at this
      exact this
    have := bsearchBy_error _ _ hm _ hi
    symm
    apply lookupL_eq_none
    intro x hx
    have := this x hx
    simp only [Ne, cmpCp_eq_iff'] at this
    simpa using this

/-- keys strictly ascending -/
def sortedKeys {V} : List (Nat × V) → Bool
  | [] => true
  | [_] => true
  | a :: b :: r => a.1 < b.1 && sortedKeys (b :: r)


theorem sortedKeys_pairwise {V} (l : List (Nat × V)) (h : sortedKeys l = true) :
    l.Pairwise (fun a b => a.1 < b.1) := by
  induction l with
  | nil => simp
  | cons e r ih =>
    cases r with
    | nil => simp
    | cons e' r =>
      simp only [sortedKeys, Bool.and_eq_true, decide_eq_true_eq] at h
      obtain ⟨h1, h2⟩ := h
      have ihp := ih h2
      refine List.pairwise_cons.mpr ⟨?_, ihp⟩
      intro x hx
      rcases List.mem_cons.mp hx with rfl | hx
      · exact h1
      · have := (List.pairwise_cons.mp ihp).1 x hx
        omega

theorem lookup_eq_none' {V} (k : Nat) (l : List (Nat × V))
    (h : ∀ x ∈ l, x.1 ≠ k) : l.lookup k = none := by
  induction l with
  | nil => rfl
  | cons x r ih =>
    obtain ⟨a, v⟩ := x
    have h0 : a ≠ k := h (a, v) (by simp)
    have h0' : (k == a) = false := by simp; omega
    simp only [List.lookup, h0']
    exact ih (fun x hx => h x (by simp [hx]))

theorem lookup_eq_some' {V} (k : Nat) (l : List (Nat × V))
    (hp : l.Pairwise (fun a b => a.1 < b.1)) (i : Nat) (hi : i < l.length)
    (he : l[i].1 = k) : l.lookup k = some l[i].2 := by
  induction l generalizing i with
  | nil => simp at hi
  | cons x r ih =>
    obtain ⟨a, v⟩ := x
    cases i with
    | zero =>
      simp only [List.getElem_cons_zero] at he
      simp [List.lookup, he]
    | succ j =>
      simp only [List.getElem_cons_succ] at he ⊢
      have hj : j < r.length := by simpa using hi
      have h1 := (List.pairwise_cons.mp hp).1 r[j] (by simp)
      have h0' : (k == a) = false := by simp at h1 ⊢; omega
      simp only [List.lookup, h0']
      exact ih (List.pairwise_cons.mp hp).2 j hj he

theorem kvFind_eq_lookup {V} [Inhabited V] (t : Array (Nat × V)) (k : Nat)
    (h : sortedKeys t.toList = true) : kvFind t k = t.toList.lookup k := by
  have hp := sortedKeys_pairwise _ h
  unfold kvFind
  split
  · rename_i i hi
    obtain ⟨hlt, he⟩ := bsearchBy_ok _ _ _ hi
    have := lookup_eq_some' k t.toList hp i (by simpa using hlt)
      (by simpa [Nat.compare_eq_eq] using he)
    rw [this, getElem!_pos t i hlt]
    simp
  · rename_i i hi
    have hm : MonoKey (fun e : Nat × V => compare e.1 k) t.toList := by
      apply monoKey_of_pairwise
      refine hp.imp ?_
      intro a b hab
      simp only [ne_eq, Nat.compare_eq_lt, Nat.compare_eq_gt]
      omega
    have := bsearchBy_error _ _ hm _ hi
    symm
    apply lookup_eq_none'
    intro x hx
    have := this x hx
    simpa [Nat.compare_eq_eq] using this

/-- pairs `(lo, hi)` ascending and disjoint with `lo ≤ hi` -/
def sortedPairs : List (Nat × Nat) → Bool
  | [] => true
  | [a] => a.1 ≤ a.2
  | a :: b :: r => a.1 ≤ a.2 && a.2 < b.1 && sortedPairs (b :: r)


theorem sortedPairs_pairwise (l : List (Nat × Nat)) (h : sortedPairs l = true) :
    l.Pairwise (fun a b => a.2 < b.1) ∧ ∀ e ∈ l, e.1 ≤ e.2 := by
  induction l with
  | nil => simp
  | cons e r ih =>
    cases r with
    | nil => simpa [sortedPairs] using h
    | cons e' r =>
      simp only [sortedPairs, Bool.and_eq_true, decide_eq_true_eq] at h
      obtain ⟨⟨h1, h2⟩, h3⟩ := h
      obtain ⟨ihp, ihb⟩ := ih h3
      refine ⟨List.pairwise_cons.mpr ⟨?_, ihp⟩, ?_⟩
      · intro x hx
        rcases List.mem_cons.mp hx with rfl | hx
        · exact h2
        · have := (List.pairwise_cons.mp ihp).1 x hx
          have := ihb e' (by simp)
          omega
      · intro x hx
        rcases List.mem_cons.mp hx with rfl | hx
        · exact h1
        · exact ihb x hx

theorem pairCmp_eq_lt (cp : Nat) (e : Nat × Nat) : pairCmp cp e = .lt ↔ e.2 < cp := by
  unfold pairCmp; rw [ite3]; simp
theorem pairCmp_eq_gt (cp : Nat) (e : Nat × Nat) : pairCmp cp e = .gt ↔ cp ≤ e.2 ∧ cp < e.1 := by
  unfold pairCmp; rw [ite3]; simp
theorem pairCmp_eq_eq (cp : Nat) (e : Nat × Nat) :
    pairCmp cp e = .eq ↔ (decide (e.1 ≤ cp) && decide (cp ≤ e.2)) = true := by
  unfold pairCmp; rw [ite3]; simp; omega

theorem inPairs_eq_any (t : Array (Nat × Nat)) (cp : Nat) (h : sortedPairs t.toList = true) :
    inPairs t cp = t.toList.any (fun e => e.1 ≤ cp && cp ≤ e.2) := by
  obtain ⟨hp, hb⟩ := sortedPairs_pairwise _ h
  unfold inPairs
  split
  · rename_i i hi
    obtain ⟨hlt, he⟩ := bsearchBy_ok _ _ _ hi
    symm
    rw [List.any_eq_true]
    exact ⟨t[i], by simp, (pairCmp_eq_eq _ _).mp he⟩
  · rename_i i hi
    have hm : MonoKey (pairCmp cp) t.toList := by
      apply monoKey_of_pairwise
      refine hp.imp_of_mem ?_
      intro a b _ hbm hab
      have := hb b hbm
      rw [Ne, pairCmp_eq_lt, pairCmp_eq_gt]
      omega
    have := bsearchBy_error _ _ hm _ hi
    symm
    rw [List.any_eq_false]
    intro x hx
    have := this x hx
    rw [Ne, pairCmp_eq_eq] at this
    exact this

end Precis
