/-
Correctness of the modelled `slice::binary_search_by` on keys that are monotone along the table,
and its consequences for the table look-ups of the model (`isInTable`, `lookupVal`, `kvFind`, `inPairs`).
-/
import Precis.Model.Codepoints
import Precis.Model.Normalize
import Precis.Model.Rules
namespace Precis

/-- The comparison results along the table have the shape `Less* Equal? Greater*`:
once an entry is not `Less`, every later entry is `Greater`. -/
def MonoKey {α} (f : α → Ordering) (l : List α) : Prop :=
  ∀ (i j : Nat) (hij : i < j) (hj : j < l.length), f (l[i]'(by omega)) ≠ .lt → f l[j] = .gt

theorem bsearchBy_ok {α} [Inhabited α] (t : Array α) (f : α → Ordering) (i : Nat)
    (h : bsearchBy t f = .ok i) : ∃ (hi : i < t.size), f t[i] = .eq := by
  sorry

theorem bsearchBy_error {α} [Inhabited α] (t : Array α) (f : α → Ordering)
    (hm : MonoKey f t.toList) (i : Nat) (h : bsearchBy t f = .error i) :
    ∀ x ∈ t.toList, f x ≠ .eq := by
  sorry

/-- with a monotone key at most one entry compares `Equal` -/
theorem monoKey_unique {α} (f : α → Ordering) (l : List α) (hm : MonoKey f l) (i j : Nat)
    (hi : i < l.length) (hj : j < l.length) (ei : f l[i] = .eq) (ej : f l[j] = .eq) : i = j := by
  sorry

theorem monoKey_of_sorted (t : List Cps) (cp : Nat) (h : sortedTable t = true) :
    MonoKey (fun e => e.cmpCp cp) t := by
  sorry

theorem cmpCp_eq_iff (e : Cps) (cp : Nat) (h : e.lo ≤ e.hi + 1) : e.cmpCp cp = .eq ↔ e.eqCp cp = true := by
  sorry

theorem isInTable_eq_memL (t : Array Cps) (cp : Nat) (h : sortedTable t.toList = true) :
    isInTable cp t = memL cp t.toList := by
  sorry

theorem lookupVal_eq_lookupL {V} [Inhabited V] (t : Array (Cps × V)) (cp : Nat)
    (h : sortedTable (t.toList.map (·.1)) = true) : lookupVal cp t = lookupL cp t.toList := by
  sorry

/-- keys strictly ascending -/
def sortedKeys {V} : List (Nat × V) → Bool
  | [] => true
  | [_] => true
  | a :: b :: r => a.1 < b.1 && sortedKeys (b :: r)

theorem kvFind_eq_lookup {V} [Inhabited V] (t : Array (Nat × V)) (k : Nat)
    (h : sortedKeys t.toList = true) : kvFind t k = t.toList.lookup k := by
  sorry

/-- pairs `(lo, hi)` ascending and disjoint with `lo ≤ hi` -/
def sortedPairs : List (Nat × Nat) → Bool
  | [] => true
  | [a] => a.1 ≤ a.2
  | a :: b :: r => a.1 ≤ a.2 && a.2 < b.1 && sortedPairs (b :: r)

theorem inPairs_eq_any (t : Array (Nat × Nat)) (cp : Nat) (h : sortedPairs t.toList = true) :
    inPairs t cp = t.toList.any (fun e => e.1 ≤ cp && cp ≤ e.2) := by
  sorry

end Precis
