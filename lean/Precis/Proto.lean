/-
Protocol helpers shared by the driver and the specification verdicts: strings are space-separated
hexadecimal code points.
-/
namespace Precis.Proto

def hexVal (c : Char) : Option Nat :=
  if '0' ≤ c ∧ c ≤ '9' then some (c.toNat - '0'.toNat)
  else if 'a' ≤ c ∧ c ≤ 'f' then some (c.toNat - 'a'.toNat + 10)
  else if 'A' ≤ c ∧ c ≤ 'F' then some (c.toNat - 'A'.toNat + 10)
  else none

def parseHex (s : String) : Nat :=
  s.foldl (fun acc c => match hexVal c with | some v => acc * 16 + v | none => acc) 0

def parseStr (f : String) : List Nat :=
  (f.splitOn " ").filterMap (fun t => if t.isEmpty then none else some (parseHex t))

def hex4 (n : Nat) : String :=
  let s := (Nat.toDigits 16 n).map Char.toUpper
  String.ofList (List.replicate (4 - s.length) '0' ++ s)

def fmtStr (s : List Nat) : String := " ".intercalate (s.map hex4)

/-- state strings of the `stabilize` protocol (harness/src/ops.rs): family 0 = "a" repeated i+1 times; family 1 = strings
with 2- and 3-byte characters sharing lead bytes and prefixes -/
def stabFamily1 : List (List Nat) :=
  [[0x78], [0xE9], [0x79], [0xE8], [0xE9, 0xE8], [0x30AF], [0x30B0], [0xE9, 0xE9], [0x61, 0x62], [0x61], [0xE9, 0xE8, 0x30AF], [0x30AF, 0xE9]]
def stabState (family : String) (i : Nat) : List Nat :=
  if family == "1" then stabFamily1.getD (i % 12) [] else List.replicate (i + 1) 0x61
def stabIndex (family : String) (s : List Nat) : Nat :=
  if family == "1" then stabFamily1.idxOf s else s.length - 1

/-- `usize` arguments: decimal, or the boundary names the harness understands -/
def parseUsize (s : String) : Nat :=
  match s with
  | "max" => 2 ^ 64 - 1
  | "max-1" => 2 ^ 64 - 2
  | "half" => 2 ^ 63
  | _ => s.toNat!

end Precis.Proto
