/-
Model driver: reads the same protocol lines as `harness run` (optionally followed by a TAB and the
implementation's result) and prints, per line, the model's result and the specification's verdict on
the implementation's result.  `driver rle <fn>…` prints the run-length encoding of a per-code-point
model function in the same format as `harness rle`.
Imports only Model/Gen/Spec (core Lean), so it links as a native executable.
-/
import Precis.Model.Profiles
import Precis.Model.Csv
import Precis.Model.Generators
import Precis.Spec.Verdict
open Precis Precis.Proto

def fmtErr : Err → String
  | .invalid => "err:Invalid"
  | .bad cp pos p => s!"err:Bad({hex4 cp},{pos},{p.name})"
  | .notApplicable cp pos p => s!"err:NotApp({hex4 cp},{pos},{p.name})"
  | .missingRule cp pos p => s!"err:Missing({hex4 cp},{pos},{p.name})"
  | .profileRuleNA => "err:ProfileNA"
  | .undefined => "err:Undefined"

def fmtRes (r : Res (List Nat)) : String :=
  match r with
  | .ok s => "ok:" ++ fmtStr s
  | .err e => fmtErr e
  | .panic => "PANIC"

def fmtUnit (r : Res Unit) : String :=
  match r with
  | .ok _ => "ok"
  | .err e => fmtErr e
  | .panic => "PANIC"

def fmtBool (r : Res Bool) : String :=
  match r with
  | .ok b => "ok:" ++ toString b
  | .err e => fmtErr e
  | .panic => "PANIC"

def fmtCtx : CtxRes → String
  | .ok b => "ok:" ++ toString b
  | .notApplicable => "err:NotApplicable"
  | .undefined => "err:Undefined"
  | .panic => "PANIC"

def parseDpv (s : String) : DPV :=
  match s with
  | "PValid" => .pValid | "SpecClassPval" => .specClassPval | "SpecClassDis" => .specClassDis
  | "ContextJ" => .contextJ | "ContextO" => .contextO | "Disallowed" => .disallowed
  | _ => .unassigned

def ruleByName (n : String) : Option RuleId :=
  match n with
  | "zwnj" => some .zwnj | "zwj" => some .zwj | "middledot" => some .middleDot
  | "keraia" => some .keraia | "hebrew" => some .hebrew | "katakana" => some .katakana
  | "arabic" => some .arabic | "extarabic" => some .extArabic | _ => none

def profByName (n : String) : Profile :=
  match n with
  | "um" => .usernameCaseMapped | "up" => .usernameCasePreserved | "op" => .opaqueString
  | _ => .nickname

def ordCh : Option Ordering → Char
  | some .lt => 'L' | some .eq => 'E' | some .gt => 'G' | none => 'N'
def bCh (b : Bool) : Char := if b then '1' else '0'

def cmpOps (e : Cps) (cp : Nat) : String :=
  String.ofList [ordCh (e.partialCmp cp), bCh (e.ltCp cp), bCh (e.leCp cp), bCh (e.gtCp cp),
    bCh (e.geCp cp), bCh (e.eqCp cp), bCh (!e.eqCp cp), '/',
    ordCh (Cps.cpPartialCmp cp e), bCh (Cps.cpLt cp e), bCh (Cps.cpLe cp e), bCh (Cps.cpGt cp e),
    bCh (Cps.cpGe cp e), bCh (Cps.cpEq cp e), bCh (!Cps.cpEq cp e)]

def parseEntry (f : String) : Cps :=
  match f.splitOn " " with
  | ["S", c] => .single c.toNat!
  | ["R", a, b] => .range a.toNat! b.toNat!
  | _ => .single 0

def rulesOp (prof rule : String) (s : List Nat) : String :=
  let na := "err:ProfileNA"
  match prof, rule with
  | "um", "width" | "up", "width" => fmtRes (widthMappingRule s)
  | "um", "case" | "nick", "case" => fmtRes (caseMappingRule s)
  | "um", "norm" | "up", "norm" | "op", "norm" => fmtRes (normalizationFormNfc s)
  | "nick", "norm" => fmtRes (normalizationFormNfkc s)
  | "um", "dir" | "up", "dir" => fmtRes (directionalityRule s)
  | "op", "addmap" => fmtRes (opaqueAdditionalMappingRule s)
  | "nick", "addmap" => fmtRes (trimSpaces s)
  | _, _ => na

def stabilizeOp (start table : String) (family : String := "") : String :=
  -- states: see `Proto.stabState` (family 0: "a" repeated i+1 times; family 1: multi-byte strings sharing prefixes)
  let tab := ((table.splitOn " ").filter (· ≠ "")).toArray
  let st (i : Nat) : List Nat := stabState family i
  let f : List Nat → Res (List Nat) := fun s =>
    match tab[stabIndex family s]? with
    | some "E" => .err .profileRuleNA
    | some "I" => .err .invalid
    | some t => .ok (st t.toNat!)
    | none => .panic
  let (r, tr) := stabilizeTrace f stabilizeRounds (st start.toNat!) []
  fmtRes r ++ ";calls=" ++ ",".intercalate (tr.map fmtStr)

def csvPropName : Csv.Prop7 → String
  | .pvalid => "PVALID" | .freePval => "FREE_PVAL" | .contextJ => "CONTEXTJ" | .contextO => "CONTEXTO"
  | .disallowed => "DISALLOWED" | .idDis => "ID_DIS" | .unassigned => "UNASSIGNED"

def fmtCsvRow (r : Csv.Row) : String :=
  let cps := match r.cps with
    | .single c => "S:" ++ hex4 c
    | .range a b => "R:" ++ hex4 a ++ "-" ++ hex4 b
  let props := match r.props with
    | .single p => csvPropName p
    | .tuple p q => csvPropName p ++ "+" ++ csvPropName q
  "ok:" ++ cps ++ ";" ++ props ++ ";" ++ fmtStr r.desc

def hexU (n : Nat) : String := String.ofList ((Nat.toDigits 16 n).map Char.toUpper)

def fmtCps : Cps → String
  | .single c => "S" ++ hexU c
  | .range a b => "R" ++ hexU a ++ "-" ++ hexU b

def fmtSet (l : List Cps) : String := "[" ++ ",".intercalate (l.map fmtCps) ++ "]"

/-- `ucdgen|cp:kind:gc:ccc:bidi:width;…` → every table the generators emit, in canonical text -/
def ucdgenOp (rowsS : String) : String :=
  let raw : List Gen'.RawRow := ((rowsS.splitOn ";").filter (· ≠ "")).map (fun r =>
    match r.splitOn ":" with
    | [cp, kind, gc, ccc, bidi, w] =>
      { cp := parseHex cp, kind := (if kind == "f" then .first else if kind == "l" then .last else .plain),
        gc := gc, ccc := ccc.toNat!, bidi := bidi, width := if w == "-" then none else some (parseHex w) }
    | _ => default)
  match Gen'.parseUnicodeData raw with
  | none => "err:parse"
  | some rows =>
    let cats := ["Lu", "Ll", "Zs", "Mn", "Cc"]
    let sets := cats.map (fun c => (c, Gen'.gcTable c rows))
    if sets.any (fun x => x.2.isNone) then "err:set" else
    match Gen'.viramaTable rows, Gen'.unassignedTable rows, Gen'.bidiTable rows with
    | some v, some u, some b =>
      ";".intercalate (sets.map (fun x => "cat_" ++ x.1.toLower ++ "=" ++ fmtSet (x.2.getD [])))
        ++ ";unassigned=" ++ fmtSet u ++ ";virama=" ++ fmtSet v
        ++ ";width=[" ++ ",".intercalate ((Gen'.widthTable rows).map (fun e => fmtCps e.1 ++ ">" ++ hexU e.2)) ++ "]"
        ++ ";bidi=[" ++ ",".intercalate (b.map (fun e => fmtCps e.1 ++ ":" ++ e.2)) ++ "]"
    | _, _, _ => "err:gen"

/-- property files: `file:lo-hi:value;…` in LINE ORDER (any order is well-formed); one set table per
(file, value) pair the harness asks the real `UcdTableGen` for -/
def ucdpropsOp (propsS : String) : String :=
  let lines : List (String × Gen'.URow) := ((propsS.splitOn ";").filter (· ≠ "")).filterMap (fun r =>
    match r.splitOn ":" with
    | [file, range, value] =>
      (match range.splitOn "-" with
       | [a, b] =>
         let lo := parseHex a
         let hi := parseHex b
         some (file, { cps := (if lo == hi then .single lo else .range lo hi), gc := value, ccc := 0, bidi := "", width := none })
       | _ => none)
    | _ => none)
  let want : List (String × String × String) := [("s", "Greek", "s_greek"), ("s", "Hebrew", "s_hebrew"), ("s", "Han", "s_han"),
    ("j", "D", "j_d"), ("j", "L", "j_l"), ("j", "R", "j_r"), ("j", "T", "j_t"),
    ("p", "Join_Control", "p_jc"), ("p", "Noncharacter_Code_Point", "p_nc"),
    ("c", "Default_Ignorable_Code_Point", "c_di"), ("h", "L", "h_l"), ("h", "V", "h_v"), ("h", "T", "h_t")]
  let tabs := want.map (fun w =>
    let rows := (lines.filter (fun l => l.1 == w.1)).map (·.2)
    (w.2.2, Gen'.setTable (fun r => r.gc == w.2.1) rows))
  if tabs.any (fun x => x.2.isNone) then "err:set" else
  ";".intercalate (tabs.map (fun x => x.1 ++ "=" ++ fmtSet (x.2.getD [])))

def runModel (line : String) : String :=
  let f := (line.splitOn "|").toArray
  let arg (i : Nat) : String := f.getD i ""
  match arg 0 with
  | "cls.id" => (derivedProp .identifier (parseHex (arg 1))).name
  | "cls.ff" => (derivedProp .freeform (parseHex (arg 1))).name
  | "allows.id" => fmtUnit (allows (derivedProp .identifier) (parseStr (arg 1)))
  | "allows.ff" => fmtUnit (allows (derivedProp .freeform) (parseStr (arg 1)))
  | "allows.custom" =>
    let dflt := parseDpv (arg 1)
    let m : List (Nat × DPV) := ((arg 2).splitOn " ").filterMap (fun kv =>
      match kv.splitOn "=" with
      | [k, v] => some (parseHex k, parseDpv v)
      | _ => none)
    let dp := fun c => (m.lookup c).getD dflt
    fmtUnit (allows dp (parseStr (arg 3)))
  | "rule" =>
    match ruleByName (arg 1) with
    | some r => fmtCtx (applyRule r (parseStr (arg 2)) (parseUsize (arg 3)))
    | none => "PROTOCOL-ERROR"
  | "regrule" =>
    let s := parseStr (arg 1)
    let off := parseUsize (arg 2)
    match nth s off with
    | none => "none"
    | some c =>
      match getContextRule c with
      | none => "none"
      | some r => fmtCtx (applyRule r s off)
  | "ctxrule" => match getContextRule (parseHex (arg 1)) with | some r => r.name | none => "none"
  | "rules" => rulesOp (arg 1) (arg 2) (parseStr (arg 3))
  | "finddis" =>
    match findDisallowedSpace (parseStr (arg 1)) with
    | none => "none"
    | some i => s!"some:{i}"
  | "hasrtl" => toString (hasRtl (parseStr (arg 1)))
  | "bidirule" => toString (satisfyBidiRule (parseStr (arg 1)))
  | "prof" =>
    let p := profByName (arg 1)
    match arg 2 with
    | "prepare" => fmtRes (p.prepare (parseStr (arg 5)))
    | "enforce" => fmtRes (p.enforce (parseStr (arg 5)))
    | "compare" => fmtBool (p.compare (parseStr (arg 5)) (parseStr (arg 6)))
    | _ => "PROTOCOL-ERROR"
  | "stabilize" => stabilizeOp (arg 1) (arg 2) (arg 3)
  | "longspace" => "ok"   -- decided inside the harness against a straightforward reference (see harness/src/ops.rs)
  | "cmp" => cmpOps (parseEntry (arg 1)) (arg 2).toNat!
  | "composed" =>
    (match arg 1, arg 2 with
     | "nick", "round" => fmtRes (Nickname.applyEnforceRules (parseStr (arg 3)))
     | "nick", "cround" => fmtRes (Nickname.applyCompareRules (parseStr (arg 3)))
     | p, "prepare" => fmtRes ((profByName p).prepare (parseStr (arg 3)))
     | p, "enforce" => fmtRes ((profByName p).enforce (parseStr (arg 3)))
     | _, _ => "PROTOCOL-ERROR")
  | "forbidden" => "-"
  | "ucdgen" => if arg 2 == "" then ucdgenOp (arg 1) else ucdgenOp (arg 1) ++ ";" ++ ucdpropsOp (arg 2)
  | "csvrow" => (match Csv.parseLine (parseStr (arg 1)) with | some r => fmtCsvRow r | none => "err")
  | "csvfile" =>
    "[" ++ " / ".intercalate ((Csv.parseFile (parseStr (arg 2))).map (fun it =>
      match it with | .ok r => fmtCsvRow r | .err l => s!"err@{l}")) ++ "]"
  | "nfc" => fmtStr (nfc (parseStr (arg 1)))
  | "nfkc" => fmtStr (nfkc (parseStr (arg 1)))
  | _ => "PROTOCOL-ERROR"

/-! per-code-point model functions for `rle` -/
def bS (b : Bool) : String := if b then "1" else "0"
def optDpv : Option DPV → String | none => "none" | some v => v.name

/-- predecessor / successor SCALAR value -/
def prevSc (cp : Nat) : Option Nat := if cp == 0 then none else if cp == 0xE000 then some 0xD7FF else some (cp - 1)
def nextSc (cp : Nat) : Option Nat := if cp == 0x10FFFF then none else if cp == 0xD7FF then some 0xE000 else some (cp + 1)
/-- result with the probed code point written "c" and its neighbour "p" -/
def fmtPC (nb : Option Nat) (cp : Nat) (t : List Nat) : String :=
  " ".intercalate (t.map (fun x => if x == cp then "c" else if some x == nb then "p" else hex4 x))

def dirOk (s : List Nat) : String :=
  match directionalityRule s with | .ok t => (if t == s then "ok" else "changed") | _ => "err"
/-- the known deviation (interior NSM) is the model's, not the RFC's: on these templates the RFC verdict is what counts,
except where the label has an interior NSM (then the characterised deviation applies and the model's answer is expected) -/
def specDirOk (s : List Nat) : String :=
  match Spec.specDirectionality Spec.bidi16 s with | .ok _ => "ok" | _ => "err"

def evalFn (name : String) (cp : Nat) : Option String :=
  let sc := isScalar cp
  match name with
  | "is_letter_digit" => some (bS (isLetterDigit cp))
  | "is_join_control" => some (bS (isJoinControl cp))
  | "is_old_hangul_jamo" => some (bS (isOldHangulJamo cp))
  | "is_unassigned" => some (bS (isUnassigned cp))
  | "is_ascii7" => some (bS (isAscii7 cp))
  | "is_control" => some (bS (isControl cp))
  | "is_precis_ignorable_property" => some (bS (isPrecisIgnorableProperty cp))
  | "is_space" => some (bS (isSpace cp))
  | "is_symbol" => some (bS (isSymbol cp))
  | "is_punctuation" => some (bS (isPunctuation cp))
  | "is_other_letter_digit" => some (bS (isOtherLetterDigit cp))
  | "has_compat" => some (bS (hasCompat cp))
  | "has_compat_nfkc" => some (bS (sc && nfkc [cp] != [cp]))
  | "is_virama" => some (bS (isVirama cp))
  | "is_greek" => some (bS (isGreek cp))
  | "is_hebrew" => some (bS (isHebrew cp))
  | "is_hiragana" => some (bS (isHiragana cp))
  | "is_katakana" => some (bS (isKatakana cp))
  | "is_han" => some (bS (isHan cp))
  | "is_dual_joining" => some (bS (isDualJoining cp))
  | "is_left_joining" => some (bS (isLeftJoining cp))
  | "is_right_joining" => some (bS (isRightJoining cp))
  | "is_transparent" => some (bS (isTransparent cp))
  | "exception" => some (optDpv (getExceptionVal cp))
  | "backward_compatible" => some (optDpv (getBackwardCompatibleVal cp))
  | "cls_id" => some (derivedProp .identifier cp).name
  | "cls_ff" => some (derivedProp .freeform cp).name
  | "cls_id_char" => if sc then some (derivedProp .identifier cp).name else none
  | "cls_ff_char" => if sc then some (derivedProp .freeform cp).name else none
  | "ctxrule" => some (match getContextRule cp with | some r => r.name | none => "none")
  | "bidi" => some (reprStr (bidiClass cp) |>.replace "Precis.BidiClass." "")
  | "widthmap" => some (match getDecompositionMapping cp with | none => "none" | some d => hex4 d)
  | "hasrtl1" => if sc then some (bS (hasRtl [cp])) else none
  | "dir_a1" => if sc then some (match directionalityRule [0x61, cp] with | .ok t => (if t == [0x61, cp] then "ok" else "changed") | _ => "err") else none
  | "dir_1" => if sc then some (match directionalityRule [cp] with | .ok t => (if t == [cp] then "ok" else "changed") | _ => "err") else none
  | "spec_hasrtl1" => if sc then some (bS (Spec.isRtlTrigger (Spec.bidi16 cp))) else none
  | "spec_dir_a1" => if sc then some (match Spec.specDirectionality Spec.bidi16 [0x61, cp] with | .ok _ => "ok" | _ => "err") else none
  | "spec_dir_1" => if sc then some (match Spec.specDirectionality Spec.bidi16 [cp] with | .ok _ => "ok" | _ => "err") else none
  | "opmap_after" => if sc then some (match opaqueAdditionalMappingRule [0xA0, cp, 0x62] with
      | .ok t => " ".intercalate (t.map (fun x => if x == cp then "c" else hex4 x)) | _ => "err") else none
  | "nickmap_mid" => if sc then some (match trimSpaces [0x61, cp, 0x62] with
      | .ok t => " ".intercalate (t.map (fun x => if x == cp then "c" else hex4 x)) | _ => "err") else none
  | "spec_opmap_after" => if sc then some (" ".intercalate ((Spec.specOpaqueMap [0xA0, cp, 0x62]).map (fun x => if x == cp then "c" else hex4 x))) else none
  | "spec_nickmap_mid" => if sc then some (" ".intercalate ((Spec.specSpaces [0x61, cp, 0x62]).map (fun x => if x == cp then "c" else hex4 x))) else none
  | "dir_p1" => if sc then some (let s := (prevSc cp).toList ++ [cp]; match directionalityRule s with | .ok t => (if t == s then "ok" else "changed") | _ => "err") else none
  | "dir_n1" => if sc then some (let s := (nextSc cp).toList ++ [cp]; match directionalityRule s with | .ok t => (if t == s then "ok" else "changed") | _ => "err") else none
  | "spec_dir_p1" => if sc then some (match Spec.specDirectionality Spec.bidi16 ((prevSc cp).toList ++ [cp]) with | .ok _ => "ok" | _ => "err") else none
  | "spec_dir_n1" => if sc then some (match Spec.specDirectionality Spec.bidi16 ((nextSc cp).toList ++ [cp]) with | .ok _ => "ok" | _ => "err") else none
  | "width_p" => if sc then some (match widthMappingRule ([0xFF21] ++ (prevSc cp).toList ++ [cp]) with | .ok t => fmtPC (prevSc cp) cp t | _ => "err") else none
  | "spec_width_p" => if sc then some (fmtPC (prevSc cp) cp (Spec.specWidth ([0xFF21] ++ (prevSc cp).toList ++ [cp]))) else none
  | "case_p" => if sc then some (match caseMappingRule ([0x41] ++ (prevSc cp).toList ++ [cp]) with | .ok t => fmtPC (prevSc cp) cp t | _ => "err") else none
  | "spec_case_p" => if sc then some (fmtPC (prevSc cp) cp (Spec.specCase ([0x41] ++ (prevSc cp).toList ++ [cp]))) else none
  | "nickmap_trail" => if sc then some (match trimSpaces [0x61, cp, 0x20, 0x20] with | .ok t => fmtPC none cp t | _ => "err") else none
  | "spec_nickmap_trail" => if sc then some (fmtPC none cp (Spec.specSpaces [0x61, cp, 0x20, 0x20])) else none
  | "dir_rE" => if sc then some (dirOk [0x5D0, 0x2D, cp]) else none
  | "dir_rcr" => if sc then some (dirOk [0x5D0, cp, 0x5D0]) else none
  | "dir_lcl" => if sc then some (dirOk [0x61, cp, 0x61]) else none
  | "dir_rcn" => if sc then some (dirOk [0x5D0, cp, 0x5B0]) else none
  | "spec_dir_rE" => if sc then some (specDirOk [0x5D0, 0x2D, cp]) else none
  | "spec_dir_rcr" => if sc then some (specDirOk [0x5D0, cp, 0x5D0]) else none
  | "spec_dir_lcl" => if sc then some (specDirOk [0x61, cp, 0x61]) else none
  | "spec_dir_rcn" => if sc then some (specDirOk [0x5D0, cp, 0x5B0]) else none
  | "zwnj_b2" => if sc then some (fmtCtx (applyRule .zwnj [0x626, cp, 0x5BF, 0x200C, 0x626] 3)) else none
  | "zwnj_a2" => if sc then some (fmtCtx (applyRule .zwnj [0x626, 0x200C, 0x5BF, cp, 0x626] 1)) else none
  | "spec_zwnj_b2" => if sc then some (if Spec.cond .zwnj [0x626, cp, 0x5BF, 0x200C, 0x626] 3 then "ok:true" else "ok:false") else none
  | "spec_zwnj_a2" => if sc then some (if Spec.cond .zwnj [0x626, 0x200C, 0x5BF, cp, 0x626] 1 then "ok:true" else "ok:false") else none
  | "kat_with" => if sc then some (fmtCtx (applyRule .katakana [0x30FB, cp] 0)) else none
  | "arab_with" => if sc then some (fmtCtx (applyRule .arabic [0x660, cp] 0)) else none
  | "extarab_with" => if sc then some (fmtCtx (applyRule .extArabic [0x6F0, cp] 0)) else none
  | "spec_kat_with" => if sc then some (if Spec.cond .katakana [0x30FB, cp] 0 then "ok:true" else "ok:false") else none
  | "spec_arab_with" => if sc then some (if Spec.cond .arabic [0x660, cp] 0 then "ok:true" else "ok:false") else none
  | "spec_extarab_with" => if sc then some (if Spec.cond .extArabic [0x6F0, cp] 0 then "ok:true" else "ok:false") else none
  | "zs" => if sc then some (bS (isSpaceSeparator cp)) else none
  | "nonascii_zs" => if sc then some (bS (isNonAsciiSpace cp)) else none
  | "std_upper" => if sc then some (bS (isUppercase cp)) else none
  | "std_lower" => if sc then some (bS (isLowercase cp)) else none
  | "std_tolower" => if sc then some (let m := toLower cp; if m == [cp] then "id" else fmtStr m) else none
  -- specification-side functions (independent UCD / IANA data), same value syntax
  | "spec_cls_id" => some (Spec.dp63 true cp).name
  | "spec_cls_ff" => some (Spec.dp63 false cp).name
  | "spec_cls_id_char" => if sc then some (Spec.dp63 true cp).name else none
  | "spec_cls_ff_char" => if sc then some (Spec.dp63 false cp).name else none
  | "spec_ctxrule" => some (match Spec.ruleFor cp with | some r => r.name | none => "none")
  | "spec_bidi" => some (reprStr (Spec.bidi16 cp) |>.replace "Precis.BidiClass." "")
  | "spec_widthmap" => some (match Step.eval none Gen.Ucd16.widthStep cp with | none => "none" | some d => hex4 d)
  | "spec_zs" => if sc then some (bS (Spec.zs16 cp)) else none
  | "spec_nonascii_zs" => if sc then some (bS (Spec.zs16 cp && cp != 0x20)) else none
  | "spec_is_virama" => some (bS (Spec.virama63 cp))
  | "spec_is_greek" => some (bS (Spec.script63 cp == .greek))
  | "spec_is_hebrew" => some (bS (Spec.script63 cp == .hebrew))
  | "spec_is_hiragana" => some (bS (Spec.script63 cp == .hiragana))
  | "spec_is_katakana" => some (bS (Spec.script63 cp == .katakana))
  | "spec_is_han" => some (bS (Spec.script63 cp == .han))
  | "spec_is_dual_joining" => some (bS (Spec.jt63 cp == .D))
  | "spec_is_left_joining" => some (bS (Spec.jt63 cp == .L))
  | "spec_is_right_joining" => some (bS (Spec.jt63 cp == .R))
  | "spec_is_transparent" => some (bS (Spec.jt63 cp == .T))
  | "spec_is_space" => some (bS (Spec.gc63 cp == .Zs))
  | "spec_is_control" => some (bS (Spec.gc63 cp == .Cc))
  | "spec_is_letter_digit" => some (bS (Spec.isLetterDigitGc (Spec.gc63 cp)))
  | "spec_is_other_letter_digit" => some (bS (Spec.isOtherLetterDigitGc (Spec.gc63 cp)))
  | "spec_is_symbol" => some (bS (Spec.isSymbolGc (Spec.gc63 cp)))
  | "spec_is_punctuation" => some (bS (Spec.isPunctuationGc (Spec.gc63 cp)))
  | "spec_is_join_control" => some (bS (Spec.joinControl63 cp))
  | "spec_is_old_hangul_jamo" => some (bS (Spec.isOldHangulJamoHst (Spec.hst63 cp)))
  | "spec_is_unassigned" => some (bS (Spec.gc63 cp == .Cn && !Spec.nonchar63 cp && cp < 0x110000))
  | "spec_is_ascii7" => some (bS (0x21 ≤ cp && cp ≤ 0x7E))
  | "spec_is_precis_ignorable_property" => some (bS (Spec.defaultIgnorable63 cp || Spec.nonchar63 cp))
  | "spec_exception" => some (optDpv (Spec.exceptions cp))
  | _ => none

partial def rleRange (out : IO.FS.Stream) (name : String) (lo hi : Nat) : IO Unit := do
  let mut cur : Option (Nat × Nat × String) := none
  let mut cp := lo
  while cp < hi do
    let v := evalFn name cp
    match cur, v with
    | some (s, e, cv), some v' =>
      if cv == v' && e + 1 == cp then
        cur := some (s, cp, cv)
      else
        out.putStrLn s!"{name}\t{hexU s}\t{hexU e}\t{cv}"
        cur := some (cp, cp, v')
    | some (s, e, cv), none =>
      out.putStrLn s!"{name}\t{hexU s}\t{hexU e}\t{cv}"
      cur := none
    | none, some v' => cur := some (cp, cp, v')
    | none, none => pure ()
    cp := cp + 1
  match cur with
  | some (s, e, cv) => out.putStrLn s!"{name}\t{hexU s}\t{hexU e}\t{cv}"
  | none => pure ()

def rleSamples : List Nat := Id.run do
  let mut l : List Nat := []
  for k in [16:32] do
    let p := 2 ^ k
    l := l ++ [p - 1, p, p + 1]
  l := l ++ [2 ^ 32 - 2, 2 ^ 32 - 1, 0x7fffffff, 0x80000000]
  let l2 := (l.filter (· ≥ 0x110100)).toArray.qsort (· < ·) |>.toList
  return l2.eraseDups

partial def loop (inp out : IO.FS.Stream) : IO Unit := do
  let line ← inp.getLine
  if line.isEmpty then return ()
  let line := (line.dropEndWhile (fun c => c == '\n' || c == '\r')).toString
  if line.isEmpty then
    loop inp out
  else
    let parts := line.splitOn "\t"
    let case := parts.head!
    let impl := parts.getD 1 ""
    let m := runModel case
    let v := if impl.isEmpty then "n/a" else Precis.Spec.verdict case impl
    out.putStrLn (m ++ "\t" ++ v)
    loop inp out

def main (args : List String) : IO UInt32 := do
  let out ← IO.getStdout
  match args with
  | "rle" :: names =>
    for n in names do
      rleRange out n 0 0x110100
      for c in rleSamples do
        match evalFn n c with
        | some v => out.putStrLn s!"{n}\t{hexU c}\t{hexU c}\t{v}"
        | none => pure ()
    out.flush
    return 0
  | _ =>
    loop (← IO.getStdin) out
    out.flush
    return 0
