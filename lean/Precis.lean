-- Root of the `Precis` library: everything the checks need is built by `lake build Precis driver`.
import Precis.Props.C02
import Precis.Props.C03
import Precis.Props.C09
import Precis.Props.C10
import Precis.Props.C11
import Precis.Props.C12
import Precis.Props.C13
import Precis.Props.C14
import Precis.Props.C18
import Precis.Props.C04
import Precis.Props.C05
import Precis.Props.C06
import Precis.Props.C07
import Precis.Props.C01
import Precis.Props.C08
import Precis.Props.C17
import Precis.Props.C16
