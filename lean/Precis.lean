import Precis.Model.Types
import Precis.Gen.CoreTables
import Precis.Gen.CtxTables
import Precis.Gen.ProfTables
import Precis.Gen.StdCase
import Precis.Gen.Norm
