// One protocol line -> one canonical result, computed by the real code under catch_unwind.
use precis_core::context;
use precis_core::profile::{stabilize, PrecisFastInvocation, Profile, Rules};
use precis_core::{
    Codepoints, DerivedPropertyValue, Error, FreeformClass, IdentifierClass, StringClass,
    UnexpectedError,
};
use precis_profiles::{Nickname, OpaqueString, UsernameCaseMapped, UsernameCasePreserved};
use std::borrow::Cow;
use std::cell::RefCell;
use std::collections::HashMap;
use std::panic::{catch_unwind, AssertUnwindSafe};

pub fn parse_str(f: &str) -> String {
    let mut s = String::new();
    for tok in f.split(' ') {
        if tok.is_empty() {
            continue;
        }
        let cp = u32::from_str_radix(tok, 16).unwrap_or_else(|_| proto("hex"));
        s.push(char::from_u32(cp).unwrap_or_else(|| proto("scalar")));
    }
    s
}

pub fn fmt_str(s: &str) -> String {
    let mut out = String::new();
    for (i, c) in s.chars().enumerate() {
        if i > 0 {
            out.push(' ');
        }
        out.push_str(&format!("{:04X}", c as u32));
    }
    out
}

pub fn dpv_name(v: DerivedPropertyValue) -> &'static str {
    match v {
        DerivedPropertyValue::PValid => "PValid",
        DerivedPropertyValue::SpecClassPval => "SpecClassPval",
        DerivedPropertyValue::SpecClassDis => "SpecClassDis",
        DerivedPropertyValue::ContextJ => "ContextJ",
        DerivedPropertyValue::ContextO => "ContextO",
        DerivedPropertyValue::Disallowed => "Disallowed",
        DerivedPropertyValue::Unassigned => "Unassigned",
    }
}

fn dpv_parse(s: &str) -> DerivedPropertyValue {
    match s {
        "PValid" => DerivedPropertyValue::PValid,
        "SpecClassPval" => DerivedPropertyValue::SpecClassPval,
        "SpecClassDis" => DerivedPropertyValue::SpecClassDis,
        "ContextJ" => DerivedPropertyValue::ContextJ,
        "ContextO" => DerivedPropertyValue::ContextO,
        "Disallowed" => DerivedPropertyValue::Disallowed,
        "Unassigned" => DerivedPropertyValue::Unassigned,
        _ => proto("bad dpv"),
    }
}

pub fn fmt_err(e: &Error) -> String {
    match e {
        Error::Invalid => "err:Invalid".to_string(),
        Error::BadCodepoint(i) => format!(
            "err:Bad({:04X},{},{})",
            i.cp,
            i.position,
            dpv_name(i.property)
        ),
        Error::Unexpected(u) => match u {
            UnexpectedError::ContextRuleNotApplicable(i) => format!(
                "err:NotApp({:04X},{},{})",
                i.cp,
                i.position,
                dpv_name(i.property)
            ),
            UnexpectedError::MissingContextRule(i) => format!(
                "err:Missing({:04X},{},{})",
                i.cp,
                i.position,
                dpv_name(i.property)
            ),
            UnexpectedError::ProfileRuleNotApplicable => "err:ProfileNA".to_string(),
            UnexpectedError::Undefined => "err:Undefined".to_string(),
        },
    }
}

fn fmt_cow(r: Result<Cow<str>, Error>) -> String {
    match r {
        Ok(s) => format!("ok:{}", fmt_str(&s)),
        Err(e) => fmt_err(&e),
    }
}

fn fmt_unit(r: Result<(), Error>) -> String {
    match r {
        Ok(()) => "ok".to_string(),
        Err(e) => fmt_err(&e),
    }
}

fn fmt_bool(r: Result<bool, Error>) -> String {
    match r {
        Ok(b) => format!("ok:{}", b),
        Err(e) => fmt_err(&e),
    }
}

fn fmt_ctx(r: Result<bool, context::ContextRuleError>) -> String {
    match r {
        Ok(b) => format!("ok:{}", b),
        Err(context::ContextRuleError::NotApplicable) => "err:NotApplicable".to_string(),
        Err(context::ContextRuleError::Undefined) => "err:Undefined".to_string(),
    }
}

struct CustomClass {
    map: HashMap<u32, DerivedPropertyValue>,
    default: DerivedPropertyValue,
}

impl StringClass for CustomClass {
    fn get_value_from_char(&self, c: char) -> DerivedPropertyValue {
        self.get_value_from_codepoint(c as u32)
    }
    fn get_value_from_codepoint(&self, cp: u32) -> DerivedPropertyValue {
        *self.map.get(&cp).unwrap_or(&self.default)
    }
}

fn rule_by_name(name: &str) -> context::ContextRule {
    match name {
        "zwnj" => context::rule_zero_width_nonjoiner,
        "zwj" => context::rule_zero_width_joiner,
        "middledot" => context::rule_middle_dot,
        "keraia" => context::rule_greek_lower_numeral_sign_keraia,
        "hebrew" => context::rule_hebrew_punctuation,
        "katakana" => context::rule_katakana_middle_dot,
        "arabic" => context::rule_arabic_indic_digits,
        "extarabic" => context::rule_extended_arabic_indic_digits,
        _ => proto("bad rule name"),
    }
}

pub fn rule_name_of(cp: u32) -> &'static str {
    // identify the registered rule by function pointer identity against the public rule functions
    match context::get_context_rule(cp) {
        None => "none",
        Some(f) => {
            let names = [
                "zwnj", "zwj", "middledot", "keraia", "hebrew", "katakana", "arabic", "extarabic",
            ];
            for n in names.iter() {
                if rule_by_name(n) as usize == f as usize {
                    return n;
                }
            }
            "unknown"
        }
    }
}

fn parse_usize(s: &str) -> usize {
    // decimal, or "max", "max-1", "half" for boundary positions
    match s {
        "max" => usize::MAX,
        "max-1" => usize::MAX - 1,
        "half" => 1usize << 63,
        _ => s.parse().unwrap_or_else(|_| proto("usize")),
    }
}

fn cmp_ops(e: &Codepoints, cp: u32) -> String {
    use std::cmp::Ordering;
    let o = |x: Option<Ordering>| match x {
        Some(Ordering::Less) => 'L',
        Some(Ordering::Equal) => 'E',
        Some(Ordering::Greater) => 'G',
        None => 'N',
    };
    let b = |x: bool| if x { '1' } else { '0' };
    let mut s = String::new();
    // entry on the left
    s.push(o(e.partial_cmp(&cp)));
    s.push(b(e.lt(&cp)));
    s.push(b(e.le(&cp)));
    s.push(b(e.gt(&cp)));
    s.push(b(e.ge(&cp)));
    s.push(b(e.eq(&cp)));
    s.push(b(e.ne(&cp)));
    s.push('/');
    // code point on the left
    s.push(o(cp.partial_cmp(e)));
    s.push(b(cp.lt(e)));
    s.push(b(cp.le(e)));
    s.push(b(cp.gt(e)));
    s.push(b(cp.ge(e)));
    s.push(b(cp.eq(e)));
    s.push(b(cp.ne(e)));
    s
}

fn parse_entry(f: &str) -> Codepoints {
    let t: Vec<&str> = f.split(' ').collect();
    match t[0] {
        "S" => Codepoints::Single(t[1].parse().unwrap()),
        "R" => Codepoints::Range(std::ops::RangeInclusive::new(
            t[1].parse().unwrap(),
            t[2].parse().unwrap(),
        )),
        _ => proto("bad entry"),
    }
}

// the three ways an input can be handed to the API (C16): borrowed, owned, Cow
fn with_form<'a, P: Profile>(
    p: &P,
    op: &str,
    form: &str,
    s: &'a str,
) -> Result<Cow<'a, str>, Error> {
    match (op, form) {
        ("prepare", "b") => p.prepare(s),
        ("prepare", "o") => p.prepare(s.to_string()),
        ("prepare", "c") => p.prepare(Cow::Borrowed(s)),
        ("prepare", "C") => p.prepare(Cow::<str>::Owned(s.to_string())),
        ("enforce", "b") => p.enforce(s),
        ("enforce", "o") => p.enforce(s.to_string()),
        ("enforce", "c") => p.enforce(Cow::Borrowed(s)),
        ("enforce", "C") => p.enforce(Cow::<str>::Owned(s.to_string())),
        _ => proto("bad op/form"),
    }
}

fn static_form<'a, P: PrecisFastInvocation>(
    op: &str,
    form: &str,
    s: &'a str,
) -> Result<Cow<'a, str>, Error> {
    match (op, form) {
        ("prepare", "b") => P::prepare(s),
        ("prepare", "o") => P::prepare(s.to_string()),
        ("prepare", "c") => P::prepare(Cow::Borrowed(s)),
        ("prepare", "C") => P::prepare(Cow::<str>::Owned(s.to_string())),
        ("enforce", "b") => P::enforce(s),
        ("enforce", "o") => P::enforce(s.to_string()),
        ("enforce", "c") => P::enforce(Cow::Borrowed(s)),
        ("enforce", "C") => P::enforce(Cow::<str>::Owned(s.to_string())),
        _ => proto("bad op/form"),
    }
}

thread_local! {
    // long-lived instances (C16: history independence)
    static LONG_UM: UsernameCaseMapped = UsernameCaseMapped::new();
    static LONG_UP: UsernameCasePreserved = UsernameCasePreserved::new();
    static LONG_OP: OpaqueString = OpaqueString::new();
    static LONG_NICK: Nickname = Nickname::new();
}

fn profile_op_one(prof: &str, op: &str, how: &str, form: &str, a: &str, b: &str) -> String {
    // how: "f" fresh instance, "l" long-lived instance, "s" static fast invocation
    macro_rules! go {
        ($T:ty, $LONG:ident) => {{
            if op == "compare" {
                match (how, form) {
                    ("f", "o") => fmt_bool(<$T>::new().compare(a.to_string(), b.to_string())),
                    ("f", _) => fmt_bool(<$T>::new().compare(a, b)),
                    ("l", "o") => $LONG.with(|p| fmt_bool(p.compare(a.to_string(), b.to_string()))),
                    ("l", _) => $LONG.with(|p| fmt_bool(p.compare(a, b))),
                    ("s", "o") => fmt_bool(<$T as PrecisFastInvocation>::compare(
                        a.to_string(),
                        b.to_string(),
                    )),
                    ("s", _) => fmt_bool(<$T as PrecisFastInvocation>::compare(a, b)),
                    _ => proto("bad how"),
                }
            } else {
                match how {
                    "f" => fmt_cow(with_form(&<$T>::new(), op, form, a)),
                    "l" => $LONG.with(|p| fmt_cow(with_form(p, op, form, a))),
                    "s" => fmt_cow(static_form::<$T>(op, form, a)),
                    _ => proto("bad how"),
                }
            }
        }};
    }
    match prof {
        "um" => go!(UsernameCaseMapped, LONG_UM),
        "up" => go!(UsernameCasePreserved, LONG_UP),
        "op" => go!(OpaqueString, LONG_OP),
        "nick" => go!(Nickname, LONG_NICK),
        _ => proto("bad profile"),
    }
}

const HOWS: [&str; 3] = ["f", "l", "s"];
const FORMS: [&str; 4] = ["b", "o", "c", "C"];

fn fnv(a: &str, b: &str) -> usize {
    let mut h: u64 = 0xcbf29ce484222325;
    for x in a.bytes().chain([0xffu8]).chain(b.bytes()) {
        h ^= x as u64;
        h = h.wrapping_mul(0x100000001b3);
    }
    (h >> 7) as usize
}

/// C16 in every property's correspondence: the requested (instance kind, argument form) and one OTHER combination,
/// chosen by a hash of the arguments, must give the same content; with how = "*" ALL twelve combinations are compared.
/// A difference is reported as the value `FORMS-DIFFER[...]` (which no model output equals).
pub fn profile_op(prof: &str, op: &str, how: &str, form: &str, a: &str, b: &str) -> String {
    if how == "*" {
        let first = profile_op_one(prof, op, "f", "b", a, b);
        for h in HOWS.iter() {
            for f in FORMS.iter() {
                let r = profile_op_one(prof, op, h, f, a, b);
                if r != first {
                    return format!("FORMS-DIFFER[f/b={} ; {}/{}={}]", first, h, f, r);
                }
            }
        }
        return first;
    }
    let r = profile_op_one(prof, op, how, form, a, b);
    let k = fnv(a, b);
    let (h2, f2) = (HOWS[k % 3], FORMS[(k / 3) % 4]);
    if h2 != how || f2 != form {
        let r2 = profile_op_one(prof, op, h2, f2, a, b);
        if r2 != r {
            return format!("FORMS-DIFFER[{}/{}={} ; {}/{}={}]", how, form, r, h2, f2, r2);
        }
    }
    r
}

fn rules_op(prof: &str, rule: &str, s: &str) -> String {
    // every rule is evaluated on a borrowed and on an owned argument (the Cow variant an earlier rule may hand over)
    macro_rules! go {
        ($p:expr) => {{
            let p = $p;
            let (rb, ro) = match rule {
                "width" => (
                    fmt_cow(p.width_mapping_rule(s)),
                    fmt_cow(p.width_mapping_rule(s.to_string())),
                ),
                "addmap" => (
                    fmt_cow(p.additional_mapping_rule(s)),
                    fmt_cow(p.additional_mapping_rule(s.to_string())),
                ),
                "case" => (
                    fmt_cow(p.case_mapping_rule(s)),
                    fmt_cow(p.case_mapping_rule(s.to_string())),
                ),
                "norm" => (
                    fmt_cow(p.normalization_rule(s)),
                    fmt_cow(p.normalization_rule(s.to_string())),
                ),
                "dir" => (
                    fmt_cow(p.directionality_rule(s)),
                    fmt_cow(p.directionality_rule(s.to_string())),
                ),
                _ => proto("bad rule"),
            };
            if rb != ro {
                format!("FORMS-DIFFER[borrowed={} ; owned={}]", rb, ro)
            } else {
                rb
            }
        }};
    }
    match prof {
        "um" => go!(UsernameCaseMapped::new()),
        "up" => go!(UsernameCasePreserved::new()),
        "op" => go!(OpaqueString::new()),
        "nick" => go!(Nickname::new()),
        _ => proto("bad profile"),
    }
}

// composition of the profile's public rules in the order the RFC gives (implementation-level oracle for C04-C06)
fn composed(prof: &str, op: &str, s: &str) -> String {
    fn nonempty<'a>(s: Cow<'a, str>) -> Result<Cow<'a, str>, Error> {
        if s.is_empty() {
            Err(Error::Invalid)
        } else {
            Ok(s)
        }
    }
    let r: Result<String, Error> = (|| match (prof, op) {
        ("um", _) | ("up", _) => {
            let id = IdentifierClass::default();
            let p = UsernameCaseMapped::new();
            let w = p.width_mapping_rule(s)?;
            let w = nonempty(w)?;
            id.allows(&w)?;
            if op == "prepare" {
                return Ok(w.into_owned());
            }
            let c = if prof == "um" {
                p.case_mapping_rule(w)?
            } else {
                w
            };
            let n = p.normalization_rule(c)?;
            let n = nonempty(n)?;
            let d = p.directionality_rule(n)?;
            Ok(d.into_owned())
        }
        ("op", _) => {
            let ff = FreeformClass::default();
            let p = OpaqueString::new();
            let w = nonempty(Cow::from(s))?;
            ff.allows(&w)?;
            if op == "prepare" {
                return Ok(w.into_owned());
            }
            let m = p.additional_mapping_rule(w)?;
            let n = p.normalization_rule(m)?;
            let n = nonempty(n)?;
            Ok(n.into_owned())
        }
        ("nick", _) => {
            let ff = FreeformClass::default();
            let p = Nickname::new();
            // one round of the enforcement rules (op = "round") or of the comparison rules (op = "cround")
            let w = nonempty(Cow::from(s))?;
            ff.allows(&w)?;
            if op == "prepare" {
                return Ok(w.into_owned());
            }
            let m = p.additional_mapping_rule(w)?;
            if op == "cround" {
                let c = p.case_mapping_rule(m)?;
                let n = p.normalization_rule(c)?;
                return Ok(n.into_owned());
            }
            let n = p.normalization_rule(m)?;
            let n = nonempty(n)?;
            Ok(n.into_owned())
        }
        _ => proto("bad composed"),
    })();
    match r {
        Ok(s) => format!("ok:{}", fmt_str(&s)),
        Err(e) => fmt_err(&e),
    }
}

// state strings: family 0 = "a" repeated i+1 times; family 1 = strings with 2- and 3-byte characters that share lead
// bytes and prefixes (a byte-wise comparison, a byte-wise common prefix or a pointer comparison goes wrong on these)
const FAMILY1: [&str; 12] = ["x", "\u{e9}", "y", "\u{e8}", "\u{e9}\u{e8}", "\u{30af}", "\u{30b0}", "\u{e9}\u{e9}", "ab", "a", "\u{e9}\u{e8}\u{30af}", "\u{30af}\u{e9}"];

fn stabilize_op(start: &str, table: &str, family: &str) -> String {
    // table entries: next state index, "E" (rule's own error), "I" (Invalid).  A transition to a state whose string is a
    // PREFIX of the current one is handed back as a borrowed prefix of the input (Cow::Borrowed), any other as an owned
    // string: both Cow variants are exercised.
    let tab: Vec<&str> = table.split(' ').filter(|t| !t.is_empty()).collect();
    let calls: RefCell<Vec<String>> = RefCell::new(Vec::new());
    let fam1 = family == "1";
    let state_str = |i: usize| -> String { if fam1 { FAMILY1[i % FAMILY1.len()].to_string() } else { "a".repeat(i + 1) } };
    let state_of = |s: &str| -> usize { if fam1 { FAMILY1.iter().position(|x| *x == s).unwrap_or_else(|| proto("state")) } else { s.len() - 1 } };
    let start_i: usize = start.parse().unwrap_or_else(|_| proto("usize"));
    let f = |s: &str| -> Result<Option<usize>, Error> {
        calls.borrow_mut().push(fmt_str(s));
        let i = state_of(s);
        match tab[i] {
            "E" => Err(Error::Unexpected(UnexpectedError::ProfileRuleNotApplicable)),
            "I" => Err(Error::Invalid),
            t => Ok(Some(t.parse().unwrap_or_else(|_| proto("usize")))),
        }
    };
    let res = stabilize(state_str(start_i), |s| {
        let j = f(s)?.unwrap();
        let t = state_str(j);
        if s.starts_with(t.as_str()) {
            Ok(Cow::Borrowed(&s[..t.len()]))
        } else {
            Ok(Cow::Owned(t))
        }
    });
    let r = fmt_cow(res);
    format!("{};calls={}", r, calls.borrow().join(","))
}

fn run_inner(line: &str) -> String {
    let f: Vec<&str> = line.split('|').collect();
    let op = f[0];
    let arg = |i: usize| -> &str { f.get(i).copied().unwrap_or("") };
    match op {
        "cls.id" => {
            let cp = u32::from_str_radix(arg(1), 16).unwrap();
            dpv_name(IdentifierClass::default().get_value_from_codepoint(cp)).to_string()
        }
        "cls.ff" => {
            let cp = u32::from_str_radix(arg(1), 16).unwrap();
            dpv_name(FreeformClass::default().get_value_from_codepoint(cp)).to_string()
        }
        "allows.id" => fmt_unit(IdentifierClass::default().allows(parse_str(arg(1)))),
        "allows.ff" => fmt_unit(FreeformClass::default().allows(parse_str(arg(1)))),
        "allows.custom" => {
            // allows.custom|default|cp=V cp=V ...|label
            let mut map = HashMap::new();
            for kv in arg(2).split(' ').filter(|t| !t.is_empty()) {
                let (k, v) = kv.split_once('=').unwrap();
                map.insert(u32::from_str_radix(k, 16).unwrap(), dpv_parse(v));
            }
            let c = CustomClass {
                map,
                default: dpv_parse(arg(1)),
            };
            fmt_unit(c.allows(parse_str(arg(3))))
        }
        "rule" => {
            // rule|name|label|offset
            let s = parse_str(arg(2));
            fmt_ctx(rule_by_name(arg(1))(&s, parse_usize(arg(3))))
        }
        "regrule" => {
            // registered rule for the code point at `offset` in the label, applied there
            let s = parse_str(arg(1));
            let off = parse_usize(arg(2));
            match s.chars().nth(off) {
                None => "none".to_string(),
                Some(c) => match context::get_context_rule(c as u32) {
                    None => "none".to_string(),
                    Some(r) => fmt_ctx(r(&s, off)),
                },
            }
        }
        "ctxrule" => rule_name_of(u32::from_str_radix(arg(1), 16).unwrap()).to_string(),
        "rules" => rules_op(arg(1), arg(2), &parse_str(arg(3))),
        "composed" => composed(arg(1), arg(2), &parse_str(arg(3))),
        "finddis" => {
            let s = parse_str(arg(1));
            match precis_profiles::verif_hooks::find_disallowed_space(&s) {
                None => "none".to_string(),
                Some(i) => format!("some:{}", i),
            }
        }
        "hasrtl" => format!(
            "{}",
            precis_profiles::verif_hooks::has_rtl(&parse_str(arg(1)))
        ),
        "bidirule" => format!(
            "{}",
            precis_profiles::verif_hooks::satisfy_bidi_rule(&parse_str(arg(1)))
        ),
        "prof" => {
            // prof|um|enforce|how|form|a|b
            profile_op(
                arg(1),
                arg(2),
                arg(3),
                arg(4),
                &parse_str(arg(5)),
                &parse_str(arg(6)),
            )
        }
        "stabilize" => stabilize_op(arg(1), arg(2), arg(3)),
        "longspace" => {
            // longspace|<bytes>|<tail>: a label of about <bytes> bytes (words of 1..7 letters separated by single spaces: nothing
            // to repair) followed by <tail>; both space rules are compared with a straightforward reference INSIDE the harness
            // (the list-based Lean model is quadratic on such lengths).  Offsets beyond 16 bits only exist here.
            use precis_profiles::verif_hooks::is_space_separator;
            let n: usize = arg(1).parse().unwrap_or_else(|_| proto("usize"));
            let tail = parse_str(arg(2));
            let mut s = String::with_capacity(n + 16);
            let mut k = 0usize;
            while s.len() < n {
                let w = 1 + (k * 5) % 7;
                for j in 0..w { s.push((b'a' + ((k + j) % 26) as u8) as char); }
                s.push(' ');
                k += 1;
            }
            s.pop();
            s.push_str(&tail);
            let mapped: String = s.chars().map(|c| if is_space_separator(c) { ' ' } else { c }).collect();
            let want_nick: String = mapped.split(' ').filter(|w| !w.is_empty()).collect::<Vec<_>>().join(" ");
            let want_op: String = s.chars().map(|c| if c != ' ' && is_space_separator(c) { ' ' } else { c }).collect();
            let got_nick = Nickname::new().additional_mapping_rule(s.as_str()).map(|x| x.into_owned());
            let got_op = OpaqueString::new().additional_mapping_rule(s.as_str()).map(|x| x.into_owned());
            let diff = |a: &str, b: &str| a.bytes().zip(b.bytes()).position(|(x, y)| x != y).unwrap_or(a.len().min(b.len()));
            match (got_nick, got_op) {
                (Ok(a), Ok(b)) => {
                    if a != want_nick { format!("MISMATCH:nickname rule differs from the reference at byte {} (lengths {} / {})", diff(&a, &want_nick), a.len(), want_nick.len()) }
                    else if b != want_op { format!("MISMATCH:opaque rule differs from the reference at byte {}", diff(&b, &want_op)) }
                    else { "ok".to_string() }
                }
                _ => "err".to_string(),
            }
        }
        "cmp" => {
            let e = parse_entry(arg(1));
            let cp: u32 = arg(2).parse().unwrap();
            cmp_ops(&e, cp)
        }
        "forbidden" => "-".to_string(),
        "nfc" => {
            use unicode_normalization::UnicodeNormalization;
            fmt_str(&parse_str(arg(1)).nfc().collect::<String>())
        }
        "nfkc" => {
            use unicode_normalization::UnicodeNormalization;
            fmt_str(&parse_str(arg(1)).nfkc().collect::<String>())
        }
        "csvrow" => crate::tools::csv_row(arg(1), ""),
        "csvfile" => crate::tools::csv_file(arg(1), arg(2)),
        _ => proto("unknown op"),
    }
}

pub struct ProtoError(pub &'static str);

pub fn proto(msg: &'static str) -> ! {
    std::panic::panic_any(ProtoError(msg))
}

pub fn run_line(line: &str) -> String {
    match catch_unwind(AssertUnwindSafe(|| run_inner(line))) {
        Ok(s) => s,
        Err(p) => match p.downcast_ref::<ProtoError>() {
            Some(e) => format!("PROTOCOL-ERROR:{}", e.0),
            None => "PANIC".to_string(),
        },
    }
}
