// precis-tools side: real generators on synthetic UCD directories (C15), registry CSV parser (C17),
// thread/first-use exploration and structural facts (C16).
use precis_core::profile::{PrecisFastInvocation, Profile};
use precis_profiles::{Nickname, OpaqueString, UsernameCaseMapped, UsernameCasePreserved};
use precis_tools::{
    BidiClassGen, CsvLineParser, DerivedProperties, DerivedProperty, GeneralCategoryGen,
    PrecisDerivedProperty, RustCodeGen, UcdFileGen, UcdTableGen, UnassignedTableGen, ViramaTableGen,
    WidthMappingTableGen, DerivedJoiningType, HangulSyllableType, UnicodeGen,
};
use std::path::Path;
use std::str::FromStr;

fn prop_name(p: &DerivedProperty) -> &'static str {
    match p {
        DerivedProperty::PValid => "PVALID",
        DerivedProperty::FreePVal => "FREE_PVAL",
        DerivedProperty::ContextJ => "CONTEXTJ",
        DerivedProperty::ContextO => "CONTEXTO",
        DerivedProperty::Disallowed => "DISALLOWED",
        DerivedProperty::IdDis => "ID_DIS",
        DerivedProperty::Unassigned => "UNASSIGNED",
    }
}

fn fmt_row(r: &PrecisDerivedProperty) -> String {
    let cps = match r.codepoints {
        ucd_parse::Codepoints::Single(c) => format!("S:{:04X}", c.value()),
        ucd_parse::Codepoints::Range(r) => format!("R:{:04X}-{:04X}", r.start.value(), r.end.value()),
    };
    let props = match r.properties {
        DerivedProperties::Single(p) => prop_name(&p).to_string(),
        DerivedProperties::Tuple((a, b)) => format!("{}+{}", prop_name(&a), prop_name(&b)),
    };
    format!("ok:{};{};{}", cps, props, crate::ops::fmt_str(&r.description))
}

// csvrow|<line as hex code points>
pub fn csv_row(line_hex: &str, _rest: &str) -> String {
    let line = crate::ops::parse_str(line_hex);
    match PrecisDerivedProperty::from_str(&line) {
        Ok(r) => fmt_row(&r),
        Err(_) => "err".to_string(),
    }
}

// csvfile|<dir>|<file content as hex code points> : CsvLineParser::from_path over a real file
pub fn csv_file(dir: &str, content_hex: &str) -> String {
    let content = crate::ops::parse_str(content_hex);
    let path = Path::new(dir).join(format!("csv-{}.csv", std::process::id()));
    std::fs::write(&path, content.as_bytes()).unwrap();
    let parser: CsvLineParser<std::fs::File, PrecisDerivedProperty> =
        CsvLineParser::from_path(&path).unwrap();
    let mut out: Vec<String> = vec![];
    for r in parser {
        match r {
            Ok(row) => out.push(fmt_row(&row)),
            Err(e) => out.push(match e.line() {
                Some(l) => format!("err@{}", l),
                None => "err@none".to_string(),
            }),
        }
    }
    let _ = std::fs::remove_file(&path);
    format!("[{}]", out.join(" / "))
}

pub fn csv(args: &[String]) {
    // csv <file>: parse an existing registry file, print one line per row
    let parser: CsvLineParser<std::fs::File, PrecisDerivedProperty> =
        CsvLineParser::from_path(&args[0]).unwrap();
    for r in parser {
        match r {
            Ok(row) => println!("{}", fmt_row(&row)),
            Err(e) => println!("err@{:?}", e.line()),
        }
    }
}

// ucdgen <ucd_dir> <out_dir>: run the real generators the two build scripts use on a UCD directory that
// contains UnicodeData.txt (general categories, unassigned, virama, bidi classes, width mappings, Zs)
pub fn ucdgen(args: &[String]) {
    let ucd = Path::new(&args[0]);
    let out = Path::new(&args[1]);
    let r = std::panic::catch_unwind(|| -> Result<(), precis_tools::Error> {
        let mut gen = RustCodeGen::new(out.join("gc.rs"))?;
        let mut ucd_gen = UcdFileGen::new(ucd);
        let mut gc_gen = GeneralCategoryGen::new();
        for (a, b) in [("Lu", "cat_lu"), ("Ll", "cat_ll"), ("Zs", "cat_zs"), ("Mn", "cat_mn"), ("Cc", "cat_cc")] {
            gc_gen.add(Box::new(UcdTableGen::new(a, b)));
        }
        gc_gen.add(Box::new(UnassignedTableGen::new("unassigned")));
        gc_gen.add(Box::new(ViramaTableGen::new("virama")));
        gc_gen.add(Box::new(WidthMappingTableGen::new("wide_narrow_mapping")));
        ucd_gen.add(Box::new(gc_gen));
        gen.add(Box::new(ucd_gen));
        gen.generate_code()?;
        let mut gen = RustCodeGen::new(out.join("bidi.rs"))?;
        let mut ucd_gen = UcdFileGen::new(ucd);
        let mut gc_gen = GeneralCategoryGen::new();
        gc_gen.add(Box::new(BidiClassGen::new("bidi_class_table")));
        ucd_gen.add(Box::new(gc_gen));
        gen.add(Box::new(ucd_gen));
        gen.generate_code()?;
        // property files (Scripts, DerivedJoiningType, PropList, DerivedCoreProperties, HangulSyllableType): the
        // UcdTableGen instances the core build script uses, through UnicodeGen<T>
        if ucd.join("Scripts.txt").exists() {
            let mut gen = RustCodeGen::new(out.join("props.rs"))?;
            let mut ucd_gen = UcdFileGen::new(ucd);
            let mut script_gen: UnicodeGen<ucd_parse::Script> = UnicodeGen::new();
            for (a, b) in [("Greek", "s_greek"), ("Hebrew", "s_hebrew"), ("Han", "s_han")] {
                script_gen.add(Box::new(UcdTableGen::new(a, b)));
            }
            let mut djt_gen: UnicodeGen<DerivedJoiningType> = UnicodeGen::new();
            for (a, b) in [("D", "j_d"), ("L", "j_l"), ("R", "j_r"), ("T", "j_t")] {
                djt_gen.add(Box::new(UcdTableGen::new(a, b)));
            }
            let mut prop_gen: UnicodeGen<ucd_parse::Property> = UnicodeGen::new();
            prop_gen.add(Box::new(UcdTableGen::new("Join_Control", "p_jc")));
            prop_gen.add(Box::new(UcdTableGen::new("Noncharacter_Code_Point", "p_nc")));
            let mut core_gen: UnicodeGen<ucd_parse::CoreProperty> = UnicodeGen::new();
            core_gen.add(Box::new(UcdTableGen::new("Default_Ignorable_Code_Point", "c_di")));
            let mut hst_gen: UnicodeGen<HangulSyllableType> = UnicodeGen::new();
            for (a, b) in [("L", "h_l"), ("V", "h_v"), ("T", "h_t")] {
                hst_gen.add(Box::new(UcdTableGen::new(a, b)));
            }
            ucd_gen.add(Box::new(script_gen));
            ucd_gen.add(Box::new(djt_gen));
            ucd_gen.add(Box::new(prop_gen));
            ucd_gen.add(Box::new(core_gen));
            ucd_gen.add(Box::new(hst_gen));
            gen.add(Box::new(ucd_gen));
            gen.generate_code()?;
        }
        Ok(())
    });
    match r {
        Ok(Ok(())) => println!("ok"),
        Ok(Err(e)) => println!("err:{}", e),
        Err(_) => println!("PANIC"),
    }
}

pub fn sizes() {
    println!("size_of UsernameCaseMapped {}", std::mem::size_of::<UsernameCaseMapped>());
    println!("size_of UsernameCasePreserved {}", std::mem::size_of::<UsernameCasePreserved>());
    println!("size_of OpaqueString {}", std::mem::size_of::<OpaqueString>());
    println!("size_of Nickname {}", std::mem::size_of::<Nickname>());
    println!("size_of IdentifierClass {}", std::mem::size_of::<precis_core::IdentifierClass>());
    println!("size_of FreeformClass {}", std::mem::size_of::<precis_core::FreeformClass>());
}

// threads <nthreads> <cases-file>: every thread runs ALL cases through the static fast-invocation API,
// starting simultaneously so that the very first calls (lazy initialisation of the static profiles) race.
// Prints one result line per case per thread: "<thread>\t<case index>\t<result>"
pub fn threads(args: &[String]) {
    let n: usize = args[0].parse().unwrap();
    let text = std::fs::read_to_string(&args[1]).unwrap();
    let cases: std::sync::Arc<Vec<String>> =
        std::sync::Arc::new(text.lines().filter(|l| !l.is_empty()).map(|l| l.to_string()).collect());
    let barrier = std::sync::Arc::new(std::sync::Barrier::new(n));
    let mut hs = vec![];
    for t in 0..n {
        let cases = cases.clone();
        let barrier = barrier.clone();
        hs.push(std::thread::spawn(move || {
            let mut out: Vec<String> = Vec::with_capacity(cases.len());
            barrier.wait();
            // each thread starts at a different case so that different profiles are initialised concurrently
            let m = cases.len();
            for k in 0..m {
                let i = (k + t * 7) % m;
                out.push(format!("{}\t{}\t{}", t, i, crate::ops::run_line(&cases[i])));
            }
            out
        }));
    }
    let stdout = std::io::stdout();
    let mut o = std::io::BufWriter::new(stdout.lock());
    use std::io::Write;
    for h in hs {
        for l in h.join().unwrap() {
            writeln!(o, "{}", l).unwrap();
        }
    }
    // touch the traits so the imports are used even if ops changes
    let _ = <Nickname as PrecisFastInvocation>::prepare("a");
    let _ = Nickname::new().prepare("a");
}

// stress <nthreads> <iterations> <cases-with-expected-file>: every line is "<case>\t<expected result>".  All threads start
// together; each walks the case list in its OWN pseudo-random order (different inputs are in flight at the same moment, which
// is what a racy cache keyed by a hash of the input needs in order to be poisoned), comparing every result with the expected
// one; afterwards one thread re-evaluates every case sequentially (a poisoned cache keeps answering wrongly).
// Prints "mismatch\t<phase>\t<thread>\t<case>\t<got>" lines (at most 50) and a final "count\t<calls>\t<mismatches>".
pub fn stress(args: &[String]) {
    let n: usize = args[0].parse().unwrap();
    let iters: usize = args[1].parse().unwrap();
    let text = std::fs::read_to_string(&args[2]).unwrap();
    let cases: std::sync::Arc<Vec<(String, String)>> = std::sync::Arc::new(
        text.lines().filter(|l| !l.is_empty()).map(|l| { let (a, b) = l.split_once('\t').unwrap(); (a.to_string(), b.to_string()) }).collect());
    let barrier = std::sync::Arc::new(std::sync::Barrier::new(n));
    let mut hs = vec![];
    for t in 0..n {
        let cases = cases.clone();
        let barrier = barrier.clone();
        hs.push(std::thread::spawn(move || {
            let mut bad: Vec<String> = vec![];
            let mut nbad = 0usize;
            let mut x: u64 = 0x9E3779B97F4A7C15u64.wrapping_mul(t as u64 + 1) | 1;
            barrier.wait();
            for _ in 0..iters {
                x ^= x << 13; x ^= x >> 7; x ^= x << 17;
                let i = (x % cases.len() as u64) as usize;
                let got = crate::ops::run_line(&cases[i].0);
                if got != cases[i].1 {
                    nbad += 1;
                    if bad.len() < 4 { bad.push(format!("mismatch\tconcurrent\t{}\t{}\t{}", t, cases[i].0, got)); }
                }
            }
            (bad, nbad)
        }));
    }
    let mut total = 0usize;
    let mut lines: Vec<String> = vec![];
    for h in hs {
        let (bad, nbad) = h.join().unwrap();
        total += nbad;
        lines.extend(bad);
    }
    for (c, e) in cases.iter() {
        let got = crate::ops::run_line(c);
        if &got != e {
            total += 1;
            if lines.len() < 50 { lines.push(format!("mismatch\tafterwards\t-\t{}\t{}", c, got)); }
        }
    }
    for l in lines.iter().take(50) { println!("{}", l); }
    println!("count\t{}\t{}", n * iters + cases.len(), total);
}

// c08sweep: for EVERY scalar value c and every profile: if enforce([c]) = Ok(e) then (1) no code point of e is
// DISALLOWED/UNASSIGNED in the profile's own class (classified by the real get_value_from_char) and
// (2) enforce(e) is Ok(e) or an error.  Prints counts and every anomaly ("forbidden"/"drift" lines).
pub fn c08sweep() {
    use precis_core::{DerivedPropertyValue, FreeformClass, IdentifierClass, StringClass};
    use std::io::Write;
    let stdout = std::io::stdout();
    let mut o = std::io::BufWriter::new(stdout.lock());
    let id = IdentifierClass::default();
    let ff = FreeformClass::default();
    let forb = |ident: bool, c: char| -> bool {
        let v = if ident { id.get_value_from_char(c) } else { ff.get_value_from_char(c) };
        matches!(v, DerivedPropertyValue::Disallowed | DerivedPropertyValue::Unassigned)
    };
    for prof in ["um", "up", "op", "nick"] {
        let ident = prof == "um" || prof == "up";
        let (mut ok, mut changed, mut forbidden, mut drift, mut panics) = (0u64, 0u64, 0u64, 0u64, 0u64);
        for cp in 0..0x110000u32 {
            let c = match char::from_u32(cp) {
                Some(c) => c,
                None => continue,
            };
            let s = c.to_string();
            let r = std::panic::catch_unwind(|| -> Option<(String, Option<String>)> {
                let e = match prof {
                    "um" => UsernameCaseMapped::new().enforce(s.as_str()).ok()?.into_owned(),
                    "up" => UsernameCasePreserved::new().enforce(s.as_str()).ok()?.into_owned(),
                    "op" => OpaqueString::new().enforce(s.as_str()).ok()?.into_owned(),
                    _ => Nickname::new().enforce(s.as_str()).ok()?.into_owned(),
                };
                let e2 = match prof {
                    "um" => UsernameCaseMapped::new().enforce(e.as_str()).ok().map(|x| x.into_owned()),
                    "up" => UsernameCasePreserved::new().enforce(e.as_str()).ok().map(|x| x.into_owned()),
                    "op" => OpaqueString::new().enforce(e.as_str()).ok().map(|x| x.into_owned()),
                    _ => Nickname::new().enforce(e.as_str()).ok().map(|x| x.into_owned()),
                };
                Some((e, e2))
            });
            match r {
                Err(_) => {
                    panics += 1;
                    writeln!(o, "panic\t{}\t{:04X}", prof, cp).unwrap();
                }
                Ok(None) => {}
                Ok(Some((e, e2))) => {
                    ok += 1;
                    if e != s {
                        changed += 1;
                    }
                    if let Some(b) = e.chars().find(|x| forb(ident, *x)) {
                        forbidden += 1;
                        writeln!(o, "forbidden\t{}\t{:04X}\t{}\t{:04X}", prof, cp, crate::ops::fmt_str(&e), b as u32).unwrap();
                    }
                    if let Some(e2) = e2 {
                        if e2 != e {
                            drift += 1;
                            writeln!(o, "drift\t{}\t{:04X}\t{}\t{}", prof, cp, crate::ops::fmt_str(&e), crate::ops::fmt_str(&e2)).unwrap();
                        }
                    }
                }
            }
        }
        writeln!(o, "count\t{}\taccepted={}\tchanged={}\tforbidden={}\tdrift={}\tpanics={}", prof, ok, changed, forbidden, drift, panics).unwrap();
    }
}
