// precis-tools side: real generators on synthetic UCD directories (C15), registry CSV parser (C17),
// thread/first-use exploration and structural facts (C16).
pub fn ucdgen(_args: &[String]) {
    unimplemented!()
}
pub fn csv(_args: &[String]) {
    unimplemented!()
}
pub fn threads(_args: &[String]) {
    unimplemented!()
}
pub fn sizes() {
    unimplemented!()
}
pub fn csv_row(_mode: &str, _line: &str) -> String {
    unimplemented!()
}
