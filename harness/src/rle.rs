// Run-length encodings of the real per-code-point functions over the whole domain,
// and dumps of the external functions (std case mapping, unicode-normalization).
use precis_core::verif_hooks as core_hooks;
use precis_core::{FreeformClass, IdentifierClass, StringClass};
use precis_profiles::verif_hooks as prof_hooks;
use std::io::{self, Write};

const TOP: u32 = 0x110100; // all scalars, all surrogates, and a band above U+10FFFF

fn b(x: bool) -> String {
    (if x { "1" } else { "0" }).to_string()
}

fn opt_dpv(v: Option<precis_core::DerivedPropertyValue>) -> String {
    match v {
        None => "none".to_string(),
        Some(v) => crate::ops::dpv_name(v).to_string(),
    }
}

// value of function `name` at cp; None = not in the function's domain (char-only fn at a non-scalar)
pub fn eval(name: &str, cp: u32) -> Option<String> {
    // a panic of the library is a value ("PANIC"), not a crash of the dump
    match std::panic::catch_unwind(|| eval_inner(name, cp)) {
        Ok(v) => v,
        Err(_) => Some("PANIC".to_string()),
    }
}

fn eval_inner(name: &str, cp: u32) -> Option<String> {
    let ch = char::from_u32(cp);
    Some(match name {
        "is_letter_digit" => b(core_hooks::is_letter_digit(cp)),
        "is_join_control" => b(core_hooks::is_join_control(cp)),
        "is_old_hangul_jamo" => b(core_hooks::is_old_hangul_jamo(cp)),
        "is_unassigned" => b(core_hooks::is_unassigned(cp)),
        "is_ascii7" => b(core_hooks::is_ascii7(cp)),
        "is_control" => b(core_hooks::is_control(cp)),
        "is_precis_ignorable_property" => b(core_hooks::is_precis_ignorable_property(cp)),
        "is_space" => b(core_hooks::is_space(cp)),
        "is_symbol" => b(core_hooks::is_symbol(cp)),
        "is_punctuation" => b(core_hooks::is_punctuation(cp)),
        "is_other_letter_digit" => b(core_hooks::is_other_letter_digit(cp)),
        "has_compat" => b(core_hooks::has_compat(cp)),
        "is_virama" => b(core_hooks::is_virama(cp)),
        "is_greek" => b(core_hooks::is_greek(cp)),
        "is_hebrew" => b(core_hooks::is_hebrew(cp)),
        "is_hiragana" => b(core_hooks::is_hiragana(cp)),
        "is_katakana" => b(core_hooks::is_katakana(cp)),
        "is_han" => b(core_hooks::is_han(cp)),
        "is_dual_joining" => b(core_hooks::is_dual_joining(cp)),
        "is_left_joining" => b(core_hooks::is_left_joining(cp)),
        "is_right_joining" => b(core_hooks::is_right_joining(cp)),
        "is_transparent" => b(core_hooks::is_transparent(cp)),
        "exception" => opt_dpv(core_hooks::get_exception_val(cp)),
        "backward_compatible" => opt_dpv(core_hooks::get_backward_compatible_val(cp)),
        "cls_id" => crate::ops::dpv_name(IdentifierClass::default().get_value_from_codepoint(cp))
            .to_string(),
        "cls_ff" => {
            crate::ops::dpv_name(FreeformClass::default().get_value_from_codepoint(cp)).to_string()
        }
        "cls_id_char" => {
            crate::ops::dpv_name(IdentifierClass::default().get_value_from_char(ch?)).to_string()
        }
        "cls_ff_char" => {
            crate::ops::dpv_name(FreeformClass::default().get_value_from_char(ch?)).to_string()
        }
        "ctxrule" => crate::ops::rule_name_of(cp).to_string(),
        "bidi" => prof_hooks::bidi_class_name(cp),
        "widthmap" => match prof_hooks::get_decomposition_mapping(cp) {
            None => "none".to_string(),
            Some(d) => format!("{:04X}", d),
        },
        "hasrtl1" => b(prof_hooks::has_rtl(&ch?.to_string())),
        "dir_a1" => {
            // directionality rule on the two-character label "a" + c
            use precis_core::profile::Rules;
            let s: String = ['a', ch?].iter().collect();
            match precis_profiles::UsernameCasePreserved::new().directionality_rule(s.as_str()) {
                Ok(t) => if t == s { "ok".to_string() } else { "changed".to_string() },
                Err(_) => "err".to_string(),
            }
        }
        "dir_1" => {
            use precis_core::profile::Rules;
            let s: String = ch?.to_string();
            match precis_profiles::UsernameCasePreserved::new().directionality_rule(s.as_str()) {
                Ok(t) => if t == s { "ok".to_string() } else { "changed".to_string() },
                Err(_) => "err".to_string(),
            }
        }
        "opmap_after" | "nickmap_mid" => {
            // additional mapping rules with c after a non-ASCII space / between two letters; the code point itself
            // is written as "c" in the result so that runs compress
            use precis_core::profile::Rules;
            let c = ch?;
            let (s, r): (String, _) = if name == "opmap_after" {
                let s: String = ['\u{a0}', c, 'b'].iter().collect();
                let r = precis_profiles::OpaqueString::new().additional_mapping_rule(s.clone()).map(|x| x.into_owned());
                (s, r)
            } else {
                let s: String = ['a', c, 'b'].iter().collect();
                let r = precis_profiles::Nickname::new().additional_mapping_rule(s.clone()).map(|x| x.into_owned());
                (s, r)
            };
            let _ = s;
            match r {
                Ok(t) => t.chars().map(|x| if x == c { "c".to_string() } else { format!("{:04X}", x as u32) }).collect::<Vec<_>>().join(" "),
                Err(_) => "err".to_string(),
            }
        }
        "dir_p1" | "dir_n1" | "width_p" | "case_p" | "nickmap_trail" => {
            // probes for state carried ACROSS characters (a remembered table position, a cached neighbour): every code
            // point c directly after its predecessor / successor code point, after a mapped character, before a trailing
            // run of spaces.  In the result c is written "c" and its neighbour "p" so that runs compress.
            use precis_core::profile::Rules;
            let c = ch?;
            let cpv = c as u32;
            let prev = if cpv == 0 { None } else if cpv == 0xE000 { char::from_u32(0xD7FF) } else { char::from_u32(cpv - 1) };
            let next = if cpv == 0x10FFFF { None } else if cpv == 0xD7FF { char::from_u32(0xE000) } else { char::from_u32(cpv + 1) };
            let nb = if name == "dir_n1" { next } else if name == "nickmap_trail" { None } else { prev };
            let fmt = |t: &str| t.chars().map(|x| if x == c { "c".to_string() } else if Some(x) == nb { "p".to_string() } else { format!("{:04X}", x as u32) }).collect::<Vec<_>>().join(" ");
            match name {
                "dir_p1" | "dir_n1" => {
                    let s: String = nb.into_iter().chain([c]).collect();
                    match precis_profiles::UsernameCasePreserved::new().directionality_rule(s.as_str()) {
                        Ok(t) => if t == s { "ok".to_string() } else { "changed".to_string() },
                        Err(_) => "err".to_string(),
                    }
                }
                "width_p" => {
                    let s: String = ['\u{ff21}'].into_iter().chain(nb).chain([c]).collect();
                    match precis_profiles::UsernameCasePreserved::new().width_mapping_rule(s.as_str()) { Ok(t) => fmt(&t), Err(_) => "err".to_string() }
                }
                "case_p" => {
                    let s: String = ['A'].into_iter().chain(nb).chain([c]).collect();
                    match precis_profiles::UsernameCaseMapped::new().case_mapping_rule(s.as_str()) { Ok(t) => fmt(&t), Err(_) => "err".to_string() }
                }
                _ => {
                    let s: String = ['a', c, ' ', ' '].iter().collect();
                    match precis_profiles::Nickname::new().additional_mapping_rule(s.as_str()) { Ok(t) => fmt(&t), Err(_) => "err".to_string() }
                }
            }
        }
        "dir_rE" | "dir_rcr" | "dir_lcl" | "dir_rcn" => {
            // the class a scan sees for c INSIDE a label (not only through bidi_class / has_rtl): four contexts that
            // together distinguish every class the RTL and LTR scans treat differently
            use precis_core::profile::Rules;
            let c = ch?;
            let s: String = match name {
                "dir_rE" => ['\u{5d0}', '-', c].iter().collect(),
                "dir_rcr" => ['\u{5d0}', c, '\u{5d0}'].iter().collect(),
                "dir_lcl" => ['a', c, 'a'].iter().collect(),
                _ => ['\u{5d0}', c, '\u{5b0}'].iter().collect(),
            };
            match precis_profiles::UsernameCasePreserved::new().directionality_rule(s.as_str()) {
                Ok(t) => if t == s { "ok".to_string() } else { "changed".to_string() },
                Err(_) => "err".to_string(),
            }
        }
        "zwnj_b2" | "zwnj_a2" => {
            // the ZWNJ rule with c at distance TWO from U+200C inside the transparent run (the direct neighbour is U+05BF)
            let c = ch?;
            let (s, off): (String, usize) = if name == "zwnj_b2" {
                (['\u{626}', c, '\u{5bf}', '\u{200c}', '\u{626}'].iter().collect(), 3)
            } else {
                (['\u{626}', '\u{200c}', '\u{5bf}', c, '\u{626}'].iter().collect(), 1)
            };
            match precis_core::context::rule_zero_width_nonjoiner(&s, off) {
                Ok(v) => format!("ok:{}", v),
                Err(precis_core::context::ContextRuleError::NotApplicable) => "err:NotApplicable".to_string(),
                Err(precis_core::context::ContextRuleError::Undefined) => "err:Undefined".to_string(),
            }
        }
        "kat_with" | "arab_with" | "extarab_with" => {
            // the whole-label rules with c as the ONLY other character of the label
            let c = ch?;
            let (s, r): (String, precis_core::context::ContextRule) = match name {
                "kat_with" => (['\u{30fb}', c].iter().collect(), precis_core::context::rule_katakana_middle_dot),
                "arab_with" => (['\u{660}', c].iter().collect(), precis_core::context::rule_arabic_indic_digits),
                _ => (['\u{6f0}', c].iter().collect(), precis_core::context::rule_extended_arabic_indic_digits),
            };
            match r(&s, 0) {
                Ok(v) => format!("ok:{}", v),
                Err(precis_core::context::ContextRuleError::NotApplicable) => "err:NotApplicable".to_string(),
                Err(precis_core::context::ContextRuleError::Undefined) => "err:Undefined".to_string(),
            }
        }
        "zs" => b(prof_hooks::is_space_separator(ch?)),
        "nonascii_zs" => b(prof_hooks::is_non_ascii_space(ch?)),
        "std_upper" => b(ch?.is_uppercase()),
        "std_lower" => b(ch?.is_lowercase()),
        "std_tolower" => {
            let c = ch?;
            let m: Vec<char> = c.to_lowercase().collect();
            if m.len() == 1 && m[0] == c {
                "id".to_string()
            } else {
                m.iter()
                    .map(|x| format!("{:04X}", *x as u32))
                    .collect::<Vec<_>>()
                    .join(" ")
            }
        }
        _ => {
            eprintln!("unknown rle function {}", name);
            std::process::exit(2);
        }
    })
}

pub fn rle_range(name: &str, lo: u64, hi: u64, out: &mut dyn Write) {
    // runs over [lo, hi); non-domain points break runs and are not reported
    let mut cur: Option<(u32, u32, String)> = None;
    let mut cp = lo;
    while cp < hi {
        let v = eval(name, cp as u32);
        match (&mut cur, v) {
            (Some((_, e, cv)), Some(v)) if *cv == v && *e as u64 + 1 == cp => {
                *e = cp as u32;
            }
            (c, v) => {
                if let Some((s, e, cv)) = c.take() {
                    writeln!(out, "{}\t{:X}\t{:X}\t{}", name, s, e, cv).unwrap();
                }
                if let Some(v) = v {
                    *c = Some((cp as u32, cp as u32, v));
                }
            }
        }
        cp += 1;
    }
    if let Some((s, e, cv)) = cur {
        writeln!(out, "{}\t{:X}\t{:X}\t{}", name, s, e, cv).unwrap();
    }
}

pub fn main(args: &[String]) {
    // rle [--full] fn...   (--full: the whole u32 domain, split over threads)
    let full = args.first().map(|s| s == "--full").unwrap_or(false);
    let names: Vec<String> = args.iter().filter(|a| *a != "--full").cloned().collect();
    let stdout = io::stdout();
    if !full {
        let mut out = io::BufWriter::with_capacity(1 << 20, stdout.lock());
        for n in names.iter() {
            rle_range(n, 0, TOP as u64, &mut out);
            // boundary / sampled values above the band
            let mut samples: Vec<u32> = vec![];
            for k in 16..32 {
                let p = 1u32 << k;
                samples.extend_from_slice(&[p - 1, p, p + 1]);
            }
            samples.extend_from_slice(&[u32::MAX - 1, u32::MAX, 0x7fff_ffff, 0x8000_0000]);
            samples.retain(|c| *c >= TOP);
            samples.sort();
            samples.dedup();
            for c in samples {
                if let Some(v) = eval(n, c) {
                    writeln!(out, "{}\t{:X}\t{:X}\t{}", n, c, c, v).unwrap();
                }
            }
        }
        out.flush().unwrap();
    } else {
        let nthreads = 16u64;
        let total: u64 = 1u64 << 32;
        let chunk = total / nthreads;
        for n in names.iter() {
            let mut handles = vec![];
            for t in 0..nthreads {
                let n = n.clone();
                handles.push(std::thread::spawn(move || {
                    let mut buf: Vec<u8> = Vec::new();
                    rle_range(&n, t * chunk, (t + 1) * chunk, &mut buf);
                    buf
                }));
            }
            let mut out = stdout.lock();
            for h in handles {
                out.write_all(&h.join().unwrap()).unwrap();
            }
        }
    }
}

pub fn dump_std() {
    let stdout = io::stdout();
    let mut out = io::BufWriter::with_capacity(1 << 20, stdout.lock());
    for n in ["std_upper", "std_lower", "std_tolower"] {
        rle_range(n, 0, 0x110000, &mut out);
    }
    out.flush().unwrap();
}

pub fn dump_norm() {
    use unicode_normalization::char as un;
    let stdout = io::stdout();
    let mut out = io::BufWriter::with_capacity(1 << 20, stdout.lock());
    let hex = |v: &Vec<char>| {
        v.iter()
            .map(|x| format!("{:04X}", *x as u32))
            .collect::<Vec<_>>()
            .join(" ")
    };
    let mut firsts: std::collections::BTreeSet<char> = Default::default();
    let mut seconds: std::collections::BTreeSet<char> = Default::default();
    let hangul = |c: u32| (0xAC00..=0xD7A3).contains(&c);
    for cp in 0..0x110000u32 {
        let c = match char::from_u32(cp) {
            Some(c) => c,
            None => continue,
        };
        let ccc = un::canonical_combining_class(c);
        if ccc != 0 {
            writeln!(out, "ccc\t{:04X}\t{}", cp, ccc).unwrap();
        }
        if hangul(cp) {
            continue;
        }
        let mut d: Vec<char> = vec![];
        un::decompose_canonical(c, |x| d.push(x));
        if d.len() != 1 || d[0] != c {
            writeln!(out, "canon\t{:04X}\t{}", cp, hex(&d)).unwrap();
            firsts.insert(c);
            seconds.insert(c);
            for x in d.iter() {
                firsts.insert(*x);
                seconds.insert(*x);
            }
        }
        let mut k: Vec<char> = vec![];
        un::decompose_compatible(c, |x| k.push(x));
        if k.len() != 1 || k[0] != c {
            writeln!(out, "compat\t{:04X}\t{}", cp, hex(&k)).unwrap();
        }
    }
    // every primary composite has a two-character canonical decomposition whose parts are
    // (recursively) among the characters collected above
    for a in firsts.iter() {
        for b2 in seconds.iter() {
            if let Some(c) = un::compose(*a, *b2) {
                if hangul(c as u32) {
                    continue;
                }
                writeln!(out, "comp\t{:04X}\t{:04X}\t{:04X}", *a as u32, *b2 as u32, c as u32)
                    .unwrap();
            }
        }
    }
    out.flush().unwrap();
}
