// Correspondence harness: runs the real sancane/precis code (path dependencies on
// /repo, built with --cfg precis_verif) on protocol lines and prints canonical
// results; dumps per-code-point functions as run-length encodings; dumps the
// external functions the Lean model takes as data (std case tables,
// unicode-normalization tables).
//
//   harness run            < cases  > results      (one line in, one line out)
//   harness rle <fn> ...   > "<fn> <start> <end> <value>" lines over 0..=0x110000+samples
//   harness dump-std       > std case data
//   harness dump-norm      > unicode-normalization data
//   harness ucdgen <dir> <out.rs> <kind>  run the real precis-tools generators on a UCD dir
//   harness csv <file>     run CsvLineParser::from_path on a file
//   harness threads ...    C16 schedule exploration
mod ops;
mod rle;
mod tools;

use std::io::{self, BufRead, Write};

fn main() {
    // keep panics quiet: they are results, not noise
    std::panic::set_hook(Box::new(|_| {}));
    let args: Vec<String> = std::env::args().collect();
    if args.len() < 2 {
        eprintln!("usage: harness run|rle|dump-std|dump-norm|ucdgen|csv|threads");
        std::process::exit(2);
    }
    match args[1].as_str() {
        "run" => {
            let stdin = io::stdin();
            let stdout = io::stdout();
            let mut out = io::BufWriter::with_capacity(1 << 20, stdout.lock());
            for line in stdin.lock().lines() {
                let line = line.unwrap();
                if line.is_empty() {
                    continue;
                }
                let res = ops::run_line(&line);
                writeln!(out, "{}", res).unwrap();
            }
            out.flush().unwrap();
        }
        "rle" => rle::main(&args[2..]),
        "dump-std" => rle::dump_std(),
        "dump-norm" => rle::dump_norm(),
        "ucdgen" => tools::ucdgen(&args[2..]),
        "csv" => tools::csv(&args[2..]),
        "threads" => tools::threads(&args[2..]),
        "stress" => tools::stress(&args[2..]),
        "sizes" => tools::sizes(),
        "c08sweep" => tools::c08sweep(),
        _ => {
            eprintln!("unknown command");
            std::process::exit(2);
        }
    }
}
